#!/bin/bash
# validates MANIFEST.json and all evidence files against the schemas
cd "$(dirname "$0")/.." && python3-vt - <<'PY'
import json,jsonschema,glob,sys
ok=True
try:
    jsonschema.validate(json.load(open('MANIFEST.json')),json.load(open('/root/.vp/MANIFEST.schema.json')))
except Exception as e:
    print('MANIFEST invalid:',e); ok=False
sch=json.load(open('/root/.vp/EVIDENCE.schema.json'))
for f in sorted(glob.glob('evidence/*.json')):
    try: jsonschema.validate(json.load(open(f)),sch)
    except Exception as e:
        print(f,'invalid:',str(e)[:300]); ok=False
print('valid' if ok else 'INVALID')
sys.exit(0 if ok else 1)
PY
