import sys
tmpl='''You are extending ONE existing runtime-monitoring check, property {P}, of the verification framework in /verif
(target repository: /repo, benoitkugler/webrender, Go). Read /verif/BUILDERS.md first (the framework, commands and
rules), then skim /verif/notes/{P}.md and the package /verif/props/{p}/ (generator, reference model, oracle),
and the property record for {P} in /verif/properties.jsonl (fixed, never edit).

Situation: independently produced breaking change(s) of /repo — {SEEDS} (README.md explains each, patch.diff is the
change, demo_files/ its demonstration) — compile, pass the repository's test suite, violate property {P}, and are
MISSED by `./check.sh {P} quick` (see result.json there). Summary: {SUMMARY}
Reproduce a miss with:   cd /verif && VERIF_PAR=4 scripts/run_seeded.sh {FIRST} quick
(it applies the patch to a scratch copy of /repo, runs the check against it via VERIF_REPO, records result.json, removes the copy).

Your job: widen the check's explored domain / oracle so that it detects the change IN A GENERAL WAY: extend the
generator (and the reference model/oracle if needed) to the feature family the change lives in, do not special-case the
patched line or the demo's literal input. The quick tier must detect it (exit 1 with a VIOLATION line) at VERIF_SEED=1, 2 and 3.
Keep the quick tier's run time about where it is (at most +50%).

Hard requirements:
 * The check must stay SILENT (exit 0, no VIOLATION line) on the unchanged /repo at VERIF_SEED=1,2,3,7 for quick.
 * If the wider domain exposes a genuine defect of /repo (the real code violates the property on a concrete input):
   do NOT loosen the oracle and do NOT edit /repo. Record it as a known finding exactly as BUILDERS.md describes
   (witness file under findings/{P}/, entry in findings/{P}/_known_findings_entries.json with status open, identified by
   witness or narrow signature), keep the triggering combination out of the generated domain only if it would otherwise
   drown the run, say so in notes/{P}.md, then run `python3 scripts/merge_findings.py` (must not print "missing witness").
   If instead the oracle was wrong (false alarm), correct the oracle and note it in notes/{P}.md.
 * Add a counter with a floor (CounterFloors) so the evidence shows the new sub-domain was really exercised.
 * At the end run scripts/run_seeded.sh (quick) for the new change(s) and, if time allows, for the other /verif/seeded/{P}-* directories.
 * Update notes/{P}.md briefly (what is new).
 * Machine etiquette: five other agents share this 16-core machine and work on OTHER properties. Use VERIF_PAR=3, never run two
   checks at once, never `git stash`, never `pkill -f`, do not touch files outside props/{p}/, notes/{P}.md, findings/{P}/
   (and the generated known_findings.json){EXTRA}; do not git commit (the lead commits); remove any scratch directory
   you create under /tmp when done. Environment for every shell call: export GOFLAGS=-mod=mod GOPROXY=off GOSUMDB=off GOTOOLCHAIN=local

TIME LIMIT: HARD 22 minutes wall time in total (check `date` at start and regularly). Prefer a small, well-targeted, SOUND
widening. If at minute 17 the check is not both sound (silent on the unchanged tree at seeds 1,2,3,7) and detecting, restore the
package to its committed state (git -C /verif checkout -- props/{p} notes/{P}.md findings/{P}{RESTOREEXTRA}) and report that the change stays missed
and why. If there are two missed changes, do the one closest to what the check already generates first and the other only if time remains.
Final report (short): what you widened, new counters, detection per seed, silence at the four seeds, new findings, run times.
'''
specs={
 'C01':(['C01-i','C01-j'],"C01-i: SVG <use> cycle guard (svg/elements.go resolveUse) wiped when a nested terminating <use> returns, so `<g id=a><use href=#b/><use href=#a/></g>` overflows the stack (process-fatal). C01-j: html/layout/tables.go distributeExcessWidth indexes currentWidths by column number: auto-layout table wider than its columns where no column is both unconstrained and without a percentage, and a fixed-width non-empty column follows a percentage column (`<table style=width:500px><td style=width:20%>a<td style=width:50px>b`) panics.",
   "; you alone may ALSO add new focused blocks to the shared hostile-document generator in internal/gen/htmldoc.go (additive only: new blocks drawn with new random draws AFTER existing ones or under a separate sub-seed so that documents generated for other checks do not change), but prefer putting new families in props/c01/", " internal/gen"),
 'C02':(['C02-i','C02-j'],"C02-i: floated ::first-letter (float != none) loses the punctuation that follows the letter (`p::first-letter{float:left}` + text `A, bcd`): characters lost from layout. C02-j: html/document/draw.go drawText returns early when the text colour has alpha 0 and no decoration, so a laid-out visible run (color:transparent / rgba(..,0)) never reaches DrawText (each laid-out text run must reach the backend exactly once).","",""),
 'C08':(['C08-j'],"css/validation/utils.go ParseVar returns a nil fallback for an empty fallback `var(--x,)` / `var(--x, )`, so with an undefined/invalid variable the declaration becomes invalid at computed-value time instead of substituting nothing (`width: var(--undefined,) 10px` must compute to 10px; `margin-left: 7px var(--nope, )` to 7px). Family: var() with empty / whitespace-only fallbacks combined with other tokens, undefined or cyclic variables.","",""),
 'C12':(['C12-j'],"html/layout/pages.go remakePage: a blank page inserted by a side-forced break (left/right/recto/verso) before content with `page: <name>` takes the named @page style (size/margins) instead of the unnamed (and :blank) one. Needs: forced side break needing a blank page + following content with a page name + @page <name> differing from @page. Family: blank pages x named pages x :blank/:left/:right rules.","",""),
 'C14':(['C14-i'],"html/document/document.go gatherLinksAndBookmarks: with two elements of the same id on the same page, the later one being in/on a CSS-transformed element, the later takes the anchor position (first element with that id must define the anchor, exactly once). Family: duplicate ids x transforms x pages; anchor positions handed to CreateAnchors / internal link targets compared with the first element's position.","",""),
 'C16':(['C16-i'],"html/document/stacking.go NewStackingContextFromBox dispatch: boxes with overflow:auto / overflow:scroll (not hidden) are no longer made clipping contexts, so their descendants are painted without the padding-box clip (overflow clipping must apply to the whole sub-tree of the box declaring overflow != visible). Family: every overflow value (hidden, auto, scroll, and overflow-x/y if modelled) on boxes that are not otherwise stacking contexts, with overflowing content.","",""),
}
for P,(seeds,summ,extra,rextra) in specs.items():
    t=tmpl.format(P=P,p=P.lower(),SEEDS=' and '.join('/verif/seeded/%s/'%s for s in seeds),FIRST=seeds[0],SUMMARY=summ,EXTRA=extra,RESTOREEXTRA=rextra)
    open('/tmp/strengthen5-%s.txt'%P,'w').write(t)
