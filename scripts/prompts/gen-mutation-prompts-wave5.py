import json,os,re,subprocess,glob
tmpl=open('/verif/scripts/prompts/mutation-agent-example-C17-wave4.txt').read()
# split template: header up to "The property you must break", record, rest
props=[json.loads(l) for l in open('/verif/properties.jsonl')]
c17=[p for p in props if p['id']=='C17'][0]
i0=tmpl.index('{\n "id": "C17"')
i1=tmpl.index('TASK: produce TWO')
i2=tmpl.index('Three earlier rounds already produced')
head=tmpl[:i0]; mid=tmpl[i1:i2]
for p in props:
    pid=p['id']; wt='/tmp/wt5-'+pid
    prev=[]
    for d in sorted(glob.glob('/verif/seeded/%s-*'%pid)):
        r=os.path.join(d,'README.md')
        if os.path.exists(r):
            lines=[l.strip() for l in open(r,errors='replace').read().splitlines() if l.strip()]
            prev.append('- '+' / '.join(lines[:4])[:420])
    txt=head.replace('/tmp/wt4-C17',wt)+json.dumps(p,indent=1)+'\n\n'+mid.replace('/tmp/wt4-C17',wt).replace('"g" and "h"','"i" and "j"').replace('x in {g, h}','x in {i, j}').replace('mutation/g/','mutation/i/')
    txt+='Four earlier rounds already produced these changes for this property; yours must be DIFFERENT (other functions, other clauses of the property, other trigger conditions):\n'+'\n'.join(prev)+'\n\nNote: the repository has received many bug fixes since; work from the tree as it is in your worktree. NEVER use `git stash` (the stash is shared between worktrees) and never kill processes by name pattern. You have a HARD limit of 12 minutes wall time in total: prefer simple, well-aimed changes and short demonstrations; run the full test suite once for the baseline and once per change. Summarise g/h above as i/j.\n'
    subprocess.run(['git','-C','/repo','worktree','add','--detach','-f',wt],capture_output=True)
    open(wt+'/PROMPT.txt','w').write(txt)
    print(pid,len(txt),len(prev))
