#!/bin/bash
cd /verif
for id in C20 C17 C08 C04 C05 C19 C18 C10 C06 C03 C16 C09 C13 C12 C11 C14 C07 C01 C02 C15; do
  start=$(date +%s)
  out=$(VERIF_PAR=16 ./check.sh "$id" thorough 2>&1); rc=$?
  echo "$id rc=$rc $(( $(date +%s) - start ))s $(echo "$out" | grep '^SUMMARY' | cut -c1-200)"
  if [ $rc -ne 0 ]; then echo "$out" | grep -v '^KNOWN' | head -8 | cut -c1-400 | sed 's/^/    /'; fi
  mkdir -p evidence-thorough; cp evidence/$id.json evidence-thorough/$id.json
done
echo SWEEP-DONE
