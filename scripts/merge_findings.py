#!/usr/bin/env python3
"""Merges findings/*/_known_findings_entries.json into known_findings.json (entries replaced by id)."""
import json, glob, os
root = os.path.dirname(os.path.dirname(os.path.abspath(__file__)))
# known_findings.json is regenerated from scratch: the per-property entries files are the source of truth
kf = {'findings': []}
byid = {}
order = []
for path in sorted(glob.glob(os.path.join(root, 'findings', '*', '_known_findings_entries.json'))):
    e = json.load(open(path))
    e = e if isinstance(e, list) else e.get('findings', [])
    for x in e:
        w = x.get('witness')
        if w and not os.path.exists(os.path.join(root, w)):
            print('missing witness', w); continue
        if x.get('status') == 'open' and 'match' not in x:
            x['match'] = 'witness'
        if x['id'] not in byid:
            order.append(x['id'])
        byid[x['id']] = x
kf['findings'] = [byid[i] for i in order]
json.dump(kf, open(os.path.join(root, 'known_findings.json'), 'w'), indent=1, ensure_ascii=False)
from collections import Counter
print(Counter((f['property'], f['status']) for f in kf['findings']))
