#!/usr/bin/env python3
"""Rewrites the generated tables of DESIGN.md §11 (between BEGIN/END markers) from seeded/*/{meta,result}.json and
known_findings.json."""
import json, glob, os, re, subprocess
root = os.path.dirname(os.path.dirname(os.path.abspath(__file__)))
def region(text, name, body):
    b, e = '<!-- BEGIN:%s -->' % name, '<!-- END:%s -->' % name
    i, j = text.index(b) + len(b), text.index(e)
    return text[:i] + '\n' + body.rstrip() + '\n' + text[j:]
# seeded table
rows = []
for d in sorted(glob.glob(os.path.join(root, 'seeded', '*'))):
    sid = os.path.basename(d)
    readme = ''
    try: readme = open(os.path.join(d, 'README.md')).read()
    except Exception: pass
    title = ''
    for l in readme.splitlines():
        l = l.strip('# ').strip()
        if l and not l.lower().startswith('mutation') or (l.lower().startswith('mutation') and len(l) > 14):
            title = l; break
    title = re.sub(r'\s+', ' ', title)[:110]
    res = {}
    try: res = json.load(open(os.path.join(d, 'result.json')))
    except Exception: pass
    if not res: out = 'not run yet'
    elif not res.get('applies_to_current_tree', True): out = 'patch no longer applies (code repaired since)'
    elif res.get('detected'): out = 'caught (%s): %s' % (res.get('tier', 'quick'), ', '.join(res.get('violation_signatures', [])[:3])[:120])
    elif res.get('exit_code') == 0: out = '**missed** (%s)' % res.get('tier', 'quick')
    else: out = 'check broke (exit %s)' % res.get('exit_code')
    rows.append('| %s | %s | %s |' % (sid, title.replace('|', '/'), out.replace('|', '/')))
seeded = '| seeded change | what it is | result of `./check.sh <ID>` on the patched tree |\n|---|---|---|\n' + '\n'.join(rows)
# findings table
kf = json.load(open(os.path.join(root, 'known_findings.json')))['findings']
frows = []
for f in kf:
    st = f['status'] + ((' ' + f.get('commit', '')) if f['status'] == 'fixed' else (' (match: %s)' % f.get('match', 'witness')))
    frows.append('| %s | %s | %s | %s |' % (f['property'], f['id'], st, re.sub(r'\s+', ' ', f['what']).replace('|', '/')[:160]))
findings = '| property | finding | status | what failed |\n|---|---|---|---|\n' + '\n'.join(frows)
p = os.path.join(root, 'DESIGN.md')
t = open(p).read()
t = region(t, 'SEEDED', seeded)
t = region(t, 'FINDINGS', findings)
open(p, 'w').write(t)
print('seeded rows', len(rows), 'findings rows', len(frows))
