#!/bin/bash
# usage: sweep.sh <tier> [seed]   runs every registered check once, prints one line per check
cd "$(dirname "$0")/.." || exit 2
TIER="${1:-quick}"; export VERIF_SEED="${2:-1}"
for id in $(python3 -c "import json;print(' '.join(c['property_id'] for c in json.load(open('MANIFEST.json'))['checks']))"); do
  start=$(date +%s)
  out=$(./check.sh "$id" "$TIER" 2>&1); rc=$?
  echo "$id rc=$rc $(( $(date +%s) - start ))s $(echo "$out" | grep -c '^KNOWN-FINDING') known; $(echo "$out" | grep '^SUMMARY' | sed 's/SUMMARY property=[A-Z0-9]* //' | cut -c1-150)"
  if [ $rc -ne 0 ]; then echo "$out" | grep -v '^KNOWN' | head -5 | cut -c1-300 | sed 's/^/    /'; fi
done
