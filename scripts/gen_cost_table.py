#!/usr/bin/env python3
"""Rewrites DESIGN.md §8 (cost table) from sweep logs: usage gen_cost_table.py <quick sweep log> <thorough sweep log>"""
import re, sys, os
root = os.path.dirname(os.path.dirname(os.path.abspath(__file__)))
def parse(path):
    out = {}
    for l in open(path):
        m = re.match(r'(C\d\d) rc=(\d+) (\d+)s .*evaluations=(\d+)', l)
        if m: out[m.group(1)] = (int(m.group(3)), int(m.group(4)), int(m.group(2)))
    return out
q, t = parse(sys.argv[1]), parse(sys.argv[2])
rows = ['| id | quick: cases, wall | thorough: cases, wall | builds |', '|---|---|---|---|']
for i in range(1, 21):
    k = 'C%02d' % i
    qs = '%s cases, %d s' % (format(q[k][1], ',').replace(',', ' '), q[k][0]) if k in q else 'n/a'
    ts = '%s cases, %d s' % (format(t[k][1], ',').replace(',', ' '), t[k][0]) if k in t else 'n/a'
    rows.append('| %s | %s | %s | %s |' % (k, qs, ts, 'verif + race (every worker)' if k == 'C15' else 'verif'))
p = os.path.join(root, 'DESIGN.md')
s = open(p).read()
i = s.index('## 8. Cost summary')
j = s.index('Every workload is capped by case count', i)
s = s[:i] + '## 8. Cost summary (measured on the final tree, 16 cores, warm build cache, otherwise idle machine; wall time includes the rebuild from /repo; cold build cache adds 40–70 s once, the race build of C15 ~60 s)\n\n' + '\n'.join(rows) + '\n\nA full quick sweep of the 20 checks takes about 5½ minutes, a full thorough sweep about 75 minutes.\n\n' + s[j:]
open(p, 'w').write(s)
print('\n'.join(rows))
