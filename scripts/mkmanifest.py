#!/usr/bin/env python3
"""Regenerates /verif/MANIFEST.json from scripts/manifest_checks.json (per-property texts)."""
import json, os, subprocess
root = os.path.dirname(os.path.dirname(os.path.abspath(__file__)))
checks = json.load(open(os.path.join(root, 'scripts', 'manifest_checks.json')))
props = [json.loads(l)['id'] for l in open(os.path.join(root, 'properties.jsonl'))]
hooks = subprocess.run(['git', '-C', '/repo', 'log', '--format=%h %s'], capture_output=True, text=True).stdout.splitlines()
hook_commits = [l.split()[0] for l in hooks if l.split(' ', 1)[1].startswith('verif hook')]
m = {
    "version": 1,
    "setup_cmd": "./setup.sh",
    "hooks": {
        "guard": "verif",
        "enable": "go build -tags verif ./cmd/vw from /verif (go.mod: replace github.com/benoitkugler/webrender => /repo), done by ./check.sh on every run",
        "baseline_off_cmd": "/verif/scripts/baseline.sh /repo",
        "source_commits": hook_commits,
        "add_only": True,
    },
    "engines": [
        {"name": "vw", "path": "/verif/cmd/vw", "serves_properties": sorted(checks['checks'].keys()),
         "kind_free_text": "Go driver/worker runtime-monitoring harness: seeded case lists, journaled worker processes, recording backend, reference-model / invariant / metamorphic monitors, Go race detector build for C15"}
    ],
    "checks": [],
    "notes": checks.get('notes', ''),
    "not_applicable": [],
}
for pid in props:
    c = checks['checks'].get(pid)
    if c is None:
        m['not_applicable'].append({"property_id": pid, "reason": checks['not_applicable'].get(pid, "no sound runtime monitor built for this property (see DESIGN.md)")})
        continue
    m['checks'].append({
        "property_id": pid,
        "quick_cmd": "./check.sh %s quick" % pid,
        "thorough_cmd": "./check.sh %s thorough" % pid,
        "evidence_file": "/verif/evidence/%s.json" % pid,
        "replay_cmd_template": "./check.sh %s --replay {path}" % pid,
        "engine": "vw",
        "level_claimed": {"category": "exploration", "text": c['text'], "design_ref": c.get('design_ref', 'DESIGN.md §6 ' + pid)},
        "level_note": c['note'],
        "technique": c['technique'],
    })
json.dump(m, open(os.path.join(root, 'MANIFEST.json'), 'w'), indent=1)
print("checks:", len(m['checks']), "not_applicable:", len(m['not_applicable']))
