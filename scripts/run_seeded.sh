#!/bin/bash
# usage: run_seeded.sh <seeded-id> [tier]   e.g. run_seeded.sh C05-b quick
# Applies seeded/<id>/patch.diff to a scratch copy of the CURRENT /repo tree, runs the property's check
# against it (VERIF_REPO) and records the outcome in seeded/<id>/result.json. Removes the scratch copy.
cd "$(dirname "$0")/.." || exit 2
ID="$1"; TIER="${2:-quick}"; PROP="${ID%%-*}"
S="/tmp/seedrun-$ID"
rm -rf "$S"; rsync -a --exclude .git /repo/ "$S/"
if ! (cd "$S" && patch -p1 --fuzz=3 -s < "/verif/seeded/$ID/patch.diff" > "/tmp/seedrun-$ID.patchlog" 2>&1); then
  echo "$ID PATCH-DOES-NOT-APPLY"; python3 - "$ID" <<'PY'
import json,sys
json.dump({"id":sys.argv[1],"applies_to_current_tree":False,"note":"patch context changed by later fix: commits; needs re-seeding"},open('/verif/seeded/%s/result.json'%sys.argv[1],'w'),indent=1)
PY
  rm -rf "$S"; exit 0
fi
find "$S" -name '*.orig' -delete
OUT="/tmp/seedrun-$ID.out"
VERIF_REPO="$S" VERIF_PAR="${VERIF_PAR:-6}" ./check.sh "$PROP" "$TIER" > "$OUT" 2>&1; rc=$?
python3 - "$ID" "$PROP" "$TIER" "$rc" "$OUT" <<'PY'
import json,sys,re
id_,prop,tier,rc,out=sys.argv[1:6]
txt=open(out,errors='replace').read()
sigs=sorted(set(re.findall(r'VIOLATION property=\S+ replay=\S+ sig="([^"]*)"',txt)))
summ=[l for l in txt.splitlines() if l.startswith('SUMMARY')]
json.dump({"id":id_,"property":prop,"tier":tier,"applies_to_current_tree":True,"exit_code":int(rc),"detected":int(rc)==1,"violation_signatures":sigs,"summary":summ[-1] if summ else txt[-400:]},open('/verif/seeded/%s/result.json'%id_,'w'),indent=1)
print(id_,'exit',rc,'detected' if int(rc)==1 else 'MISSED' if int(rc)==0 else 'BROKEN',sigs[:3])
PY
H=$(echo "$S" | md5sum | cut -c1-8); rm -rf "$S" ".build/vw-$PROP-alt-$H" ".build/vw-$PROP-alt-$H-race" ".build/alt-$PROP-$H.mod" ".build/alt-$PROP-$H.sum"
# the evidence file was overwritten by the mutant run: restore the committed one
git checkout -q -- "evidence/$PROP.json" 2>/dev/null
