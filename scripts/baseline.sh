#!/bin/bash
# Runs the repository's own test suite with the verif guard OFF in <dir> (default /repo) and compares
# with /root/.vp/BASELINE.json. Restores go.mod/go.sum afterwards. exit 0 iff all 263 baseline tests pass.
DIR="${1:-/repo}"
export GOFLAGS=-mod=mod GOPROXY=off GOSUMDB=off GOTOOLCHAIN=local
cd "$DIR" || exit 2
go test -vet=off -count=1 -timeout 25m -json ./... 2>/dev/null | python3 -c "
import sys,json
p=set();f=set()
for l in sys.stdin:
    try: e=json.loads(l)
    except: continue
    if e.get('Test'):
        if e['Action']=='pass': p.add(e['Package']+'::'+e['Test'])
        if e['Action']=='fail': f.add(e['Package']+'::'+e['Test'])
b=set(json.load(open('/root/.vp/BASELINE.json'))['stable_pass'])
print('pass',len(p),'fail',len(f),'baseline_missing',len(b-p), sorted(b-p)[:10])
sys.exit(0 if not (b-p) else 1)
"
rc=$?
git checkout -q go.mod go.sum 2>/dev/null
exit $rc
