#!/bin/bash
# usage: process5.sh CNN  — verify and run both wave-5 changes of one property
ID="$1"
for v in i j; do
  if [ -f /tmp/wt5-$ID/mutation/$v/patch.diff ]; then
    /verif/scripts/verify_seeded.sh $ID $v /tmp/wt5-$ID 2>&1 | tail -2
    if [ -d /verif/seeded/$ID-$v ]; then VERIF_PAR=4 /verif/scripts/run_seeded.sh $ID-$v quick 2>&1 | tail -1; fi
  else echo "$ID-$v NO-PATCH"; fi
done
