#!/usr/bin/env python3
"""usage: add_sig_findings.py <PROP>  — for every replay/<PROP>/*.json whose signature is a crash / protocol / stall
signature not yet listed, copies the witness to findings/<PROP>/ and adds an open match:"sig" entry.
Used after a thorough run of the hostile-document checks (C01, C07, C14, C15) surfaced a new call site."""
import json, glob, os, re, sys
root = os.path.dirname(os.path.dirname(os.path.abspath(__file__)))
prop = sys.argv[1]
pe = os.path.join(root, 'findings', prop, '_known_findings_entries.json')
ent = json.load(open(pe)) if os.path.exists(pe) else []
have = {e.get('sig') for e in ent if e.get('status') == 'open'}
added = 0
for f in sorted(glob.glob(os.path.join(root, 'replay', prop, '*.json'))):
    d = json.load(open(f))
    sig = d.get('sig', '')
    if not re.match(r'^(panic@|fatal@|protocol:|page-loop-stall:)', sig) or sig in have:
        continue
    name = re.sub(r'[^a-zA-Z0-9]+', '-', sig.replace('panic@', '').replace('fatal@', 'fatal-').replace('html/layout.', '').replace('html/document.', '').replace('text.', 'text-'))[:60].strip('-')
    w = 'findings/%s/%s.json' % (prop, name)
    json.dump(d, open(os.path.join(root, w), 'w'), indent=1)
    what = ('render panics: ' if sig.startswith('panic@') else 'process-fatal error: ' if sig.startswith('fatal@') else '') + re.sub(r'^(panic@|fatal@)', '', sig)
    ent.append({"id": "F-%s-%s" % (prop, name), "property": prop, "status": "open", "match": "sig", "sig": sig, "witness": w, "what": what})
    have.add(sig); added += 1
    print('added', sig)
json.dump(ent, open(pe, 'w'), indent=1)
print('added', added)
