#!/bin/bash
# usage: verify_seeded.sh CNN x   — confirms a sub-agent's mutation in its scratch worktree /tmp/wt-CNN:
# demo passes without the patch, patch applies and builds, baseline suite still passes, demo fails with the patch.
# On success copies the material to /verif/seeded/CNN-x/ with meta.json.
export GOFLAGS=-mod=mod GOPROXY=off GOSUMDB=off GOTOOLCHAIN=local
ID="$1"; V="$2"; WT="${3:-/tmp/wt-$ID}"; M="$WT/mutation/$V"
cd "$WT" || exit 2
git checkout -q -- . ; git clean -q -fd -e mutation
run_demo() {
  if [ -f "$M/demo/main.go" ]; then
    (cd "$WT" && timeout 900 go run "./mutation/$V/demo") > "$M/.out" 2>&1; return $?
  fi
  local tf; tf=$(cd "$M" && find . -name '*_test.go' | head -1)
  local pk; pk=$(grep -m1 '^package ' "$M/$tf" | awk '{print $2}')
  local rel=""
  case "$pk" in
    *_test|demo|main) rel="" ;;
    selector) rel="css/selector" ;; parser) rel="css/parser" ;; validation) rel="css/validation" ;;
    counters) rel="css/counters" ;; properties) rel="css/properties" ;;
    svg) rel="svg" ;; utils) rel="utils" ;; matrix) rel="matrix" ;; text) rel="text" ;;
    boxes) rel="html/boxes" ;; tree) rel="html/tree" ;; layout) rel="html/layout" ;; document) rel="html/document" ;;
    *) rel="" ;;
  esac
  local rc
  if [ -z "$rel" ]; then
    # external test package: run in place
    local dir; dir=$(dirname "${tf#./}")
    (cd "$WT" && timeout 900 go test -vet=off -count=1 "./mutation/$V/$dir/") > "$M/.out" 2>&1; rc=$?
    echo "in-place:$dir" > "$M/.pkg"
  else
    cp "$M/$tf" "$WT/$rel/zz_seeded_demo_test.go"
    (cd "$WT" && timeout 900 go test -vet=off -count=1 -run 'Demo|C[0-9][0-9]|Mut' "./$rel/") > "$M/.out" 2>&1; rc=$?
    rm -f "$WT/$rel/zz_seeded_demo_test.go"
    echo "$rel" > "$M/.pkg"
  fi
  return $rc
}
run_demo; before=$?
git apply "$M/patch.diff" || { echo "$ID-$V APPLY-FAILED"; exit 1; }
go build ./... > "$M/.build" 2>&1 || { echo "$ID-$V BUILD-FAILED"; git checkout -q -- .; exit 1; }
/verif/scripts/baseline.sh "$WT" > "$M/.baseline" 2>&1; base=$?
run_demo; after=$?
git checkout -q -- . ; git clean -q -fd -e mutation
echo "$ID-$V demo_without_patch=$before baseline_with_patch=$base demo_with_patch=$after $(cat $M/.baseline | tail -1)"
if [ $before -eq 0 ] && [ $base -eq 0 ] && [ $after -ne 0 ]; then
  D="/verif/seeded/$ID-$V"; mkdir -p "$D"
  cp "$M/patch.diff" "$D/"; cp "$M/README.md" "$D/" 2>/dev/null
  (cd "$M" && find . -type f \( -name '*.go' \) | while read f; do mkdir -p "$D/demo_files/$(dirname $f)"; cp "$f" "$D/demo_files/$f"; done)
  pkg=""; [ -f "$M/.pkg" ] && pkg=$(cat "$M/.pkg")
  python3 - "$ID" "$V" "$D" "$pkg" <<'PY'
import sys,json,re
id_,v,d,pkg=sys.argv[1:5]
readme=open(d+'/README.md').read() if True else ''
meta={"property":id_,"variant":v,"source":"independent sub-agent given only the property record and a scratch worktree",
 "patch":"patch.diff","demo":"demo_files/ (go run ./mutation/%s/demo from the worktree root)"%v if not pkg else "demo_files/ (test file copied into %s, go test -run Demo)"%pkg,
 "needs_to_manifest":"see README.md (sub-agent's description)",
 "confirmed":{"demo_passes_without_patch":True,"patch_applies_and_builds":True,"baseline_263_tests_pass_with_patch":True,"demo_fails_with_patch":True,
   "how":"scripts/verify_seeded.sh %s %s in a scratch git worktree of /repo"%(id_,v)}}
json.dump(meta,open(d+'/meta.json','w'),indent=1)
PY
  echo "$ID-$V KEPT"
else
  echo "$ID-$V REJECTED"
fi
