package main

import (
	"fmt"
	"os"

	"verif/internal/wr"
)

func main() {
	for _, h := range os.Args[1:] {
		func() {
			defer func() {
				if r := recover(); r != nil {
					fmt.Printf("%q -> PANIC %v\n", h, r)
				}
			}()
			r, err := wr.Render(wr.Opts{HTML: h, Engine: "gotext"})
			fmt.Printf("%q -> err=%v pages=%d\n", h, err, len(r.Document.Pages))
		}()
	}
}
