// temporary debugging helper (fixer 5) - to delete
package main

import (
	"fmt"
	"io"
	"os"
	"strings"

	bo "github.com/benoitkugler/webrender/html/boxes"
	"verif/internal/wr"
)

func walk(b bo.Box, depth int, path []string) {
	bf := b.Box()
	desc := fmt.Sprintf("%s<%s> x=%v y=%v w=%v h=%v", b.Type(), bf.ElementTag(), bf.PositionX, bf.PositionY, bf.Width, bf.Height)
	if t, ok := b.(*bo.TextBox); ok {
		desc += fmt.Sprintf(" text=%q layoutnil=%v", t.TextS(), t.TextLayout == nil)
		if t.TextLayout == nil {
			desc += "   <<<<<<<< NIL"
		}
	}
	fmt.Println(strings.Repeat("  ", depth) + desc)
	for _, c := range bf.Children {
		walk(c, depth+1, path)
	}
}

func main() {
	b, _ := io.ReadAll(os.Stdin)
	engine := "pango"
	if len(os.Args) > 1 {
		engine = os.Args[1]
	}
	r, err := wr.Render(wr.Opts{HTML: string(b), Engine: engine, NoWrite: true})
	if err != nil {
		fmt.Println("error:", err)
		return
	}
	for i, p := range r.Pages {
		fmt.Println("=== page", i)
		walk(p, 0, nil)
	}
}
