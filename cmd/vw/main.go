// Command vw is the single verification binary: driver (default), worker (-worker), replay (-replay).
package main

import (
	"encoding/json"
	"flag"
	"fmt"
	"os"
	"strconv"

	"verif/internal/fw"
	_ "verif/props"
)

func main() {
	var (
		worker  = flag.Bool("worker", false, "worker role")
		prop    = flag.String("prop", "", "property id")
		tier    = flag.String("tier", "", "quick|thorough")
		seed    = flag.Int64("seed", -1, "seed (default VERIF_SEED or 1)")
		from    = flag.Int("from", 0, "")
		to      = flag.Int("to", -1, "")
		journal = flag.String("journal", "", "")
		inputs  = flag.String("inputs", "", "")
		replay  = flag.String("replay", "", "witness file to replay")
		list    = flag.Bool("list", false, "list properties")
		scan    = flag.Bool("scan", false, "debug: run cases [from,to) in-process and print every non-ok result")
	)
	flag.Parse()
	if *list {
		for _, id := range fw.IDs() {
			fmt.Println(id)
		}
		return
	}
	if *seed < 0 {
		*seed = 1
		if v, err := strconv.ParseInt(os.Getenv("VERIF_SEED"), 10, 64); err == nil {
			*seed = v
		}
	}
	if *tier == "" {
		*tier = os.Getenv("VERIF_TIER")
		if *tier == "" {
			*tier = "quick"
		}
	}
	if *scan {
		p := fw.Get(*prop)
		for i := *from; i < *to; i++ {
			in := p.Gen(fw.CaseRNG(*seed, *prop, i), i, *tier)
			raw, _ := json.Marshal(in)
			res := fw.SafeCheck(p, raw)
			if res.Verdict != fw.OK && res.Verdict != fw.Skip {
				fmt.Printf("case %d %s sig=%q %s\n   input=%s\n", i, res.Verdict, res.Sig, res.Msg, raw)
				if res.Stack != "" && os.Getenv("VERIF_STACK") != "" {
					fmt.Println(res.Stack)
				}
			}
			for _, r := range res.Reports {
				fmt.Printf("case %d report-only: %s\n", i, r)
			}
		}
		return
	}
	if *replay != "" {
		os.Exit(fw.ReplayMain(*replay))
	}
	if *worker {
		os.Exit(fw.WorkerMain(*prop, *seed, *tier, *from, *to, *inputs, *journal))
	}
	self, err := os.Executable()
	if err != nil {
		fmt.Fprintln(os.Stderr, err)
		os.Exit(2)
	}
	os.Exit(fw.DriverMain(self, *prop, *tier, *seed))
}
