package main

import (
	"fmt"
	"verif/internal/wr"
)

func main() {
	_, err := wr.NewPangoConfig()
	fmt.Println(err)
	_, err = wr.NewGotextConfig()
	fmt.Println(err)
}
