// Command probe renders an HTML document given on stdin (debugging helper).
package main

import (
	"encoding/json"
	"flag"
	"fmt"
	"io"
	"os"

	"verif/internal/wr"
)

func main() {
	engine := flag.String("engine", "pango", "")
	hints := flag.Bool("hints", false, "")
	trace := flag.Bool("trace", false, "print the canonical trace")
	filesJSON := flag.String("files", "", "JSON object name -> content served under mem://doc/")
	flag.Parse()
	files := map[string]string{}
	if *filesJSON != "" {
		if err := json.Unmarshal([]byte(*filesJSON), &files); err != nil {
			fmt.Println(err)
			return
		}
	}
	b, _ := io.ReadAll(os.Stdin)
	r, err := wr.Render(wr.Opts{HTML: string(b), Engine: *engine, Hints: *hints, Files: files})
	if err != nil {
		fmt.Println("error:", err)
		return
	}
	fmt.Println("pages:", len(r.Document.Pages), "events:", len(r.Rec.Events), "hash:", r.Rec.Hash())
	for _, w := range r.Warnings {
		fmt.Println("warning:", w)
	}
	for _, v := range r.Rec.Violations {
		fmt.Println("protocol:", v)
	}
	if *trace {
		fmt.Print(r.Rec.Canonical())
	}
}
