#!/bin/bash
# usage: ./check.sh <ID> <quick|thorough>     or   ./check.sh <ID> --replay <file>
# Rebuilds the verification binary from /repo's current working tree (hooks on: -tags verif) and
# runs the property's driver.  exit 0 held / 1 violation / 2 broken check.
# VERIF_REPO=<dir> (development only) builds against another copy of the repository instead of /repo.
cd "$(dirname "$0")" || exit 2
export GOFLAGS=-mod=mod GOPROXY=off GOSUMDB=off GOTOOLCHAIN=local CGO_ENABLED=1
ID="$1"; TIER="${2:-${VERIF_TIER:-quick}}"
[ -z "$ID" ] && { echo "usage: $0 <ID> <quick|thorough> | <ID> --replay <file>" >&2; exit 2; }
mkdir -p .build evidence
cp -f /repo/go.sum go.sum 2>/dev/null
BIN=".build/vw-$ID"
MODFLAG=""
if [ -n "$VERIF_REPO" ]; then
  H=$(echo "$VERIF_REPO" | md5sum | cut -c1-8)
  sed "s|=> /repo|=> $VERIF_REPO|" go.mod > ".build/alt-$ID-$H.mod"; cp -f go.sum ".build/alt-$ID-$H.sum"
  MODFLAG="-modfile=.build/alt-$ID-$H.mod"; BIN=".build/vw-$ID-alt-$H"
fi
build() { # $1 = output, rest = extra flags
  local out="$1"; shift
  if ! go build $MODFLAG -tags "verif p$ID" "$@" -o "$out.tmp.$$" ./cmd/vw 2> ".build/build-$ID.log"; then
    echo "BROKEN: build failed (see .build/build-$ID.log)" >&2; tail -20 ".build/build-$ID.log" >&2; rm -f "$out.tmp.$$"; exit 2
  fi
  mv -f "$out.tmp.$$" "$out"
}
build "$BIN"
case "$ID" in
  C15) build "$BIN-race" -race; export VERIF_RACE_BIN="$PWD/$BIN-race"
       # a race witness can only reproduce under the race detector
       if [ "$TIER" = "--replay" ]; then GORACE="halt_on_error=0 exitcode=0" exec "$BIN-race" -replay "$3"; fi;;
esac
if [ "$TIER" = "--replay" ]; then exec "$BIN" -replay "$3"; fi
exec "$BIN" -prop "$ID" -tier "$TIER"
