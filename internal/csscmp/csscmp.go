// Package csscmp converts webrender component values into a canonical, comparable form
// ("complete tokens": kind, unescaped value, numeric value + representation + integer flag, unit,
// hash id flag, error flags, nesting).  Used by C06 (against the reference tokenizer) and C20
// (round trip).
package csscmp

import (
	"fmt"
	"math"
	"strings"

	"github.com/benoitkugler/webrender/css/parser"
)

// Tok is a canonical token.
type Tok struct {
	K    string `json:"k"`              // ident function at-keyword hash string url delim number percentage dimension ws comment () [] {} unicode-range error
	V    string `json:"v,omitempty"`    // value / name / delimiter / error kind
	Repr string `json:"repr,omitempty"` // numeric representation
	Num  uint32 `json:"num,omitempty"`  // float32 bits of the numeric value
	Int  bool   `json:"int,omitempty"`
	Unit string `json:"unit,omitempty"`
	ID   bool   `json:"id,omitempty"`  // hash: type flag "id"
	Err  bool   `json:"err,omitempty"` // string/url ended by EOF
	Args []Tok  `json:"args,omitempty"`
	R0   uint32 `json:"r0,omitempty"`
	R1   uint32 `json:"r1,omitempty"`
	Line int    `json:"line,omitempty"`
	Col  int    `json:"col,omitempty"`
}

// Options select what is kept.
type Options struct {
	Positions    bool // keep line/column
	DropComments bool
	MergeWS      bool // merge adjacent white space (after comment removal)
	SplitLits    bool // split multi-character literals (~= |= ^= $= *= ||) into single-character delimiters
}

// From converts a webrender token list.
func From(ts []parser.Token, o Options) []Tok {
	var out []Tok
	for _, t := range ts {
		out = append(out, one(t, o)...)
	}
	if o.MergeWS {
		var m []Tok
		for _, t := range out {
			if t.K == "ws" && len(m) > 0 && m[len(m)-1].K == "ws" {
				m[len(m)-1].V += t.V
				continue
			}
			m = append(m, t)
		}
		out = m
	}
	return out
}

func one(t parser.Token, o Options) []Tok {
	var r Tok
	if o.Positions && t != nil {
		p := t.Pos()
		r.Line, r.Col = p.Line, p.Column
	}
	switch v := t.(type) {
	case parser.Literal:
		if o.SplitLits && len(v.Value) == 2 && (v.Value == "||" || v.Value[1] == '=') {
			a, b := r, r
			a.K, a.V = "delim", v.Value[:1]
			b.K, b.V = "delim", v.Value[1:]
			if o.Positions {
				b.Col++
			}
			return []Tok{a, b}
		}
		r.K, r.V = "delim", v.Value
	case parser.ParseError:
		r.K, r.V = "error", string(rune(parser.VerifParseErrorKind(v)))
	case parser.Comment:
		if o.DropComments {
			return nil
		}
		r.K, r.V = "comment", v.Value
	case parser.Whitespace:
		r.K, r.V = "ws", v.Value
	case parser.Ident:
		r.K, r.V = "ident", v.Value
	case parser.AtKeyword:
		r.K, r.V = "at-keyword", v.Value
	case parser.Hash:
		r.K, r.V, r.ID = "hash", v.Value, parser.VerifHashIsIdentifier(v)
	case parser.String:
		r.K, r.V, r.Err = "string", v.Value, parser.VerifStringHasError(v)
	case parser.URL:
		r.K, r.V, r.Err = "url", v.Value, parser.VerifURLHasError(v)
	case parser.UnicodeRange:
		r.K, r.R0, r.R1 = "unicode-range", v.Start, v.End
	case parser.Number:
		r.K, r.Repr, r.Num, r.Int = "number", v.Value, math.Float32bits(v.ValueF), v.IsInt()
	case parser.Percentage:
		r.K, r.Repr, r.Num, r.Int = "percentage", v.Value, math.Float32bits(v.ValueF), v.IsInt()
	case parser.Dimension:
		r.K, r.Repr, r.Num, r.Int, r.Unit = "dimension", v.Value, math.Float32bits(v.ValueF), v.IsInt(), v.Unit
	case parser.ParenthesesBlock:
		r.K, r.Args = "()", From(v.Arguments, o)
	case parser.SquareBracketsBlock:
		r.K, r.Args = "[]", From(v.Arguments, o)
	case parser.CurlyBracketsBlock:
		r.K, r.Args = "{}", From(v.Arguments, o)
	case parser.FunctionBlock:
		r.K, r.V, r.Args = "function", v.Name, From(v.Arguments, o)
	default:
		r.K, r.V = "unknown", fmt.Sprintf("%T", t)
	}
	return []Tok{r}
}

// HasError reports whether the list (recursively) contains a parse error or an error-flagged token.
func HasError(ts []Tok) bool {
	for _, t := range ts {
		if t.K == "error" || t.Err || HasError(t.Args) {
			return true
		}
	}
	return false
}

// Diff returns "" if the lists are equal, else a description of the first difference.
func Diff(a, b []Tok, path string) string {
	n := len(a)
	if len(b) < n {
		n = len(b)
	}
	for i := 0; i < n; i++ {
		x, y := a[i], b[i]
		p := fmt.Sprintf("%s[%d]", path, i)
		if x.K != y.K || x.V != y.V || x.Repr != y.Repr || x.Num != y.Num || x.Int != y.Int || x.Unit != y.Unit || x.ID != y.ID || x.Err != y.Err || x.R0 != y.R0 || x.R1 != y.R1 || x.Line != y.Line || x.Col != y.Col {
			return fmt.Sprintf("%s: %s vs %s", p, x.String(), y.String())
		}
		if d := Diff(x.Args, y.Args, p+"."); d != "" {
			return d
		}
	}
	if len(a) != len(b) {
		extra := a
		side := "first"
		if len(b) > len(a) {
			extra, side = b, "second"
		}
		return fmt.Sprintf("%s: lengths %d vs %d; extra in %s: %s", path, len(a), len(b), side, extra[n].String())
	}
	return ""
}

func (t Tok) String() string {
	var sb strings.Builder
	fmt.Fprintf(&sb, "<%s", t.K)
	if t.V != "" || t.K == "ident" || t.K == "string" || t.K == "url" {
		fmt.Fprintf(&sb, " %q", t.V)
	}
	if t.Repr != "" {
		fmt.Fprintf(&sb, " repr=%s val=%v int=%v", t.Repr, math.Float32frombits(t.Num), t.Int)
	}
	if t.Unit != "" || t.K == "dimension" {
		fmt.Fprintf(&sb, " unit=%q", t.Unit)
	}
	if t.K == "hash" {
		fmt.Fprintf(&sb, " id=%v", t.ID)
	}
	if t.Err {
		sb.WriteString(" eof-error")
	}
	if t.K == "unicode-range" {
		fmt.Fprintf(&sb, " %X-%X", t.R0, t.R1)
	}
	if t.Line != 0 {
		fmt.Fprintf(&sb, " @%d:%d", t.Line, t.Col)
	}
	if len(t.Args) > 0 {
		fmt.Fprintf(&sb, " args=%d", len(t.Args))
	}
	sb.WriteString(">")
	return sb.String()
}

// Count visits all tokens recursively.
func Count(ts []Tok, f func(Tok)) {
	for _, t := range ts {
		f(t)
		Count(t.Args, f)
	}
}
