package fw

import (
	"bufio"
	"bytes"
	"encoding/json"
	"fmt"
	"os"
	"os/exec"
	"path/filepath"
	"sort"
	"strconv"
	"strings"
	"sync"
	"time"
)

// Root is the /verif directory (the parent of the running binary's .build directory unless
// VERIF_ROOT is set).
func Root() string {
	if r := os.Getenv("VERIF_ROOT"); r != "" {
		return r
	}
	return "/verif"
}

// Finding is one entry of known_findings.json.
type Finding struct {
	ID       string `json:"id"`
	Property string `json:"property"`
	Status   string `json:"status"` // open | fixed
	Match    string `json:"match"`  // "sig": any case with this signature; "witness": only the witness input
	Sig      string `json:"sig,omitempty"`
	Witness  string `json:"witness,omitempty"` // path relative to /verif
	Commit   string `json:"commit,omitempty"`
	What     string `json:"what"`
	// NoReplay: the witness is kept for the record but not executed at every run (CPU-budget witnesses
	// cost 120 CPU-seconds each); the finding is matched by signature / input hash only.
	NoReplay bool `json:"noreplay,omitempty"`
}

type findingsFile struct {
	Findings []Finding `json:"findings"`
}

// Witness is the replay-file format.
type Witness struct {
	Property string          `json:"property"`
	Sig      string          `json:"sig,omitempty"`
	Msg      string          `json:"msg,omitempty"`
	Stack    string          `json:"stack,omitempty"`
	Input    json.RawMessage `json:"input"`
}

func loadFindings() []Finding {
	b, err := os.ReadFile(filepath.Join(Root(), "known_findings.json"))
	if err != nil {
		return nil
	}
	var ff findingsFile
	if err := json.Unmarshal(b, &ff); err != nil {
		fmt.Fprintln(os.Stderr, "known_findings.json:", err)
		os.Exit(2)
	}
	return ff.Findings
}

type caseOutcome struct {
	I     int
	Hash  uint64          // hash of the input
	Input json.RawMessage // kept only for violations, inconclusive cases and a few samples
	Res   Result
	Out   string
	CPU   float64
}

type batch struct {
	from, to   int
	inputsFile string
	pass       int
}

// runBatches runs batches over a pool of worker processes and returns all outcomes.
func runBatches(self string, p *Prop, seed int64, tier string, batches []batch, workDir string, par int) (outs [][]caseOutcome, restarts int, inconclusive int) {
	outs = make([][]caseOutcome, len(batches))
	os.MkdirAll(workDir, 0o755)
	var mu sync.Mutex
	sem := make(chan struct{}, par)
	var wg sync.WaitGroup
	for bi := range batches {
		wg.Add(1)
		sem <- struct{}{}
		go func(bi int) {
			defer wg.Done()
			defer func() { <-sem }()
			o, r, inc := runBatch(self, p, seed, tier, batches[bi], filepath.Join(workDir, fmt.Sprintf("b%d", bi)))
			mu.Lock()
			outs[bi] = o
			restarts += r
			inconclusive += inc
			mu.Unlock()
		}(bi)
	}
	wg.Wait()
	return
}

func runBatch(self string, p *Prop, seed int64, tier string, b batch, base string) (out []caseOutcome, restarts, inconclusive int) {
	from := b.from
	attempt := 0
	for {
		journal := fmt.Sprintf("%s.a%d.jsonl", base, attempt)
		errFile := fmt.Sprintf("%s.a%d.stderr", base, attempt)
		os.Remove(journal)
		args := []string{"-worker", "-prop", p.ID, "-seed", strconv.FormatInt(seed, 10), "-tier", tier,
			"-from", strconv.Itoa(from), "-to", strconv.Itoa(b.to), "-journal", journal}
		if b.inputsFile != "" {
			args = append(args, "-inputs", b.inputsFile)
		}
		cmd := exec.Command(self, args...)
		ef, _ := os.Create(errFile)
		cmd.Stderr = ef
		cmd.Stdout = ef
		cmd.Env = append(os.Environ(), "GOTRACEBACK=all", "GORACE=halt_on_error=0 exitcode=0 atexit_sleep_ms=0 log_path="+base+".race")
		done := make(chan error, 1)
		if err := cmd.Start(); err != nil {
			fmt.Fprintln(os.Stderr, "cannot start worker:", err)
			os.Exit(2)
		}
		go func() { done <- cmd.Wait() }()
		var werr error
		timedOut := false
		select {
		case werr = <-done:
		case <-time.After(20 * time.Minute): // wall-clock watchdog: inconclusive only
			cmd.Process.Kill()
			<-done
			timedOut = true
		}
		ef.Close()
		recs, open := readJournal(journal)
		out = append(out, recs...)
		if werr == nil && !timedOut && open == nil {
			os.Remove(errFile)
			os.Remove(journal)
			return
		}
		// the worker died: the open case is the culprit
		restarts++
		if open == nil {
			// died outside a case (startup failure?)
			stderr, _ := os.ReadFile(errFile)
			fmt.Fprintf(os.Stderr, "worker for %s [%d,%d) died outside a case: %v\n%s\n", p.ID, from, b.to, werr, trunc(string(stderr), 3000))
			os.Exit(2)
		}
		stderr, _ := os.ReadFile(errFile)
		co := caseOutcome{I: open.I, Input: open.Input, Hash: HashBytes(open.Input)}
		switch {
		case timedOut:
			co.Res = Result{Verdict: Inconclusive, Msg: "wall-clock watchdog (20 min per batch) fired"}
			inconclusive++
		case (open.Ev == "cpu" || open.Ev == "mem") && p.BudgetOutOfDomain:
			co.Res = Result{Verdict: Skip, Counters: map[string]int64{"skipped_budget_overruns_" + open.Ev: 1}, Reports: []string{fmt.Sprintf("case %d (input hash %016x) exhausted the %s budget; not judged by this property", open.I, HashBytes(open.Input), open.Ev)}}
		case open.Ev == "cpu":
			st := mainGoroutine(string(stderr))
			sig := "cpu-budget"
			if strings.Count(string(stderr), "layout.columnsLayout(") >= 3 {
				// the budget ran out inside three or more nested multi-column layouts: the known
				// multiplicative blow-up of nested column balancing, distinguished from every other overrun
				sig = "cpu-budget@nested-columnsLayout"
			}
			co.Res = Result{Verdict: Violation, Sig: sig, Msg: fmt.Sprintf("CPU budget exceeded (%.0f s consumed)", open.CPU), Stack: st}
		case open.Ev == "mem":
			co.Res = Result{Verdict: Violation, Sig: "mem-budget", Msg: "heap budget (8 GiB) exceeded", Stack: mainGoroutine(string(stderr))}
		default:
			s := string(stderr)
			cls := "fatal"
			first := ""
			for _, l := range strings.Split(s, "\n") {
				if strings.HasPrefix(l, "fatal error:") || strings.HasPrefix(l, "panic:") || strings.HasPrefix(l, "runtime: goroutine stack exceeds") {
					first = l
					break
				}
			}
			if first != "" {
				cls = PanicClass(first)
			}
			co.Res = Result{Verdict: Violation, Sig: "fatal@" + fatalFrame(s) + ":" + cls, Msg: "process died: " + trunc(first, 200) + " (" + fmt.Sprint(werr) + ")", Stack: trunc(mainGoroutine(s), 6000)}
		}
		out = append(out, co)
		os.Remove(errFile)
		os.Remove(journal)
		from = open.I + 1
		if b.inputsFile == "" && from >= b.to {
			return
		}
		if b.inputsFile != "" && b.to >= 0 && from >= b.to {
			return
		}
		attempt++
		if attempt > 200 {
			fmt.Fprintln(os.Stderr, "too many worker restarts in one batch")
			os.Exit(2)
		}
	}
}

func mainGoroutine(stderr string) string {
	k := strings.Index(stderr, "goroutine ")
	if k < 0 {
		return trunc(stderr, 4000)
	}
	return trunc(stderr[k:], 8000)
}

// fatalFrame finds the innermost webrender frame of the first goroutine of a crash dump.
func fatalFrame(stderr string) string {
	k := strings.Index(stderr, "goroutine ")
	if k < 0 {
		return "?"
	}
	for _, l := range strings.Split(stderr[k:], "\n") {
		if strings.HasPrefix(l, modPrefix) {
			fn := strings.TrimPrefix(l, modPrefix)
			if j := strings.LastIndex(fn, "("); j > 0 {
				fn = fn[:j]
			}
			return fn
		}
	}
	return "?"
}

type openCase struct {
	I     int
	Ev    string
	Input json.RawMessage
	CPU   float64
}

func readJournal(path string) (done []caseOutcome, open *openCase) {
	f, err := os.Open(path)
	if err != nil {
		return nil, nil
	}
	defer f.Close()
	sc := bufio.NewScanner(f)
	sc.Buffer(make([]byte, 1<<20), 1<<28)
	var lastInput json.RawMessage
	for sc.Scan() {
		var r jrec
		if err := json.Unmarshal(sc.Bytes(), &r); err != nil {
			continue // torn last line
		}
		switch r.Ev {
		case "begin":
			open = &openCase{I: r.I, Ev: "begin", Input: r.Input}
		case "end":
			if open != nil && open.I == r.I {
				co := caseOutcome{I: r.I, Hash: HashBytes(open.Input), Res: *r.Res, Out: r.Out, CPU: r.CPU}
				if r.Res.Verdict == Violation || r.Res.Verdict == Inconclusive || r.I%97 == 1 || r.I < 3 {
					co.Input = open.Input
				}
				lastInput = open.Input
				done = append(done, co)
				open = nil
			}
		case "cpu", "mem":
			if open != nil {
				open.Ev = r.Ev
				open.CPU = r.CPU
			} else if n := len(done); n > 0 && done[n-1].I == r.I {
				// the budget monitor fired while the case was finishing: it is still the culprit
				open = &openCase{I: r.I, Ev: r.Ev, Input: lastInput, CPU: r.CPU}
				done = done[:n-1]
			}
		}
	}
	return
}

// DriverMain runs one property check and returns the process exit code.
func DriverMain(self, propID, tier string, seed int64) int {
	t0 := time.Now()
	p := Get(propID)
	if p == nil {
		fmt.Fprintln(os.Stderr, "unknown property", propID)
		return 2
	}
	root := Root()
	workDir := filepath.Join(root, ".work", propID+"-"+strconv.Itoa(os.Getpid()))
	os.MkdirAll(workDir, 0o755)
	defer os.RemoveAll(workDir)
	par := 16
	if v, err := strconv.Atoi(os.Getenv("VERIF_PAR")); err == nil && v > 0 {
		par = v
	}

	// 1. regression corpus: witnesses of fixed and open findings for this property
	var findings []Finding
	for _, f := range loadFindings() {
		if f.Property == propID {
			findings = append(findings, f)
		}
	}
	type violation struct {
		sig, msg, stack string
		input           json.RawMessage
		from            string
	}
	var violations []violation
	knownLines := map[string]bool{}
	var knownOrder []string
	addKnown := func(f Finding) {
		l := fmt.Sprintf("KNOWN-FINDING: property=%s %s [%s]", propID, f.What, f.ID)
		if !knownLines[l] {
			knownLines[l] = true
			knownOrder = append(knownOrder, l)
		}
	}
	stale := []string{}
	witnessHashes := map[uint64]Finding{}
	corpusRun := 0
	if len(findings) > 0 {
		inputs := filepath.Join(workDir, "corpus.jsonl")
		var buf bytes.Buffer
		var idx []Finding
		for _, f := range findings {
			if f.Witness == "" {
				continue
			}
			b, err := os.ReadFile(filepath.Join(root, f.Witness))
			if err != nil {
				fmt.Fprintf(os.Stderr, "finding %s: witness %s unreadable: %v\n", f.ID, f.Witness, err)
				return 2
			}
			var w Witness
			if err := json.Unmarshal(b, &w); err != nil {
				fmt.Fprintf(os.Stderr, "finding %s: witness %s: %v\n", f.ID, f.Witness, err)
				return 2
			}
			var compact bytes.Buffer
			json.Compact(&compact, w.Input)
			if f.NoReplay && f.Status == "open" {
				witnessHashes[HashBytes(compact.Bytes())] = f
				addKnown(f)
				continue
			}
			buf.Write(compact.Bytes())
			buf.WriteByte('\n')
			idx = append(idx, f)
			if f.Status == "open" {
				witnessHashes[HashBytes(compact.Bytes())] = f
			}
		}
		if len(idx) > 0 {
			os.WriteFile(inputs, buf.Bytes(), 0o644)
			outs, _, _ := runBatches(self, p, seed, tier, []batch{{from: 0, to: -1, inputsFile: inputs}}, filepath.Join(workDir, "corpus"), 1)
			byI := map[int]caseOutcome{}
			for _, o := range outs[0] {
				byI[o.I] = o
			}
			for i, f := range idx {
				o, ok := byI[i]
				if !ok {
					fmt.Fprintf(os.Stderr, "finding %s: witness was not executed\n", f.ID)
					return 2
				}
				corpusRun++
				failed := o.Res.Verdict == Violation
				switch f.Status {
				case "open":
					// every listed open finding is announced; one whose witness did not fail in this run
					// (fixed meanwhile, or dependent on map iteration order / scheduling) is also recorded
					// as not reproduced in the evidence
					addKnown(f)
					if !failed {
						stale = append(stale, f.ID)
					}
				case "fixed":
					if failed {
						violations = append(violations, violation{sig: o.Res.Sig, msg: "regression of fixed finding " + f.ID + ": " + o.Res.Msg, stack: o.Res.Stack, input: o.Input, from: "corpus"})
					}
				}
			}
		}
	}

	// 2. the seeded workload
	n := p.N(tier)
	bs := p.Batch
	if bs == 0 {
		bs = 200
	}
	// keep at least 2*par batches so the pool stays busy, but not tiny batches
	if n/bs < 2*par {
		bs = n/(2*par) + 1
	}
	var batches []batch
	for a := 0; a < n; a += bs {
		b := a + bs
		if b > n {
			b = n
		}
		batches = append(batches, batch{from: a, to: b})
	}
	wself := self
	if p.Race {
		wself = os.Getenv("VERIF_RACE_BIN")
		if wself == "" {
			fmt.Fprintln(os.Stderr, "BROKEN: property needs the -race binary (VERIF_RACE_BIN)")
			return 2
		}
	}
	outs, restarts, inconclusive := runBatches(wself, p, seed, tier, batches, filepath.Join(workDir, "w"), par)

	counters := map[string]int64{}
	distinct := map[uint64]bool{}
	evaluations := 0
	skipped := 0
	var samples []any
	outputs := map[int]string{}
	var maxCPU float64
	reports := map[string]int{}
	knownHits := map[string]int{}
	for _, bo := range outs {
		for _, o := range bo {
			evaluations++
			if o.CPU > maxCPU {
				maxCPU = o.CPU
			}
			for k, v := range o.Res.Counters {
				counters[k] += v
			}
			for _, r := range o.Res.Reports {
				reports[r]++
			}
			if o.Out != "" {
				outputs[o.I] = o.Out
			}
			switch o.Res.Verdict {
			case Skip:
				skipped++
			case Inconclusive:
				// counted by runBatch for watchdog cases; checks may also declare it
				if !strings.Contains(o.Res.Msg, "watchdog") {
					inconclusive++
				}
			case Violation:
				// known finding?
				var compact bytes.Buffer
				json.Compact(&compact, o.Input)
				if f, ok := witnessHashes[HashBytes(compact.Bytes())]; ok {
					addKnown(f)
					knownHits[f.ID]++
					continue
				}
				matched := false
				for _, f := range findings {
					if f.Status == "open" && f.Match == "sig" && f.Sig == o.Res.Sig {
						addKnown(f)
						knownHits[f.ID]++
						matched = true
						break
					}
				}
				if !matched {
					violations = append(violations, violation{sig: o.Res.Sig, msg: o.Res.Msg, stack: o.Res.Stack, input: o.Input, from: fmt.Sprintf("case %d", o.I)})
				}
				continue
			}
			if o.Res.Nontrivial && (o.Res.Verdict == OK) {
				distinct[o.Hash] = true
			}
			if len(samples) < 4 && o.Res.Verdict == OK && o.Res.Nontrivial && o.Input != nil {
				samples = append(samples, sampleOf(o.Input))
			}
		}
	}
	if len(samples) == 0 {
		for _, bo := range outs {
			for _, o := range bo {
				if len(samples) < 3 && o.Input != nil {
					samples = append(samples, sampleOf(o.Input))
				}
			}
		}
	}
	// race detector reports (GORACE log_path files written by the workers)
	raceFiles, _ := filepath.Glob(filepath.Join(workDir, "*", "*.race.*"))
	raceReports := 0
	for _, rf := range raceFiles {
		b, _ := os.ReadFile(rf)
		for _, blk := range strings.Split(string(b), "==================") {
			if !strings.Contains(blk, "WARNING: DATA RACE") {
				continue
			}
			raceReports++
			raw, _ := json.Marshal(map[string]string{"race_report": trunc(blk, 6000)})
			violations = append(violations, violation{sig: raceSig(blk), msg: "data race reported by the Go race detector", stack: trunc(blk, 6000), input: raw, from: "race-log"})
		}
	}
	counters["race_reports"] = int64(raceReports)
	run := &RunInfo{Tier: tier, Seed: seed, Counters: counters, Outputs: outputs}
	if p.Post != nil {
		for _, pv := range p.Post(run) {
			raw, _ := json.Marshal(pv.Input)
			violations = append(violations, violation{sig: pv.Sig, msg: pv.Msg, input: raw, from: "post"})
		}
	}

	// 3. report
	for _, l := range knownOrder {
		fmt.Println(l)
	}
	sort.SliceStable(violations, func(i, j int) bool { return violations[i].sig < violations[j].sig })
	seenSig := map[string]int{}
	printed := 0
	replayDir := filepath.Join(root, "replay", propID)
	for _, v := range violations {
		seenSig[v.sig]++
		if seenSig[v.sig] > 2 || printed >= 20 {
			continue
		}
		os.MkdirAll(replayDir, 0o755)
		w := Witness{Property: propID, Sig: v.sig, Msg: v.msg, Stack: v.stack, Input: v.input}
		b, _ := json.MarshalIndent(w, "", " ")
		path := filepath.Join(replayDir, fmt.Sprintf("%016x.json", HashBytes(v.input)))
		os.WriteFile(path, b, 0o644)
		fmt.Printf("VIOLATION property=%s replay=%s sig=%q %s (%s)\n", propID, path, v.sig, trunc(strings.ReplaceAll(v.msg, "\n", " | "), 400), v.from)
		printed++
	}

	cov := map[string]any{
		"evaluations":           evaluations,
		"distinct_nontrivial":   len(distinct),
		"rule":                  p.Rule,
		"samples":               samples,
		"counters":              counters,
		"skipped_out_of_domain": skipped,
		"inconclusive":          inconclusive,
		"worker_restarts":       restarts,
		"max_cpu_s_per_case":    maxCPU,
		"regression_corpus":     corpusRun,
		"known_finding_hits":    knownHits,
		"stale_findings":        stale,
		"violation_signatures":  seenSig,
	}
	if len(reports) > 0 {
		cov["report_only_disagreements"] = reports
	}
	if p.Exhaustive != nil && p.Exhaustive(tier) {
		cov["exhaustive"] = true
	}
	if p.Extra != nil {
		p.Extra(run, cov)
	}
	level := p.Level
	if level == "" {
		level = "exploration"
	}
	ev := map[string]any{
		"property_id": propID,
		"tier":        tier,
		"seed":        seed,
		"level":       level,
		"coverage":    cov,
		"assumptions": p.Assumptions,
		"wall_s":      time.Since(t0).Seconds(),
		"violations":  len(violations),
	}
	os.MkdirAll(filepath.Join(root, "evidence"), 0o755)
	eb, _ := json.MarshalIndent(ev, "", " ")
	if err := os.WriteFile(filepath.Join(root, "evidence", propID+".json"), eb, 0o644); err != nil {
		fmt.Fprintln(os.Stderr, err)
		return 2
	}

	fmt.Printf("SUMMARY property=%s tier=%s seed=%d evaluations=%d distinct_nontrivial=%d violations=%d known=%d inconclusive=%d restarts=%d wall=%.1fs\n",
		propID, tier, seed, evaluations, len(distinct), len(violations), len(knownOrder), inconclusive, restarts, time.Since(t0).Seconds())
	if len(violations) > 0 {
		return 1
	}
	// broken-check conditions
	if evaluations > 0 && float64(inconclusive) > 0.02*float64(evaluations) {
		fmt.Fprintf(os.Stderr, "BROKEN: %d of %d cases inconclusive\n", inconclusive, evaluations)
		return 2
	}
	if p.Floor != nil && len(distinct) < p.Floor(tier) {
		fmt.Fprintf(os.Stderr, "BROKEN: only %d distinct non-trivial cases (floor %d)\n", len(distinct), p.Floor(tier))
		return 2
	}
	if p.CounterFloors != nil {
		for k, v := range p.CounterFloors(tier) {
			if counters[k] < v {
				fmt.Fprintf(os.Stderr, "BROKEN: counter %s=%d below floor %d\n", k, counters[k], v)
				return 2
			}
		}
	}
	return 0
}

func sampleOf(raw json.RawMessage) any {
	if len(raw) > 1500 {
		return string(raw[:1500]) + "…(truncated)"
	}
	var v any
	if json.Unmarshal(raw, &v) == nil {
		return v
	}
	return string(raw)
}

// raceSig de-duplicates a race report by the innermost webrender frames of its two accesses.
func raceSig(blk string) string {
	var frames []string
	for _, part := range strings.Split(blk, "\n\n") {
		head := strings.TrimSpace(part)
		if !(strings.HasPrefix(head, "WARNING: DATA RACE") || strings.HasPrefix(head, "Previous ") || strings.HasPrefix(head, "Read at") || strings.HasPrefix(head, "Write at")) {
			continue
		}
		fr := "?"
		for _, l := range strings.Split(part, "\n") {
			l = strings.TrimSpace(l)
			if strings.HasPrefix(l, modPrefix) {
				fr = strings.TrimPrefix(l, modPrefix)
				if j := strings.LastIndex(fr, "("); j > 0 {
					fr = fr[:j]
				}
				break
			}
		}
		frames = append(frames, fr)
	}
	sort.Strings(frames)
	return "race@" + strings.Join(frames, "|")
}

// ReplayMain re-runs one witness file in this process.
func ReplayMain(path string) int {
	b, err := os.ReadFile(path)
	if err != nil {
		fmt.Fprintln(os.Stderr, err)
		return 2
	}
	var w Witness
	if err := json.Unmarshal(b, &w); err != nil {
		fmt.Fprintln(os.Stderr, err)
		return 2
	}
	p := Get(w.Property)
	if p == nil {
		fmt.Fprintln(os.Stderr, "unknown property", w.Property)
		return 2
	}
	res := SafeCheck(p, w.Input)
	fmt.Printf("replay property=%s verdict=%s sig=%q\n%s\n", w.Property, res.Verdict, res.Sig, res.Msg)
	if res.Stack != "" {
		fmt.Println(res.Stack)
	}
	if res.Verdict == Violation {
		fmt.Printf("VIOLATION property=%s replay=%s\n", w.Property, path)
		return 1
	}
	return 0
}
