//go:build race

package fw

const raceEnabled = true
