package fw

import (
	"bufio"
	"encoding/json"
	"fmt"
	"os"
	"regexp"
	"runtime"
	"runtime/debug"
	"runtime/pprof"
	"strconv"
	"strings"
	"sync/atomic"
	"syscall"
	"time"
)

// journal records
type jrec struct {
	I     int             `json:"i"`
	Ev    string          `json:"ev"` // begin | end | cpu | mem
	Input json.RawMessage `json:"input,omitempty"`
	Res   *Result         `json:"res,omitempty"`
	Out   string          `json:"out,omitempty"`
	CPU   float64         `json:"cpu,omitempty"`
}

func cpuNow() float64 {
	var ru syscall.Rusage
	if err := syscall.Getrusage(syscall.RUSAGE_SELF, &ru); err != nil {
		return 0
	}
	return float64(ru.Utime.Sec) + float64(ru.Utime.Usec)/1e6 + float64(ru.Stime.Sec) + float64(ru.Stime.Usec)/1e6
}

// Out is set by Check functions that need to hand an opaque output (e.g. a trace hash) to the
// driver for cross-process comparison.  It is reset before every case.
var Out string

// WorkerMain executes cases [from,to) of the property (or the inputs of inputsFile) and journals
// them.  It never returns a verdict itself.
func WorkerMain(propID string, seed int64, tier string, from, to int, inputsFile, journalPath string) int {
	p := Get(propID)
	if p == nil {
		fmt.Fprintln(os.Stderr, "unknown property", propID)
		return 2
	}
	jf, err := os.OpenFile(journalPath, os.O_CREATE|os.O_WRONLY|os.O_APPEND, 0o644)
	if err != nil {
		fmt.Fprintln(os.Stderr, err)
		return 2
	}
	defer jf.Close()
	writeRec := func(r jrec) {
		b, _ := json.Marshal(r)
		b = append(b, '\n')
		jf.Write(b)
	}

	budget := p.CPUBudget
	if budget == 0 {
		budget = 120
	}
	if v, err := strconv.ParseFloat(os.Getenv("VERIF_CPU_BUDGET"), 64); err == nil && v > 0 {
		budget = v // development aid; registered commands never set it
	}
	if raceEnabled {
		budget *= 20
	}
	var (
		active   atomic.Bool
		startCPU atomic.Uint64 // float64 bits*1000 as integer milliseconds
		curCase  atomic.Int64
	)
	go func() {
		var ms runtime.MemStats
		tick := 0
		for {
			time.Sleep(100 * time.Millisecond)
			if !active.Load() {
				continue
			}
			used := cpuNow() - float64(startCPU.Load())/1000
			tick++
			over := ""
			if used > budget {
				over = "cpu"
			} else if tick%10 == 0 {
				runtime.ReadMemStats(&ms)
				if ms.HeapAlloc > 8<<30 {
					over = "mem"
				}
			}
			if over != "" {
				writeRec(jrec{I: int(curCase.Load()), Ev: over, CPU: used})
				pprof.Lookup("goroutine").WriteTo(os.Stderr, 2)
				if over == "cpu" {
					os.Exit(3)
				}
				os.Exit(4)
			}
		}
	}()

	runOne := func(i int, raw json.RawMessage) {
		writeRec(jrec{I: i, Ev: "begin", Input: raw})
		curCase.Store(int64(i))
		c0 := cpuNow()
		startCPU.Store(uint64(c0 * 1000))
		active.Store(true)
		Out = ""
		res := SafeCheck(p, raw)
		active.Store(false)
		writeRec(jrec{I: i, Ev: "end", Res: &res, Out: Out, CPU: cpuNow() - c0})
	}

	if inputsFile != "" {
		f, err := os.Open(inputsFile)
		if err != nil {
			fmt.Fprintln(os.Stderr, err)
			return 2
		}
		defer f.Close()
		sc := bufio.NewScanner(f)
		sc.Buffer(make([]byte, 1<<20), 1<<28)
		i := 0
		for sc.Scan() {
			if i >= from && (to < 0 || i < to) {
				runOne(i, json.RawMessage(append([]byte(nil), sc.Bytes()...)))
			}
			i++
		}
		return 0
	}
	for i := from; i < to; i++ {
		in := p.Gen(CaseRNG(seed, propID, i), i, tier)
		raw, err := json.Marshal(in)
		if err != nil {
			fmt.Fprintln(os.Stderr, "marshal:", err)
			return 2
		}
		runOne(i, raw)
	}
	return 0
}

// SafeCheck runs p.Check under recover(); a panic becomes a violation with a call-site signature.
func SafeCheck(p *Prop, raw json.RawMessage) (res Result) {
	defer func() {
		if r := recover(); r != nil {
			st := string(debug.Stack())
			res = Result{Verdict: Violation, Sig: PanicSig(fmt.Sprint(r), st), Msg: "panic: " + trunc(fmt.Sprint(r), 300), Stack: trunc(st, 6000)}
		}
	}()
	res = p.Check(raw)
	if res.Verdict == "" {
		res.Verdict = OK
	}
	return res
}

// Protect runs f and converts a panic into (sig, msg, stack).  Used by checks that call several
// entry points per case and want to attribute the panic themselves.
func Protect(f func()) (sig, msg, stack string) {
	defer func() {
		if r := recover(); r != nil {
			stack = string(debug.Stack())
			sig = PanicSig(fmt.Sprint(r), stack)
			msg = "panic: " + trunc(fmt.Sprint(r), 300)
		}
	}()
	f()
	return
}

func trunc(s string, n int) string {
	if len(s) > n {
		return s[:n] + "…"
	}
	return s
}

// PanicClass normalises a panic value to a class.
func PanicClass(v string) string {
	switch {
	case strings.Contains(v, "index out of range"):
		return "index out of range"
	case strings.Contains(v, "slice bounds out of range"):
		return "slice bounds out of range"
	case strings.Contains(v, "nil pointer dereference"):
		return "nil dereference"
	case strings.Contains(v, "interface conversion"):
		return "interface conversion"
	case strings.Contains(v, "divide by zero"):
		return "divide by zero"
	case strings.Contains(v, "nil map"):
		return "nil map write"
	case strings.Contains(v, "stack overflow") || strings.Contains(v, "stack exceeds"):
		return "stack overflow"
	}
	// a panic(...) statement of the code under test: its message may embed input text, so the class is
	// just "explicit" (the signature's function part tells the site)
	return "explicit"
}

const modPrefix = "github.com/benoitkugler/webrender/"

// InnermostFrame returns the innermost webrender function on a Go stack dump (after the panic
// frames), or "?".
func InnermostFrame(stack string) string {
	lines := strings.Split(stack, "\n")
	start := 0
	for i, l := range lines {
		if strings.HasPrefix(l, "panic(") || strings.HasPrefix(l, "runtime.gopanic") {
			start = i
		}
	}
	for _, l := range lines[start:] {
		if strings.HasPrefix(l, modPrefix) {
			fn := strings.TrimPrefix(l, modPrefix)
			if k := strings.LastIndex(fn, "("); k > 0 {
				fn = fn[:k]
			}
			// strip closure suffixes .func1.2
			fn = regexp.MustCompile(`(\.func[0-9]+)+(\.[0-9]+)*$`).ReplaceAllString(fn, "")
			return fn
		}
	}
	return "?"
}

// PanicSig builds the "panic@<function>:<class>" signature.
func PanicSig(value, stack string) string {
	return "panic@" + InnermostFrame(stack) + ":" + PanicClass(value)
}
