//go:build !race

package fw

const raceEnabled = false
