// Package fw is the driver/worker framework shared by all property checks.
//
// A property is a deterministic list of cases (a function of seed, tier and index), a Check
// function running the real code plus its monitors on one case, and evidence floors.  The driver
// never runs code under test: it spawns worker processes (the same binary with -worker), each of
// which journals every case before executing it, so a panic, a fatal error or a CPU-budget overrun
// identifies its culprit and the remaining cases are continued by a fresh worker.
package fw

import (
	"encoding/json"
	"hash/fnv"
	"math/rand"
	"sort"
)

// Verdicts
const (
	OK           = "ok"
	Violation    = "violation"
	Inconclusive = "inconclusive"
	Skip         = "skip" // case outside the property's domain (counted, never a verdict)
)

// Result of one case.
type Result struct {
	Verdict    string           `json:"v"`
	Msg        string           `json:"msg,omitempty"`
	Sig        string           `json:"sig,omitempty"` // coarse signature: dedup + known-finding match
	Nontrivial bool             `json:"nt,omitempty"`
	Counters   map[string]int64 `json:"c,omitempty"`
	Stack      string           `json:"stack,omitempty"`
	// ReportOnly disagreements: counted in evidence, never verdicts.
	Reports []string `json:"rep,omitempty"`
}

func (r *Result) Count(k string, n int64) {
	if r.Counters == nil {
		r.Counters = map[string]int64{}
	}
	r.Counters[k] += n
}

// Fail marks the result as a violation (first failure wins).
func (r *Result) Fail(sig, msg string) {
	if r.Verdict == Violation {
		return
	}
	r.Verdict = Violation
	r.Sig = sig
	r.Msg = msg
}

// Prop is one property check.
type Prop struct {
	ID    string
	Level string // evidence level, "exploration" by default
	Rule  string // how cases are generated and what makes one non-trivial
	// N is the number of cases of the tier.
	N func(tier string) int
	// Gen builds the self-contained input of case i.  It must be a deterministic function of
	// (rng, i, tier); rng is seeded from (seed, property, i).
	Gen func(rng *rand.Rand, i int, tier string) any
	// Check decodes an input and runs the real code and the oracle on it.
	Check func(raw json.RawMessage) Result
	// Floor on distinct non-trivial cases; a run below it is broken (exit 2).
	Floor func(tier string) int
	// Counter floors: counters that must be >= value, else exit 2.
	CounterFloors func(tier string) map[string]int64
	Assumptions   []string
	Exhaustive    func(tier string) bool
	// Batch is the number of cases per worker batch (default 200).
	Batch int
	// CPUBudget in seconds per case (default 120).
	CPUBudget float64
	// Race asks the driver to run the workers from the -race binary.
	Race bool
	// BudgetOutOfDomain: a case that exhausts the CPU or heap budget is outside this property's domain
	// (the same workload is judged for that by C01); it is skipped and counted, not reported here.
	BudgetOutOfDomain bool
	// Post runs in the driver after all cases (cross-process comparisons).  It may add violations.
	Post func(run *RunInfo) []PostViolation
	// Extra lets the property add evidence keys after the run.
	Extra func(run *RunInfo, cov map[string]any)
}

// PostViolation is a violation found by a driver-side comparison.
type PostViolation struct {
	Sig, Msg string
	Input    any
}

// RunInfo is handed to Post/Extra.
type RunInfo struct {
	Tier     string
	Seed     int64
	Counters map[string]int64
	// Outputs collected from workers: case index -> opaque string (Result.Counters can't carry it)
	Outputs map[int]string
}

var registry = map[string]*Prop{}

// Register adds a property to the registry.
func Register(p *Prop) {
	if _, dup := registry[p.ID]; dup {
		panic("duplicate property " + p.ID)
	}
	registry[p.ID] = p
}

// Get returns a registered property.
func Get(id string) *Prop { return registry[id] }

// IDs lists registered property ids.
func IDs() []string {
	var out []string
	for k := range registry {
		out = append(out, k)
	}
	sort.Strings(out)
	return out
}

// CaseRNG returns the generator of case i.
func CaseRNG(seed int64, prop string, i int) *rand.Rand {
	h := fnv.New64a()
	var b [16]byte
	for k := 0; k < 8; k++ {
		b[k] = byte(seed >> (8 * k))
		b[8+k] = byte(int64(i) >> (8 * k))
	}
	h.Write(b[:])
	h.Write([]byte(prop))
	return rand.New(rand.NewSource(int64(h.Sum64())))
}

// HashBytes is the input hash used for distinctness.
func HashBytes(b []byte) uint64 {
	h := fnv.New64a()
	h.Write(b)
	return h.Sum64()
}
