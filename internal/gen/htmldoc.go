package gen

import (
	"fmt"
	"math/rand"
	"strings"
)

// Grammar-based HTML/CSS document generator for the crash / protocol / determinism workloads
// (C01, C14, C15).  Documents are bounded: <= MaxElems elements, depth <= MaxDepth, <= ~4 KiB.

// CSSValues maps properties to candidate values (valid, boundary and invalid ones mixed).
var CSSValues = map[string][]string{
	"display":                   {"block", "inline", "inline-block", "none", "table", "inline-table", "table-row", "table-cell", "table-row-group", "table-header-group", "table-footer-group", "table-column", "table-column-group", "table-caption", "list-item", "flex", "inline-flex", "grid", "inline-grid", "flow-root", "contents", "run-in", "block flow", "inline flow-root"},
	"position":                  {"static", "relative", "absolute", "fixed", "running(hdr)", "sticky"},
	"float":                     {"left", "right", "none", "footnote"},
	"clear":                     {"left", "right", "both", "none"},
	"width":                     {"auto", "0", "1px", "50px", "120px", "50%", "100%", "150%", "10em", "-5px", "3e5px", "min-content", "max-content", "fit-content", "calc(100% - 10px)"},
	"height":                    {"auto", "0", "1px", "30px", "200px", "50%", "100%", "2000px"},
	"min-width":                 {"0", "10px", "50%", "200px", "auto"},
	"max-width":                 {"none", "0", "10px", "50%", "200px"},
	"min-height":                {"0", "10px", "50%", "300px"},
	"max-height":                {"none", "0", "10px", "50%"},
	"margin":                    {"0", "auto", "5px", "-5px", "10px 20px", "1em 2em 3em", "10% 5%", "0 auto", "-50px", "1e6px"},
	"margin-top":                {"0", "10px", "-10px", "auto", "50%"},
	"margin-left":               {"0", "10px", "-30px", "auto", "50%"},
	"padding":                   {"0", "5px", "1em", "10%", "3px 6px", "-1px"},
	"border":                    {"none", "1px solid black", "3px dashed red", "thick double", "0 solid", "5px dotted #00f", "2px groove", "medium ridge green", "1px inset", "1px outset", "10px hidden"},
	"border-width":              {"0", "1px", "thin", "medium", "thick", "1px 2px 3px 4px", "20px"},
	"border-style":              {"none", "solid", "dashed", "dotted", "double", "groove", "ridge", "inset", "outset", "hidden", "solid dashed"},
	"border-radius":             {"0", "5px", "50%", "10px 20px", "10px / 20px", "1e4px", "5px 10px 15px 20px / 1px 2px"},
	"border-collapse":           {"collapse", "separate"},
	"border-spacing":            {"0", "2px", "5px 10px"},
	"border-image":              {"none", "linear-gradient(red, blue) 10", "url(mem://doc/missing.png) 3 stretch"},
	"box-sizing":                {"content-box", "border-box"},
	"box-decoration-break":      {"slice", "clone"},
	"outline":                   {"none", "1px solid red", "3px dotted", "thick double green"},
	"outline-offset":            {"0", "3px", "-3px"},
	"color":                     {"red", "#123", "rgb(1,2,3)", "rgba(0,0,0,.5)", "transparent", "currentColor", "hsl(120,50%,50%)", "notacolor"},
	"background":                {"none", "red", "#0f0 url(mem://doc/missing.png)", "linear-gradient(red, blue)", "radial-gradient(circle, red, blue 50%)", "repeating-linear-gradient(45deg, red 0, blue 10px)", "url(data:image/svg+xml,%3Csvg%20xmlns='http://www.w3.org/2000/svg'%20width='4'%20height='4'%3E%3Crect%20width='2'%20height='2'/%3E%3C/svg%3E) repeat", "linear-gradient(red, blue) 0 0 / 10px 10px space", "linear-gradient(red,blue) center / 0 0", "linear-gradient(red,blue) 0 0 / 60px 20px space round", "red, blue"},
	"background-color":          {"transparent", "yellow", "#abcdef", "rgba(255,0,0,.3)"},
	"background-size":           {"auto", "cover", "contain", "0 0", "10px", "50% 50%", "100% auto"},
	"background-repeat":         {"repeat", "no-repeat", "space", "round", "repeat-x", "space round"},
	"background-position":       {"0 0", "center", "right 3px bottom 5px", "50% 50%", "-10px 1em"},
	"background-clip":           {"border-box", "padding-box", "content-box"},
	"background-origin":         {"border-box", "padding-box", "content-box"},
	"background-attachment":     {"scroll", "fixed", "local"},
	"opacity":                   {"1", "0", "0.5", "-1", "2"},
	"visibility":                {"visible", "hidden", "collapse"},
	"overflow":                  {"visible", "hidden", "scroll", "auto", "clip"},
	"z-index":                   {"auto", "0", "1", "-1", "999999", "1.5"},
	"top":                       {"auto", "0", "10px", "-10px", "50%"},
	"left":                      {"auto", "0", "10px", "-10px", "50%"},
	"right":                     {"auto", "0", "10px"},
	"bottom":                    {"auto", "0", "10px"},
	"transform":                 {"none", "rotate(45deg)", "rotate(0deg)", "scale(2)", "scale(0)", "translate(10px, 50%)", "skew(10deg, 20deg)", "skewX(30deg)", "matrix(1,0,0,1,10,10)", "matrix(0,0,0,0,0,0)", "rotate(1turn) scale(.5) translateX(1em)", "rotate(90)", "scale(1e30)"},
	"transform-origin":          {"center", "0 0", "left top", "100% 100%", "10px 20px", "right"},
	"font":                      {"20px Ahem", "10px/1 Ahem", "bold 12px weasyprint", "italic small-caps 1em/1.5 serif", "16px", "caption", "0 Ahem", "1000px Ahem"},
	"font-family":               {"Ahem", "weasyprint", "serif", "sans-serif", "monospace", "nonexistent, Ahem", "\"\""},
	"font-size":                 {"0", "1px", "10px", "16px", "2em", "50%", "larger", "smaller", "xx-large", "300px", "-1px", "1e5px"},
	"font-weight":               {"normal", "bold", "bolder", "lighter", "100", "900", "1000", "0"},
	"font-style":                {"normal", "italic", "oblique"},
	"font-variant":              {"normal", "small-caps", "oldstyle-nums", "common-ligatures small-caps"},
	"font-stretch":              {"normal", "condensed", "expanded", "50%"},
	"font-feature-settings":     {"normal", "\"liga\" 0", "\"smcp\"", "\"xxxx\" 3"},
	"font-kerning":              {"auto", "none", "normal"},
	"line-height":               {"normal", "1", "0", "1.5", "20px", "200%", "-1", "1000"},
	"vertical-align":            {"baseline", "top", "middle", "bottom", "sub", "super", "text-top", "text-bottom", "10px", "-50%"},
	"text-align":                {"left", "right", "center", "justify", "start", "end"},
	"text-align-last":           {"auto", "justify", "center"},
	"text-indent":               {"0", "2em", "-2em", "50%", "1e5px"},
	"text-transform":            {"none", "uppercase", "lowercase", "capitalize", "full-width"},
	"text-decoration":           {"none", "underline", "overline line-through", "underline wavy red", "underline dotted"},
	"text-overflow":             {"clip", "ellipsis"},
	"white-space":               {"normal", "nowrap", "pre", "pre-wrap", "pre-line", "break-spaces"},
	"word-break":                {"normal", "break-all", "keep-all"},
	"overflow-wrap":             {"normal", "break-word", "anywhere"},
	"word-spacing":              {"normal", "5px", "-5px", "1em"},
	"letter-spacing":            {"normal", "2px", "-2px", "1em"},
	"hyphens":                   {"none", "manual", "auto"},
	"hyphenate-character":       {"auto", "\"!\"", "\"\""},
	"hyphenate-limit-chars":     {"auto", "3", "5 2 2", "1 1 1"},
	"hyphenate-limit-zone":      {"0", "10px", "50%"},
	"tab-size":                  {"8", "0", "4", "20px"},
	"direction":                 {"ltr", "rtl"},
	"unicode-bidi":              {"normal", "embed", "bidi-override", "isolate"},
	"list-style":                {"disc", "none", "decimal inside", "square outside", "upper-roman", "lower-greek", "\"*\"", "symbols(cyclic \"a\" \"b\")", "symbols(numeric)", "myst", "url(mem://doc/missing.png)", "hebrew", "cjk-decimal", "armenian", "georgian", "lower-alpha"},
	"list-style-type":           {"disc", "circle", "decimal", "decimal-leading-zero", "lower-roman", "upper-alpha", "none", "myst", "cyc", "add", "fix", "symbols(symbolic \"x\")", "symbols(alphabetic \"a\")", "symbols(additive)", "disclosure-open"},
	"list-style-position":       {"inside", "outside"},
	"counter-reset":             {"none", "c", "c 5", "c -3 d 2", "list-item 0", "page 3"},
	"counter-increment":         {"none", "c", "c 2", "c -1", "list-item 0", "d 1000000000"},
	"counter-set":               {"none", "c 7", "d -2"},
	"content":                   {"normal", "none", "\"x\"", "counter(c)", "counters(c, \".\")", "counter(c, upper-roman) \" - \" counter(d, myst)", "counter(c, cyc) counter(c, add) counter(c, fix)", "attr(title)", "open-quote \"q\" close-quote", "url(mem://doc/missing.png)", "string(hd)", "element(hdr)", "target-counter(attr(href), page)", "target-text(attr(href))", "leader(\".\")", "counter(page) \"/\" counter(pages)", "counter(c, symbols(cyclic))", "\"\\A\""},
	"quotes":                    {"auto", "none", "\"<\" \">\"", "\"a\" \"b\" \"c\" \"d\""},
	"string-set":                {"none", "hd content()", "hd content(text) \"x\"", "hd attr(title)"},
	"bookmark-level":            {"none", "1", "2", "6", "0", "100"},
	"bookmark-label":            {"content(text)", "\"L\"", "content(before)", "attr(title)"},
	"bookmark-state":            {"open", "closed"},
	"table-layout":              {"auto", "fixed"},
	"caption-side":              {"top", "bottom"},
	"empty-cells":               {"show", "hide"},
	"columns":                   {"auto", "2", "3 50px", "100px", "1000", "0"},
	"column-gap":                {"normal", "0", "10px", "50%"},
	"column-rule":               {"none", "1px solid", "5px dotted red"},
	"column-fill":               {"balance", "auto"},
	"column-span":               {"none", "all"},
	"break-before":              {"auto", "page", "left", "right", "recto", "verso", "avoid", "avoid-page", "column", "always"},
	"break-after":               {"auto", "page", "left", "right", "recto", "verso", "avoid", "column"},
	"break-inside":              {"auto", "avoid", "avoid-page", "avoid-column"},
	"page-break-before":         {"auto", "always", "avoid", "left", "right"},
	"page-break-after":          {"auto", "always", "avoid"},
	"page-break-inside":         {"auto", "avoid"},
	"orphans":                   {"1", "2", "5", "100", "0"},
	"widows":                    {"1", "2", "5", "100", "0"},
	"page":                      {"auto", "pa", "pb"},
	"flex":                      {"none", "1", "auto", "0 0 50px", "2 1 0%", "initial"},
	"flex-direction":            {"row", "column", "row-reverse", "column-reverse"},
	"flex-wrap":                 {"nowrap", "wrap", "wrap-reverse"},
	"flex-basis":                {"auto", "0", "50px", "50%", "content"},
	"flex-grow":                 {"0", "1", "1e9", "-1"},
	"flex-shrink":               {"0", "1", "1e9"},
	"order":                     {"0", "1", "-1", "2147483647"},
	"justify-content":           {"flex-start", "center", "space-between", "space-around", "space-evenly", "flex-end", "stretch"},
	"align-items":               {"stretch", "center", "flex-start", "flex-end", "baseline"},
	"align-self":                {"auto", "center", "stretch", "baseline"},
	"align-content":             {"normal", "center", "space-between", "stretch"},
	"gap":                       {"0", "5px", "5px 10px", "10%"},
	"grid-template-columns":     {"none", "50px 50px", "1fr 2fr", "repeat(3, 1fr)", "repeat(auto-fill, 40px)", "minmax(10px, 1fr) auto", "[a] 10px [b] 1fr [c]", "subgrid", "repeat(1000, 1px)", "fit-content(50px)"},
	"grid-template-rows":        {"none", "20px 20px", "auto 1fr", "repeat(2, 10px)", "min-content max-content"},
	"grid-template-areas":       {"none", "\"a b\" \"c d\"", "\"a a\" \". b\"", "\"a\" \"a b\""},
	"grid-auto-flow":            {"row", "column", "row dense", "dense"},
	"grid-auto-columns":         {"auto", "20px", "1fr", "minmax(5px, 20px)"},
	"grid-auto-rows":            {"auto", "20px", "1fr"},
	"grid-column":               {"auto", "1", "1 / 3", "span 2", "2 / span 3", "a", "-1", "1 / -1", "100 / 200", "span 0"},
	"grid-row":                  {"auto", "1", "1 / 3", "span 2", "-2 / -1", "50"},
	"grid-area":                 {"auto", "a", "1 / 1 / 2 / 2", "b"},
	"justify-items":             {"normal", "center", "stretch", "start", "legacy center"},
	"justify-self":              {"auto", "center", "stretch", "end"},
	"object-fit":                {"fill", "contain", "cover", "none", "scale-down"},
	"object-position":           {"50% 50%", "left top", "10px 20px"},
	"image-resolution":          {"1dppx", "from-image", "300dpi", "0dppx", "from-image 2dppx"},
	"image-rendering":           {"auto", "pixelated", "crisp-edges"},
	"image-orientation":         {"none", "from-image", "90deg", "90deg flip", "flip"},
	"clip":                      {"auto", "rect(0, 10px, 10px, 0)", "rect(auto, auto, auto, auto)", "rect(10px 0 0 10px)"},
	"size":                      {"auto", "A4", "A5 landscape", "100px 100px", "30px 20px", "1px 1px", "0 0", "10in", "letter portrait", "5000px 5000px"},
	"marks":                     {"none", "crop", "cross", "crop cross"},
	"bleed":                     {"auto", "0", "10px", "-5px"},
	"footnote-display":          {"block", "inline", "compact"},
	"footnote-policy":           {"auto", "line", "block"},
	"anchor":                    {"none", "attr(id)", "\"x\""},
	"link":                      {"none", "attr(href)", "url(#a1)", "url(http://example.invalid/)"},
	"lang":                      {"none", "\"fr\"", "attr(lang)"},
	"max-lines":                 {"none", "1", "2"},
	"continue":                  {"auto", "discard"},
	"block-ellipsis":            {"none", "auto", "\"...\""},
	"line-clamp":                {"none", "2", "2 \"…\""},
	"mix-blend-mode":            {"normal", "multiply", "screen"},
	"appearance":                {"none", "auto"},
	"text-decoration-thickness": {"auto", "from-font", "2px", "10%"},
	"text-underline-offset":     {"auto", "2px", "-1em"},
	"-weasy-x":                  {"1"},
	"--v":                       {"10px", "red", "var(--w)", "var(--v)", "{a:b}", "", " ", "1px solid var(--c, blue)", "calc(1px + var(--w, 2px))"},
	"--w":                       {"var(--v)", "5", "var(--x, var(--v))"},
	"bogus-property":            {"1", "x y z"},
}

var cssProps []string

func init() {
	for k := range CSSValues {
		cssProps = append(cssProps, k)
	}
	// deterministic order
	for i := 1; i < len(cssProps); i++ {
		for j := i; j > 0 && cssProps[j] < cssProps[j-1]; j-- {
			cssProps[j], cssProps[j-1] = cssProps[j-1], cssProps[j]
		}
	}
}

var varUses = []string{"var(--v)", "var(--w, 3px)", "var(--undefined)", "var(--undefined, 1px)", "var(--v) var(--w)", "calc(var(--v) * 2)", "var(--v, var(--w))", "var()", "var(--v,)"}

var globalValues = []string{"inherit", "initial", "unset", "revert", "INHERIT", "inherit !important"}

// Decl returns one declaration "prop: value".
func Decl(r *rand.Rand) string {
	p := Pick(r, cssProps)
	var v string
	switch r.Intn(20) {
	case 0:
		v = Pick(r, globalValues)
	case 1:
		v = Pick(r, varUses)
	case 2:
		// value of another property (type confusion)
		v = Pick(r, CSSValues[Pick(r, cssProps)])
	case 3:
		v = Pick(r, []string{"", ";", "}", "{", "(", "\"", "'", "url(", "/*", "\\", "1e999", "-", "!important", "! important x", "calc(", "calc(1/0)", "calc(1px*)", "rgb(", "attr()", "counter()", "counters(a)", "symbols()", "linear-gradient()", "repeat()", "minmax()", "url()", "#", "@x", "0/0", ","})
	default:
		v = Pick(r, CSSValues[p])
	}
	imp := ""
	if r.Intn(12) == 0 {
		imp = " !important"
	}
	if r.Intn(25) == 0 {
		p = strings.ToUpper(p)
	}
	return p + ": " + v + imp
}

// Decls returns up to n declarations.
func Decls(r *rand.Rand, n int) string {
	k := r.Intn(n + 1)
	var parts []string
	for i := 0; i < k; i++ {
		parts = append(parts, Decl(r))
	}
	return strings.Join(parts, "; ")
}

var selectors = []string{"*", "div", "p", "span", "li", "td", "table", "a", "h1", "h2", "img", "body", "html", ".c1", ".c2", ".c3", "#a1", "#a2", "div p", "div > p", "p + p", "p ~ div", "li:first-child", "li:nth-child(2n+1)", "li:nth-last-child(-n+2)", "p:not(.c1)", ":is(div, p) span", "div:has(> p)", "[title]", "[class~=c1]", "[id^=a]", "a[href$=\"1\"]", "p:empty", ":root", "p::before", "p::after", "li::marker", "div::first-line", "p::first-letter", "*::before", "td:only-child", "p:last-of-type", "div:first-of-type", "h1, h2, h3", "p:nth-of-type(2)", "a:link", "input:checked", ":not(*)", "p:lang(fr)", "div:nth-child(odd)", "x-a", "svg", "::footnote-call", "::footnote-marker", "@", "p >", "..", ":nth-child(", "p:unknown", "::unknown", "[", "p,,div"}

var pageSelectors = []string{"", ":first", ":left", ":right", ":blank", "pa", "pb", "pa:first", ":nth(2)", ":nth(2n+1 of pa)", ":first:left", "bogus:", ":unknown", ":nth("}

var marginBoxes = []string{"@top-left", "@top-center", "@top-right", "@bottom-left", "@bottom-center", "@bottom-right", "@left-middle", "@right-top", "@top-left-corner", "@bottom-right-corner", "@footnote", "@bogus"}

// Rule returns one style rule or at-rule.
func Rule(r *rand.Rand) string {
	switch r.Intn(16) {
	case 0:
		inner := ""
		if r.Intn(2) == 0 {
			inner = " " + Pick(r, marginBoxes) + " { " + Decls(r, 3) + " }"
		}
		return "@page " + Pick(r, pageSelectors) + " { " + Decls(r, 3) + inner + " }"
	case 1:
		return "@media " + Pick(r, []string{"print", "screen", "all", "not print", "print and (min-width: 100px)", "(orientation: portrait)", "bogus", "", "print, screen"}) + " { " + Rule(r) + " }"
	case 2:
		return "@counter-style " + Pick(r, []string{"myst", "cyc", "add", "fix", "decimal", "none"}) + " { " + Pick(r, counterStyleBodies) + " }"
	case 3:
		return "@font-face { font-family: " + Pick(r, []string{"ff1", "Ahem", "\"x y\""}) + "; src: " + Pick(r, []string{"url(data:font/ttf;base64,AAEAAAAK)", "url(mem://doc/missing.ttf)", "local(Ahem)", "format(\"woff\")", "url(mem://doc/missing.ttf) format(\"truetype\"), local(x)", ""}) + "; " + Pick(r, []string{"", "font-weight: bold", "font-style: bogus", "unicode-range: U+0-7F", "font-stretch: 50%"}) + " }"
	case 4:
		return "@import " + Pick(r, []string{"url(mem://doc/missing.css)", "\"mem://doc/missing.css\" print", "url(mem://doc/extra.css)", "bogus"}) + ";"
	case 5:
		return Pick(r, []string{"@unknown x { a: b }", "@charset \"x\";", "@namespace svg url(http://www.w3.org/2000/svg);", "@supports (display: grid) { p { color: red } }", "} p { color: red }", "@media {", "p { color: red", "/* unterminated", "<!-- p { color: red } -->", "@page { @top-left { content: \"x\" } @bogus { } }", "@layer a { p { color: red } }"})
	case 6:
		// nested rule
		return Pick(r, selectors) + " { " + Decls(r, 2) + "; " + Pick(r, []string{"& ", "", "& > ", "+ "}) + Pick(r, selectors) + " { " + Decls(r, 2) + " } " + Decl(r) + " }"
	}
	return Pick(r, selectors) + " { " + Decls(r, 4) + " }"
}

var counterStyleBodies = []string{
	"system: cyclic; symbols: \"a\" \"b\"", "system: cyclic", "system: numeric; symbols: \"0\" \"1\"", "system: numeric; symbols: \"0\"", "system: alphabetic; symbols: \"a\" \"b\" \"c\"", "system: alphabetic; symbols: \"a\"",
	"system: symbolic; symbols: \"*\"", "system: additive; additive-symbols: 10 \"X\", 5 \"V\", 1 \"I\"", "system: additive; additive-symbols: 5 \"V\", 0 \"z\"", "system: additive; additive-symbols: 0 \"z\"", "system: additive",
	"system: fixed 3; symbols: \"x\" \"y\"; fallback: cyc", "system: fixed; symbols: \"x\"; fallback: myst", "system: extends decimal; prefix: \"(\"; suffix: \")\"", "system: extends myst", "system: extends cyc; range: 1 3, 7 infinite; fallback: add",
	"system: cyclic; symbols: \"a\"; negative: \"-\" \"!\"; pad: 5 \"0\"", "system: numeric; symbols: \"0\" \"1\"; pad: -1 \"\"; range: infinite infinite", "system: bogus", "symbols: \"a\"", "system: cyclic; symbols: url(mem://doc/missing.png)", "system: numeric; symbols: \"0\" \"1\"; range: auto; speak-as: bullets", "system: cyclic; symbols: \"a\"; range: 5 1",
}

var words = []string{"a", "bb", "ccc", "word", "lorem", "ipsum", "dolor", "x", "supercalifragilistic", "hy\u00adphen\u00adat\u00adion", "مرحبا", "שלום", "漢字", "e\u0301", "\U0001F600", "A\u00a0B", "tab\tx", "1.5", "&amp;", "&#0;", "&bogus;", "<", "don't", "ﬁ", "\u200b", "\u2028"}

// Text returns a few words.
func Text(r *rand.Rand, n int) string {
	k := 1 + r.Intn(n)
	var parts []string
	for i := 0; i < k; i++ {
		if r.Intn(4) == 0 {
			parts = append(parts, Pick(r, words))
		} else {
			parts = append(parts, Pick(r, words[:9]))
		}
	}
	return strings.Join(parts, Pick(r, []string{" ", " ", " ", "\n", "  ", "-"}))
}

var blockTags = []string{"div", "p", "section", "article", "blockquote", "h1", "h2", "h3", "pre", "ul", "ol", "dl", "table", "form", "fieldset", "details", "center", "nav", "address", "figure", "hr"}
var inlineTags = []string{"span", "b", "i", "em", "a", "code", "q", "sub", "sup", "abbr", "small", "u", "font", "br", "img", "input", "button", "select", "textarea", "label", "svg", "x-a", "wbr", "bdo", "ruby", "object", "meter", "progress"}

// PNG1 is a 1x1 PNG as a data URI.
const PNG1 = "data:image/png;base64,iVBORw0KGgoAAAANSUhEUgAAAAEAAAABCAYAAAAfFcSJAAAADUlEQVR42mP8z8BQDwAEhQGAhKmMIQAAAABJRU5ErkJggg=="

var imgSrcs = []string{PNG1, "mem://doc/missing.png", "data:image/svg+xml,%3Csvg xmlns='http://www.w3.org/2000/svg' width='10' height='10'%3E%3Ccircle r='5'/%3E%3C/svg%3E", "data:image/svg+xml,%3Csvg xmlns='http://www.w3.org/2000/svg' viewBox='0 0 0 0'%3E%3Cpath d='M0 0 L'/%3E%3C/svg%3E", "data:image/png;base64,AAAA", "data:,", "", "data:image/svg+xml,<svg", "mem://doc/pic.svg"}

var inlineSVGs = []string{
	`<svg width="20" height="10"><rect width="10" height="5" fill="red"/></svg>`,
	`<svg viewBox="0 0 10 10" preserveAspectRatio="xMaxYMin slice"><path d="M1 1 L5 5 Q 1 2 3 4 T 5 5 A 1 2 30 1 0 4 4 Z" stroke="blue" stroke-dasharray="1 2"/></svg>`,
	`<svg><use href="#u"/><g id="u"><use href="#u"/></g></svg>`,
	`<svg width="10"><defs><linearGradient id="g" href="#g"><stop offset="0" stop-color="red"/></linearGradient></defs><rect width="5" height="5" fill="url(#g)" transform="rotate(30 1 1) skewX(10)"/></svg>`,
	`<svg><text x="1" y="5">svg <tspan dx="1 2">text</tspan></text><circle r="-1"/><ellipse rx="0"/><polygon points="1,2 3"/><line/></svg>`,
	`<svg width="0" height="0" viewBox="0 0 0 0"><path d="M"/><path d="L1 1"/><path d="M0 0 a 0 0 0 0 0 1 1 z"/><rect width="1e40"/></svg>`,
	`<svg><mask id="m"><rect width="1" height="1" mask="url(#m)"/></mask><rect mask="url(#m)" clip-path="url(#nope)" width="2" height="2"/><marker id="k"><path marker-start="url(#k)" d="M0 0 1 1"/></marker><path d="M0 0 L5 5" marker-end="url(#k)"/><pattern id="p" href="#p"/><rect fill="url(#p)" width="3" height="3"/></svg>`,
	`<svg style="width: 5px; bogus"><g transform="matrix(1 2) bogus(3)"><rect width="1" height="1" style="fill: rgb(1,2"/></g><style>rect { stroke: red } @bogus</style></svg>`,
	`<svg><unknown/><a href="#a1"><rect width="5" height="5"/></a><image href="mem://doc/missing.png" width="5" height="5"/><image href="` + PNG1 + `" width="5" height="5"/></svg>`,
}

type docState struct {
	r      *rand.Rand
	elems  int
	max    int
	maxDep int
	sb     strings.Builder
	ids    int
}

func (d *docState) attrs(tag string) string {
	r := d.r
	var a []string
	if r.Intn(5) == 0 {
		d.ids++
		a = append(a, fmt.Sprintf(`id="a%d"`, 1+r.Intn(4)))
	}
	if r.Intn(4) == 0 {
		a = append(a, fmt.Sprintf(`class="c%d%s"`, 1+r.Intn(3), Pick(r, []string{"", " c2", " x"})))
	}
	if r.Intn(3) == 0 {
		a = append(a, `style="`+strings.ReplaceAll(Decls(r, 3), `"`, `'`)+`"`)
	}
	if r.Intn(15) == 0 {
		a = append(a, `title="t &quot;x&quot;"`)
	}
	if r.Intn(25) == 0 {
		a = append(a, `dir="`+Pick(r, []string{"rtl", "ltr", "auto", "x"})+`"`)
	}
	if r.Intn(25) == 0 {
		a = append(a, `lang="`+Pick(r, []string{"en", "fr", "de", "hu", "zz", ""})+`"`)
	}
	num := func() string {
		// spans are kept <= 200: table layout is cubic in the grid width, so larger (legal) spans are slow
		// without being a termination defect; huge values are exercised by C07's attribute workload
		return Pick(r, []string{"0", "1", "2", "3", "7", "-1", "100", "200", "1.5", "x", "", "2x", " 2 ", "+2", "0x10", "1e2", "50%", "*"})
	}
	switch tag {
	case "td", "th":
		if r.Intn(3) == 0 {
			a = append(a, `colspan="`+num()+`"`)
		}
		if r.Intn(3) == 0 {
			a = append(a, `rowspan="`+num()+`"`)
		}
	case "col", "colgroup":
		if r.Intn(2) == 0 {
			a = append(a, `span="`+num()+`"`)
		}
	case "ol":
		if r.Intn(2) == 0 {
			a = append(a, `start="`+num()+`"`)
		}
		if r.Intn(4) == 0 {
			a = append(a, `type="`+Pick(r, []string{"a", "A", "i", "I", "1", "x"})+`"`)
		}
		if r.Intn(6) == 0 {
			a = append(a, "reversed")
		}
	case "li":
		if r.Intn(4) == 0 {
			a = append(a, `value="`+num()+`"`)
		}
	case "a":
		a = append(a, `href="`+Pick(r, []string{"#a1", "#a2", "#a3", "#missing", "#", "http://example.invalid/x", "mem://doc/x.html#a1", "", "javascript:void(0)", "%zz", "#a%201"})+`"`)
		if r.Intn(6) == 0 {
			a = append(a, `rel="attachment"`)
		}
	case "img", "object", "embed":
		k := "src"
		if tag == "object" {
			k = "data"
		}
		a = append(a, k+`="`+Pick(r, imgSrcs)+`"`)
		if r.Intn(3) == 0 {
			a = append(a, `alt="alt text"`)
		}
	case "input":
		a = append(a, `type="`+Pick(r, []string{"text", "checkbox", "radio", "submit", "hidden", "password", "range", "bogus"})+`"`)
		if r.Intn(2) == 0 {
			a = append(a, `value="v" size="`+num()+`"`)
		}
	case "textarea":
		if r.Intn(2) == 0 {
			a = append(a, `rows="`+num()+`" cols="`+num()+`"`)
		}
	case "font":
		a = append(a, `size="`+Pick(r, []string{"1", "7", "+2", "-3", "x", "100"})+`" color="red" face="Ahem"`)
	case "meter", "progress":
		a = append(a, `value="`+num()+`" max="`+num()+`"`)
	}
	// presentational attributes
	if r.Intn(8) == 0 {
		a = append(a, Pick(r, []string{`width="`, `height="`, `border="`, `cellspacing="`, `cellpadding="`, `hspace="`, `vspace="`})+num()+`"`)
	}
	if r.Intn(12) == 0 {
		a = append(a, Pick(r, []string{`align="center"`, `align="right"`, `align="bogus"`, `valign="middle"`, `bgcolor="#f00"`, `bgcolor="bogus"`, `background="mem://doc/missing.png"`, `nowrap`, `hidden`, `bordercolor="blue"`, `text="green"`, `link="blue"`}))
	}
	if len(a) == 0 {
		return ""
	}
	return " " + strings.Join(a, " ")
}

func (d *docState) element(depth int, tag string) {
	r := d.r
	d.elems++
	switch tag {
	case "br", "hr", "wbr":
		d.sb.WriteString("<" + tag + d.attrs(tag) + ">")
		return
	case "img", "input":
		d.sb.WriteString("<" + tag + d.attrs(tag) + ">")
		return
	case "svg":
		d.sb.WriteString(Pick(r, inlineSVGs))
		return
	}
	d.sb.WriteString("<" + tag + d.attrs(tag) + ">")
	switch tag {
	case "table":
		d.table(depth)
	case "ul", "ol":
		n := 1 + r.Intn(4)
		for i := 0; i < n && d.elems < d.max; i++ {
			d.element(depth+1, "li")
		}
	case "dl":
		for i := 0; i < 2 && d.elems < d.max; i++ {
			d.element(depth+1, Pick(r, []string{"dt", "dd"}))
		}
	case "select":
		for i := 0; i < 2 && d.elems < d.max; i++ {
			d.elems++
			d.sb.WriteString("<option" + Pick(r, []string{"", " selected"}) + ">" + Text(r, 2) + "</option>")
		}
	case "textarea", "button", "label":
		d.sb.WriteString(Text(r, 3))
	case "details":
		d.element(depth+1, "summary")
		d.children(depth + 1)
	case "fieldset":
		d.element(depth+1, "legend")
		d.children(depth + 1)
	case "ruby":
		d.sb.WriteString(Text(r, 1) + "<rt>" + Text(r, 1) + "</rt>")
	default:
		d.children(depth + 1)
	}
	if r.Intn(30) != 0 { // sometimes leave unclosed
		d.sb.WriteString("</" + tag + ">")
	}
}

func (d *docState) children(depth int) {
	r := d.r
	n := r.Intn(5)
	if depth >= d.maxDep {
		n = 0
	}
	if n == 0 || r.Intn(3) == 0 {
		d.sb.WriteString(Text(r, 6))
	}
	for i := 0; i < n && d.elems < d.max; i++ {
		if r.Intn(2) == 0 {
			d.element(depth, Pick(r, blockTags))
		} else {
			d.element(depth, Pick(r, inlineTags))
		}
		if r.Intn(2) == 0 {
			d.sb.WriteString(" " + Text(r, 4) + " ")
		}
	}
}

func (d *docState) table(depth int) {
	r := d.r
	if r.Intn(4) == 0 {
		d.elems++
		d.sb.WriteString("<caption" + d.attrs("caption") + ">" + Text(r, 3) + "</caption>")
	}
	if r.Intn(4) == 0 {
		d.elems++
		d.sb.WriteString("<colgroup" + d.attrs("colgroup") + "><col" + d.attrs("col") + "></colgroup>")
	}
	rows := 1 + r.Intn(4)
	sections := []string{"", "thead", "tbody", "tfoot"}
	sec := ""
	for i := 0; i < rows && d.elems < d.max; i++ {
		if r.Intn(3) == 0 {
			if sec != "" {
				d.sb.WriteString("</" + sec + ">")
			}
			sec = Pick(r, sections)
			if sec != "" {
				d.elems++
				d.sb.WriteString("<" + sec + d.attrs(sec) + ">")
			}
		}
		d.elems++
		d.sb.WriteString("<tr" + d.attrs("tr") + ">")
		cells := 1 + r.Intn(4)
		for j := 0; j < cells && d.elems < d.max; j++ {
			tag := Pick(r, []string{"td", "td", "th"})
			d.elems++
			d.sb.WriteString("<" + tag + d.attrs(tag) + ">")
			if depth < d.maxDep-1 && r.Intn(5) == 0 {
				d.children(depth + 2)
			} else {
				d.sb.WriteString(Text(r, 3))
			}
			d.sb.WriteString("</" + tag + ">")
		}
		d.sb.WriteString("</tr>")
	}
	if sec != "" {
		d.sb.WriteString("</" + sec + ">")
	}
	if r.Intn(10) == 0 { // mis-nested table parts
		d.sb.WriteString("<td>" + Text(r, 2) + "</td><div>" + Text(r, 2) + "</div>")
	}
}

// Doc is a generated document.
type Doc struct {
	HTML    string            `json:"html"`
	UserCSS []string          `json:"user_css,omitempty"`
	Hints   bool              `json:"hints,omitempty"`
	Engine  string            `json:"engine,omitempty"`
	Zoom    float32           `json:"zoom,omitempty"`
	Files   map[string]string `json:"files,omitempty"`
}

// HTMLDoc generates one bounded hostile document.
func HTMLDoc(r *rand.Rand) Doc {
	d := &docState{r: r, max: 10 + r.Intn(70), maxDep: 3 + r.Intn(5)}
	var head strings.Builder
	if r.Intn(10) != 0 {
		head.WriteString("<!DOCTYPE html>")
	}
	if r.Intn(15) == 0 {
		head.WriteString("<!-- leading comment -->")
	}
	head.WriteString("<html" + Pick(r, []string{"", ` lang="en"`, ` lang="fr" dir="rtl"`, ` style="` + strings.ReplaceAll(Decls(r, 2), `"`, `'`) + `"`}) + "><head>")
	if r.Intn(3) == 0 {
		head.WriteString("<title>" + Text(r, 3) + "</title>")
	}
	if r.Intn(6) == 0 {
		head.WriteString(`<meta name="author" content="A &amp; B"><meta name="keywords" content="k1, k2"><meta name="description" content=" d  e "><meta name="generator" content="g"><meta name="dcterms.created" content="` + Pick(r, []string{"2020-01-02", "2020-01-02T03:04:05Z", "bogus", ""}) + `">`)
	}
	if r.Intn(8) == 0 {
		head.WriteString(`<link rel="stylesheet" href="` + Pick(r, []string{"mem://doc/extra.css", "mem://doc/missing.css", "extra.css", ""}) + `">`)
	}
	if r.Intn(15) == 0 {
		head.WriteString(`<base href="` + Pick(r, []string{"mem://doc/sub/", "http://example.invalid/", "%%", ""}) + `">`)
	}
	if r.Intn(10) == 0 {
		head.WriteString(`<link rel="attachment" href="` + Pick(r, []string{"data:text/plain,hello", "mem://doc/missing.bin", ""}) + `" title="att">`)
	}
	nsheets := r.Intn(3)
	// a base sheet that makes most documents multi-page and metric exact
	base := Pick(r, []string{
		"@page { size: 200px 150px; margin: 10px } body { font: 10px/1.2 Ahem }",
		"@page { size: 120px 100px; margin: 5px } body { font: 8px Ahem; margin: 0 }",
		"@page { size: A5; margin: 1cm } body { font: 16px weasyprint }",
		"body { font: 12px Ahem }",
		"@page { size: 30px 20px; margin: 0 } body { font: 10px/1 Ahem; margin: 0 }",
		"@page { size: 300px 200px; margin: 20px; @bottom-center { content: counter(page) \"/\" counter(pages) } @top-left { content: string(hd) } } body { font: 10px Ahem }",
		"",
	})
	head.WriteString("<style>" + base + "</style>")
	for i := 0; i < nsheets; i++ {
		var sheet []string
		for k := 0; k < 1+r.Intn(6); k++ {
			sheet = append(sheet, Rule(r))
		}
		head.WriteString("<style" + Pick(r, []string{"", "", ` media="print"`, ` media="screen"`, ` type="text/css"`}) + ">" + strings.Join(sheet, "\n") + "</style>")
	}
	head.WriteString("</head><body" + d.attrs("body") + ">")
	d.sb.WriteString(head.String())
	for d.elems < d.max && d.sb.Len() < 3500 {
		d.element(1, Pick(r, blockTags))
		if r.Intn(3) == 0 {
			d.sb.WriteString(Text(r, 5))
		}
	}
	if r.Intn(20) == 0 {
		// counter-style reference graphs (fallback / extends chains, with cycles) actually used by list markers
		names := []string{"ga", "gb", "gc"}
		var rules []string
		for _, n := range names {
			sys := Pick(r, []string{"fixed", "fixed 2", "cyclic", "numeric", "alphabetic", "additive", "symbolic", "extends " + Pick(r, names), "extends decimal"})
			body := "system: " + sys + "; "
			if strings.HasPrefix(sys, "additive") {
				body += `additive-symbols: 2 "B", 1 "A"; `
			} else if !strings.HasPrefix(sys, "extends") {
				body += Pick(r, []string{`symbols: "x"; `, `symbols: "x" "y"; `, `symbols: "0" "1"; `})
			}
			body += Pick(r, []string{"", "range: 1 2; ", "range: infinite 1; ", "pad: 3 \"0\"; "})
			body += "fallback: " + Pick(r, append(names, "decimal", "nope")) + ";"
			rules = append(rules, "@counter-style "+n+" { "+body+" }")
		}
		d.sb.WriteString("<style>" + strings.Join(rules, " ") + "</style><ol style=\"list-style-type: " + Pick(r, names) + "\" start=\"" + Pick(r, []string{"1", "0", "-2", "5"}) + "\"><li>a</li><li>b</li><li>c</li><li>d</li></ol><p style=\"counter-reset: q 7\">x<span style=\"content: counter(q, " + Pick(r, names) + ")\"></span><q style=\"quotes: none\"></q></p><p class=\"cs\">y</p><style>.cs::before { content: counter(q, " + Pick(r, names) + ") counters(q, \".\", " + Pick(r, names) + ") }</style>")
	}
	if r.Intn(10) == 0 {
		d.sb.WriteString(degenerateFloats(r))
	}
	if r.Intn(10) == 0 {
		d.sb.WriteString(quoteStress(r))
	}
	if r.Intn(12) == 0 {
		d.sb.WriteString(collapsedBorderStress(r))
	}
	if r.Intn(12) == 0 {
		d.sb.WriteString(svgStrokeStress(r))
	}
	if r.Intn(10) != 0 {
		d.sb.WriteString("</body></html>")
	}
	doc := Doc{HTML: d.sb.String()}
	if r.Intn(4) == 0 {
		var sheet []string
		for k := 0; k < 1+r.Intn(3); k++ {
			sheet = append(sheet, Rule(r))
		}
		doc.UserCSS = []string{strings.Join(sheet, "\n")}
	}
	doc.Hints = r.Intn(2) == 0
	doc.Files = map[string]string{
		"extra.css": Rule(r) + "\n" + Rule(r),
		"pic.svg":   `<svg xmlns="http://www.w3.org/2000/svg" width="8" height="8"><rect width="4" height="4" fill="green"/></svg>`,
	}
	return doc
}

// degenerateFloats writes a block of floats with degenerate geometry: zero or cancelled heights
// (negative margins), zero / full / over-full widths, empty floats, clears, next to lines and
// inline-blocks that do not fit beside them; sometimes on a page and body without margins, where
// empty floats sit at the very top.
func degenerateFloats(r *rand.Rand) string {
	var sb strings.Builder
	sb.WriteString("<!--gen:degenerate-floats-->")
	if r.Intn(3) == 0 {
		sb.WriteString("<style>@page { margin: 0 } html, body { margin: 0; padding: 0 }</style>")
	}
	sb.WriteString(`<div style="width: ` + Pick(r, []string{"100px", "60px", "auto", "0", "100%"}) + `">`)
	n := 2 + r.Intn(5)
	for i := 0; i < n; i++ {
		st := "float: " + Pick(r, []string{"left", "left", "right"}) + "; width: " + Pick(r, []string{"0", "50%", "100%", "120%", "30px", "60px", "auto", "1px"}) + "; "
		switch r.Intn(7) {
		case 0:
			st += "height: 0; "
		case 1:
			h := Pick(r, []string{"10px", "20px", "5px"})
			st += "height: " + h + "; margin-bottom: -" + h + "; "
		case 2:
			h := Pick(r, []string{"10px", "20px"})
			st += "height: " + h + "; margin-top: -" + h + "; "
		case 3:
			st += "height: 10px; margin-bottom: " + Pick(r, []string{"-5px", "-15px", "-100px"}) + "; "
		case 4:
			st += "height: " + Pick(r, []string{"10px", "1px", "100px"}) + "; "
		}
		if r.Intn(4) == 0 {
			st += "clear: " + Pick(r, []string{"left", "right", "both"}) + "; "
		}
		if r.Intn(5) == 0 {
			st += "margin-left: " + Pick(r, []string{"-10px", "-100%", "10px"}) + "; "
		}
		sb.WriteString(`<div style="` + st + `">` + Pick(r, []string{"", "", "", "x", "word word", "<img src=\"mem://doc/pic.svg\">"}) + `</div>`)
		if r.Intn(3) == 0 {
			sb.WriteString(Pick(r, []string{"text ", "supercalifragilistic ", `<span style="display: inline-block; width: 80%">ib</span> `, `<p style="clear: both">p</p>`, `<br>`, `<div style="overflow: hidden; width: 90%">bfc</div>`}))
		}
	}
	sb.WriteString(Pick(r, []string{"tail text after the floats", "", `<p>para</p>`, `<div style="float: left; width: 100%">last</div>`}) + "</div>")
	return sb.String()
}

// quoteStress writes elements whose generated content mixes the four quote keywords in unbalanced
// sequences, under quotes: none / auto / one pair / two pairs, with nested <q> elements.
func quoteStress(r *rand.Rand) string {
	kw := []string{"open-quote", "close-quote", "no-open-quote", "no-close-quote", "\"s\"", "counter(c)", "attr(title)"}
	list := func() string {
		n := 1 + r.Intn(4)
		var p []string
		for i := 0; i < n; i++ {
			p = append(p, Pick(r, kw))
		}
		return strings.Join(p, " ")
	}
	var sb strings.Builder
	sb.WriteString("<!--gen:quote-stress--><style>")
	for _, c := range []string{"qa", "qb", "qc"} {
		sb.WriteString("." + c + "::before { content: " + list() + " } ." + c + "::after { content: " + list() + " } ." + c + " { quotes: " + Pick(r, []string{"auto", "none", "none", "\"<\" \">\"", "\"a\" \"b\" \"c\" \"d\"", "inherit"}) + " } ")
	}
	if r.Intn(3) == 0 {
		sb.WriteString("q { quotes: " + Pick(r, []string{"none", "\"[\" \"]\"", "auto"}) + " } q::before { content: " + list() + " } ")
	}
	sb.WriteString("</style>")
	n := 2 + r.Intn(6)
	for i := 0; i < n; i++ {
		c := Pick(r, []string{"qa", "qb", "qc"})
		switch r.Intn(4) {
		case 0:
			sb.WriteString(`<q class="` + c + `">in <q>nested <q lang="` + Pick(r, []string{"fr", "en", "de", "zz", ""}) + `">deep</q></q></q> `)
		case 1:
			sb.WriteString(`<span class="` + c + `" title="t">s</span> `)
		case 2:
			sb.WriteString(`<q>plain</q> `)
		default:
			sb.WriteString(`<p class="` + c + `">p <q class="` + Pick(r, []string{"qa", "qb", "qc"}) + `">q</q></p>`)
		}
	}
	return sb.String()
}

// collapsedBorderStress writes tables in the collapsing border model whose grid has degenerate
// segments: empty and zero-height rows, empty cells, zero-width columns, every border style
// (two-pass styles ridge / groove / double included) and widths from 0 to thick on table, rows, cells.
func collapsedBorderStress(r *rand.Rand) string {
	styles := []string{"solid", "ridge", "groove", "double", "dotted", "dashed", "inset", "outset", "hidden", "none"}
	border := func() string {
		return Pick(r, []string{"0", "1px", "2px", "5px", "thick", "thin"}) + " " + Pick(r, styles) + " " + Pick(r, []string{"red", "blue", "black", "transparent"})
	}
	var sb strings.Builder
	sb.WriteString("<!--gen:collapsed-borders--><table style=\"border-collapse: collapse; border: " + border() + "; width: " + Pick(r, []string{"auto", "100px", "0", "100%"}) + "\">")
	if r.Intn(3) == 0 {
		sb.WriteString("<col style=\"width: 0; border: " + border() + "\"><col>")
	}
	rows := 1 + r.Intn(4)
	for i := 0; i < rows; i++ {
		switch r.Intn(4) {
		case 0:
			sb.WriteString("<tr style=\"border: " + border() + "\"></tr>")
			continue
		case 1:
			sb.WriteString("<tr style=\"height: 0; border: " + border() + "\">")
		default:
			sb.WriteString("<tr>")
		}
		cells := 1 + r.Intn(3)
		for j := 0; j < cells; j++ {
			st := "border: " + border()
			if r.Intn(3) == 0 {
				st += "; border-" + Pick(r, []string{"left", "right", "top", "bottom"}) + ": " + border()
			}
			if r.Intn(4) == 0 {
				st += "; padding: 0; height: 0; width: 0"
			}
			sb.WriteString("<td style=\"" + st + "\"" + Pick(r, []string{"", "", " rowspan=2", " colspan=2"}) + ">" + Pick(r, []string{"", "", "x", "cell"}) + "</td>")
		}
		sb.WriteString("</tr>")
	}
	sb.WriteString("</table>")
	return sb.String()
}

// svgStrokeStress writes an inline SVG whose shapes carry degenerate stroke dashing: all-zero,
// negative, odd-count and huge dash arrays with negative / huge offsets, zero and negative widths.
func svgStrokeStress(r *rand.Rand) string {
	var sb strings.Builder
	sb.WriteString("<!--gen:svg-stroke--><svg width=\"60\" height=\"40\" viewBox=\"0 0 60 40\">")
	n := 1 + r.Intn(4)
	for i := 0; i < n; i++ {
		attrs := " stroke=\"" + Pick(r, []string{"red", "blue", "none", "currentColor"}) + "\" stroke-width=\"" + Pick(r, []string{"1", "0", "3", "-1", "1e3"}) + "\" stroke-dasharray=\"" + Pick(r, []string{"0 0", "0", "0,0,0", "1 0", "0 1", "5 2", "5 2 1", "none", "-1 2", "1e30 1", "0.0001", "5%"}) + "\" stroke-dashoffset=\"" + Pick(r, []string{"-1", "-5", "0", "3", "1e30", "-1e30", "-0.5", "50%"}) + "\" stroke-linecap=\"" + Pick(r, []string{"butt", "round", "square"}) + "\""
		switch r.Intn(4) {
		case 0:
			sb.WriteString("<line x1=\"0\" y1=\"" + Pick(r, []string{"5", "10"}) + "\" x2=\"50\" y2=\"10\"" + attrs + "/>")
		case 1:
			sb.WriteString("<rect x=\"2\" y=\"2\" width=\"" + Pick(r, []string{"20", "0"}) + "\" height=\"10\" fill=\"none\"" + attrs + "/>")
		case 2:
			sb.WriteString("<path d=\"M5 5 L30 30 L5 30 Z\" fill=\"none\"" + attrs + "/>")
		default:
			sb.WriteString("<circle cx=\"20\" cy=\"20\" r=\"" + Pick(r, []string{"8", "0"}) + "\" fill=\"none\"" + attrs + "/>")
		}
	}
	sb.WriteString("</svg>")
	return sb.String()
}
