// Package gen holds the seeded generators.
package gen

import (
	"fmt"
	"math/rand"
	"strings"
)

// Pick returns a random element.
func Pick[T any](r *rand.Rand, xs []T) T { return xs[r.Intn(len(xs))] }

// hostile code points for names / strings / urls
var hostileRunes = []rune{
	1, 2, 8, 9, 0xA, 0xB, 0xC, 0xD, 0xE, 0x1F, ' ', '!', '"', '#', '$', '%', '&', '\'', '(', ')', '*', '+', ',', '-', '.', '/',
	'0', '1', '7', '9', ':', ';', '<', '=', '>', '?', '@', 'A', 'E', 'F', 'G', 'Z', '[', '\\', ']', '^', '_', '`', 'a', 'e', 'f', 'g', 'u', 'z',
	'{', '|', '}', '~', 0x7F, 0x80, 0xE9, 0x2028, 0xFFFD, 0x1F600, 0x10FFFF,
}

func randValue(r *rand.Rand, maxLen int) []rune {
	n := r.Intn(maxLen + 1)
	out := make([]rune, n)
	for i := range out {
		switch r.Intn(4) {
		case 0:
			out[i] = rune('a' + r.Intn(26))
		case 1:
			out[i] = Pick(r, []rune{'-', '0', '1', '9', 'e', 'E', '_', 'a', 'f', 'g'})
		default:
			out[i] = Pick(r, hostileRunes)
		}
	}
	return out
}

func hexEsc(c rune, r *rand.Rand) string {
	switch r.Intn(4) {
	case 0:
		return fmt.Sprintf("\\%06x", c) // six digits: no terminator needed
	case 1:
		return fmt.Sprintf("\\%X ", c)
	case 2:
		return fmt.Sprintf("\\%x\n", c)
	}
	return fmt.Sprintf("\\%x\t", c)
}

func isNameStart(c rune) bool {
	return c == '_' || c >= 'a' && c <= 'z' || c >= 'A' && c <= 'Z' || c > 0x7F
}

func isNameChar(c rune) bool { return isNameStart(c) || c == '-' || c >= '0' && c <= '9' }

// EscIdent renders value as CSS text that tokenizes to an identifier with exactly that value.
// value must be non-empty.
func EscIdent(r *rand.Rand, value []rune) string {
	var sb strings.Builder
	for i, c := range value {
		raw := isNameChar(c)
		if i == 0 && !(isNameStart(c) || c == '-') {
			raw = false
		}
		if i == 1 && value[0] == '-' && !(isNameStart(c) || c == '-') {
			raw = false
		}
		if len(value) == 1 && c == '-' {
			raw = false
		}
		if raw && r.Intn(8) == 0 {
			raw = false
		}
		if raw {
			sb.WriteRune(c)
		} else if c > ' ' && c < 0x7F && !strings.ContainsRune("0123456789abcdefABCDEF", c) && r.Intn(2) == 0 {
			sb.WriteString("\\" + string(c))
		} else {
			sb.WriteString(hexEsc(c, r))
		}
	}
	return sb.String()
}

// EscName renders a name (hash value): like an identifier but any name character may come first.
func EscName(r *rand.Rand, value []rune) string {
	var sb strings.Builder
	for _, c := range value {
		if isNameChar(c) && r.Intn(8) != 0 {
			sb.WriteRune(c)
		} else {
			sb.WriteString(hexEsc(c, r))
		}
	}
	return sb.String()
}

// EscString renders a quoted string with the given value.
func EscString(r *rand.Rand, value []rune) string {
	q := Pick(r, []rune{'"', '\''})
	var sb strings.Builder
	sb.WriteRune(q)
	for _, c := range value {
		switch {
		case c == q || c == '\\' || c == '\n' || c == '\r' || c == '\f':
			sb.WriteString(hexEsc(c, r))
		case r.Intn(10) == 0:
			sb.WriteString(hexEsc(c, r))
		default:
			sb.WriteRune(c)
		}
	}
	sb.WriteRune(q)
	return sb.String()
}

// EscURL renders an unquoted url( ) token with the given value.
func EscURL(r *rand.Rand, value []rune) string {
	var sb strings.Builder
	sb.WriteString(Pick(r, []string{"url(", "URL(", "url( ", "Url(\n"}))
	for _, c := range value {
		if c <= ' ' || c == 0x7F || strings.ContainsRune("\"'()\\", c) || r.Intn(10) == 0 {
			sb.WriteString(hexEsc(c, r))
		} else {
			sb.WriteRune(c)
		}
	}
	sb.WriteString(Pick(r, []string{")", " )", "\t)"}))
	return sb.String()
}

var numbers = []string{"0", "-0", "+0", "1", "+1", "-1", "007", "1.5", ".5", "-.5", "+.5", "1.0", "1e3", "1E3", "1e+3", "1e-3", "+.5e+2", "12.50", "4e9", "1e38", "1e39", "1e-46", "3.4028235e38", "0.1", "100", "2147483648", "9999999999999999999"}

var units = []string{"px", "em", "e", "E", "e3", "E3", "e-3", "e-", "e-x", "E-3", "ex", "x", "-x", "--x", "_", "é", "e\\33 ", "\\65 3", "\\-", "-\\-", "n", "n-1", "n-", "deg", "Q"}

var delims = []string{"!", "#", "$", "%", "&", "*", "+", ",", "-", ".", "/", ":", ";", "<", "=", ">", "?", "@", "^", "`", "|", "~", "~=", "|=", "^=", "$=", "*=", "||", "<!--", "-->", "\\\n"}

// CleanToken emits the source text of one (valid) token; depth bounds block nesting.
func CleanToken(r *rand.Rand, depth int) string {
	k := r.Intn(17)
	if depth <= 0 && k >= 13 {
		k = r.Intn(13)
	}
	nonEmpty := func() []rune {
		v := randValue(r, 5)
		if len(v) == 0 {
			v = []rune{Pick(r, hostileRunes)}
		}
		return v
	}
	switch k {
	case 0:
		return EscIdent(r, nonEmpty())
	case 1:
		return "@" + EscIdent(r, nonEmpty())
	case 2:
		if r.Intn(2) == 0 {
			return "#" + EscIdent(r, nonEmpty())
		}
		return "#" + EscName(r, nonEmpty())
	case 3:
		return EscString(r, randValue(r, 6))
	case 4:
		return EscURL(r, randValue(r, 6))
	case 5:
		return Pick(r, numbers)
	case 6:
		return Pick(r, numbers) + "%"
	case 7:
		if r.Intn(3) == 0 {
			return Pick(r, numbers) + EscIdent(r, nonEmpty())
		}
		return Pick(r, numbers) + Pick(r, units)
	case 8, 9:
		return Pick(r, delims)
	case 10:
		return Pick(r, []string{" ", "\n", "\t", "  ", " \n\t", "\r\n", "\f"})
	case 11:
		return Pick(r, []string{"/**/", "/* c */", "/*/*/", "/***/", "/*\n*/", "/* \" */"})
	case 12:
		return Pick(r, []string{"U+1F", "u+0-7F", "U+4??", "u+a", "U+10FFFF", "u+0-10ffff", "U+?", "u+1-2"})
	case 13:
		return "(" + CleanList(r, depth-1, 3) + ")"
	case 14:
		return "[" + CleanList(r, depth-1, 3) + "]"
	case 15:
		return "{" + CleanList(r, depth-1, 3) + "}"
	default:
		return EscIdent(r, nonEmpty()) + "(" + CleanList(r, depth-1, 3) + ")"
	}
}

// CleanList emits up to n tokens separated at random by nothing, a space or a comment.
func CleanList(r *rand.Rand, depth, n int) string {
	var sb strings.Builder
	k := r.Intn(n + 1)
	for i := 0; i < k; i++ {
		sb.WriteString(CleanToken(r, depth))
		switch r.Intn(6) {
		case 0:
			sb.WriteString(" ")
		case 1:
			sb.WriteString("/**/")
		}
	}
	return sb.String()
}

// soup fragments biased to tokenizer boundaries
var soup = []string{
	"-", "--", "-\\", "\\", "\\\n", "+.5e-3x", "1e", "1e+", "1e-", "1e+x", "#", "#-", "#--", "#-\\", "#\\", "#1", "@", "@-", "@--", "@-\\", "@\\\n", "@a",
	"url(", "url( ", "url(a", "url(a ", "url(a b", "url(\"", "url('a'", "url(\"a\" b)", "url(a\"b)", "url(a(b)", "url(\\)", "url(a\\", "url(\x01)", "url(a b)c)", "URL(x)", "url(  'x'  )",
	"\"", "'", "\"a", "'a\\", "\"a\nb\"", "'a\\\nb'", "\"\\\"", "/*", "/* a", "/**", "*/", "/*/", "(", "[", "{", ")", "]", "}", "(]", "[)", "{]", "({[",
	"\r", "\n", "\f", "\r\n", "\x00", "<!--", "-->", "<!-", "--", "->", "\\0", "\\110000", "\\d800", "\\FFFFFF", "\\41", "\\41 ", "\\41  b", "\\000041b", "\\g", "\\\\",
	"é", "\u2028", "\U0001F600", "\uFFFD", "a", "b", "-a", "--a", "a-", "_", "1", ".", ".5", "5.", "+", "+1", "-1", "-.5", "1-", "1--", "1px", "1e3", "1e3x", "1%", "%", "!", "!important", "! important", "!/**/important", ":", ";", ",", " ", "  ", "\t",
	"~=", "|=", "^=", "$=", "*=", "||", "|", "~", "=", "a(", "a()", "a(b", "calc(1 + 2)", "rgb(1,2,3)", "@media", "@import", "a:b", "a:b;", "a{b:c}", "a{b:c", "@x{", "@x;", "@x y;", "b:c!important", "b : c ! IMPORTANT ;", "{}", "{a:b}", "a,b{c:d}", ";;", "&", "&:hover{a:b}", "--x:{a}", "--x:;",
}

// Soup returns hostile CSS text of up to n fragments.
func Soup(r *rand.Rand, n int) string {
	var sb strings.Builder
	k := 1 + r.Intn(n)
	for i := 0; i < k; i++ {
		switch r.Intn(10) {
		case 0:
			sb.WriteString(CleanToken(r, 2))
		case 1:
			sb.WriteRune(Pick(r, hostileRunes))
		default:
			sb.WriteString(Pick(r, soup))
		}
	}
	return sb.String()
}

// Alphabet14 is the alphabet of the exhaustive short-string sweep.
var Alphabet14 = []string{"a", "-", "\\", "\"", "'", "(", ")", "{", "}", "/", "*", "1", ".", "\n"}

// Alphabet2 is a second alphabet (declaration/rule level).
var Alphabet2 = []string{"a", ":", ";", "{", "}", "!", "important", " ", "@", ",", "#", "e", "url(", "%"}

// NthString returns the i-th string over the alphabet in length-lexicographic order, and whether i
// is within strings of length <= maxLen.
func NthString(alpha []string, i, maxLen int) (string, bool) {
	k := len(alpha)
	for l, cnt := 0, 1; l <= maxLen; l, cnt = l+1, cnt*k {
		if i < cnt {
			var parts []string
			for j := 0; j < l; j++ {
				parts = append(parts, alpha[i%k])
				i /= k
			}
			return strings.Join(parts, ""), true
		}
		i -= cnt
	}
	return "", false
}

// CountStrings is the number of strings of length <= maxLen.
func CountStrings(k, maxLen int) int {
	n, c := 0, 1
	for l := 0; l <= maxLen; l++ {
		n += c
		c *= k
	}
	return n
}
