// Package wr wraps the webrender public API for the harness: font setup, in-memory fetcher, render.
package wr

import (
	"fmt"
	"io"
	"log"
	"os"
	"path/filepath"
	"sync"

	fc "github.com/benoitkugler/textprocessing/fontconfig"
	"github.com/benoitkugler/textprocessing/pango/fcfonts"
	"github.com/benoitkugler/webrender/text"
	"github.com/go-text/typesetting/fontscan"
)

// FontDir is the directory scanned for test fonts (Ahem, weasyprint.otf).
var FontDir = "/repo/resources_test"

var (
	fsOnce sync.Once
	fsBase fc.Fontset
	fsErr  error
)

func baseFontset() (fc.Fontset, error) {
	fsOnce.Do(func() {
		fsBase, fsErr = fc.Standard.Copy().ScanFontDirectories(FontDir)
	})
	return fsBase, fsErr
}

// NewPangoConfig returns a fresh pango font configuration (own font map) over the test fonts.
func NewPangoConfig() (text.FontConfiguration, error) {
	fs, err := baseFontset()
	if err != nil {
		return nil, err
	}
	cp := append(fc.Fontset(nil), fs...)
	return text.NewFontConfigurationPango(fcfonts.NewFontMap(fc.Standard.Copy(), cp)), nil
}

// NewGotextConfig returns a fresh go-text font configuration over the test fonts.
func NewGotextConfig() (text.FontConfiguration, error) {
	fm := fontscan.NewFontMap(log.New(io.Discard, "", 0))
	files, _ := filepath.Glob(filepath.Join(FontDir, "*.[ot]t[fF]"))
	more, _ := filepath.Glob(filepath.Join(FontDir, "*.TTF"))
	files = append(files, more...)
	n := 0
	for _, f := range files {
		fh, err := os.Open(f)
		if err != nil {
			continue
		}
		if err := fm.AddFont(fh, f, ""); err == nil {
			n++
		}
		fh.Close()
	}
	if n == 0 {
		return nil, fmt.Errorf("no font loaded from %s", FontDir)
	}
	return text.NewFontConfigurationGotext(fm), nil
}
