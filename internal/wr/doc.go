package wr

import (
	"bytes"
	"fmt"
	"io"
	"strings"
	"sync"

	"github.com/benoitkugler/webrender/backend"
	bo "github.com/benoitkugler/webrender/html/boxes"
	"github.com/benoitkugler/webrender/html/document"
	"github.com/benoitkugler/webrender/html/layout"
	"github.com/benoitkugler/webrender/html/tree"
	"github.com/benoitkugler/webrender/logger"
	"github.com/benoitkugler/webrender/text"
	"github.com/benoitkugler/webrender/utils"

	"verif/internal/rec"
)

// Opts describes one render.
type Opts struct {
	HTML    string
	UserCSS []string               // user-origin style sheets
	Hints   bool                   // presentational hints
	Engine  string                 // "pango" (default) or "gotext"
	Zoom    float32                // default 1
	BaseURL string                 // default "mem://doc/"
	Files   map[string]string      // in-memory resources served under mem://doc/<name>
	Fonts   text.FontConfiguration // optional: reuse a configuration
	NoWrite bool                   // layout only (no drawing)
	// NoProgressMonitor leaves layout.VerifPageHook alone (concurrent renders: the hook is a global)
	NoProgressMonitor bool
	// Phase, when not nil, is set to "parse", "layout" and then "write" as the render advances, so that a
	// caller that recovers a panic knows where it came from
	Phase *string
}

// Rendered is everything observable from one render.
type Rendered struct {
	HTML     *tree.HTML
	Document document.Document
	Pages    []*bo.PageBox
	Rec      *rec.Doc
	Warnings []string
}

// MemFetcher serves data: URIs (through webrender's own decoder) and mem:// resources; anything else
// is an error, so no check ever touches the network or the file system.
func MemFetcher(files map[string]string) utils.UrlFetcher {
	return func(url string) (utils.RemoteRessource, error) {
		if strings.HasPrefix(strings.ToLower(url), "data:") {
			return utils.DefaultUrlFetcher(url)
		}
		if strings.HasPrefix(url, "mem://doc/") {
			name := strings.TrimPrefix(url, "mem://doc/")
			if k := strings.IndexAny(name, "#?"); k >= 0 {
				name = name[:k]
			}
			if c, ok := files[name]; ok {
				mime := "application/octet-stream"
				switch {
				case strings.HasSuffix(name, ".css"):
					mime = "text/css"
				case strings.HasSuffix(name, ".svg"):
					mime = "image/svg+xml"
				case strings.HasSuffix(name, ".png"):
					mime = "image/png"
				case strings.HasSuffix(name, ".html"):
					mime = "text/html"
				}
				return utils.RemoteRessource{Content: bytes.NewReader([]byte(c)), MimeType: mime, RedirectedUrl: url}, nil
			}
		}
		return utils.RemoteRessource{}, fmt.Errorf("resource not available: %s", url)
	}
}

var logMu sync.Mutex

// warnBuf collects logger output; webrender's loggers are process globals.
type warnBuf struct {
	mu  sync.Mutex
	buf bytes.Buffer
}

func (w *warnBuf) Write(p []byte) (int, error) {
	w.mu.Lock()
	defer w.mu.Unlock()
	return w.buf.Write(p)
}

// CaptureWarnings redirects the warning logger into a buffer and silences the progress logger.
// The returned function restores nothing (the harness owns the process) and returns the lines.
func CaptureWarnings() func() []string {
	wb := &warnBuf{}
	logMu.Lock()
	logger.WarningLogger.SetOutput(wb)
	logger.ProgressLogger.SetOutput(io.Discard)
	logMu.Unlock()
	return func() []string {
		wb.mu.Lock()
		defer wb.mu.Unlock()
		s := strings.TrimRight(wb.buf.String(), "\n")
		if s == "" {
			return nil
		}
		return strings.Split(s, "\n")
	}
}

// Quiet silences both loggers.
func Quiet() {
	logMu.Lock()
	logger.WarningLogger.SetOutput(io.Discard)
	logger.ProgressLogger.SetOutput(io.Discard)
	logMu.Unlock()
}

// FontsFor returns a fresh font configuration for the engine name.
func FontsFor(engine string) (text.FontConfiguration, error) {
	if engine == "gotext" {
		return NewGotextConfig()
	}
	return NewPangoConfig()
}

// StallLimit is the number of consecutive page-loop iterations with an identical state that is taken
// as "the layout does not progress" (DESIGN.md §4, hook 2).
const StallLimit = 8

// StallError is returned by Render when the page-loop progress monitor fires.
type StallError struct {
	Kind string // "content" | "table-content" | "footnotes"
	Msg  string
}

func (e *StallError) Error() string { return "page loop stalled (" + e.Kind + "): " + e.Msg }

// PageLoopIterations counts VerifPageHook calls of the last Render (single-threaded use only).
var PageLoopIterations int

// Render lays out and draws one document onto a recorder.  Panics propagate to the caller, except the
// progress monitor's own abort, which is returned as a *StallError.
func Render(o Opts) (res *Rendered, err error) {
	out := &Rendered{}
	done := CaptureWarnings()
	defer func() { out.Warnings = done() }()
	if !o.NoProgressMonitor {
		var (
			seen      = map[string]int{} // state -> times seen in this pass of the page loop
			lastIndex = -1
		)
		PageLoopIterations = 0
		layout.VerifPageHook = func(index int, resumeAt string, oof, foot int, page *bo.PageBox) {
			PageLoopIterations++
			if index <= lastIndex {
				// a new pass of makeAllPages (re-pagination for page-based counters) legitimately revisits states
				seen = map[string]int{}
			}
			lastIndex = index
			if resumeAt == "nil" && foot == 0 {
				return // the loop ends here
			}
			// A resume point identifies a position in the box tree and a correct layout only moves forward,
			// so within one pass a state (resume point, pending out-of-flow and footnote counts, blank flag,
			// page name) never comes back; the page side alternates and the index grows by construction:
			// neither is progress.  The same state seen StallLimit times (consecutively or in a cycle of
			// alternating states) is a loop that consumes nothing.
			state := fmt.Sprintf("%s|%d|%d|%v|%s", resumeAt, oof, foot, page.PageType.Blank, page.PageType.Name)
			seen[state]++
			if seen[state] > StallLimit {
				kind := "content"
				if resumeAt == "nil" {
					kind = "footnotes"
				} else if breakInsideTable(page) {
					kind = "table-content"
				}
				panic(&StallError{kind, fmt.Sprintf("the same page-loop state was reached %d times in one pass (page index %d): resume point %s, %d pending out-of-flow boxes, %d pending footnotes", seen[state], index, resumeAt, oof, foot)})
			}
		}
		defer func() {
			layout.VerifPageHook = nil
			if p := recover(); p != nil {
				if s, ok := p.(*StallError); ok {
					res, err = out, s
					return
				}
				panic(p)
			}
		}()
	}
	phase := func(p string) {
		if o.Phase != nil {
			*o.Phase = p
		}
	}
	phase("parse")
	fonts := o.Fonts
	if fonts == nil {
		var err error
		fonts, err = FontsFor(o.Engine)
		if err != nil {
			return nil, err
		}
	}
	base := o.BaseURL
	if base == "" {
		base = "mem://doc/"
	}
	fetch := MemFetcher(o.Files)
	html, err := tree.NewHTML(utils.InputString(o.HTML), base, fetch, "")
	if err != nil {
		return out, err
	}
	out.HTML = html
	var sheets []tree.CSS
	for _, u := range o.UserCSS {
		css, err := tree.NewCSSDefault(utils.InputString(u))
		if err != nil {
			return out, err
		}
		sheets = append(sheets, css)
	}
	phase("layout")
	if o.NoWrite {
		out.Pages = layout.Layout(html, sheets, o.Hints, fonts)
		return out, nil
	}
	out.Document = document.Render(html, sheets, o.Hints, fonts)
	zoom := o.Zoom
	if zoom == 0 {
		zoom = 1
	}
	out.Rec = rec.New()
	phase("write")
	out.Document.Write(out.Rec, backend.Fl(zoom), nil)
	out.Rec.Finish()
	return out, nil
}

// breakInsideTable reports whether the chain of last children of the page (where the page was cut)
// passes through a table box.
func breakInsideTable(page *bo.PageBox) bool {
	var b bo.Box = page
	for depth := 0; depth < 64; depth++ {
		if bo.TableT.IsInstance(b) {
			return true
		}
		ch := b.Box().Children
		if len(ch) == 0 {
			return false
		}
		b = ch[len(ch)-1]
	}
	return false
}
