// Package rec is the recording backend: it implements backend.Document / Page / Canvas /
// GraphicState, appends one event per call to an in-memory log, and runs the online
// call-protocol monitor of property C14 (see DESIGN.md §3).
package rec

import (
	"crypto/sha256"
	"encoding/hex"
	"fmt"
	"io"
	"math"
	"runtime"
	"strings"
	"time"

	"github.com/benoitkugler/webrender/backend"
	"github.com/benoitkugler/webrender/css/parser"
	"github.com/benoitkugler/webrender/matrix"
)

type Fl = backend.Fl

// Event is one backend call.
type Event struct {
	Op    string
	Cv    int       // canvas id (0 = document level)
	Page  int       // page index (−1 before the first page / in document-level calls)
	Depth int       // OnNewStack nesting depth of the canvas at the time of the call
	F     []Fl      // numeric arguments, in declaration order
	S     []string  // string arguments
	Ref   int       // referenced canvas id (groups), −1 if none
	Text  *TextInfo // for DrawText
}

// TextInfo describes one TextDrawing of a DrawText call.
type TextInfo struct {
	Text     string
	X, Y     Fl
	FontSize Fl
	ScaleX   Fl
	Angle    Fl
	Fonts    []string // font identity per run
	Glyphs   int
	GlyphSig string // hash of glyph ids/offsets
}

// Doc is the recording backend.Document.
type Doc struct {
	Events     []Event
	Violations []string // protocol violations, each prefixed with the event index
	Pages      []*Canvas
	canvases   []*Canvas
	curPage    int

	Anchors      [][]backend.Anchor
	AnchorsCalls int
	Bookmarks    []backend.BookmarkNode
	BookmarkCall int
	Meta         map[string][]string
	MetaCalls    map[string]int
	rasterIDs    map[int]int

	// monitor switches
	CheckProtocol bool
}

// New returns an empty recorder with the protocol monitor on.
func New() *Doc {
	return &Doc{curPage: -1, Meta: map[string][]string{}, MetaCalls: map[string]int{}, rasterIDs: map[int]int{}, CheckProtocol: true}
}

func (d *Doc) violate(format string, args ...any) {
	if len(d.Violations) < 50 {
		d.Violations = append(d.Violations, fmt.Sprintf("event %d: ", len(d.Events)-1)+fmt.Sprintf(format, args...)+" [called from "+CallSite()+"]")
	}
}

const modPrefix = "github.com/benoitkugler/webrender/"

// CallSite returns the innermost webrender function on the current call stack: the call site of the
// backend call being recorded.
func CallSite() string {
	var pcs [40]uintptr
	n := runtime.Callers(2, pcs[:])
	frames := runtime.CallersFrames(pcs[:n])
	for {
		f, more := frames.Next()
		if strings.HasPrefix(f.Function, modPrefix) {
			fn := strings.TrimPrefix(f.Function, modPrefix)
			if k := strings.Index(fn, ".func"); k > 0 {
				fn = fn[:k] // closures (incl. inlined ones, whose names chain several functions)
			}
			// strip closure suffixes
			for {
				k := strings.LastIndex(fn, ".")
				if k < 0 {
					break
				}
				tail := fn[k+1:]
				if strings.HasPrefix(tail, "func") || (len(tail) > 0 && tail[0] >= '0' && tail[0] <= '9') {
					fn = fn[:k]
					continue
				}
				break
			}
			return fn
		}
		if !more {
			return "?"
		}
	}
}

func (d *Doc) add(e Event) *Event {
	e.Page = d.curPage
	d.Events = append(d.Events, e)
	ev := &d.Events[len(d.Events)-1]
	if d.CheckProtocol {
		for _, f := range e.F {
			if math.IsNaN(float64(f)) || math.IsInf(float64(f), 0) {
				d.violate("non-finite number %v in %s%v", f, e.Op, e.F)
				break
			}
		}
	}
	return ev
}

// ---------------- Document ----------------

func (d *Doc) AddPage(left, top, right, bottom Fl) backend.Page {
	d.curPage++
	c := d.newCanvas(-1)
	c.isPage = true
	d.Pages = append(d.Pages, c)
	d.add(Event{Op: "AddPage", Cv: c.ID, F: []Fl{left, top, right, bottom}, Ref: -1})
	if d.CheckProtocol && d.AnchorsCalls > 0 {
		d.violate("AddPage after CreateAnchors")
	}
	return c
}

func (d *Doc) CreateAnchors(anchors [][]backend.Anchor) {
	d.AnchorsCalls++
	d.Anchors = anchors
	var fs []Fl
	var ss []string
	for i, pa := range anchors {
		for _, a := range pa {
			fs = append(fs, Fl(i), a.X, a.Y)
			ss = append(ss, a.Name)
		}
	}
	save := d.curPage
	d.curPage = -1
	d.add(Event{Op: "CreateAnchors", F: fs, S: ss, Ref: -1})
	d.curPage = save
	if d.CheckProtocol {
		if d.AnchorsCalls > 1 {
			d.violate("CreateAnchors called %d times", d.AnchorsCalls)
		}
		if len(anchors) != len(d.Pages) {
			d.violate("CreateAnchors got %d page lists for %d pages", len(anchors), len(d.Pages))
		}
	}
}

func (d *Doc) meta(op string, vals ...string) {
	d.MetaCalls[op]++
	d.Meta[op] = vals
	save := d.curPage
	d.curPage = -1
	d.add(Event{Op: op, S: vals, Ref: -1})
	d.curPage = save
	if d.CheckProtocol && d.MetaCalls[op] > 1 {
		d.violate("%s called %d times", op, d.MetaCalls[op])
	}
}

func (d *Doc) SetAttachments(as []backend.Attachment) {
	var ss []string
	for _, a := range as {
		ss = append(ss, a.Title, a.Description, hashBytes(a.Content))
	}
	d.meta("SetAttachments", ss...)
}

func (d *Doc) EmbedFile(fileID string, a backend.Attachment) {
	save := d.curPage
	d.curPage = -1
	d.add(Event{Op: "EmbedFile", S: []string{fileID, a.Title, a.Description, hashBytes(a.Content)}, Ref: -1})
	d.curPage = save
}
func (d *Doc) SetTitle(title string)             { d.meta("SetTitle", title) }
func (d *Doc) SetDescription(description string) { d.meta("SetDescription", description) }
func (d *Doc) SetCreator(creator string)         { d.meta("SetCreator", creator) }
func (d *Doc) SetAuthors(authors []string)       { d.meta("SetAuthors", authors...) }
func (d *Doc) SetKeywords(keywords []string)     { d.meta("SetKeywords", keywords...) }
func (d *Doc) SetProducer(producer string)       { d.meta("SetProducer", producer) }
func (d *Doc) SetDateCreation(t time.Time) {
	d.meta("SetDateCreation", t.UTC().Format(time.RFC3339Nano))
}
func (d *Doc) SetDateModification(t time.Time) {
	d.meta("SetDateModification", t.UTC().Format(time.RFC3339Nano))
}

func (d *Doc) SetBookmarks(root []backend.BookmarkNode) {
	d.BookmarkCall++
	d.Bookmarks = root
	var fs []Fl
	var ss []string
	var walk func(ns []backend.BookmarkNode, depth int)
	walk = func(ns []backend.BookmarkNode, depth int) {
		for _, n := range ns {
			o := Fl(0)
			if n.Open {
				o = 1
			}
			fs = append(fs, Fl(depth), Fl(n.PageIndex), n.X, n.Y, o)
			ss = append(ss, n.Label)
			walk(n.Children, depth+1)
		}
	}
	walk(root, 0)
	save := d.curPage
	d.curPage = -1
	d.add(Event{Op: "SetBookmarks", F: fs, S: ss, Ref: -1})
	d.curPage = save
	if d.CheckProtocol && d.BookmarkCall > 1 {
		d.violate("SetBookmarks called %d times", d.BookmarkCall)
	}
}

// ---------------- Canvas ----------------

// Canvas is a page or a group.
type Canvas struct {
	ID     int
	doc    *Doc
	isPage bool
	parent int

	depth     int
	pathOps   int  // number of path construction ops since the last Paint/Clip
	hasCP     bool // a current point is defined
	fonts     map[backend.Font]*backend.FontChars
	bbox      [4]Fl
	ctmStack  []matrix.Transform
	ctm       matrix.Transform
	Used      bool // passed to DrawWithOpacity / SetColorPattern / SetAlphaMask
	UsedCount int
}

func (d *Doc) newCanvas(parent int) *Canvas {
	c := &Canvas{ID: len(d.canvases) + 1, doc: d, parent: parent, fonts: map[backend.Font]*backend.FontChars{}, ctm: matrix.Identity()}
	d.canvases = append(d.canvases, c)
	return c
}

// CanvasByID returns the canvas with the given id.
func (d *Doc) CanvasByID(id int) *Canvas {
	if id <= 0 || id > len(d.canvases) {
		return nil
	}
	return d.canvases[id-1]
}

func (c *Canvas) ev(op string, f []Fl, s ...string) *Event {
	return c.doc.add(Event{Op: op, Cv: c.ID, Depth: c.depth, F: f, S: s, Ref: -1})
}

func (c *Canvas) AddInternalLink(xMin, yMin, xMax, yMax Fl, anchorName string) {
	c.ev("AddInternalLink", []Fl{xMin, yMin, xMax, yMax}, anchorName)
}

func (c *Canvas) AddExternalLink(xMin, yMin, xMax, yMax Fl, url string) {
	c.ev("AddExternalLink", []Fl{xMin, yMin, xMax, yMax}, url)
}

func (c *Canvas) AddFileAnnotation(xMin, yMin, xMax, yMax Fl, fileID string) {
	c.ev("AddFileAnnotation", []Fl{xMin, yMin, xMax, yMax}, fileID)
}
func (c *Canvas) SetMediaBox(l, t, r, b Fl) { c.ev("SetMediaBox", []Fl{l, t, r, b}) }
func (c *Canvas) SetTrimBox(l, t, r, b Fl)  { c.ev("SetTrimBox", []Fl{l, t, r, b}) }
func (c *Canvas) SetBleedBox(l, t, r, b Fl) { c.ev("SetBleedBox", []Fl{l, t, r, b}) }

func (c *Canvas) GetBoundingBox() (left, top, right, bottom Fl) {
	return c.bbox[0], c.bbox[1], c.bbox[2], c.bbox[3]
}

func (c *Canvas) SetBoundingBox(left, top, right, bottom Fl) {
	c.bbox = [4]Fl{left, top, right, bottom}
	c.ev("SetBoundingBox", []Fl{left, top, right, bottom})
}

func (c *Canvas) OnNewStack(f func()) {
	c.ev("Save", nil)
	c.depth++
	c.ctmStack = append(c.ctmStack, c.ctm)
	completed := false
	defer func() {
		// on panic the monitor state is irrelevant; keep the log consistent for normal returns only
		if completed {
			c.ctm = c.ctmStack[len(c.ctmStack)-1]
			c.ctmStack = c.ctmStack[:len(c.ctmStack)-1]
			c.depth--
			c.ev("Restore", nil)
		}
	}()
	f()
	completed = true
}

func (c *Canvas) State() backend.GraphicState { return (*state)(c) }

func (c *Canvas) NewGroup(x, y, width, height Fl) backend.Canvas {
	g := c.doc.newCanvas(c.ID)
	g.bbox = [4]Fl{x, y, x + width, y + height}
	e := c.ev("NewGroup", []Fl{x, y, width, height})
	e.Ref = g.ID
	return g
}

func (c *Canvas) groupRef(op string, g backend.Canvas) int {
	gc, ok := g.(*Canvas)
	if !ok || gc == nil {
		if c.doc.CheckProtocol {
			c.doc.violate("%s got a canvas that was not created by NewGroup (%T)", op, g)
		}
		return -1
	}
	gc.Used = true
	gc.UsedCount++
	if c.doc.CheckProtocol {
		if gc.doc != c.doc {
			c.doc.violate("%s got a canvas of another document", op)
		}
		if gc.depth != 0 {
			c.doc.violate("%s got group %d with an unbalanced stack (depth %d)", op, gc.ID, gc.depth)
		}
		if gc.isPage {
			c.doc.violate("%s got a page, not a group", op)
		}
	}
	return gc.ID
}

func (c *Canvas) DrawWithOpacity(opacity Fl, group backend.Canvas) {
	e := c.ev("DrawWithOpacity", []Fl{opacity})
	e.Ref = c.groupRef("DrawWithOpacity", group)
	if c.doc.CheckProtocol && !(opacity >= 0 && opacity <= 1) {
		c.doc.violate("DrawWithOpacity opacity %v outside [0,1]", opacity)
	}
}

func (c *Canvas) Paint(op backend.PaintOp) {
	c.ev("Paint", []Fl{Fl(op)})
	if c.doc.CheckProtocol {
		if c.pathOps == 0 {
			c.doc.violate("Paint with an empty current path (op: %s)", op)
		}
		if op&backend.FillEvenOdd != 0 && op&backend.FillNonZero != 0 {
			c.doc.violate("Paint with both fill rules")
		}
	}
	c.pathOps = 0
	c.hasCP = false
}

func (c *Canvas) Rectangle(x, y, width, height Fl) {
	c.ev("Rectangle", []Fl{x, y, width, height})
	c.pathOps++
	c.hasCP = true
}

func (c *Canvas) MoveTo(x, y Fl) {
	c.ev("MoveTo", []Fl{x, y})
	c.pathOps++
	c.hasCP = true
}

func (c *Canvas) LineTo(x, y Fl) {
	c.ev("LineTo", []Fl{x, y})
	if c.doc.CheckProtocol && !c.hasCP {
		c.doc.violate("LineTo without a current point")
	}
	c.pathOps++
	c.hasCP = true
}

func (c *Canvas) CubicTo(x1, y1, x2, y2, x3, y3 Fl) {
	c.ev("CubicTo", []Fl{x1, y1, x2, y2, x3, y3})
	if c.doc.CheckProtocol && !c.hasCP {
		c.doc.violate("CubicTo without a current point")
	}
	c.pathOps++
	c.hasCP = true
}

func (c *Canvas) ClosePath() {
	c.ev("ClosePath", nil)
	if c.doc.CheckProtocol && !c.hasCP {
		c.doc.violate("ClosePath without a current point")
	}
	c.pathOps++
}

// FontID is the canonical identity of a font.
func FontID(f backend.Font) string {
	if f == nil {
		return "<nil>"
	}
	o := f.Origin()
	d := f.Description()
	file := o.File
	if k := strings.LastIndex(file, "/"); k >= 0 {
		file = file[k+1:]
	}
	return fmt.Sprintf("%s#%d.%d|%s|%d|%d|%d", file, o.Index, o.Instance, d.Family, d.Style, d.Weight, d.Size)
}

func (c *Canvas) AddFont(font backend.Font, content []byte) *backend.FontChars {
	c.ev("AddFont", nil, FontID(font), fmt.Sprint(len(content)))
	if fcs, ok := c.fonts[font]; ok {
		return fcs
	}
	fcs := &backend.FontChars{Cmap: map[backend.GID][]rune{}, Extents: map[backend.GID]backend.GlyphExtents{}}
	c.fonts[font] = fcs
	return fcs
}

func (c *Canvas) DrawText(texts []backend.TextDrawing) {
	for _, t := range texts {
		ti := &TextInfo{Text: string(t.Text), X: t.X, Y: t.Y, FontSize: t.FontSize, ScaleX: t.ScaleX, Angle: t.Angle}
		h := sha256.New()
		for _, r := range t.Runs {
			ti.Fonts = append(ti.Fonts, FontID(r.Font))
			if c.doc.CheckProtocol {
				if _, ok := c.fonts[r.Font]; !ok {
					c.doc.violate("DrawText uses font %s that was not registered with AddFont on this canvas", FontID(r.Font))
				}
			}
			for _, g := range r.Glyphs {
				ti.Glyphs++
				fmt.Fprintf(h, "%d,%d,%x,%x,%x,%d,%d;", g.Kerning, g.Glyph, math.Float32bits(g.Offset), math.Float32bits(g.Rise), math.Float32bits(g.XAdvance), g.TextOffset, g.TextLength)
				if c.doc.CheckProtocol {
					for _, f := range []Fl{g.Offset, g.Rise, g.XAdvance} {
						if math.IsNaN(float64(f)) || math.IsInf(float64(f), 0) {
							c.doc.violate("non-finite glyph metric in DrawText")
						}
					}
					if g.TextOffset < 0 || g.TextLength < 0 || g.TextOffset+g.TextLength > len(t.Text) {
						c.doc.violate("glyph text range [%d,+%d) outside text of length %d", g.TextOffset, g.TextLength, len(t.Text))
					}
				}
			}
		}
		ti.GlyphSig = hex.EncodeToString(h.Sum(nil)[:8])
		e := c.ev("DrawText", []Fl{t.X, t.Y, t.FontSize, t.ScaleX, t.Angle}, ti.Text)
		e.Text = ti
	}
	if len(texts) == 0 {
		c.ev("DrawText0", nil)
	}
}

func (c *Canvas) DrawRasterImage(image backend.RasterImage, width, height Fl) {
	id, ok := c.doc.rasterIDs[image.ID]
	if !ok {
		id = len(c.doc.rasterIDs)
		c.doc.rasterIDs[image.ID] = id
	}
	content := ""
	if image.Content != nil {
		b, _ := io.ReadAll(image.Content)
		content = hashBytes(b)
	}
	c.ev("DrawRasterImage", []Fl{width, height, Fl(id)}, image.MimeType, image.Rendering, content)
}

func (c *Canvas) DrawGradient(g backend.GradientLayout, width, height Fl) {
	fs := []Fl{width, height, g.ScaleY}
	fs = append(fs, g.Coords[:]...)
	fs = append(fs, g.Positions...)
	for _, col := range g.Colors {
		fs = append(fs, col.R, col.G, col.B, col.A)
	}
	c.ev("DrawGradient", fs, g.Kind, fmt.Sprint(g.Reapeating))
	if c.doc.CheckProtocol && len(g.Positions) != len(g.Colors) {
		c.doc.violate("DrawGradient with %d positions and %d colors", len(g.Positions), len(g.Colors))
	}
}

// ---------------- GraphicState ----------------

type state Canvas

func (s *state) c() *Canvas { return (*Canvas)(s) }

func (s *state) SetAlphaMask(mask backend.Canvas) {
	e := s.c().ev("SetAlphaMask", nil)
	e.Ref = s.c().groupRef("SetAlphaMask", mask)
}

func (s *state) Clip(evenOdd bool) {
	c := s.c()
	v := Fl(0)
	if evenOdd {
		v = 1
	}
	c.ev("Clip", []Fl{v})
	if c.doc.CheckProtocol && c.pathOps == 0 {
		c.doc.violate("Clip with an empty current path")
	}
	c.pathOps = 0
	c.hasCP = false
}

func (s *state) SetAlpha(alpha Fl, stroke bool) {
	s.c().ev("SetAlpha", []Fl{alpha, b2f(stroke)})
}

func (s *state) SetColorRgba(color parser.RGBA, stroke bool) {
	s.c().ev("SetColorRgba", []Fl{color.R, color.G, color.B, color.A, b2f(stroke)})
}

func (s *state) SetColorPattern(pattern backend.Canvas, contentWidth, contentHeight Fl, mat matrix.Transform, stroke bool) {
	e := s.c().ev("SetColorPattern", []Fl{contentWidth, contentHeight, mat.A, mat.B, mat.C, mat.D, mat.E, mat.F, b2f(stroke)})
	e.Ref = s.c().groupRef("SetColorPattern", pattern)
}

func (s *state) SetBlendingMode(mode string) { s.c().ev("SetBlendingMode", nil, mode) }
func (s *state) SetLineWidth(width Fl)       { s.c().ev("SetLineWidth", []Fl{width}) }

func (s *state) SetDash(dashes []Fl, offset Fl) {
	s.c().ev("SetDash", append([]Fl{offset}, dashes...))
}

func (s *state) SetStrokeOptions(o backend.StrokeOptions) {
	s.c().ev("SetStrokeOptions", []Fl{Fl(o.LineCap), Fl(o.LineJoin), o.MiterLimit})
}

func (s *state) GetTransform() matrix.Transform { return s.c().ctm }

func (s *state) Transform(mt matrix.Transform) {
	c := s.c()
	c.ev("Transform", []Fl{mt.A, mt.B, mt.C, mt.D, mt.E, mt.F})
	c.ctm = matrix.Mul(c.ctm, mt)
}

func (s *state) SetTextPaint(op backend.PaintOp) { s.c().ev("SetTextPaint", []Fl{Fl(op)}) }

func b2f(b bool) Fl {
	if b {
		return 1
	}
	return 0
}

func hashBytes(b []byte) string {
	h := sha256.Sum256(b)
	return fmt.Sprintf("%d:%s", len(b), hex.EncodeToString(h[:6]))
}

// ---------------- canonical trace ----------------

// Canonical renders the log as text with bit-exact floats: the observation compared by C15.
func (d *Doc) Canonical() string {
	var sb strings.Builder
	for _, e := range d.Events {
		fmt.Fprintf(&sb, "%s c%d p%d d%d", e.Op, e.Cv, e.Page, e.Depth)
		if e.Ref >= 0 {
			fmt.Fprintf(&sb, " ->c%d", e.Ref)
		}
		for _, f := range e.F {
			fmt.Fprintf(&sb, " %08x", math.Float32bits(f))
		}
		for _, s := range e.S {
			fmt.Fprintf(&sb, " %q", s)
		}
		if e.Text != nil {
			fmt.Fprintf(&sb, " fonts=%v glyphs=%d sig=%s", e.Text.Fonts, e.Text.Glyphs, e.Text.GlyphSig)
		}
		sb.WriteByte('\n')
	}
	return sb.String()
}

// Hash of the canonical trace.
func (d *Doc) Hash() string {
	h := sha256.Sum256([]byte(d.Canonical()))
	return hex.EncodeToString(h[:12])
}

// Finish runs the end-of-document protocol checks.
func (d *Doc) Finish() {
	if !d.CheckProtocol {
		return
	}
	for _, c := range d.canvases {
		if c.depth != 0 {
			d.Violations = append(d.Violations, fmt.Sprintf("canvas %d ends with unbalanced stack depth %d", c.ID, c.depth))
		}
	}
}
