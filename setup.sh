#!/bin/bash
# Offline setup: builds the verification binaries once to warm the Go build cache.
cd "$(dirname "$0")" || exit 1
export GOFLAGS=-mod=mod GOPROXY=off GOSUMDB=off GOTOOLCHAIN=local CGO_ENABLED=1
mkdir -p .build evidence
cp -f /repo/go.sum go.sum
go build -tags "verif pC20" -o .build/vw ./cmd/vw || exit 1
go build -tags "verif pC20" -race -o .build/vw-race ./cmd/vw || exit 1
echo setup ok
