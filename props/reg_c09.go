//go:build pC09 || pall

package props

import _ "verif/props/c09"
