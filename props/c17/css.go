package c17

import (
	"encoding/json"
	"fmt"
	"math"
	"math/rand"
	"strings"
	"sync"

	"github.com/benoitkugler/webrender/text"

	"verif/internal/fw"
	"verif/internal/rec"
	"verif/internal/wr"
)

// ---- input ----------------------------------------------------------------------------------------

type cssBox struct {
	ID     string `json:"id"`
	Parent int    `json:"parent"` // index in Boxes, −1 = child of <body>
	// abs: absolutely positioned, border box modelled by the generator;
	// static | relative | inline-block | float | table | table-cell | flex: border box read from
	// the trace (the rectangle of the box's own background);  inline: a non-replaced inline box —
	// not transformable.
	Kind string `json:"kind"`
	BG   [3]int `json:"bg"`
	// generator-side border box in page coordinates (abs only)
	X float64 `json:"x"`
	Y float64 `json:"y"`
	W float64 `json:"w"`
	H float64 `json:"h"`
	// font-size of the element in px (em unit)
	FS float64 `json:"fs"`
	// the transform list (nil: no transform property; "none" when None is set) and origin (nil: initial 50% 50%)
	Fns      []fn    `json:"fns,omitempty"`
	None     bool    `json:"none,omitempty"`
	Origin   *origin `json:"origin,omitempty"`
	Singular bool    `json:"singular,omitempty"`
	Opacity  bool    `json:"opacity,omitempty"` // informative: the box has opacity < 1
	// How the transform / transform-origin declarations reach the element (the cascade delivers the
	// same *declared* value to every element a rule matches; the *computed* value — font-relative
	// lengths made absolute, CSS Values 3 §5.1.1 — is per element):
	//   id       a rule `#id{…}` of its own (the only form generated before the domain was widened)
	//   style    the element's style attribute
	//   class | attr | type | group   one rule shared by several elements of the document
	//            (`.t0{…}`, `[data-t="0"]{…}`, `section{…}`, `#b0,#b3{…}`)
	//   inherit  `transform: inherit` (the parent's computed value: its font-relative lengths were
	//            made absolute against the font size they were computed with, percentages stay)
	Via string `json:"via,omitempty"`
	// style sheet holding the rule: "style" (<style> element), "link" (<link rel=stylesheet>), "user"
	// (user-origin sheet); empty for a style attribute
	Sheet string `json:"sheet,omitempty"`
	// shared declaration: index of the first element (tree order) matched by the same rule, and the
	// rank of this element among them (0 = first)
	Shared     bool `json:"shared,omitempty"`
	ShareFirst int  `json:"share_first,omitempty"`
	ShareRank  int  `json:"share_rank,omitempty"`
	// font size against which the font-relative lengths of the transform list / of the origin
	// resolve: the element's own, except for an inherited value (0 = FS; inputs recorded before
	// these fields existed)
	TFS           float64 `json:"tfs,omitempty"`
	OFS           float64 `json:"ofs,omitempty"`
	OriginInherit bool    `json:"origin_inherit,omitempty"`
}

func (b cssBox) tfs() float64 {
	if b.TFS > 0 {
		return b.TFS
	}
	return b.FS
}

func (b cssBox) ofs() float64 {
	if b.OFS > 0 {
		return b.OFS
	}
	return b.FS
}

func (b cssBox) via() string {
	if b.Via == "" {
		return "id"
	}
	return b.Via
}

type cssIn struct {
	Mode   string   `json:"mode"`
	HTML   string   `json:"html"`
	PageM  float64  `json:"page_margin"`
	RootFS float64  `json:"root_fs"`
	Boxes  []cssBox `json:"boxes"`
	// user-origin style sheet and resources served under mem://doc/ (linked style sheet)
	UserCSS string            `json:"user_css,omitempty"`
	Files   map[string]string `json:"files,omitempty"`
}

// ---- generator ------------------------------------------------------------------------------------

func hex2(v int) string { return fmt.Sprintf("%02x", v) }

func colorOf(c [3]int) string { return "#" + hex2(c[0]) + hex2(c[1]) + hex2(c[2]) }

func px(v float64) string { return fmt.Sprintf("%gpx", v) }

// sharedDecl is one declaration block `transform: …[; transform-origin: …]` carried by a rule that
// matches several elements of the document.  The declared value is spelled (and parsed) once; every
// matched element computes it against its own font size and border box.
type sharedDecl struct {
	sel      string // class | attr | type | group
	sheet    string // style | link | user
	fns      []fn
	none     bool
	singular bool
	origin   *origin
	decl     string
	members  []int
	usedFS   map[float64]bool
}

var fsPool = []float64{8, 10, 12, 16, 20, 24, 30}

func pickSheet(r *rand.Rand) string {
	switch r.Intn(10) {
	case 0, 1:
		return "link"
	case 2, 3:
		return "user"
	}
	return "style"
}

// genCSSDoc builds a document of 1–12 boxes.  formIdx ≥ 0 forces the first box to carry a
// single-function list of that form (exhaustive sweep over the function forms × leading cases).
func genCSSDoc(r *rand.Rand, formIdx int) cssIn {
	in := cssIn{Mode: "css", PageM: pick(r, []float64{0, 10, 25}), RootFS: pick(r, []float64{16, 20, 10})}
	type extra struct {
		style  string // geometry and paint: always in the element's own rule of the <style> element
		attrs  string // class / data-t / style attributes
		tag    string
		kids   []int
		border float64
	}
	var ex []extra
	sheets := map[string]*strings.Builder{"style": {}, "link": {}, "user": {}}
	nTop := 1 + r.Intn(3)

	// shared declarations of the document (half of the documents have one or two)
	var shared []*sharedDecl
	nShared := 0
	switch r.Intn(10) {
	case 0, 1, 2, 3:
		nShared = 1
	case 4:
		nShared = 2
	}
	for i := 0; i < nShared; i++ {
		sd := &sharedDecl{sel: pick(r, []string{"class", "class", "attr", "type", "group"}), sheet: pickSheet(r), usedFS: map[float64]bool{}}
		switch {
		case r.Intn(20) == 0:
			sd.none = true
		case r.Intn(20) == 0:
			sd.singular = true
			sd.fns = genCSSList(r, true)
		case r.Intn(2) == 0:
			sd.fns = genCSSListElemDep(r)
		default:
			sd.fns = genCSSList(r, false)
		}
		var decl []string
		if sd.none {
			decl = append(decl, "transform:"+pick(r, []string{"none", "none", "NONE", "initial"}))
		} else {
			decl = append(decl, "transform:"+pick(r, []string{"", " "})+cssListText(r, sd.fns))
		}
		if r.Intn(2) == 0 {
			o := genOrigin(r)
			sd.origin = &o
			decl = append(decl, "transform-origin:"+o.Text)
			if r.Intn(2) == 0 {
				decl[0], decl[1] = decl[1], decl[0]
			}
		}
		sd.decl = strings.Join(decl, ";")
		shared = append(shared, sd)
	}
	if nShared > 0 {
		nTop = 2 + r.Intn(3)
	}

	addBox := func(parent int, depth int) int {
		k := len(in.Boxes)
		b := cssBox{ID: fmt.Sprintf("b%d", k), Parent: parent, BG: [3]int{20 + k*7, 40 + k*11, 60 + k*13}}
		e := extra{tag: "div"}
		border := pick(r, []float64{0, 0, 1, 2, 4})
		pad := pick(r, []float64{0, 3, 5})
		w, h := float64(20+r.Intn(100)), float64(10+r.Intn(70))
		b.FS = pick(r, fsPool)
		b.W, b.H = w+2*(border+pad), h+2*(border+pad)
		var st strings.Builder
		parentAbs := parent >= 0 && in.Boxes[parent].Kind == "abs"
		kind := "abs"
		if parent >= 0 && !parentAbs {
			kind = pick(r, []string{"static", "relative", "inline-block", "float", "table", "table-cell", "flex"})
			if in.Boxes[parent].Kind == "flex" {
				// flex items; tables and table cells inside a flex container are left to C09/C13
				kind = pick(r, []string{"static", "relative", "float"})
			}
		} else {
			switch r.Intn(10) {
			case 0:
				kind = "static"
			case 1:
				kind = "relative"
			case 2:
				kind = "inline-block"
			case 3:
				kind = "float"
			case 4:
				if parent < 0 {
					kind = "inline"
				}
			case 5:
				kind = pick(r, []string{"table", "table-cell", "flex"})
			}
		}
		b.Kind = kind
		ml, mt := pick(r, []float64{0, 0, 4, -3}), pick(r, []float64{0, 0, 6, -2})
		switch kind {
		case "abs":
			left, top := float64(r.Intn(400))/2, float64(r.Intn(300))/2
			fmt.Fprintf(&st, "position:absolute;left:%s;top:%s;", px(left), px(top))
			if parent < 0 {
				// containing block: the initial containing block = page area (CSS 2.1 §10.1)
				b.X, b.Y = in.PageM+left+ml, in.PageM+top+mt
			} else {
				// containing block: the padding box of the absolutely positioned parent
				p := in.Boxes[parent]
				pb := ex[parent].border
				b.X, b.Y = p.X+pb+left+ml, p.Y+pb+top+mt
			}
		case "static":
		case "relative":
			fmt.Fprintf(&st, "position:relative;left:%s;top:%s;", px(float64(r.Intn(40)-10)), px(float64(r.Intn(40)-10)))
		case "inline-block":
			st.WriteString("display:inline-block;")
		case "float":
			fmt.Fprintf(&st, "float:%s;", pick(r, []string{"left", "right"}))
		case "table", "table-cell", "flex":
			fmt.Fprintf(&st, "display:%s;", kind)
		case "inline":
			e.tag = "span"
			st.WriteString("display:inline;")
		}
		if r.Intn(8) == 0 && kind != "inline" {
			// an opacity group: the box is drawn on its own canvas
			fmt.Fprintf(&st, "opacity:%s;", pick(r, []string{"0.5", "0.25", "0.75"}))
			b.Opacity = true
		}
		if kind != "inline" {
			fmt.Fprintf(&st, "width:%s;height:%s;margin:%s 0 0 %s;", px(w), px(h), px(mt), px(ml))
		}

		// transform: where the value comes from
		var sd *sharedDecl
		switch {
		case k == 0 && formIdx >= 0:
			forms := allowedCSSForms()
			b.Fns = []fn{genCSSFn(r, forms[formIdx%len(forms)])}
		case parent >= 0 && r.Intn(8) == 0:
			b.Via = "inherit"
		case len(shared) > 0 && r.Intn(5) < 3:
			sd = pick(r, shared)
		case r.Intn(12) == 0:
			b.None = true
		case r.Intn(14) == 0 && kind != "inline":
			b.Singular = true
			b.Fns = genCSSList(r, true)
		case r.Intn(10) == 0:
			// no transform at all
		default:
			b.Fns = genCSSList(r, false)
		}
		var decl []string // the element's own declarations
		switch {
		case b.Via == "inherit":
			// the computed value of the parent: the same functions, font-relative lengths resolved
			// against the font size the parent's value was computed with
			p := in.Boxes[parent]
			b.Fns, b.None, b.Singular, b.TFS = p.Fns, p.None, p.Singular, p.tfs()
			decl = append(decl, "transform:"+pick(r, []string{"inherit", "inherit", "INHERIT"}))
			switch r.Intn(3) {
			case 0:
				if p.Origin != nil {
					o := *p.Origin
					b.Origin, b.OFS = &o, p.ofs()
				}
				b.OriginInherit = true
				decl = append(decl, "transform-origin:inherit")
			case 1:
				o := genOrigin(r)
				b.Origin = &o
				decl = append(decl, "transform-origin:"+o.Text)
			}
		case sd != nil:
			b.Via, b.Sheet, b.Shared = sd.sel, sd.sheet, true
			b.Fns, b.None, b.Singular = sd.fns, sd.none, sd.singular
			// the members of a shared declaration get different font sizes while the pool lasts
			for try := 0; try < 20 && sd.usedFS[b.FS]; try++ {
				b.FS = pick(r, fsPool)
			}
			sd.usedFS[b.FS] = true
			b.ShareRank = len(sd.members)
			b.ShareFirst = k
			if len(sd.members) > 0 {
				b.ShareFirst = sd.members[0]
			}
			sd.members = append(sd.members, k)
			switch {
			case sd.origin != nil:
				o := *sd.origin
				b.Origin = &o
			case r.Intn(3) == 0:
				// the rule sets the transform only; the origin is the element's own
				o := genOrigin(r)
				b.Origin = &o
				decl = append(decl, "transform-origin:"+o.Text)
			}
			si := 0
			for i, x := range shared {
				if x == sd {
					si = i
				}
			}
			switch sd.sel {
			case "class":
				e.attrs += pick(r, []string{fmt.Sprintf(" class=t%d", si), fmt.Sprintf(` class="x t%d"`, si), fmt.Sprintf(` class="t%d y"`, si)})
			case "attr":
				e.attrs += fmt.Sprintf(` data-t="%d"`, si)
			case "type":
				e.tag = []string{"section", "article"}[si%2]
			}
		default:
			if len(b.Fns) > 0 || b.None || r.Intn(6) == 0 {
				if r.Intn(3) != 0 {
					o := genOrigin(r)
					b.Origin = &o
				}
			}
			if b.None {
				decl = append(decl, "transform:"+pick(r, []string{"none", "none", "NONE", "initial"}))
			} else if len(b.Fns) > 0 {
				decl = append(decl, "transform:"+pick(r, []string{"", " "})+cssListText(r, b.Fns))
			}
			if b.Origin != nil {
				decl = append(decl, "transform-origin:"+b.Origin.Text)
			}
			if len(decl) == 2 && r.Intn(2) == 0 {
				decl[0], decl[1] = decl[1], decl[0]
			}
		}
		fmt.Fprintf(&st, "border:%s solid %s;padding:%s;background:%s;font-size:%s;", px(border), colorOf([3]int{200 + k, 10 + k*3, 10 + k*5}), px(pad), colorOf(b.BG), px(b.FS))
		// the element's own declarations: in its rule of the <style> element (as before), in a rule
		// of another sheet, or in its style attribute
		if len(decl) > 0 {
			own := strings.Join(decl, ";")
			vehicle := "style"
			if !(k == 0 && formIdx >= 0) {
				switch r.Intn(10) {
				case 0, 1, 2:
					vehicle = "attr"
				case 3:
					vehicle = "link"
				case 4:
					vehicle = "user"
				}
			}
			if b.Via == "" {
				b.Via = "id"
			}
			switch vehicle {
			case "attr":
				e.attrs += ` style="` + own + `"`
				if !b.Shared && b.Via == "id" {
					b.Via = "style"
				}
			case "style":
				st.WriteString(own)
				if !b.Shared {
					b.Sheet = "style"
				}
			default:
				fmt.Fprintf(sheets[vehicle], "#%s{%s}\n", b.ID, own)
				if !b.Shared {
					b.Sheet = vehicle
				}
			}
		}
		e.style, e.border = st.String(), border
		in.Boxes = append(in.Boxes, b)
		ex = append(ex, e)
		if parent >= 0 {
			ex[parent].kids = append(ex[parent].kids, k)
		}
		return k
	}
	var tops []int
	for i := 0; i < nTop; i++ {
		k := addBox(-1, 0)
		tops = append(tops, k)
		// tables and table cells stay leaves: how a table's wrapper and grid grow around content is
		// table layout (C13), not a transform question
		leaf := func(k int) bool {
			kd := in.Boxes[k].Kind
			return kd == "inline" || kd == "table" || kd == "table-cell"
		}
		if !leaf(k) && r.Intn(2) == 0 {
			c := addBox(k, 1)
			if !leaf(c) && r.Intn(3) == 0 {
				addBox(c, 2)
			}
		}
	}
	// the shared rules
	for si, sd := range shared {
		var sel string
		switch sd.sel {
		case "class":
			sel = fmt.Sprintf(".t%d", si)
		case "attr":
			sel = fmt.Sprintf(`[data-t="%d"]`, si)
		case "type":
			sel = []string{"section", "article"}[si%2]
		case "group":
			var ids []string
			for _, m := range sd.members {
				ids = append(ids, "#"+in.Boxes[m].ID)
			}
			sel = strings.Join(ids, pick(r, []string{",", ", ", " ,\n"}))
		}
		if sel != "" {
			fmt.Fprintf(sheets[sd.sheet], "%s{%s}\n", sel, sd.decl)
		}
	}
	var sb strings.Builder
	sb.WriteString("<html><head>")
	if sheets["link"].Len() > 0 {
		in.Files = map[string]string{"s.css": sheets["link"].String()}
		sb.WriteString(`<link rel=stylesheet href="s.css">`)
	}
	in.UserCSS = sheets["user"].String()
	// font-family Ahem: 1ex = 0.8em, 1ch = 1em
	fmt.Fprintf(&sb, "<style>\n@page{size:500px 800px;margin:%s}\nhtml{font-size:%s}\nbody{margin:0;font-family:Ahem}\n", px(in.PageM), px(in.RootFS))
	sb.WriteString(sheets["style"].String())
	for k, b := range in.Boxes {
		fmt.Fprintf(&sb, "#%s{%s}\n", b.ID, ex[k].style)
	}
	sb.WriteString("</style></head><body>")
	var emit func(k int)
	emit = func(k int) {
		b := in.Boxes[k]
		fmt.Fprintf(&sb, "<%s id=%s%s>", ex[k].tag, b.ID, ex[k].attrs)
		if b.Kind == "inline" {
			sb.WriteString("x")
		}
		for _, c := range ex[k].kids {
			emit(c)
		}
		fmt.Fprintf(&sb, "</%s>", ex[k].tag)
	}
	for _, k := range tops {
		emit(k)
	}
	sb.WriteString("</body></html>")
	in.HTML = sb.String()
	return in
}

// ---- check ----------------------------------------------------------------------------------------

var (
	fontsOnce sync.Once
	fontsCfg  text.FontConfiguration
	fontsErr  error
)

func sharedFonts() (text.FontConfiguration, error) {
	fontsOnce.Do(func() { fontsCfg, fontsErr = wr.NewPangoConfig() })
	return fontsCfg, fontsErr
}

func f6(f []rec.Fl) [6]float64 {
	var o [6]float64
	for i := 0; i < 6 && i < len(f); i++ {
		o[i] = float64(f[i])
	}
	return o
}

func isColor(e rec.Event, c [3]int) bool {
	if e.Op != "SetColorRgba" || len(e.F) < 4 {
		return false
	}
	for i := 0; i < 3; i++ {
		if math.Abs(float64(e.F[i])-float64(c[i])/255) > 1e-5 {
			return false
		}
	}
	return true
}

// paintSite is where a colour was set: the Transform events in force (indexes into Events, in
// application order) and the first rectangle constructed afterwards.
type paintSite struct {
	at    int
	chain []int
	rect  [4]float64
	has   bool
}

// replay walks the whole trace, maintaining per canvas the stack of Transform events in force
// (Save/Restore delimit OnNewStack scopes), and calls visit for every event with the chain of its
// canvas.  It returns, for every group canvas (NewGroup: opacity) that was composited with
// DrawWithOpacity, the canvas it was drawn on and the chain in force there at that moment: the
// content of a group is subject to those transforms followed by the group's own (see resolve).
func replay(evs []rec.Event, visit func(i int, e rec.Event, chain []int)) map[int]composite {
	type st struct {
		stack [][]int
		cur   []int
	}
	states := map[int]*st{}
	comps := map[int]composite{}
	for i, e := range evs {
		s := states[e.Cv]
		if s == nil {
			s = &st{}
			states[e.Cv] = s
		}
		switch e.Op {
		case "Save":
			s.stack = append(s.stack, s.cur)
			s.cur = append([]int(nil), s.cur...)
		case "Restore":
			if len(s.stack) > 0 {
				s.cur = s.stack[len(s.stack)-1]
				s.stack = s.stack[:len(s.stack)-1]
			}
		case "Transform":
			s.cur = append(s.cur, i)
		case "DrawWithOpacity":
			if _, dup := comps[e.Ref]; e.Ref >= 0 && !dup {
				comps[e.Ref] = composite{parent: e.Cv, chain: append([]int(nil), s.cur...)}
			}
		}
		visit(i, e, s.cur)
	}
	return comps
}

type composite struct {
	parent int
	chain  []int
}

// resolve turns the chain observed on canvas cv into the chain relative to the page: the chains
// at the DrawWithOpacity calls of the enclosing groups are prepended.  ok is false when the canvas
// is neither the page nor composited (its content is never shown).
func resolve(comps map[int]composite, page, cv int, chain []int) (full []int, ok bool) {
	full = chain
	for hops := 0; cv != page; hops++ {
		c, has := comps[cv]
		if !has || hops > 64 {
			return nil, false
		}
		full = append(append([]int(nil), c.chain...), full...)
		cv = c.parent
	}
	return full, true
}

func checkCSS(raw json.RawMessage) fw.Result {
	var in cssIn
	var res fw.Result
	if err := json.Unmarshal(raw, &in); err != nil {
		return fw.Result{Verdict: fw.Inconclusive, Msg: err.Error()}
	}
	for k := range in.Boxes {
		// a non-replaced inline box is not a transformable element (CSS Transforms 1 §2): a list
		// that a shared rule gives it, singular or not, has no effect at all
		if in.Boxes[k].Kind == "inline" {
			in.Boxes[k].Singular = false
		}
	}
	fonts, err := sharedFonts()
	if err != nil {
		return fw.Result{Verdict: fw.Inconclusive, Msg: "fonts: " + err.Error()}
	}
	opts := wr.Opts{HTML: in.HTML, Fonts: fonts, Files: in.Files}
	if in.UserCSS != "" {
		opts.UserCSS = []string{in.UserCSS}
	}
	r, err := wr.Render(opts)
	if err != nil {
		return fw.Result{Verdict: fw.Inconclusive, Msg: "render: " + err.Error()}
	}
	if len(r.Rec.Pages) != 1 {
		return fw.Result{Verdict: fw.Inconclusive, Msg: fmt.Sprintf("expected 1 page, got %d", len(r.Rec.Pages))}
	}
	evs := r.Rec.Events
	cv := r.Rec.Pages[0].ID

	// page preamble: the two device transforms (y flip, px → pt) issued by Document.Write
	var base []int
	for i, e := range evs {
		if e.Op == "Transform" && e.Cv == cv {
			base = append(base, i)
			if len(base) == 2 {
				break
			}
		}
	}
	okBase := len(base) == 2
	if okBase {
		a, b := f6(evs[base[0]].F), f6(evs[base[1]].F)
		okBase = a[1] == 0 && a[2] == 0 && a[0] == 1 && a[3] == -1 && b[1] == 0 && b[2] == 0 && b[0] == b[3] && b[0] > 0 && b[4] == 0 && b[5] == 0
	}
	if !okBase {
		return fw.Result{Verdict: fw.Inconclusive, Msg: "unexpected page preamble (device transforms)"}
	}

	// observed paint sites per box
	sites := make([]paintSite, len(in.Boxes))
	pending := -1
	totalTransforms := 0
	for _, e := range evs {
		if e.Op == "Transform" {
			totalTransforms++
		}
	}
	comps := replay(evs, func(i int, e rec.Event, chain []int) {
		if e.Op == "SetColorRgba" {
			pending = -1
			for k, b := range in.Boxes {
				if isColor(e, b.BG) && !sites[k].has {
					sites[k] = paintSite{at: i, chain: append([]int(nil), chain...), has: true}
					pending = k
				}
			}
			return
		}
		if e.Op == "Rectangle" && pending >= 0 {
			sites[pending].rect = [4]float64{float64(e.F[0]), float64(e.F[1]), float64(e.F[2]), float64(e.F[3])}
			pending = -1
		}
	})

	for k := range sites {
		if sites[k].has {
			full, ok := resolve(comps, cv, evs[sites[k].at].Cv, sites[k].chain)
			sites[k].chain, sites[k].has = full, ok
		}
	}

	// expectations
	hidden := make([]bool, len(in.Boxes))  // inside a box with a non-invertible transform
	applies := make([]bool, len(in.Boxes)) // a Transform call is expected for the box itself
	expTransforms := 0
	for k, b := range in.Boxes {
		if b.Parent >= 0 && (hidden[b.Parent] || in.Boxes[b.Parent].Singular) {
			hidden[k] = true
		}
		applies[k] = len(b.Fns) > 0 && !b.None && !b.Singular && b.Kind != "inline"
		if applies[k] && !hidden[k] {
			expTransforms++
		}
	}

	warnNonInv := 0
	for _, w := range r.Warnings {
		if strings.Contains(w, "non invertible") {
			warnNonInv++
		}
	}

	locals := make([]*affE, len(in.Boxes))
	for k, b := range in.Boxes {
		desc := func() string {
			o := "(initial)"
			if b.Origin != nil {
				o = b.Origin.Text
			}
			t := "(none)"
			if len(b.Fns) > 0 {
				var ts []string
				for _, f := range b.Fns {
					ts = append(ts, f.Text)
				}
				t = strings.Join(ts, " ")
			}
			how := b.via()
			if b.Shared {
				how = fmt.Sprintf("%s rule shared with %d earlier element(s), first #%s font-size %gpx", b.via(), b.ShareRank, in.Boxes[b.ShareFirst].ID, in.Boxes[b.ShareFirst].FS)
			}
			if b.Via == "inherit" {
				how = fmt.Sprintf("inherit, value computed at font-size %gpx", b.tfs())
			}
			if b.OriginInherit {
				o += fmt.Sprintf(" (inherit, computed at font-size %gpx)", b.ofs())
			}
			return fmt.Sprintf("box #%s (%s, font-size %gpx, declared through: %s) transform: %q transform-origin: %q", b.ID, b.Kind, b.FS, how, t, o)
		}
		if hidden[k] || b.Singular {
			// CSS Transforms 1 §5: "If a transform function causes the current transformation matrix
			// of an object to be non-invertible, the object and its content do not get displayed."
			if sites[k].has {
				res.Fail("css-singular-painted", fmt.Sprintf("%s: non-invertible transform (own or ancestor's) but the box was painted (event %d)\n%s", desc(), sites[k].at, in.HTML))
				return res
			}
			if b.Singular && !hidden[k] {
				res.Count("css_singular_checked", 1)
			}
			continue
		}
		if !sites[k].has {
			res.Verdict = fw.Inconclusive
			res.Msg = fmt.Sprintf("%s: background colour never set in the trace", desc())
			return res
		}
		s := sites[k]
		// geometry
		x, y, w, h := s.rect[0], s.rect[1], s.rect[2], s.rect[3]
		if b.Kind == "abs" {
			if math.Abs(x-b.X) > 0.01 || math.Abs(y-b.Y) > 0.01 || math.Abs(w-b.W) > 0.01 || math.Abs(h-b.H) > 0.01 {
				res.Verdict = fw.Inconclusive
				res.Msg = fmt.Sprintf("%s: modelled border box (%g,%g,%g,%g) differs from the painted one (%g,%g,%g,%g)", desc(), b.X, b.Y, b.W, b.H, x, y, w, h)
				return res
			}
			x, y, w, h = b.X, b.Y, b.W, b.H
			res.Count("css_geometry_modelled", 1)
		} else if b.Kind != "inline" {
			res.Count("css_geometry_observed", 1)
		}
		// expected chain: transformed ancestors-or-self, outermost first
		var expChain []int
		for a := k; a >= 0; a = in.Boxes[a].Parent {
			if applies[a] {
				expChain = append([]int{a}, expChain...)
			}
		}
		if applies[k] {
			if cnd, err := listCondition(b.Fns, false); err != nil || cnd > 100*maxCondition {
				return fw.Result{Verdict: fw.Skip, Msg: "nearly singular transform list: outside the domain"}
			}
			// font-relative lengths are made absolute when the value is computed — against the
			// element's own font size, or, for an inherited value, the font size of the element it
			// was computed for; percentages always refer to this box
			c := lenCtx{W: w, H: h, FS: b.tfs(), RootFS: in.RootFS}
			co := lenCtx{W: w, H: h, FS: b.ofs(), RootFS: in.RootFS}
			ox, oy := w/2, h/2 // initial value 50% 50%
			if b.Origin != nil {
				var e1, e2 error
				ox, e1 = co.length(b.Origin.X, w)
				oy, e2 = co.length(b.Origin.Y, h)
				if e1 != nil || e2 != nil {
					return fw.Result{Verdict: fw.Inconclusive, Msg: fmt.Sprint("origin: ", e1, e2)}
				}
				res.Count("css_origin_"+b.Origin.Form, 1)
			} else {
				res.Count("css_origin_initial", 1)
			}
			// the origin is a float32 sum of the border-box corner and the resolved offset: its error
			// is relative to the operands, not to the (possibly cancelling) sum
			oe := aff{E: 8 * eps32 * (math.Abs(x) + math.Abs(ox) + 500), F: 8 * eps32 * (math.Abs(y) + math.Abs(oy) + 500)} // +500: the corner itself is a sum of page-sized terms
			ms := []affE{{M: mTranslate(x+ox, y+oy), Err: oe}}
			for _, f := range b.Fns {
				m, err := cssMatrix(f, c)
				if err != nil {
					return fw.Result{Verdict: fw.Inconclusive, Msg: "reference model: " + err.Error()}
				}
				ms = append(ms, m)
			}
			ms = append(ms, affE{M: mTranslate(-(x + ox), -(y + oy)), Err: oe})
			l := listProduct(ms)
			locals[k] = &l
		}
		got := s.chain[len(base):]
		if len(s.chain) < len(base) || s.chain[0] != base[0] || s.chain[1] != base[1] {
			return fw.Result{Verdict: fw.Inconclusive, Msg: "box painted outside the page's device transforms"}
		}
		if len(got) != len(expChain) {
			var obs []string
			for _, gi := range got {
				obs = append(obs, affFrom(f6(evs[gi].F)).String())
			}
			sig := "css-chain"
			if b.Kind == "inline" {
				sig = "css-inline-transformed"
			} else if b.None || len(b.Fns) == 0 {
				sig = "css-untransformed-box-transformed"
			}
			res.Fail(sig, fmt.Sprintf("%s: %d Transform calls in force when the box is painted, expected %d (transformed ancestors-or-self); observed %v\n%s", desc(), len(got), len(expChain), obs, in.HTML))
			return res
		}
		for j, a := range expChain {
			if locals[a] == nil {
				return fw.Result{Verdict: fw.Inconclusive, Msg: "ancestor matrix not computed"}
			}
			obs := f6(evs[got[j]].F)
			if d := locals[a].cmp(obs); d != "" {
				ab := in.Boxes[a]
				sig := "css-matrix"
				if usesSkew(ab.Fns) {
					sig = "css-matrix-skew"
				}
				res.Fail(sig, fmt.Sprintf("%s: Transform call %d of its chain (for box #%s, border box %g,%g %gx%g) is %v, expected T(o)·M(f1)…M(fk)·T(−o) = %v: %s\n%s",
					desc(), j, ab.ID, x, y, w, h, affFrom(obs), locals[a].M, d, in.HTML))
				return res
			}
		}
		switch {
		case applies[k]:
			res.Nontrivial = true
			res.Count("css_lists_checked", 1)
			res.Count(fmt.Sprintf("css_list_len_%d", len(b.Fns)), 1)
			for _, f := range b.Fns {
				res.Count("css_fn_"+f.Name+fmt.Sprint(len(f.Args)), 1)
				for _, a := range f.Args {
					if a.U != "" {
						res.Count("css_unit_"+a.U, 1)
					}
				}
			}
			if len(expChain) >= 2 {
				res.Count("css_nested_chains", 1)
			}
			res.Count("css_kind_"+b.Kind, 1)
			res.Count("css_via_"+b.via(), 1)
			if b.Sheet != "" {
				res.Count("css_sheet_"+b.Sheet, 1)
			}
			if b.Shared {
				res.Count("css_shared_lists_checked", 1)
				if b.ShareRank > 0 {
					res.Count("css_shared_later_member", 1)
					if hasFontRel(b.Fns) && b.FS != in.Boxes[b.ShareFirst].FS {
						// the same declared value, a different computed value
						res.Count("css_shared_fontrel_other_fs", 1)
					}
					if hasPercent(b.Fns) {
						res.Count("css_shared_percent", 1)
					}
				}
			}
			if b.Via == "inherit" {
				res.Count("css_inherit_checked", 1)
				if hasFontRel(b.Fns) && b.tfs() != b.FS {
					res.Count("css_inherit_fontrel_other_fs", 1)
				}
				if b.OriginInherit {
					res.Count("css_inherit_origin", 1)
				}
			}
			if evs[s.at].Cv != cv {
				res.Count("css_in_opacity_group", 1)
			}
		case b.Kind == "inline" && len(b.Fns) > 0:
			res.Count("css_inline_not_transformed", 1)
		case b.None:
			res.Count("css_none_checked", 1)
		}
	}
	nSing := 0
	for k, b := range in.Boxes {
		if b.Singular && !hidden[k] {
			nSing++
		}
	}
	if nSing > 0 && warnNonInv < nSing {
		res.Fail("css-singular-no-warning", fmt.Sprintf("%d boxes with a non-invertible transform but %d warnings logged: %v\n%s", nSing, warnNonInv, r.Warnings, in.HTML))
		return res
	}
	if totalTransforms != len(base)+expTransforms {
		res.Fail("css-transform-count", fmt.Sprintf("%d Transform calls in the trace, expected %d device + %d for transformed boxes\n%s", totalTransforms, len(base), expTransforms, in.HTML))
		return res
	}
	res.Count("css_transform_events", int64(expTransforms))
	res.Count("css_docs", 1)
	return res
}

func usesSkew(fs []fn) bool {
	for _, f := range fs {
		if strings.HasPrefix(f.Name, "skew") {
			return true
		}
	}
	return false
}
