package c17

import (
	"encoding/json"
	"fmt"
	"math"
	"math/rand"
	"strings"
	"sync"

	"github.com/benoitkugler/webrender/text"

	"verif/internal/fw"
	"verif/internal/rec"
	"verif/internal/wr"
)

// ---- input ----------------------------------------------------------------------------------------

type cssBox struct {
	ID     string `json:"id"`
	Parent int    `json:"parent"` // index in Boxes, −1 = child of <body>
	// abs: absolutely positioned, border box modelled by the generator;
	// static | relative | inline-block | float | table | table-cell | flex: border box read from
	// the trace (the rectangle of the box's own background);  inline: a non-replaced inline box —
	// not transformable.
	Kind string `json:"kind"`
	BG   [3]int `json:"bg"`
	// generator-side border box in page coordinates (abs only)
	X float64 `json:"x"`
	Y float64 `json:"y"`
	W float64 `json:"w"`
	H float64 `json:"h"`
	// font-size of the element in px (em unit)
	FS float64 `json:"fs"`
	// the transform list (nil: no transform property; "none" when None is set) and origin (nil: initial 50% 50%)
	Fns      []fn    `json:"fns,omitempty"`
	None     bool    `json:"none,omitempty"`
	Origin   *origin `json:"origin,omitempty"`
	Singular bool    `json:"singular,omitempty"`
	Opacity  bool    `json:"opacity,omitempty"` // informative: the box has opacity < 1
}

type cssIn struct {
	Mode   string   `json:"mode"`
	HTML   string   `json:"html"`
	PageM  float64  `json:"page_margin"`
	RootFS float64  `json:"root_fs"`
	Boxes  []cssBox `json:"boxes"`
}

// ---- generator ------------------------------------------------------------------------------------

func hex2(v int) string { return fmt.Sprintf("%02x", v) }

func colorOf(c [3]int) string { return "#" + hex2(c[0]) + hex2(c[1]) + hex2(c[2]) }

func px(v float64) string { return fmt.Sprintf("%gpx", v) }

// genCSSDoc builds a document of 1–5 boxes.  formIdx ≥ 0 forces the first box to carry a
// single-function list of that form (exhaustive sweep over the function forms × leading cases).
func genCSSDoc(r *rand.Rand, formIdx int) cssIn {
	in := cssIn{Mode: "css", PageM: pick(r, []float64{0, 10, 25}), RootFS: pick(r, []float64{16, 20, 10})}
	type extra struct {
		style  string
		kids   []int
		border float64
	}
	var ex []extra
	nTop := 1 + r.Intn(3)
	addBox := func(parent int, depth int) int {
		k := len(in.Boxes)
		b := cssBox{ID: fmt.Sprintf("b%d", k), Parent: parent, BG: [3]int{20 + k*7, 40 + k*11, 60 + k*13}}
		border := pick(r, []float64{0, 0, 1, 2, 4})
		pad := pick(r, []float64{0, 3, 5})
		w, h := float64(20+r.Intn(100)), float64(10+r.Intn(70))
		b.FS = pick(r, []float64{8, 10, 16, 20})
		b.W, b.H = w+2*(border+pad), h+2*(border+pad)
		var st strings.Builder
		parentAbs := parent >= 0 && in.Boxes[parent].Kind == "abs"
		kind := "abs"
		if parent >= 0 && !parentAbs {
			kind = pick(r, []string{"static", "relative", "inline-block", "float", "table", "table-cell", "flex"})
			if in.Boxes[parent].Kind == "flex" {
				// flex items; tables and table cells inside a flex container are left to C09/C13
				kind = pick(r, []string{"static", "relative", "float"})
			}
		} else {
			switch r.Intn(10) {
			case 0:
				kind = "static"
			case 1:
				kind = "relative"
			case 2:
				kind = "inline-block"
			case 3:
				kind = "float"
			case 4:
				if parent < 0 {
					kind = "inline"
				}
			case 5:
				kind = pick(r, []string{"table", "table-cell", "flex"})
			}
		}
		b.Kind = kind
		ml, mt := pick(r, []float64{0, 0, 4, -3}), pick(r, []float64{0, 0, 6, -2})
		switch kind {
		case "abs":
			left, top := float64(r.Intn(400))/2, float64(r.Intn(300))/2
			fmt.Fprintf(&st, "position:absolute;left:%s;top:%s;", px(left), px(top))
			if parent < 0 {
				// containing block: the initial containing block = page area (CSS 2.1 §10.1)
				b.X, b.Y = in.PageM+left+ml, in.PageM+top+mt
			} else {
				// containing block: the padding box of the absolutely positioned parent
				p := in.Boxes[parent]
				pb := ex[parent].border
				b.X, b.Y = p.X+pb+left+ml, p.Y+pb+top+mt
			}
		case "static":
		case "relative":
			fmt.Fprintf(&st, "position:relative;left:%s;top:%s;", px(float64(r.Intn(40)-10)), px(float64(r.Intn(40)-10)))
		case "inline-block":
			st.WriteString("display:inline-block;")
		case "float":
			fmt.Fprintf(&st, "float:%s;", pick(r, []string{"left", "right"}))
		case "table", "table-cell", "flex":
			fmt.Fprintf(&st, "display:%s;", kind)
		case "inline":
		}
		if r.Intn(8) == 0 && kind != "inline" {
			// an opacity group: the box is drawn on its own canvas
			fmt.Fprintf(&st, "opacity:%s;", pick(r, []string{"0.5", "0.25", "0.75"}))
			b.Opacity = true
		}
		if kind != "inline" {
			fmt.Fprintf(&st, "width:%s;height:%s;margin:%s 0 0 %s;", px(w), px(h), px(mt), px(ml))
		}
		fmt.Fprintf(&st, "border:%s solid %s;padding:%s;background:%s;font-size:%s;", px(border), colorOf([3]int{200 + k, 10 + k*3, 10 + k*5}), px(pad), colorOf(b.BG), px(b.FS))
		// transform
		switch {
		case k == 0 && formIdx >= 0:
			forms := allowedCSSForms()
			b.Fns = []fn{genCSSFn(r, forms[formIdx%len(forms)])}
		case r.Intn(12) == 0:
			b.None = true
		case r.Intn(14) == 0 && kind != "inline":
			b.Singular = true
			b.Fns = genCSSList(r, true)
		case r.Intn(10) == 0:
			// no transform at all
		default:
			b.Fns = genCSSList(r, false)
		}
		if len(b.Fns) > 0 || b.None || r.Intn(6) == 0 {
			if r.Intn(3) != 0 {
				o := genOrigin(r)
				b.Origin = &o
			}
		}
		var decl []string
		if b.None {
			decl = append(decl, "transform:"+pick(r, []string{"none", "NONE"}))
		} else if len(b.Fns) > 0 {
			decl = append(decl, "transform:"+pick(r, []string{"", " "})+cssListText(r, b.Fns))
		}
		if b.Origin != nil {
			decl = append(decl, "transform-origin:"+b.Origin.Text)
		}
		if len(decl) == 2 && r.Intn(2) == 0 {
			decl[0], decl[1] = decl[1], decl[0]
		}
		st.WriteString(strings.Join(decl, ";"))
		in.Boxes = append(in.Boxes, b)
		ex = append(ex, extra{style: st.String(), border: border})
		if parent >= 0 {
			ex[parent].kids = append(ex[parent].kids, k)
		}
		return k
	}
	var tops []int
	for i := 0; i < nTop; i++ {
		k := addBox(-1, 0)
		tops = append(tops, k)
		// tables and table cells stay leaves: how a table's wrapper and grid grow around content is
		// table layout (C13), not a transform question
		leaf := func(k int) bool {
			kd := in.Boxes[k].Kind
			return kd == "inline" || kd == "table" || kd == "table-cell"
		}
		if !leaf(k) && r.Intn(2) == 0 {
			c := addBox(k, 1)
			if !leaf(c) && r.Intn(3) == 0 {
				addBox(c, 2)
			}
		}
	}
	var sb strings.Builder
	fmt.Fprintf(&sb, "<html><head><style>\n@page{size:500px 800px;margin:%s}\nhtml{font-size:%s}\nbody{margin:0}\n", px(in.PageM), px(in.RootFS))
	for k, b := range in.Boxes {
		fmt.Fprintf(&sb, "#%s{%s}\n", b.ID, ex[k].style)
	}
	sb.WriteString("</style></head><body>")
	var emit func(k int)
	emit = func(k int) {
		b := in.Boxes[k]
		tag := "div"
		if b.Kind == "inline" {
			tag = "span"
		}
		fmt.Fprintf(&sb, "<%s id=%s>", tag, b.ID)
		if b.Kind == "inline" {
			sb.WriteString("x")
		}
		for _, c := range ex[k].kids {
			emit(c)
		}
		fmt.Fprintf(&sb, "</%s>", tag)
	}
	for _, k := range tops {
		emit(k)
	}
	sb.WriteString("</body></html>")
	in.HTML = sb.String()
	return in
}

// ---- check ----------------------------------------------------------------------------------------

var (
	fontsOnce sync.Once
	fontsCfg  text.FontConfiguration
	fontsErr  error
)

func sharedFonts() (text.FontConfiguration, error) {
	fontsOnce.Do(func() { fontsCfg, fontsErr = wr.NewPangoConfig() })
	return fontsCfg, fontsErr
}

func f6(f []rec.Fl) [6]float64 {
	var o [6]float64
	for i := 0; i < 6 && i < len(f); i++ {
		o[i] = float64(f[i])
	}
	return o
}

func isColor(e rec.Event, c [3]int) bool {
	if e.Op != "SetColorRgba" || len(e.F) < 4 {
		return false
	}
	for i := 0; i < 3; i++ {
		if math.Abs(float64(e.F[i])-float64(c[i])/255) > 1e-5 {
			return false
		}
	}
	return true
}

// paintSite is where a colour was set: the Transform events in force (indexes into Events, in
// application order) and the first rectangle constructed afterwards.
type paintSite struct {
	at    int
	chain []int
	rect  [4]float64
	has   bool
}

// replay walks the whole trace, maintaining per canvas the stack of Transform events in force
// (Save/Restore delimit OnNewStack scopes), and calls visit for every event with the chain of its
// canvas.  It returns, for every group canvas (NewGroup: opacity) that was composited with
// DrawWithOpacity, the canvas it was drawn on and the chain in force there at that moment: the
// content of a group is subject to those transforms followed by the group's own (see resolve).
func replay(evs []rec.Event, visit func(i int, e rec.Event, chain []int)) map[int]composite {
	type st struct {
		stack [][]int
		cur   []int
	}
	states := map[int]*st{}
	comps := map[int]composite{}
	for i, e := range evs {
		s := states[e.Cv]
		if s == nil {
			s = &st{}
			states[e.Cv] = s
		}
		switch e.Op {
		case "Save":
			s.stack = append(s.stack, s.cur)
			s.cur = append([]int(nil), s.cur...)
		case "Restore":
			if len(s.stack) > 0 {
				s.cur = s.stack[len(s.stack)-1]
				s.stack = s.stack[:len(s.stack)-1]
			}
		case "Transform":
			s.cur = append(s.cur, i)
		case "DrawWithOpacity":
			if _, dup := comps[e.Ref]; e.Ref >= 0 && !dup {
				comps[e.Ref] = composite{parent: e.Cv, chain: append([]int(nil), s.cur...)}
			}
		}
		visit(i, e, s.cur)
	}
	return comps
}

type composite struct {
	parent int
	chain  []int
}

// resolve turns the chain observed on canvas cv into the chain relative to the page: the chains
// at the DrawWithOpacity calls of the enclosing groups are prepended.  ok is false when the canvas
// is neither the page nor composited (its content is never shown).
func resolve(comps map[int]composite, page, cv int, chain []int) (full []int, ok bool) {
	full = chain
	for hops := 0; cv != page; hops++ {
		c, has := comps[cv]
		if !has || hops > 64 {
			return nil, false
		}
		full = append(append([]int(nil), c.chain...), full...)
		cv = c.parent
	}
	return full, true
}

func checkCSS(raw json.RawMessage) fw.Result {
	var in cssIn
	var res fw.Result
	if err := json.Unmarshal(raw, &in); err != nil {
		return fw.Result{Verdict: fw.Inconclusive, Msg: err.Error()}
	}
	fonts, err := sharedFonts()
	if err != nil {
		return fw.Result{Verdict: fw.Inconclusive, Msg: "fonts: " + err.Error()}
	}
	r, err := wr.Render(wr.Opts{HTML: in.HTML, Fonts: fonts})
	if err != nil {
		return fw.Result{Verdict: fw.Inconclusive, Msg: "render: " + err.Error()}
	}
	if len(r.Rec.Pages) != 1 {
		return fw.Result{Verdict: fw.Inconclusive, Msg: fmt.Sprintf("expected 1 page, got %d", len(r.Rec.Pages))}
	}
	evs := r.Rec.Events
	cv := r.Rec.Pages[0].ID

	// page preamble: the two device transforms (y flip, px → pt) issued by Document.Write
	var base []int
	for i, e := range evs {
		if e.Op == "Transform" && e.Cv == cv {
			base = append(base, i)
			if len(base) == 2 {
				break
			}
		}
	}
	okBase := len(base) == 2
	if okBase {
		a, b := f6(evs[base[0]].F), f6(evs[base[1]].F)
		okBase = a[1] == 0 && a[2] == 0 && a[0] == 1 && a[3] == -1 && b[1] == 0 && b[2] == 0 && b[0] == b[3] && b[0] > 0 && b[4] == 0 && b[5] == 0
	}
	if !okBase {
		return fw.Result{Verdict: fw.Inconclusive, Msg: "unexpected page preamble (device transforms)"}
	}

	// observed paint sites per box
	sites := make([]paintSite, len(in.Boxes))
	pending := -1
	totalTransforms := 0
	for _, e := range evs {
		if e.Op == "Transform" {
			totalTransforms++
		}
	}
	comps := replay(evs, func(i int, e rec.Event, chain []int) {
		if e.Op == "SetColorRgba" {
			pending = -1
			for k, b := range in.Boxes {
				if isColor(e, b.BG) && !sites[k].has {
					sites[k] = paintSite{at: i, chain: append([]int(nil), chain...), has: true}
					pending = k
				}
			}
			return
		}
		if e.Op == "Rectangle" && pending >= 0 {
			sites[pending].rect = [4]float64{float64(e.F[0]), float64(e.F[1]), float64(e.F[2]), float64(e.F[3])}
			pending = -1
		}
	})

	for k := range sites {
		if sites[k].has {
			full, ok := resolve(comps, cv, evs[sites[k].at].Cv, sites[k].chain)
			sites[k].chain, sites[k].has = full, ok
		}
	}

	// expectations
	hidden := make([]bool, len(in.Boxes))  // inside a box with a non-invertible transform
	applies := make([]bool, len(in.Boxes)) // a Transform call is expected for the box itself
	expTransforms := 0
	for k, b := range in.Boxes {
		if b.Parent >= 0 && (hidden[b.Parent] || in.Boxes[b.Parent].Singular) {
			hidden[k] = true
		}
		applies[k] = len(b.Fns) > 0 && !b.None && !b.Singular && b.Kind != "inline"
		if applies[k] && !hidden[k] {
			expTransforms++
		}
	}

	warnNonInv := 0
	for _, w := range r.Warnings {
		if strings.Contains(w, "non invertible") {
			warnNonInv++
		}
	}

	locals := make([]*affE, len(in.Boxes))
	for k, b := range in.Boxes {
		desc := func() string {
			o := "(initial)"
			if b.Origin != nil {
				o = b.Origin.Text
			}
			t := "(none)"
			if len(b.Fns) > 0 {
				var ts []string
				for _, f := range b.Fns {
					ts = append(ts, f.Text)
				}
				t = strings.Join(ts, " ")
			}
			return fmt.Sprintf("box #%s (%s) transform: %q transform-origin: %q", b.ID, b.Kind, t, o)
		}
		if hidden[k] || b.Singular {
			// CSS Transforms 1 §5: "If a transform function causes the current transformation matrix
			// of an object to be non-invertible, the object and its content do not get displayed."
			if sites[k].has {
				res.Fail("css-singular-painted", fmt.Sprintf("%s: non-invertible transform (own or ancestor's) but the box was painted (event %d)\n%s", desc(), sites[k].at, in.HTML))
				return res
			}
			if b.Singular && !hidden[k] {
				res.Count("css_singular_checked", 1)
			}
			continue
		}
		if !sites[k].has {
			res.Verdict = fw.Inconclusive
			res.Msg = fmt.Sprintf("%s: background colour never set in the trace", desc())
			return res
		}
		s := sites[k]
		// geometry
		x, y, w, h := s.rect[0], s.rect[1], s.rect[2], s.rect[3]
		if b.Kind == "abs" {
			if math.Abs(x-b.X) > 0.01 || math.Abs(y-b.Y) > 0.01 || math.Abs(w-b.W) > 0.01 || math.Abs(h-b.H) > 0.01 {
				res.Verdict = fw.Inconclusive
				res.Msg = fmt.Sprintf("%s: modelled border box (%g,%g,%g,%g) differs from the painted one (%g,%g,%g,%g)", desc(), b.X, b.Y, b.W, b.H, x, y, w, h)
				return res
			}
			x, y, w, h = b.X, b.Y, b.W, b.H
			res.Count("css_geometry_modelled", 1)
		} else if b.Kind != "inline" {
			res.Count("css_geometry_observed", 1)
		}
		// expected chain: transformed ancestors-or-self, outermost first
		var expChain []int
		for a := k; a >= 0; a = in.Boxes[a].Parent {
			if applies[a] {
				expChain = append([]int{a}, expChain...)
			}
		}
		if applies[k] {
			if cnd, err := listCondition(b.Fns, false); err != nil || cnd > 100*maxCondition {
				return fw.Result{Verdict: fw.Skip, Msg: "nearly singular transform list: outside the domain"}
			}
			c := lenCtx{W: w, H: h, FS: b.FS, RootFS: in.RootFS}
			ox, oy := w/2, h/2 // initial value 50% 50%
			if b.Origin != nil {
				var e1, e2 error
				ox, e1 = c.length(b.Origin.X, w)
				oy, e2 = c.length(b.Origin.Y, h)
				if e1 != nil || e2 != nil {
					return fw.Result{Verdict: fw.Inconclusive, Msg: fmt.Sprint("origin: ", e1, e2)}
				}
				res.Count("css_origin_"+b.Origin.Form, 1)
			} else {
				res.Count("css_origin_initial", 1)
			}
			// the origin is a float32 sum of the border-box corner and the resolved offset: its error
			// is relative to the operands, not to the (possibly cancelling) sum
			oe := aff{E: 8 * eps32 * (math.Abs(x) + math.Abs(ox) + 500), F: 8 * eps32 * (math.Abs(y) + math.Abs(oy) + 500)} // +500: the corner itself is a sum of page-sized terms
			ms := []affE{{M: mTranslate(x+ox, y+oy), Err: oe}}
			for _, f := range b.Fns {
				m, err := cssMatrix(f, c)
				if err != nil {
					return fw.Result{Verdict: fw.Inconclusive, Msg: "reference model: " + err.Error()}
				}
				ms = append(ms, m)
			}
			ms = append(ms, affE{M: mTranslate(-(x + ox), -(y + oy)), Err: oe})
			l := listProduct(ms)
			locals[k] = &l
		}
		got := s.chain[len(base):]
		if len(s.chain) < len(base) || s.chain[0] != base[0] || s.chain[1] != base[1] {
			return fw.Result{Verdict: fw.Inconclusive, Msg: "box painted outside the page's device transforms"}
		}
		if len(got) != len(expChain) {
			var obs []string
			for _, gi := range got {
				obs = append(obs, affFrom(f6(evs[gi].F)).String())
			}
			sig := "css-chain"
			if b.Kind == "inline" {
				sig = "css-inline-transformed"
			} else if b.None || len(b.Fns) == 0 {
				sig = "css-untransformed-box-transformed"
			}
			res.Fail(sig, fmt.Sprintf("%s: %d Transform calls in force when the box is painted, expected %d (transformed ancestors-or-self); observed %v\n%s", desc(), len(got), len(expChain), obs, in.HTML))
			return res
		}
		for j, a := range expChain {
			if locals[a] == nil {
				return fw.Result{Verdict: fw.Inconclusive, Msg: "ancestor matrix not computed"}
			}
			obs := f6(evs[got[j]].F)
			if d := locals[a].cmp(obs); d != "" {
				ab := in.Boxes[a]
				sig := "css-matrix"
				if usesSkew(ab.Fns) {
					sig = "css-matrix-skew"
				}
				res.Fail(sig, fmt.Sprintf("%s: Transform call %d of its chain (for box #%s, border box %g,%g %gx%g) is %v, expected T(o)·M(f1)…M(fk)·T(−o) = %v: %s\n%s",
					desc(), j, ab.ID, x, y, w, h, affFrom(obs), locals[a].M, d, in.HTML))
				return res
			}
		}
		switch {
		case applies[k]:
			res.Nontrivial = true
			res.Count("css_lists_checked", 1)
			res.Count(fmt.Sprintf("css_list_len_%d", len(b.Fns)), 1)
			for _, f := range b.Fns {
				res.Count("css_fn_"+f.Name+fmt.Sprint(len(f.Args)), 1)
				for _, a := range f.Args {
					if a.U != "" {
						res.Count("css_unit_"+a.U, 1)
					}
				}
			}
			if len(expChain) >= 2 {
				res.Count("css_nested_chains", 1)
			}
			res.Count("css_kind_"+b.Kind, 1)
			if evs[s.at].Cv != cv {
				res.Count("css_in_opacity_group", 1)
			}
		case b.Kind == "inline" && len(b.Fns) > 0:
			res.Count("css_inline_not_transformed", 1)
		case b.None:
			res.Count("css_none_checked", 1)
		}
	}
	nSing := 0
	for k, b := range in.Boxes {
		if b.Singular && !hidden[k] {
			nSing++
		}
	}
	if nSing > 0 && warnNonInv < nSing {
		res.Fail("css-singular-no-warning", fmt.Sprintf("%d boxes with a non-invertible transform but %d warnings logged: %v\n%s", nSing, warnNonInv, r.Warnings, in.HTML))
		return res
	}
	if totalTransforms != len(base)+expTransforms {
		res.Fail("css-transform-count", fmt.Sprintf("%d Transform calls in the trace, expected %d device + %d for transformed boxes\n%s", totalTransforms, len(base), expTransforms, in.HTML))
		return res
	}
	res.Count("css_transform_events", int64(expTransforms))
	res.Count("css_docs", 1)
	return res
}

func usesSkew(fs []fn) bool {
	for _, f := range fs {
		if strings.HasPrefix(f.Name, "skew") {
			return true
		}
	}
	return false
}
