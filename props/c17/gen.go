package c17

import (
	"math"
	"math/rand"
	"strconv"
	"strings"
)

// ---- domain switches ---------------------------------------------------------------------------
//
// Feature combinations that hit a genuine defect of the tree are kept out of the *random
// generator* (never out of the oracle: Check evaluates them fully, and the witnesses in
// findings/C17/ exercise them) by setting a switch to false.  All seven defects found on the pinned
// tree have been repaired by fix: commits in /repo (7c2199c, ac76796, accd666, f46199d), so every
// switch is on; the comments describe the defect each one used to guard.  See notes/C17.md.
const (
	// matrix.Skew builds matrix(1, tan(ax), tan(ay), 1, 0, 0) instead of (1, tan(ay), tan(ax), 1,
	// 0, 0): every CSS skew()/skewX()/skewY() and SVG skewX()/skewY() with a non-zero angle is
	// rendered as the other shear.
	genSkew = true
	// validation.transformFunction requires `angle != 0`: rotate(0deg), skewX(0rad) … make the
	// whole `transform` declaration invalid.
	genZeroAngle = true
	// validation.transformFunction has no two-argument skew(ax, ay) (CSS Transforms 1 §10.1).
	genSkew2 = true
	// getAngle accepts only <dimension> tokens: the unitless zero angle that CSS Transforms 1
	// allows ("rotate(0)") is rejected.
	genUnitlessZeroAngle = true
	// svg.parseTransform splits the attribute on ")" and the arguments on ' ' and ',' only: a
	// comma between two transforms, or tab/newline/CR as white space (SVG 1.1 §7.6 BNF: comma-wsp,
	// wsp), make svg.Parse fail for the whole document.
	genSVGCommaBetween = true
	genSVGTabNewline   = true
	// units are matched case-sensitively (LENGTHUNITS / AngleUnits are looked up with the raw unit
	// text): "10PX", "1Mm", "90DEG" invalidate the declaration although CSS units are ASCII
	// case-insensitive (CSS Values 3 §5).
	genUpperCaseUnits = true
)

// |tan| above this bound is not generated for skews (the float32 angle error is amplified by
// 1+tan², and beyond ~89.5° the tolerance would stop meaning anything).
const maxTan = 60

func pick[T any](r *rand.Rand, xs []T) T { return xs[r.Intn(len(xs))] }

// spell writes v (a value with at most 4 decimals) in one of the number syntaxes shared by CSS
// Syntax 3 §4.3.12 and the SVG 1.1 number grammar.
func spell(r *rand.Rand, v float64) string {
	if v == 0 {
		v = 0 // no negative zero
	}
	s := strconv.FormatFloat(v, 'f', -1, 64)
	switch r.Intn(12) {
	case 0: // explicit plus sign
		if v >= 0 {
			return "+" + s
		}
	case 1: // trailing zeros
		if strings.Contains(s, ".") {
			return s + "0"
		}
		return s + ".0"
	case 2: // no leading zero
		if strings.HasPrefix(s, "0.") {
			return s[1:]
		}
		if strings.HasPrefix(s, "-0.") {
			return "-" + s[2:]
		}
	case 3: // exponent: v = (v*10)e-1
		m := strconv.FormatFloat(v*10, 'f', -1, 64)
		if back, err := strconv.ParseFloat(m+"e-1", 64); err == nil && back == v {
			return m + "e-1"
		}
	case 4: // exponent: v = (v/10)e1 or E+1
		m := strconv.FormatFloat(v/10, 'f', -1, 64)
		if back, err := strconv.ParseFloat(m+"e1", 64); err == nil && back == v && len(m) < 12 {
			return m + pick(r, []string{"e1", "E1", "e+1"})
		}
	}
	return s
}

func q(r *rand.Rand, lo, hi float64) float64 { // random quarter in [lo, hi]
	n := int((hi - lo) * 4)
	return lo + float64(r.Intn(n+1))/4
}

var (
	scalePool   = []float64{1, -1, 2, 0.5, 0.25, -2, 1.5, 3, -0.5, 4, 0.75, -1.25, 10, 0.125}
	degPool     = []float64{1, -1, 5, 30, 45, -45, 60, 89, 90, -90, 135, 180, 270, 360, 400, 720.5, -33.25, 3600.5, 0.25, 22.5, -120, 1e4}
	gradPool    = []float64{50, 100, -200, 33.25, 400, 1, -12.5, 250}
	radPool     = []float64{0.5, 1, -1.5, 3, 6.25, 0.25, -0.125, 100, 3.1416}
	turnPool    = []float64{0.25, 0.5, -0.125, 1, 2.75, 0.0625, -1.5}
	percPool    = []float64{10, 25, 50, 100, -50, 200, 12.5, -25, 0}
	lenUnitPool = []string{"px", "px", "px", "px", "%", "%", "pt", "pc", "in", "cm", "mm", "q", "em", "rem", "ex", "ch"}
	// units whose computed value depends on the element (its font): CSS Values 3 §5.1.1
	fontRelUnits = []string{"em", "em", "ex", "ch"}
)

func isFontRel(u string) bool { return u == "em" || u == "ex" || u == "ch" }

// hasFontRel reports whether the list has a non-zero length in a unit relative to the element's font.
func hasFontRel(fs []fn) bool {
	for _, f := range fs {
		for _, a := range f.Args {
			if isFontRel(a.U) && a.V != 0 {
				return true
			}
		}
	}
	return false
}

func hasPercent(fs []fn) bool {
	for _, f := range fs {
		for _, a := range f.Args {
			if a.U == "%" && a.V != 0 {
				return true
			}
		}
	}
	return false
}

func unitCase(r *rand.Rand, u string) string {
	if u == "%" || u == "" || !genUpperCaseUnits {
		return u
	}
	switch r.Intn(8) {
	case 0:
		return strings.ToUpper(u)
	case 1:
		return strings.ToUpper(u[:1]) + u[1:]
	}
	return u
}

func genLen(r *rand.Rand) arg {
	u := pick(r, lenUnitPool)
	switch u {
	case "px":
		if r.Intn(12) == 0 {
			return arg{V: 0, U: pick(r, []string{"", "px"})}
		}
		return arg{V: q(r, -150, 150), U: u}
	case "%":
		return arg{V: pick(r, percPool), U: u}
	case "pt":
		return arg{V: q(r, -60, 60), U: u}
	case "pc":
		return arg{V: q(r, -6, 6), U: u}
	case "in":
		return arg{V: q(r, -2, 2), U: u}
	case "cm":
		return arg{V: q(r, -4, 4), U: u}
	case "mm":
		return arg{V: q(r, -40, 40), U: u}
	case "q":
		return arg{V: q(r, -100, 100), U: u}
	}
	return arg{V: q(r, -5, 5), U: u} // em, rem, ex, ch
}

func genFontRelLen(r *rand.Rand) arg {
	for {
		if v := q(r, -5, 5); v != 0 {
			return arg{V: v, U: pick(r, fontRelUnits)}
		}
	}
}

// genCSSListElemDep builds a non-singular list of 2–4 functions, one of which is a translation by
// lengths relative to the element's font: the declared value is one, its computed value differs
// from element to element.  (A translation does not change the linear part, so the condition of
// the list is that of the list it is inserted in.)
func genCSSListElemDep(r *rand.Rand) []fn {
	for {
		fs := genCSSList(r, false)
		if len(fs) >= 4 {
			continue
		}
		var f fn
		switch r.Intn(4) {
		case 0:
			f = fn{Name: "translate", Args: []arg{genFontRelLen(r)}}
		case 1:
			f = fn{Name: "translate", Args: []arg{pick(r, []arg{genFontRelLen(r), genLen(r)}), genFontRelLen(r)}}
		case 2:
			f = fn{Name: "translateX", Args: []arg{genFontRelLen(r)}}
		default:
			f = fn{Name: "translateY", Args: []arg{genFontRelLen(r)}}
		}
		f.Text = cssFnText(r, f.Name, f.Args)
		at := r.Intn(len(fs) + 1)
		out := append([]fn(nil), fs[:at]...)
		out = append(out, f)
		return append(out, fs[at:]...)
	}
}

// genAngle returns a CSS angle; forTan bounds |tan| for skews.
func genAngle(r *rand.Rand, forTan bool) arg {
	for {
		var a arg
		switch r.Intn(8) {
		case 0, 1, 2, 3:
			a = arg{V: pick(r, degPool), U: "deg"}
			if r.Intn(4) == 0 {
				a.V = q(r, -360, 360)
			}
		case 4:
			a = arg{V: pick(r, gradPool), U: "grad"}
		case 5, 6:
			a = arg{V: pick(r, radPool), U: "rad"}
		default:
			a = arg{V: pick(r, turnPool), U: "turn"}
		}
		if genZeroAngle && r.Intn(12) == 0 {
			a.V = 0
			if genUnitlessZeroAngle && r.Intn(3) == 0 {
				a.U = ""
			}
		}
		if a.V == 0 && !genZeroAngle {
			continue
		}
		if forTan {
			rad, _ := radians(a)
			if math.Abs(math.Tan(rad)) > maxTan {
				continue
			}
		}
		return a
	}
}

func genMatrixArgs(r *rand.Rand, singular bool) []arg {
	for {
		a, b, c, d := q(r, -4, 4), q(r, -4, 4), q(r, -4, 4), q(r, -4, 4)
		if singular {
			// integer rank-1 matrices: the determinant is exactly 0 in any arithmetic
			k := float64(r.Intn(5) - 2)
			a, b = float64(r.Intn(7)-3), float64(r.Intn(7)-3)
			c, d = k*a, k*b
		} else if math.Abs(a*d-b*c) < 0.25 {
			continue
		}
		return []arg{{V: a}, {V: b}, {V: c}, {V: d}, {V: q(r, -100, 100)}, {V: q(r, -100, 100)}}
	}
}

func funcCase(r *rand.Rand, name string) string {
	switch r.Intn(10) {
	case 0:
		return strings.ToUpper(name)
	case 1:
		return strings.ToLower(name)
	}
	return name
}

// cssFnText spells a function call per CSS Transforms 1 §10 (arguments separated by commas with
// optional white space).
func cssFnText(r *rand.Rand, name string, args []arg) string {
	var sb strings.Builder
	sb.WriteString(funcCase(r, name))
	sb.WriteByte('(')
	sb.WriteString(pick(r, []string{"", "", "", " "}))
	for i, a := range args {
		if i > 0 {
			sb.WriteString(pick(r, []string{",", ", ", " , ", ",\n"}))
		}
		sb.WriteString(spell(r, a.V))
		sb.WriteString(unitCase(r, a.U))
	}
	sb.WriteString(pick(r, []string{"", "", "", " "}))
	sb.WriteByte(')')
	return sb.String()
}

// cssForms enumerates every function form of the 2D subset; index < len(cssForms()) selects one.
var cssFormNames = []string{
	"translate1", "translate2", "translateX", "translateY", "scale1", "scale2", "scaleX", "scaleY",
	"rotate", "matrix", "skew1", "skewX", "skewY", "skew2",
}

func cssFormAllowed(form string) bool {
	switch form {
	case "skew1", "skewX", "skewY":
		return genSkew
	case "skew2":
		return genSkew && genSkew2
	}
	return true
}

func allowedCSSForms() []string {
	var out []string
	for _, f := range cssFormNames {
		if cssFormAllowed(f) {
			out = append(out, f)
		}
	}
	return out
}

// genCSSFn builds one non-singular function of the given form.
func genCSSFn(r *rand.Rand, form string) fn {
	var f fn
	switch form {
	case "translate1":
		f = fn{Name: "translate", Args: []arg{genLen(r)}}
	case "translate2":
		f = fn{Name: "translate", Args: []arg{genLen(r), genLen(r)}}
	case "translateX":
		f = fn{Name: "translateX", Args: []arg{genLen(r)}}
	case "translateY":
		f = fn{Name: "translateY", Args: []arg{genLen(r)}}
	case "scale1":
		f = fn{Name: "scale", Args: []arg{{V: pick(r, scalePool)}}}
	case "scale2":
		f = fn{Name: "scale", Args: []arg{{V: pick(r, scalePool)}, {V: pick(r, scalePool)}}}
	case "scaleX":
		f = fn{Name: "scaleX", Args: []arg{{V: pick(r, scalePool)}}}
	case "scaleY":
		f = fn{Name: "scaleY", Args: []arg{{V: pick(r, scalePool)}}}
	case "rotate":
		f = fn{Name: "rotate", Args: []arg{genAngle(r, false)}}
	case "matrix":
		f = fn{Name: "matrix", Args: genMatrixArgs(r, false)}
	case "skew1":
		f = fn{Name: "skew", Args: []arg{genAngle(r, true)}}
	case "skew2":
		f = fn{Name: "skew", Args: []arg{genAngle(r, true), genAngle(r, true)}}
	case "skewX":
		f = fn{Name: "skewX", Args: []arg{genAngle(r, true)}}
	case "skewY":
		f = fn{Name: "skewY", Args: []arg{genAngle(r, true)}}
	default:
		panic("unknown form " + form)
	}
	f.Text = cssFnText(r, f.Name, f.Args)
	return f
}

// genCSSSingular builds a function whose matrix has a determinant that is exactly zero.
func genCSSSingular(r *rand.Rand) fn {
	var f fn
	switch r.Intn(5) {
	case 0:
		f = fn{Name: "scale", Args: []arg{{V: 0}}}
	case 1:
		f = fn{Name: "scale", Args: []arg{{V: pick(r, []float64{0, 2, -1})}, {V: 0}}}
	case 2:
		f = fn{Name: "scaleX", Args: []arg{{V: 0}}}
	case 3:
		f = fn{Name: "scaleY", Args: []arg{{V: 0}}}
	default:
		f = fn{Name: "matrix", Args: genMatrixArgs(r, true)}
	}
	f.Text = cssFnText(r, f.Name, f.Args)
	return f
}

// exactForms: functions whose matrices have small-integer/binary entries, so that a product with
// a singular factor has a determinant of exactly 0 in float32 as well.
func genCSSExactFn(r *rand.Rand) fn {
	var f fn
	switch r.Intn(3) {
	case 0:
		f = fn{Name: "translate", Args: []arg{{V: float64(r.Intn(41) - 20), U: "px"}, {V: float64(r.Intn(41) - 20), U: "px"}}}
	case 1:
		f = fn{Name: "scale", Args: []arg{{V: pick(r, []float64{1, 2, -1, 0.5, 4})}, {V: pick(r, []float64{1, 2, -1, 0.5, 4})}}}
	default:
		f = fn{Name: "matrix", Args: []arg{{V: float64(r.Intn(5) - 2)}, {V: float64(r.Intn(5) - 2)}, {V: float64(r.Intn(5) - 2)}, {V: float64(r.Intn(5) - 2)}, {V: float64(r.Intn(21) - 10)}, {V: float64(r.Intn(21) - 10)}}}
	}
	f.Text = cssFnText(r, f.Name, f.Args)
	return f
}

// genCSSList builds a transform list of 1..4 functions.  When singular is set, exactly-representable
// functions surround one singular function.
func genCSSList(r *rand.Rand, singular bool) []fn {
	forms := allowedCSSForms()
	n := 1 + r.Intn(4)
	out := make([]fn, 0, n)
	if singular {
		k := r.Intn(n)
		for i := 0; i < n; i++ {
			if i == k {
				out = append(out, genCSSSingular(r))
			} else {
				out = append(out, genCSSExactFn(r))
			}
		}
		return out
	}
	for {
		out = out[:0]
		for i := 0; i < n; i++ {
			out = append(out, genCSSFn(r, pick(r, forms)))
		}
		if c, err := listCondition(out, false); err == nil && c <= maxCondition {
			return out
		}
	}
}

// maxCondition bounds (|a·d|+|b·c|)/|det| of a generated non-singular list: beyond it a float32
// determinant loses its leading digits and "is the list invertible" stops being well defined
// (e.g. skew(45deg, 45deg) is exactly singular, skew(45deg, 44.99deg) is not).
const maxCondition = 1e3

// listCondition evaluates the linear part of the list's reference product.
func listCondition(fs []fn, isSVG bool) (float64, error) {
	m := affID
	for _, f := range fs {
		var x affE
		var err error
		if isSVG {
			x, err = svgMatrix(f)
		} else {
			x, err = cssMatrix(f, lenCtx{W: 100, H: 100, FS: 16, RootFS: 16})
		}
		if err != nil {
			return 0, err
		}
		m = m.mul(x.M)
	}
	d := math.Abs(m.det())
	if d == 0 {
		return math.Inf(1), nil
	}
	return (math.Abs(m.A*m.D) + math.Abs(m.B*m.C)) / d, nil
}

func cssListText(r *rand.Rand, fs []fn) string {
	var sb strings.Builder
	for i, f := range fs {
		if i > 0 {
			sb.WriteString(pick(r, []string{" ", " ", "  ", "\n"}))
		}
		sb.WriteString(f.Text)
	}
	return sb.String()
}

// ---- transform-origin ---------------------------------------------------------------------------

// origin is the generator-side value of transform-origin: both components as <length-percentage>
// (keywords already mapped per CSS Transforms 1 §6: left/top = 0%, center = 50%, right/bottom =
// 100%; a single value sets the other one to center), plus its spelling.
type origin struct {
	X    arg    `json:"x"`
	Y    arg    `json:"y"`
	Text string `json:"text"`
	Form string `json:"form"`
}

var (
	hKeys = map[string]float64{"left": 0, "center": 50, "right": 100}
	vKeys = map[string]float64{"top": 0, "center": 50, "bottom": 100}
)

func genOriginLP(r *rand.Rand) (arg, string) {
	a := genLen(r)
	if a.U == "" {
		a.U = "px"
	}
	return a, spell(r, a.V) + unitCase(r, a.U)
}

func keyCase(r *rand.Rand, k string) string {
	if r.Intn(8) == 0 {
		return strings.ToUpper(k)
	}
	return k
}

func genOrigin(r *rand.Rand) origin {
	hk := []string{"left", "center", "right"}
	vk := []string{"top", "center", "bottom"}
	var o origin
	switch r.Intn(8) {
	case 0: // one keyword
		k := pick(r, []string{"left", "center", "right", "top", "bottom"})
		o = origin{X: arg{V: 50, U: "%"}, Y: arg{V: 50, U: "%"}, Text: keyCase(r, k), Form: "keyword"}
		if v, ok := hKeys[k]; ok && k != "center" {
			o.X.V = v
		}
		if v, ok := vKeys[k]; ok && k != "center" {
			o.Y.V = v
		}
	case 1: // one length-percentage: horizontal, vertical is center
		a, t := genOriginLP(r)
		o = origin{X: a, Y: arg{V: 50, U: "%"}, Text: t, Form: "lp"}
	case 2: // keyword keyword (horizontal first)
		h, v := pick(r, hk), pick(r, vk)
		o = origin{X: arg{V: hKeys[h], U: "%"}, Y: arg{V: vKeys[v], U: "%"}, Text: keyCase(r, h) + " " + keyCase(r, v), Form: "kw-kw"}
	case 3: // keyword keyword (vertical first): only unambiguous pairs
		h, v := pick(r, hk), pick(r, vk)
		if h == "center" && v == "center" {
			h = "left"
		}
		o = origin{X: arg{V: hKeys[h], U: "%"}, Y: arg{V: vKeys[v], U: "%"}, Text: keyCase(r, v) + " " + keyCase(r, h), Form: "kw-kw-swapped"}
	case 4: // lp keyword
		a, t := genOriginLP(r)
		v := pick(r, vk)
		o = origin{X: a, Y: arg{V: vKeys[v], U: "%"}, Text: t + " " + v, Form: "lp-kw"}
	case 5: // keyword lp
		a, t := genOriginLP(r)
		h := pick(r, hk)
		o = origin{X: arg{V: hKeys[h], U: "%"}, Y: a, Text: h + " " + t, Form: "kw-lp"}
	default: // lp lp
		a, ta := genOriginLP(r)
		b, tb := genOriginLP(r)
		o = origin{X: a, Y: b, Text: ta + " " + tb, Form: "lp-lp"}
	}
	// third component: a <length> z offset, irrelevant in 2D (only with two components before it)
	if strings.Contains(o.Text, " ") && r.Intn(6) == 0 {
		o.Text += " " + pick(r, []string{"5px", "0", "-2em", "1in"})
		o.Form += "-z"
	}
	return o
}

// ---- SVG ----------------------------------------------------------------------------------------

var svgFormNames = []string{"translate1", "translate2", "scale1", "scale2", "rotate1", "rotate3", "matrix", "skewX", "skewY"}

func allowedSVGForms() []string {
	var out []string
	for _, f := range svgFormNames {
		if (f == "skewX" || f == "skewY") && !genSkew {
			continue
		}
		out = append(out, f)
	}
	return out
}

func genSVGAngle(r *rand.Rand, forTan bool) arg {
	for {
		a := arg{V: pick(r, degPool)}
		switch r.Intn(4) {
		case 0:
			a.V = q(r, -360, 360)
		case 1:
			if r.Intn(4) == 0 {
				a.V = 0 // SVG zero angles are fine on the pinned tree
			}
		}
		if forTan && math.Abs(math.Tan(a.V*math.Pi/180)) > maxTan {
			continue
		}
		return a
	}
}

func svgFnText(r *rand.Rand, name string, args []arg) string {
	var sb strings.Builder
	sb.WriteString(name)
	sb.WriteString(pick(r, []string{"", "", "", " "}))
	sb.WriteByte('(')
	sb.WriteString(pick(r, []string{"", "", "", " "}))
	seps := []string{" ", ",", ", ", " , ", "  "}
	if genSVGTabNewline {
		seps = append(seps, "\t", "\n", " \t,\r\n")
	}
	for i, a := range args {
		s := spell(r, a.V)
		if i > 0 {
			sb.WriteString(pick(r, seps)) // comma-wsp is mandatory between arguments (SVG 1.1 §7.6 BNF)
		}
		sb.WriteString(s)
	}
	sb.WriteString(pick(r, []string{"", "", "", " "}))
	sb.WriteByte(')')
	return sb.String()
}

func genSVGFn(r *rand.Rand, form string) fn {
	var f fn
	switch form {
	case "translate1":
		f = fn{Name: "translate", Args: []arg{{V: q(r, -150, 150)}}}
	case "translate2":
		f = fn{Name: "translate", Args: []arg{{V: q(r, -150, 150)}, {V: q(r, -150, 150)}}}
	case "scale1":
		f = fn{Name: "scale", Args: []arg{{V: pick(r, scalePool)}}}
	case "scale2":
		f = fn{Name: "scale", Args: []arg{{V: pick(r, scalePool)}, {V: pick(r, scalePool)}}}
	case "rotate1":
		f = fn{Name: "rotate", Args: []arg{genSVGAngle(r, false)}}
	case "rotate3":
		f = fn{Name: "rotate", Args: []arg{genSVGAngle(r, false), {V: q(r, -100, 100)}, {V: q(r, -100, 100)}}}
	case "matrix":
		f = fn{Name: "matrix", Args: genMatrixArgs(r, false)}
	case "skewX":
		f = fn{Name: "skewX", Args: []arg{genSVGAngle(r, true)}}
	case "skewY":
		f = fn{Name: "skewY", Args: []arg{genSVGAngle(r, true)}}
	default:
		panic("unknown form " + form)
	}
	f.Text = svgFnText(r, f.Name, f.Args)
	return f
}

func genSVGSingular(r *rand.Rand) fn {
	var f fn
	switch r.Intn(3) {
	case 0:
		f = fn{Name: "scale", Args: []arg{{V: 0}}}
	case 1:
		f = fn{Name: "scale", Args: []arg{{V: pick(r, []float64{0, 3, -1})}, {V: 0}}}
	default:
		f = fn{Name: "matrix", Args: genMatrixArgs(r, true)}
	}
	f.Text = svgFnText(r, f.Name, f.Args)
	return f
}

func genSVGExactFn(r *rand.Rand) fn {
	var f fn
	switch r.Intn(3) {
	case 0:
		f = fn{Name: "translate", Args: []arg{{V: float64(r.Intn(41) - 20)}, {V: float64(r.Intn(41) - 20)}}}
	case 1:
		f = fn{Name: "scale", Args: []arg{{V: pick(r, []float64{1, 2, -1, 0.5, 4})}, {V: pick(r, []float64{1, 2, -1, 0.5, 4})}}}
	default:
		f = fn{Name: "matrix", Args: []arg{{V: float64(r.Intn(5) - 2)}, {V: float64(r.Intn(5) - 2)}, {V: float64(r.Intn(5) - 2)}, {V: float64(r.Intn(5) - 2)}, {V: float64(r.Intn(21) - 10)}, {V: float64(r.Intn(21) - 10)}}}
	}
	f.Text = svgFnText(r, f.Name, f.Args)
	return f
}

func genSVGList(r *rand.Rand, singular bool) []fn {
	forms := allowedSVGForms()
	n := 1 + r.Intn(4)
	out := make([]fn, 0, n)
	k := -1
	if singular {
		k = r.Intn(n)
	}
	for {
		out = out[:0]
		for i := 0; i < n; i++ {
			switch {
			case i == k:
				out = append(out, genSVGSingular(r))
			case singular:
				out = append(out, genSVGExactFn(r))
			default:
				out = append(out, genSVGFn(r, pick(r, forms)))
			}
		}
		if singular {
			return out
		}
		if c, err := listCondition(out, true); err == nil && c <= maxCondition {
			return out
		}
	}
}

func svgListText(r *rand.Rand, fs []fn) string {
	var sb strings.Builder
	seps := []string{" ", " ", "  "}
	if genSVGCommaBetween {
		seps = append(seps, ",", " , ")
	}
	if genSVGTabNewline {
		seps = append(seps, "\n", "\t")
	}
	sb.WriteString(pick(r, []string{"", "", " "}))
	for i, f := range fs {
		if i > 0 {
			sb.WriteString(pick(r, seps))
		}
		sb.WriteString(f.Text)
	}
	sb.WriteString(pick(r, []string{"", "", " "}))
	return sb.String()
}
