package c17

import (
	"fmt"
	"math"
)

// Generator-side AST of one transform function.  Text is what the code under test parses; Name and
// Args are what the reference model evaluates.
type arg struct {
	V float64 `json:"v"`
	U string  `json:"u,omitempty"` // "", px pt pc in cm mm q em ex ch rem %, deg grad rad turn (lower case)
}

type fn struct {
	// canonical camel-case name: translate translateX translateY scale scaleX scaleY rotate skew
	// skewX skewY matrix
	Name string `json:"name"`
	Args []arg  `json:"args"`
	Text string `json:"text"`
}

// box-dependent context for resolving lengths and percentages (CSS Values 3 §5, §6; CSS Transforms
// 1 §6: percentages of translate()/transform-origin refer to the reference box = border box).
type lenCtx struct {
	W, H   float64 // border box size
	FS     float64 // font-size of the element (em)
	RootFS float64 // font-size of the root element (rem)
}

// metrics of the test font Ahem (https://www.w3.org/Style/CSS/Test/Fonts/Ahem/README: "the
// x-height is 0.8em", every glyph has an advance of 1em)
const (
	ahemExRatio = 0.8
	ahemChRatio = 1.0
)

var absLen = map[string]float64{
	"px": 1, "pt": 96.0 / 72, "pc": 16, "in": 96, "cm": 96 / 2.54, "mm": 96 / 25.4, "q": 96 / 25.4 / 4,
}

// length resolves a <length-percentage> against ref (the width or height of the reference box).
func (c lenCtx) length(a arg, ref float64) (float64, error) {
	switch a.U {
	case "":
		if a.V != 0 {
			return 0, fmt.Errorf("unitless non-zero length %v", a.V)
		}
		return 0, nil
	case "%":
		return a.V * ref / 100, nil
	case "em":
		return a.V * c.FS, nil
	case "ex":
		// CSS Values 3 §5.1.1: "equal to the used x-height of the first available font"; every
		// generated document uses the test font Ahem, whose x-height is 0.8em
		return a.V * c.FS * ahemExRatio, nil
	case "ch":
		// "the advance measure of the '0' glyph": Ahem's glyphs are all 1em wide
		return a.V * c.FS * ahemChRatio, nil
	case "rem":
		return a.V * c.RootFS, nil
	}
	if k, ok := absLen[a.U]; ok {
		return a.V * k, nil
	}
	return 0, fmt.Errorf("unknown length unit %q", a.U)
}

// radians converts a CSS <angle> (CSS Values 3 §7.1); the empty unit is the SVG convention
// (degrees, SVG 1.1 §7.6).
func radians(a arg) (float64, error) {
	switch a.U {
	case "deg", "":
		return a.V * math.Pi / 180, nil
	case "grad":
		return a.V * math.Pi / 200, nil
	case "rad":
		return a.V, nil
	case "turn":
		return a.V * 2 * math.Pi, nil
	}
	return 0, fmt.Errorf("unknown angle unit %q", a.U)
}

func (f fn) need(n ...int) error {
	for _, k := range n {
		if len(f.Args) == k {
			return nil
		}
	}
	return fmt.Errorf("%s with %d arguments", f.Name, len(f.Args))
}

// cssMatrix is M(f) of CSS Transforms 1 §10/§12 for the 2D functions.
func cssMatrix(f fn, c lenCtx) (affE, error) {
	switch f.Name {
	case "translate", "translateX", "translateY":
		var tx, ty float64
		var err error
		switch f.Name {
		case "translate":
			if err = f.need(1, 2); err != nil {
				return affE{}, err
			}
			if tx, err = c.length(f.Args[0], c.W); err != nil {
				return affE{}, err
			}
			if len(f.Args) == 2 { // "If <ty> is not provided, ty has zero as a value"
				if ty, err = c.length(f.Args[1], c.H); err != nil {
					return affE{}, err
				}
			}
		case "translateX":
			if err = f.need(1); err != nil {
				return affE{}, err
			}
			if tx, err = c.length(f.Args[0], c.W); err != nil {
				return affE{}, err
			}
		case "translateY":
			if err = f.need(1); err != nil {
				return affE{}, err
			}
			if ty, err = c.length(f.Args[0], c.H); err != nil {
				return affE{}, err
			}
		}
		return leaf(mTranslate(tx, ty), 6), nil
	case "scale":
		if err := f.need(1, 2); err != nil {
			return affE{}, err
		}
		sx := f.Args[0].V
		sy := sx // "If the second parameter is not provided, it takes a value equal to the first"
		if len(f.Args) == 2 {
			sy = f.Args[1].V
		}
		return leaf(mScale(sx, sy), 1), nil
	case "scaleX":
		if err := f.need(1); err != nil {
			return affE{}, err
		}
		return leaf(mScale(f.Args[0].V, 1), 1), nil
	case "scaleY":
		if err := f.need(1); err != nil {
			return affE{}, err
		}
		return leaf(mScale(1, f.Args[0].V), 1), nil
	case "rotate":
		if err := f.need(1); err != nil {
			return affE{}, err
		}
		r, err := radians(f.Args[0])
		if err != nil {
			return affE{}, err
		}
		return rotateE(r), nil
	case "skew", "skewX", "skewY":
		var ax, ay float64
		var err error
		switch f.Name {
		case "skew":
			if err = f.need(1, 2); err != nil {
				return affE{}, err
			}
			if ax, err = radians(f.Args[0]); err != nil {
				return affE{}, err
			}
			if len(f.Args) == 2 { // "If the second parameter is not provided, it has a zero value"
				if ay, err = radians(f.Args[1]); err != nil {
					return affE{}, err
				}
			}
		case "skewX":
			if err = f.need(1); err != nil {
				return affE{}, err
			}
			ax, err = radians(f.Args[0])
		case "skewY":
			if err = f.need(1); err != nil {
				return affE{}, err
			}
			ay, err = radians(f.Args[0])
		}
		if err != nil {
			return affE{}, err
		}
		return skewE(ax, ay), nil
	case "matrix":
		if err := f.need(6); err != nil {
			return affE{}, err
		}
		return leaf(aff{f.Args[0].V, f.Args[1].V, f.Args[2].V, f.Args[3].V, f.Args[4].V, f.Args[5].V}, 1), nil
	}
	return affE{}, fmt.Errorf("unknown CSS transform function %q", f.Name)
}

// svgMatrix is the matrix of one SVG 1.1 §7.6 transform definition (plain numbers, angles in
// degrees): matrix(a b c d e f) | translate(tx [ty]) | scale(sx [sy]) | rotate(a [cx cy]) |
// skewX(a) | skewY(a).
func svgMatrix(f fn) (affE, error) {
	for _, a := range f.Args {
		if a.U != "" {
			return affE{}, fmt.Errorf("SVG transform argument with unit %q", a.U)
		}
	}
	switch f.Name {
	case "translate":
		if err := f.need(1, 2); err != nil {
			return affE{}, err
		}
		ty := 0.0 // "If <ty> is not provided, it is assumed to be zero"
		if len(f.Args) == 2 {
			ty = f.Args[1].V
		}
		return leaf(mTranslate(f.Args[0].V, ty), 1), nil
	case "scale":
		if err := f.need(1, 2); err != nil {
			return affE{}, err
		}
		sy := f.Args[0].V // "If <sy> is not provided, it is assumed to be equal to <sx>"
		if len(f.Args) == 2 {
			sy = f.Args[1].V
		}
		return leaf(mScale(f.Args[0].V, sy), 1), nil
	case "rotate":
		if err := f.need(1, 3); err != nil {
			return affE{}, err
		}
		r, _ := radians(f.Args[0])
		m := rotateE(r)
		if len(f.Args) == 3 {
			// "translate(<cx>, <cy>) rotate(<rotate-angle>) translate(-<cx>, -<cy>)"
			cx, cy := f.Args[1].V, f.Args[2].V
			m = leaf(mTranslate(cx, cy), 1).mul(m).mul(leaf(mTranslate(-cx, -cy), 1))
		}
		return m, nil
	case "skewX":
		if err := f.need(1); err != nil {
			return affE{}, err
		}
		r, _ := radians(f.Args[0])
		return skewE(r, 0), nil
	case "skewY":
		if err := f.need(1); err != nil {
			return affE{}, err
		}
		r, _ := radians(f.Args[0])
		return skewE(0, r), nil
	case "matrix":
		if err := f.need(6); err != nil {
			return affE{}, err
		}
		return leaf(aff{f.Args[0].V, f.Args[1].V, f.Args[2].V, f.Args[3].V, f.Args[4].V, f.Args[5].V}, 1), nil
	}
	return affE{}, fmt.Errorf("unknown SVG transform function %q", f.Name)
}

// listProduct composes a list left to right: M(f1)·M(f2)·…·M(fk) ("the list of transform
// functions is post-multiplied in the order provided", CSS Transforms 1 §8; SVG 1.1 §7.6 "as if
// each transform had been specified separately in the order provided", i.e. nested).
func listProduct(ms []affE) affE {
	out := exact(affID)
	for _, m := range ms {
		out = out.mul(m)
	}
	return out
}
