package c17

import (
	"encoding/json"
	"fmt"
	"math"
	"math/rand"

	"github.com/benoitkugler/webrender/matrix"

	"verif/internal/fw"
)

// Group laws and constructor semantics of package matrix, on random triples.

type lawsIn struct {
	Mode string     `json:"mode"`
	T    [6]float64 `json:"t"`
	U    [6]float64 `json:"u"`
	V    [6]float64 `json:"v"`
	P    [2]float64 `json:"p"`
	Tx   float64    `json:"tx"`
	Ty   float64    `json:"ty"`
	Sx   float64    `json:"sx"`
	Sy   float64    `json:"sy"`
	Ang  float64    `json:"ang"` // radians
	Ax   float64    `json:"ax"`  // radians
	Ay   float64    `json:"ay"`
	// SkewSpec: compare Skew with the specification (off in the random generator while
	// matrix.Skew swaps its coefficients; the in-place = constructor law is always checked).
	SkewSpec bool `json:"skew_spec"`
}

func genEntry(r *rand.Rand) float64 {
	switch r.Intn(12) {
	case 0:
		return 0
	case 1:
		return pick(r, []float64{1, -1})
	case 2:
		return pick(r, []float64{100, -100, 0.0009765625, -0.0009765625})
	case 3:
		return float64(r.Intn(201) - 100)
	}
	return q(r, -100, 100)
}

func genMat(r *rand.Rand) [6]float64 {
	var m [6]float64
	switch r.Intn(10) {
	case 0: // singular, exactly: rank ≤ 1 with integer entries
		a, b, k := float64(r.Intn(21)-10), float64(r.Intn(21)-10), float64(r.Intn(9)-4)
		return [6]float64{a, b, k * a, k * b, genEntry(r), genEntry(r)}
	case 1: // a rotation-like, well conditioned matrix with small entries
		return [6]float64{q(r, -2, 2), q(r, -2, 2), q(r, -2, 2), q(r, -2, 2), genEntry(r), genEntry(r)}
	}
	for i := range m {
		m[i] = genEntry(r)
	}
	return m
}

func genLaws(r *rand.Rand) lawsIn {
	in := lawsIn{Mode: "laws", T: genMat(r), U: genMat(r), V: genMat(r), SkewSpec: genSkew}
	in.P = [2]float64{genEntry(r), genEntry(r)}
	in.Tx, in.Ty = genEntry(r), genEntry(r)
	in.Sx, in.Sy = genEntry(r), genEntry(r)
	// angles: multiples of 1/64 rad in [-8, 8] (exact in float32), sometimes larger, sometimes 0
	in.Ang = float64(r.Intn(1025)-512) / 64
	if r.Intn(8) == 0 {
		in.Ang = float64(r.Intn(20001)-10000) / 16
	}
	for {
		in.Ax = float64(r.Intn(201)-100) / 64 // within ±1.5625 rad
		in.Ay = float64(r.Intn(201)-100) / 64
		if math.Abs(math.Tan(in.Ax)) <= maxTan && math.Abs(math.Tan(in.Ay)) <= maxTan {
			break
		}
	}
	if r.Intn(10) == 0 {
		in.Ay = 0
	}
	if r.Intn(10) == 0 {
		in.Ax = 0
	}
	return in
}

func toT(v [6]float64) matrix.Transform {
	return matrix.New(float32(v[0]), float32(v[1]), float32(v[2]), float32(v[3]), float32(v[4]), float32(v[5]))
}

func fromT(t matrix.Transform) [6]float64 {
	return [6]float64{float64(t.A), float64(t.B), float64(t.C), float64(t.D), float64(t.E), float64(t.F)}
}

// in32 rounds the generator's values to float32 so that the reference starts from exactly the
// operands the code under test receives.
func in32(v [6]float64) aff {
	var o [6]float64
	for i, x := range v {
		o[i] = float64(float32(x))
	}
	return affFrom(o)
}

func checkLaws(raw json.RawMessage) fw.Result {
	var in lawsIn
	var res fw.Result
	if err := json.Unmarshal(raw, &in); err != nil {
		return fw.Result{Verdict: fw.Inconclusive, Msg: err.Error()}
	}
	T, U, V := toT(in.T), toT(in.U), toT(in.V)
	rT, rU, rV := exact(in32(in.T)), exact(in32(in.U)), exact(in32(in.V))
	fail := func(sig, format string, a ...any) fw.Result {
		res.Fail(sig, fmt.Sprintf(format, a...)+fmt.Sprintf("  [T=%v U=%v V=%v]", in.T, in.U, in.V))
		return res
	}

	// identity, exactly
	if matrix.Mul(matrix.Identity(), T) != T || matrix.Mul(T, matrix.Identity()) != T {
		return fail("law-identity", "Mul(Identity,T)=%v Mul(T,Identity)=%v differ from T", matrix.Mul(matrix.Identity(), T), matrix.Mul(T, matrix.Identity()))
	}
	if fromT(matrix.Identity()) != affID.arr() {
		return fail("law-identity", "Identity() = %v", matrix.Identity())
	}
	// Mul against the 3×3 product
	rTU := rT.mul(rU)
	if d := rTU.cmp(fromT(matrix.Mul(T, U))); d != "" {
		return fail("law-mul", "Mul(T,U) is not the matrix product T·U: %s", d)
	}
	// associativity (both groupings against the exact product)
	rTUV := rTU.mul(rV)
	rTUV2 := rT.mul(rU.mul(rV))
	left, right := matrix.Mul(matrix.Mul(T, U), V), matrix.Mul(T, matrix.Mul(U, V))
	if d := rTUV.cmp(fromT(left)); d != "" {
		return fail("law-assoc", "Mul(Mul(T,U),V): %s", d)
	}
	if d := rTUV2.cmp(fromT(right)); d != "" {
		return fail("law-assoc", "Mul(T,Mul(U,V)): %s", d)
	}
	// the two groupings agree with each other within the sum of both bounds
	{
		l, r := fromT(left), fromT(right)
		t1, t2 := rTUV.tol(), rTUV2.tol()
		for i := range l {
			if math.Abs(l[i]-r[i]) > t1[i]+t2[i] {
				return fail("law-assoc", "(T·U)·V and T·(U·V) differ in entry %c: %.8g vs %.8g (tolerance %.3g)", "abcdef"[i], l[i], r[i], t1[i]+t2[i])
			}
		}
	}
	if d := rTUV2.cmp(fromT(matrix.Mul3(T, U, V))); d != "" {
		return fail("law-mul3", "Mul3(T,U,V) is not T·U·V: %s", d)
	}
	// in-place multiplications: exactly the same function of the operands as Mul
	{
		x := T
		x.RightMultBy(U)
		if x != matrix.Mul(T, U) {
			return fail("law-rightmult", "T.RightMultBy(U) = %v, Mul(T,U) = %v", x, matrix.Mul(T, U))
		}
		y := T
		y.LeftMultBy(U)
		if y != matrix.Mul(U, T) {
			return fail("law-leftmult", "T.LeftMultBy(U) = %v, Mul(U,T) = %v", y, matrix.Mul(U, T))
		}
		if d := rU.mul(rT).cmp(fromT(y)); d != "" {
			return fail("law-leftmult", "T.LeftMultBy(U) is not U·T: %s", d)
		}
	}
	// Apply is the action, and a homomorphism
	px, py := float32(in.P[0]), float32(in.P[1])
	{
		// treat the point as the translation column of a matrix to reuse the error analysis
		pm := exact(aff{1, 0, 0, 1, float64(px), float64(py)})
		want := rTU.mul(pm)
		ox, oy := matrix.Mul(T, U).Apply(px, py)
		ux, uy := U.Apply(px, py)
		cx, cy := T.Apply(ux, uy)
		tl := want.tol()
		// the composed path multiplies T·U first: bound by the nested product as well
		want2 := rT.mul(rU.mul(pm))
		tl2 := want2.tol()
		if math.Abs(float64(ox)-want.M.E) > tl[4] || math.Abs(float64(oy)-want.M.F) > tl[5] {
			return fail("law-apply", "Apply(Mul(T,U),p) = (%v,%v), expected (%.8g,%.8g) for p=(%v,%v)", ox, oy, want.M.E, want.M.F, px, py)
		}
		if math.Abs(float64(cx)-want2.M.E) > tl2[4] || math.Abs(float64(cy)-want2.M.F) > tl2[5] {
			return fail("law-apply", "Apply(T,Apply(U,p)) = (%v,%v), expected (%.8g,%.8g) for p=(%v,%v)", cx, cy, want2.M.E, want2.M.F, px, py)
		}
		if math.Abs(float64(ox)-float64(cx)) > tl[4]+tl2[4] || math.Abs(float64(oy)-float64(cy)) > tl[5]+tl2[5] {
			return fail("law-apply", "Apply(Mul(T,U),p) = (%v,%v) but Apply(T,Apply(U,p)) = (%v,%v)", ox, oy, cx, cy)
		}
		wantU := rU.mul(pm)
		tu := wantU.tol()
		if math.Abs(float64(ux)-wantU.M.E) > tu[4] || math.Abs(float64(uy)-wantU.M.F) > tu[5] {
			return fail("law-apply", "Apply(U,p) = (%v,%v), expected (%.8g,%.8g) for p=(%v,%v)", ux, uy, wantU.M.E, wantU.M.F, px, py)
		}
	}
	// Determinant
	{
		m := rT.M
		want := m.det()
		b := math.Abs(m.A*m.D) + math.Abs(m.B*m.C)
		if got := float64(T.Determinant()); math.Abs(got-want) > 4*eps32*b+1e-30 {
			return fail("law-det", "Determinant(T) = %.8g, expected %.8g", got, want)
		}
	}
	// Invert: two-sided inverse when the determinant is safely non-zero
	{
		m := rT.M
		n2 := m.A*m.A + m.B*m.B + m.C*m.C + m.D*m.D
		det := m.det()
		switch {
		case det == 0:
			x := T
			if err := x.Invert(); err == nil {
				res.Reports = append(res.Reports, "Invert of an exactly singular matrix returned no error")
			}
			res.Count("laws_singular", 1)
		case math.Abs(det) >= 1e-3*n2:
			x := T
			if err := x.Invert(); err != nil {
				return fail("law-invert", "Invert failed on a matrix with determinant %g: %v", det, err)
			}
			kappa := n2 / math.Abs(det)
			rel := 16 * eps32 * kappa
			inv := m.inverse()
			// entry-wise bound on the computed inverse
			ierr := aff{
				A: rel * math.Abs(inv.A), B: rel * math.Abs(inv.B), C: rel * math.Abs(inv.C), D: rel * math.Abs(inv.D),
				E: 2 * rel * (math.Abs(inv.A*m.E) + math.Abs(inv.C*m.F)), F: 2 * rel * (math.Abs(inv.B*m.E) + math.Abs(inv.D*m.F)),
			}
			rInv := affE{M: inv, Err: ierr}
			if d := rInv.cmp(fromT(x)); d != "" {
				return fail("law-invert", "Invert(T) is not the inverse map (det %g): got %v, expected %v: %s", det, x, inv, d)
			}
			// two-sided: both products are the identity within the propagated bound
			for side, prod := range []matrix.Transform{matrix.Mul(T, x), matrix.Mul(x, T)} {
				var want affE
				if side == 0 {
					want = rT.mul(rInv)
				} else {
					want = rInv.mul(rT)
				}
				want.M = affID
				if d := want.cmp(fromT(prod)); d != "" {
					return fail("law-invert", "product of T and Invert(T) (side %d) is not the identity: %v: %s", side, prod, d)
				}
			}
			res.Count("laws_inverted", 1)
		default:
			res.Count("laws_illconditioned_skipped", 1)
		}
	}
	// constructors against the specification
	tx, ty, sx, sy := float32(in.Tx), float32(in.Ty), float32(in.Sx), float32(in.Sy)
	ang, ax, ay := float32(in.Ang), float32(in.Ax), float32(in.Ay)
	if fromT(matrix.Translation(tx, ty)) != mTranslate(float64(tx), float64(ty)).arr() {
		return fail("ctor-translation", "Translation(%v,%v) = %v", tx, ty, matrix.Translation(tx, ty))
	}
	if fromT(matrix.Scaling(sx, sy)) != mScale(float64(sx), float64(sy)).arr() {
		return fail("ctor-scaling", "Scaling(%v,%v) = %v", sx, sy, matrix.Scaling(sx, sy))
	}
	if fromT(matrix.New(tx, ty, sx, sy, ang, ax)) != [6]float64{float64(tx), float64(ty), float64(sx), float64(sy), float64(ang), float64(ax)} {
		return fail("ctor-new", "New does not store (a,b,c,d,e,f) in order")
	}
	rRot := rotateE(float64(ang))
	rRot.Err = aff{2 * eps32, 2 * eps32, 2 * eps32, 2 * eps32, 0, 0} // the angle is exact here: only the final rounding
	{
		R := matrix.Rotation(ang)
		if d := rRot.cmp(fromT(R)); d != "" {
			return fail("ctor-rotation", "Rotation(%v rad) = %v, expected (cos, sin, −sin, cos, 0, 0) = %v: %s", ang, R, rRot.M, d)
		}
		// "maps (1,0) to (cos θ, sin θ)"
		x, y := R.Apply(1, 0)
		if math.Abs(float64(x)-math.Cos(float64(ang))) > 1e-6 || math.Abs(float64(y)-math.Sin(float64(ang))) > 1e-6 {
			return fail("ctor-rotation", "Rotation(%v).Apply(1,0) = (%v,%v), expected (cos, sin)", ang, x, y)
		}
	}
	rSk := affE{M: mSkew(float64(ax), float64(ay))}
	rSk.Err = aff{0, 4 * eps32 * math.Abs(rSk.M.B), 4 * eps32 * math.Abs(rSk.M.C), 0, 0, 0}
	if in.SkewSpec {
		S := matrix.Skew(ax, ay)
		if d := rSk.cmp(fromT(S)); d != "" {
			x0, y0 := S.Apply(0, 1)
			x1, y1 := S.Apply(1, 0)
			return fail("ctor-skew", "Skew(%v,%v) = %v maps (0,1) to (%v,%v) and (1,0) to (%v,%v); the specification's skew(ax,ay) = matrix(1, tan ay, tan ax, 1, 0, 0) = %v maps (0,1) to (tan ax, 1) = (%.6g,1) and (1,0) to (1, tan ay) = (1,%.6g): %s",
				ax, ay, S, x0, y0, x1, y1, rSk.M, rSk.M.C, rSk.M.B, d)
		}
		res.Count("laws_skew_spec", 1)
	}
	// in-place operations = right-multiplication by the constructor (law), and = T·M_spec (reference)
	type op struct {
		name  string
		apply func(t *matrix.Transform)
		ctor  matrix.Transform
		ref   *affE
	}
	rTr := exact(mTranslate(float64(tx), float64(ty)))
	rSc := exact(mScale(float64(sx), float64(sy)))
	ops := []op{
		{"Translate", func(t *matrix.Transform) { t.Translate(tx, ty) }, matrix.Translation(tx, ty), &rTr},
		{"Scale", func(t *matrix.Transform) { t.Scale(sx, sy) }, matrix.Scaling(sx, sy), &rSc},
		{"Rotate", func(t *matrix.Transform) { t.Rotate(ang) }, matrix.Rotation(ang), &rRot},
		{"Skew", func(t *matrix.Transform) { t.Skew(ax, ay) }, matrix.Skew(ax, ay), nil},
	}
	if in.SkewSpec {
		ops[3].ref = &rSk
	}
	for _, o := range ops {
		x := T
		o.apply(&x)
		viaMul := matrix.Mul(T, o.ctor)
		// law: compare the two webrender paths with a bound from the operands
		bound := rT.mul(exact(affFrom(fromT(o.ctor))))
		if d := bound.cmp(fromT(x)); d != "" {
			return fail("law-inplace-"+o.name, "T.%s(..) differs from T·%s-constructor: in place %v, Mul %v: %s", o.name, o.name, x, viaMul, d)
		}
		if o.ref != nil {
			want := rT.mul(*o.ref)
			if d := want.cmp(fromT(x)); d != "" {
				return fail("inplace-spec-"+o.name, "T.%s(..) = %v, expected T·M = %v: %s", o.name, x, want.M, d)
			}
		}
	}
	res.Nontrivial = true
	res.Count("laws_triples", 1)
	return res
}
