package c17

import (
	"fmt"
	"math"
)

// Reference model of 2D affine maps, written from CSS Transforms Level 1 (§12 "Mathematical
// description of transform functions", §6 "transform-origin": the transformation matrix is
// translate(origin) · M(f1) · … · M(fk) · translate(−origin)) and SVG 1.1 §7.4–§7.6.  It shares no
// code with /repo.
//
// A point is the column vector (x, y, 1); the map (a b c d e f) is
//
//	| a c e |
//	| b d f |
//	| 0 0 1 |
//
// exactly as in both specifications ("matrix(a,b,c,d,e,f)").
type aff struct{ A, B, C, D, E, F float64 }

var affID = aff{1, 0, 0, 1, 0, 0}

func (m aff) arr() [6]float64 { return [6]float64{m.A, m.B, m.C, m.D, m.E, m.F} }

func affFrom(v [6]float64) aff { return aff{v[0], v[1], v[2], v[3], v[4], v[5]} }

// mul returns x·y (apply y first, then x): ordinary 3×3 product restricted to the affine rows.
func (x aff) mul(y aff) aff {
	return aff{
		A: x.A*y.A + x.C*y.B,
		B: x.B*y.A + x.D*y.B,
		C: x.A*y.C + x.C*y.D,
		D: x.B*y.C + x.D*y.D,
		E: x.A*y.E + x.C*y.F + x.E,
		F: x.B*y.E + x.D*y.F + x.F,
	}
}

func (m aff) abs() aff {
	return aff{math.Abs(m.A), math.Abs(m.B), math.Abs(m.C), math.Abs(m.D), math.Abs(m.E), math.Abs(m.F)}
}

func (m aff) add(o aff) aff {
	return aff{m.A + o.A, m.B + o.B, m.C + o.C, m.D + o.D, m.E + o.E, m.F + o.F}
}

func (m aff) scaleBy(k float64) aff { return aff{m.A * k, m.B * k, m.C * k, m.D * k, m.E * k, m.F * k} }

func (m aff) apply(x, y float64) (float64, float64) {
	return m.A*x + m.C*y + m.E, m.B*x + m.D*y + m.F
}

func (m aff) det() float64 { return m.A*m.D - m.B*m.C }

// inverse of an invertible map.
func (m aff) inverse() aff {
	d := m.det()
	ia, ib, ic, id := m.D/d, -m.B/d, -m.C/d, m.A/d
	return aff{ia, ib, ic, id, -(ia*m.E + ic*m.F), -(ib*m.E + id*m.F)}
}

func (m aff) String() string {
	return fmt.Sprintf("[%.7g %.7g %.7g %.7g %.7g %.7g]", m.A, m.B, m.C, m.D, m.E, m.F)
}

// eps32 bounds the relative error of one float32 operation (2^-23, twice the unit roundoff, so
// that it also covers decimal→binary conversion of a literal followed by a rounding).
const eps32 = 1.0 / (1 << 23)

// affE is an exact (float64) map together with an entry-wise bound Err on the distance between
// that exact map and ANY float32 evaluation of the same expression (first-order forward error
// analysis: each float32 sum of products is within gamma·Σ|products| of the exact value).  The
// tolerance of every matrix comparison is derived from Err, i.e. it is scaled by the magnitude of
// the operands of the particular case and not a global constant.
type affE struct {
	M   aff
	Err aff
}

// gamma: each entry of a product is a sum of at most 3 products (≤ 5 roundings) — 8·eps32 leaves
// room for fused or differently associated evaluations.
const gamma = 8 * eps32

func exact(m aff) affE { return affE{M: m} }

// leaf: a map whose entries come from float32 leaf computations with relative error k·eps32.
func leaf(m aff, k float64) affE { return affE{M: m, Err: m.abs().scaleBy(k * eps32)} }

func (x affE) mul(y affE) affE {
	ax, ay := x.M.abs(), y.M.abs()
	// the translation row of abs-products must not add |x.E| twice: use the plain affine abs product
	p := ax.mul(ay)
	e := x.Err.mulLin(ay).add(ax.mulLin(y.Err)).add(x.Err.mulLin(y.Err)).add(p.scaleBy(gamma))
	// x.Err's own translation error carries over
	e.E += x.Err.E
	e.F += x.Err.F
	return affE{M: x.M.mul(y.M), Err: e}
}

// mulLin is the abs-product without the "+ x.E" term (used for error propagation, where the
// third column of x is handled separately).
func (x aff) mulLin(y aff) aff {
	return aff{
		A: x.A*y.A + x.C*y.B,
		B: x.B*y.A + x.D*y.B,
		C: x.A*y.C + x.C*y.D,
		D: x.B*y.C + x.D*y.D,
		E: x.A*y.E + x.C*y.F,
		F: x.B*y.E + x.D*y.F,
	}
}

// tol is the comparison tolerance of entry i: 4× the forward bound plus an absolute floor for
// values that should be exactly 0 (float32 sin(pi) is 8.7e-8, not 0).
func (x affE) tol() [6]float64 {
	e := x.Err.arr()
	m := x.M.arr()
	var out [6]float64
	for i := range out {
		out[i] = 4*e[i] + 4*eps32*math.Abs(m[i]) + 1e-6
	}
	return out
}

// cmp compares an observed float32 matrix (as float64) with the reference; it returns "" or a
// description of the first entry out of tolerance.
func (x affE) cmp(obs [6]float64) string {
	want := x.M.arr()
	tol := x.tol()
	for i := range want {
		if math.IsNaN(obs[i]) || math.IsInf(obs[i], 0) || math.Abs(obs[i]-want[i]) > tol[i] {
			return fmt.Sprintf("entry %c: observed %.8g, expected %.8g (tolerance %.3g)", "abcdef"[i], obs[i], want[i], tol[i])
		}
	}
	return ""
}

// ---- the primitive maps of the specifications ------------------------------------------------

func mTranslate(tx, ty float64) aff { return aff{1, 0, 0, 1, tx, ty} }
func mScale(sx, sy float64) aff     { return aff{sx, 0, 0, sy, 0, 0} }

// rotate(θ): matrix(cos θ, sin θ, −sin θ, cos θ, 0, 0)  (CSS Transforms 1 §12, SVG 1.1 §7.6).
func mRotate(rad float64) aff {
	c, s := math.Cos(rad), math.Sin(rad)
	return aff{c, s, -s, c, 0, 0}
}

// skew(α, β): matrix(1, tan β, tan α, 1, 0, 0); skewX(α) = skew(α, 0), skewY(β) = skew(0, β).
func mSkew(ax, ay float64) aff { return aff{1, math.Tan(ay), math.Tan(ax), 1, 0, 0} }

// angle error model: an angle of r radians reaches the trigonometric function with a relative
// error of at most 6·eps32 (literal → float32, float32 conversion factor, one or two float32
// multiplications); the result is then rounded to float32.
func rotateE(rad float64) affE {
	d := math.Abs(rad)*6*eps32 + 2*eps32
	return affE{M: mRotate(rad), Err: aff{d, d, d, d, 0, 0}}
}

func skewE(ax, ay float64) affE {
	m := mSkew(ax, ay)
	// d tan = (1+tan²)·dθ, with 2× head-room for the second-order term (|tan| is bounded by the
	// generators, see maxTan)
	eb := 2*(1+m.B*m.B)*math.Abs(ay)*6*eps32 + 2*eps32*math.Abs(m.B)
	ec := 2*(1+m.C*m.C)*math.Abs(ax)*6*eps32 + 2*eps32*math.Abs(m.C)
	return affE{M: m, Err: aff{0, eb, ec, 0, 0, 0}}
}
