package c17

import (
	"encoding/json"
	"fmt"
	"math/rand"
	"strings"

	"github.com/benoitkugler/webrender/svg"

	"verif/internal/fw"
	"verif/internal/rec"
	"verif/internal/wr"
)

type svgNode struct {
	Parent   int    `json:"parent"` // −1: child of the <svg> root
	Tag      string `json:"tag"`    // g | rect circle ellipse path polygon (leaves)
	Fill     [3]int `json:"fill"`   // rect only
	Fns      []fn   `json:"fns,omitempty"`
	Singular bool   `json:"singular,omitempty"`
}

type svgIn struct {
	Mode string `json:"mode"`
	// direct: svg.Parse + SVGImage.Draw on a recorder page; inline: <svg> element inside an HTML
	// document; img: <img src> of the SVG file, both through the whole rendering pipeline.
	Via   string    `json:"via"`
	SVG   string    `json:"svg"`
	HTML  string    `json:"html,omitempty"`
	Nodes []svgNode `json:"nodes"`
}

func genSVGDoc(r *rand.Rand, formIdx int) svgIn {
	in := svgIn{Mode: "svg", Via: "direct"}
	switch r.Intn(10) {
	case 0:
		in.Via = "inline"
	case 1:
		in.Via = "img"
	}
	var texts []string // transform attribute text per node
	kids := map[int][]int{}
	add := func(parent int, tag string) int {
		k := len(in.Nodes)
		n := svgNode{Parent: parent, Tag: tag, Fill: [3]int{16 + k*5, 200 - k*3, 64 + k}}
		switch {
		case k == 0 && formIdx >= 0:
			forms := allowedSVGForms()
			n.Fns = []fn{genSVGFn(r, forms[formIdx%len(forms)])}
		case r.Intn(14) == 0:
			n.Singular = true
			n.Fns = genSVGList(r, true)
		case r.Intn(6) == 0:
		default:
			n.Fns = genSVGList(r, false)
		}
		t := ""
		if len(n.Fns) > 0 {
			t = svgListText(r, n.Fns)
		}
		in.Nodes = append(in.Nodes, n)
		texts = append(texts, t)
		kids[parent] = append(kids[parent], k)
		return k
	}
	var build func(parent, depth int)
	build = func(parent, depth int) {
		n := 1 + r.Intn(2)
		for i := 0; i < n; i++ {
			if depth < 3 && r.Intn(5) < 2 {
				g := add(parent, "g")
				build(g, depth+1)
			} else {
				add(parent, pick(r, []string{"rect", "rect", "circle", "ellipse", "path", "polygon"}))
			}
		}
	}
	build(-1, 0)
	var sb strings.Builder
	sb.WriteString(`<svg xmlns="http://www.w3.org/2000/svg" width="200" height="200">`)
	var emit func(k int)
	emit = func(k int) {
		n := in.Nodes[k]
		attr := ""
		if len(n.Fns) > 0 {
			attr = ` transform="` + texts[k] + `"`
		}
		if n.Tag == "g" {
			if r.Intn(10) == 0 {
				attr += ` opacity="0.5"`
			}
			sb.WriteString("<g" + attr + ">")
			for _, c := range kids[k] {
				emit(c)
			}
			sb.WriteString("</g>")
			return
		}
		if r.Intn(8) == 0 {
			attr += ` opacity="0.5"` // drawn through a group canvas
		}
		x, y, w, h := r.Intn(50), r.Intn(50), 1+r.Intn(60), 1+r.Intn(60)
		switch n.Tag {
		case "rect":
			fmt.Fprintf(&sb, `<rect x="%d" y="%d" width="%d" height="%d" fill="%s"%s/>`, x, y, w, h, colorOf(n.Fill), attr)
		case "circle":
			fmt.Fprintf(&sb, `<circle cx="%d" cy="%d" r="%d" fill="%s"%s/>`, x, y, w, colorOf(n.Fill), attr)
		case "ellipse":
			fmt.Fprintf(&sb, `<ellipse cx="%d" cy="%d" rx="%d" ry="%d" fill="%s"%s/>`, x, y, w, h, colorOf(n.Fill), attr)
		case "path":
			fmt.Fprintf(&sb, `<path d="M%d %d L%d %d L%d %d z" fill="%s"%s/>`, x, y, x+w, y, x, y+h, colorOf(n.Fill), attr)
		case "polygon":
			fmt.Fprintf(&sb, `<polygon points="%d,%d %d,%d %d,%d" fill="%s"%s/>`, x, y, x+w, y, x, y+h, colorOf(n.Fill), attr)
		}
	}
	for _, k := range kids[-1] {
		emit(k)
	}
	sb.WriteString("</svg>")
	in.SVG = sb.String()
	switch in.Via {
	case "inline":
		in.HTML = "<html><head><style>@page{size:400px 400px;margin:20px}body{margin:0}</style></head><body>" + in.SVG + "</body></html>"
	case "img":
		in.HTML = `<html><head><style>@page{size:400px 400px;margin:20px}body{margin:0}</style></head><body><img src="a.svg"></body></html>`
	}
	return in
}

func checkSVG(raw json.RawMessage) fw.Result {
	var in svgIn
	var res fw.Result
	if err := json.Unmarshal(raw, &in); err != nil {
		return fw.Result{Verdict: fw.Inconclusive, Msg: err.Error()}
	}
	var evs []rec.Event
	switch in.Via {
	case "direct":
		wr.Quiet()
		img, err := svg.Parse(strings.NewReader(in.SVG), "", nil, nil)
		if err != nil {
			res.Fail("svg-parse", fmt.Sprintf("svg.Parse rejects a document whose transform attributes follow the SVG 1.1 grammar: %v\n%s", err, in.SVG))
			return res
		}
		d := rec.New()
		pg := d.AddPage(0, 0, 200, 200)
		img.Draw(pg, 200, 200, nil)
		evs = d.Events
	default:
		fonts, err := sharedFonts()
		if err != nil {
			return fw.Result{Verdict: fw.Inconclusive, Msg: "fonts: " + err.Error()}
		}
		r, err := wr.Render(wr.Opts{HTML: in.HTML, Fonts: fonts, Files: map[string]string{"a.svg": in.SVG}})
		if err != nil {
			return fw.Result{Verdict: fw.Inconclusive, Msg: "render: " + err.Error()}
		}
		evs = r.Rec.Events
		for _, w := range r.Warnings {
			if strings.Contains(w, "invalid transform") || strings.Contains(w, "Failed to load image") || strings.Contains(w, "failed to") {
				res.Fail("svg-parse", fmt.Sprintf("the SVG was rejected in the HTML pipeline: %s\n%s", w, in.SVG))
				return res
			}
		}
	}
	groups, page := 0, -1
	for _, e := range evs {
		if e.Op == "NewGroup" {
			groups++
		}
		if e.Op == "AddPage" && page < 0 {
			page = e.Cv
		}
	}
	total := 0
	for _, e := range evs {
		if e.Op == "Transform" {
			total++
		}
	}
	sites := make([]paintSite, len(in.Nodes))
	comps := replay(evs, func(i int, e rec.Event, chain []int) {
		if e.Op != "SetColorRgba" {
			return
		}
		for k, n := range in.Nodes {
			if n.Tag != "g" && isColor(e, n.Fill) && !sites[k].has {
				sites[k] = paintSite{at: i, chain: append([]int(nil), chain...), has: true}
			}
		}
	})
	for k := range sites {
		if sites[k].has {
			full, ok := resolve(comps, page, evs[sites[k].at].Cv, sites[k].chain)
			sites[k].chain, sites[k].has = full, ok
		}
	}
	applies := make([]bool, len(in.Nodes))
	mats := make([]*affE, len(in.Nodes))
	nApply := 0
	for k, n := range in.Nodes {
		applies[k] = len(n.Fns) > 0 && !n.Singular
		if !applies[k] {
			continue
		}
		nApply++
		if cnd, err := listCondition(n.Fns, true); err != nil || cnd > 100*maxCondition {
			return fw.Result{Verdict: fw.Skip, Msg: "nearly singular transform list: outside the domain"}
		}
		var ms []affE
		for _, f := range n.Fns {
			m, err := svgMatrix(f)
			if err != nil {
				return fw.Result{Verdict: fw.Inconclusive, Msg: "reference model: " + err.Error()}
			}
			ms = append(ms, m)
		}
		l := listProduct(ms)
		mats[k] = &l
	}
	var prefix []int
	havePrefix := false
	for k, n := range in.Nodes {
		if n.Tag == "g" {
			continue
		}
		attrOf := func(a int) string {
			var ts []string
			for _, f := range in.Nodes[a].Fns {
				ts = append(ts, f.Text)
			}
			return strings.Join(ts, " ")
		}
		if !sites[k].has {
			return fw.Result{Verdict: fw.Inconclusive, Msg: fmt.Sprintf("rect %d: fill colour never set in the trace\n%s", k, in.SVG)}
		}
		var exp []int
		for a := k; a >= 0; a = in.Nodes[a].Parent {
			if applies[a] {
				exp = append([]int{a}, exp...)
			}
		}
		chain := sites[k].chain
		if len(chain) < len(exp) {
			res.Fail("svg-chain", fmt.Sprintf("rect %d (fill %s): %d Transform calls in force, expected at least the %d of its transformed ancestors-or-self\n%s", k, colorOf(n.Fill), len(chain), len(exp), in.SVG))
			return res
		}
		pre := chain[:len(chain)-len(exp)]
		if !havePrefix {
			prefix, havePrefix = pre, true
			if in.Via == "direct" {
				for _, i := range pre {
					if evs[i].Depth > 1 {
						res.Fail("svg-chain", fmt.Sprintf("rect %d (fill %s): more Transform calls in force (%d) than transformed ancestors-or-self (%d)\n%s", k, colorOf(n.Fill), len(chain), len(exp), in.SVG))
						return res
					}
				}
			}
		} else if fmt.Sprint(pre) != fmt.Sprint(prefix) {
			res.Fail("svg-chain", fmt.Sprintf("rect %d (fill %s): Transform calls in force %v do not end with exactly the %d of its transformed ancestors-or-self (viewport prefix %v)\n%s", k, colorOf(n.Fill), chain, len(exp), prefix, in.SVG))
			return res
		}
		for j, a := range exp {
			obs := f6(evs[chain[len(pre)+j]].F)
			if d := mats[a].cmp(obs); d != "" {
				sig := "svg-matrix"
				if usesSkew(in.Nodes[a].Fns) {
					sig = "svg-matrix-skew"
				}
				res.Fail(sig, fmt.Sprintf("rect %d (fill %s): Transform call %d of its chain, for transform=%q, is %v, expected %v: %s\n%s", k, colorOf(n.Fill), j, attrOf(a), affFrom(obs), mats[a].M, d, in.SVG))
				return res
			}
		}
		if len(exp) > 0 {
			res.Nontrivial = true
			res.Count("svg_rect_chains_checked", 1)
			if len(exp) >= 2 {
				res.Count("svg_nested_chains", 1)
			}
		}
		for a := k; a >= 0; a = in.Nodes[a].Parent {
			if in.Nodes[a].Singular {
				res.Count("svg_singular_skipped_checked", 1)
			}
		}
	}
	if total != len(prefix)+nApply {
		res.Fail("svg-transform-count", fmt.Sprintf("%d Transform calls in the trace, expected %d (viewport) + %d (elements with an invertible transform attribute)\n%s", total, len(prefix), nApply, in.SVG))
		return res
	}
	for k, n := range in.Nodes {
		if !applies[k] {
			continue
		}
		res.Count("svg_lists_checked", 1)
		res.Count(fmt.Sprintf("svg_list_len_%d", len(n.Fns)), 1)
		for _, f := range n.Fns {
			res.Count("svg_fn_"+f.Name+fmt.Sprint(len(f.Args)), 1)
		}
	}
	res.Count("svg_docs_"+in.Via, 1)
	res.Count("svg_opacity_groups", int64(groups))
	return res
}
