// Package c17 is the runtime check of property C17 — "Transform functions and matrices follow CSS
// Transforms / SVG".
//
// Three monitors, all comparing executions of the real code with an independent float64 reference
// model of 2D affine maps (affine.go, fns.go — written from CSS Transforms 1 and SVG 1.1 §7):
//
//	laws  package matrix: Mul is the 3×3 product, associativity, identity, Apply is the action and a
//	      homomorphism, Invert is a two-sided inverse, in-place Translate/Scale/Rotate/Skew/
//	      RightMultBy/LeftMultBy equal multiplication by the constructor, constructors follow the spec;
//	css   HTML documents with transformed boxes: the argument of every GraphicState.Transform call
//	      in force when a box's background is painted is T(o)·M(f1)…M(fk)·T(−o) of the box and of its
//	      transformed ancestors, nothing else;
//	svg   SVG documents (drawn directly, inline in HTML and through <img>): the same for the
//	      transform attribute of <g>/<rect>.
package c17

import (
	"encoding/json"
	"math/rand"

	"verif/internal/fw"
)

// one block of 28 consecutive case indexes holds 1 css document, 2 svg documents, 25 matrix triples
const blockLen = 28

func modeOf(i int) string {
	switch i % blockLen {
	case 0:
		return "css"
	case 1, 2:
		return "svg"
	}
	return "laws"
}

func init() {
	fw.Register(&fw.Prop{
		ID: "C17",
		Rule: "case i is a CSS document (i mod 28 = 0: 1–12 boxes — absolutely positioned with a generator-modelled border box, or static/relative/inline-block/float with the border box read from the trace, nested up to 3 deep — each with a transform list of ≤ 4 functions over all 2D function forms, all length and angle units incl. the font-relative em/ex/ch/rem, number spellings, and a transform-origin in every syntactic form; the declarations reach the element through a rule of its own, its style attribute, `inherit` from its parent, or — in half of the documents — one rule shared by several elements of different font sizes and border boxes (class, attribute, type or grouped-id selector), the rule standing in the <style> element, a linked sheet or a user sheet), an SVG document (i mod 28 ∈ {1,2}: nested <g>/<rect> with transform attributes of ≤ 4 functions; drawn directly, inline in HTML or through <img>), or a triple of random matrices with entries in [−100,100] plus operands for every matrix operation (other i). " +
			"The first CSS and SVG documents enumerate every function form as a single-function list. " +
			"A case is non-trivial when at least one non-identity transform list was observed at GraphicState.Transform and compared with the reference product (css, svg), or when all laws were evaluated on the triple (laws); distinct = distinct input.",
		N: func(tier string) int {
			if tier == "thorough" {
				return blockLen * 72000
			}
			return blockLen * 2000
		},
		Gen: func(r *rand.Rand, i int, tier string) any {
			b := i / blockLen
			switch modeOf(i) {
			case "css":
				form := -1
				if b < 4*len(allowedCSSForms()) {
					form = b
				}
				return genCSSDoc(r, form)
			case "svg":
				form := -1
				k := 2*b + i%blockLen - 1
				if k < 4*len(allowedSVGForms()) {
					form = k
				}
				return genSVGDoc(r, form)
			}
			return genLaws(r)
		},
		Check: check,
		Floor: func(tier string) int {
			if tier == "thorough" {
				return 1900000
			}
			return 53000
		},
		CounterFloors: counterFloors,
		Assumptions: []string{
			"the reference model (props/c17/affine.go, fns.go) transcribes CSS Transforms 1 §6/§8/§10/§12 and SVG 1.1 §7.6 correctly",
			"comparison tolerance is 4× a first-order forward error bound of a float32 evaluation of the same product (scaled by the operands of the case), plus 1e-6",
			"the border box of non-absolutely-positioned boxes is read from the rectangle painted for the box's own background (layout itself is C10's subject)",
			"a box / SVG element is identified in the trace by its unique background / fill colour",
			"every CSS document sets font-family Ahem on body: 1ex = 0.8em (the font's x-height) and 1ch = 1em (advance of '0'); these two ratios are the only font metrics the model uses",
			"one declared value shared by several elements is computed per element (font-relative lengths against the element's own font size, percentages against its own border box); an inherited value keeps the absolute lengths computed for the parent (CSS Cascade 4 §4.2, CSS Values 3 §5.1.1)",
			"skew angles are kept within |tan| ≤ 60; exactly singular lists are only checked for 'no Transform call' (CSS: also 'warning logged, box not painted')",
		},
		Batch: 2800,
	})
}

func check(raw json.RawMessage) fw.Result {
	var head struct {
		Mode string `json:"mode"`
	}
	if err := json.Unmarshal(raw, &head); err != nil {
		return fw.Result{Verdict: fw.Inconclusive, Msg: err.Error()}
	}
	switch head.Mode {
	case "css":
		return checkCSS(raw)
	case "svg":
		return checkSVG(raw)
	case "laws":
		return checkLaws(raw)
	}
	return fw.Result{Verdict: fw.Inconclusive, Msg: "unknown mode " + head.Mode}
}

func counterFloors(tier string) map[string]int64 {
	k := int64(1)
	if tier == "thorough" {
		k = 30
	}
	m := map[string]int64{
		"laws_triples":                 45000 * k,
		"laws_inverted":                25000 * k,
		"css_docs":                     1800 * k,
		"css_lists_checked":            2500 * k,
		"css_nested_chains":            300 * k,
		"css_geometry_modelled":        1500 * k,
		"css_geometry_observed":        500 * k,
		"css_singular_checked":         60 * k,
		"css_inline_not_transformed":   20 * k,
		"css_none_checked":             60 * k,
		"css_transform_events":         2500 * k,
		"svg_docs_direct":              2500 * k,
		"svg_docs_inline":              200 * k,
		"svg_docs_img":                 200 * k,
		"svg_lists_checked":            6000 * k,
		"svg_nested_chains":            1500 * k,
		"svg_singular_skipped_checked": 100 * k,
		"css_in_opacity_group":         200 * k,
		"svg_opacity_groups":           500 * k,
	}
	for _, kd := range []string{"abs", "static", "relative", "inline-block", "float", "table", "table-cell", "flex"} {
		m["css_kind_"+kd] = 80 * k
	}
	for _, f := range []string{"translate1", "translate2", "translateX1", "translateY1", "scale1", "scale2", "scaleX1", "scaleY1", "rotate1", "matrix6"} {
		m["css_fn_"+f] = 150 * k
	}
	for _, u := range []string{"px", "%", "pt", "pc", "in", "cm", "mm", "q", "em", "rem", "ex", "ch", "deg", "grad", "rad", "turn"} {
		m["css_unit_"+u] = 40 * k
	}
	// how the declaration reaches the element (shared rules, style attribute, inherit, sheets)
	for _, v := range []string{"id", "style", "class", "attr", "type", "group", "inherit"} {
		m["css_via_"+v] = 40 * k
	}
	for _, v := range []string{"style", "link", "user"} {
		m["css_sheet_"+v] = 100 * k
	}
	m["css_shared_lists_checked"] = 600 * k
	m["css_shared_later_member"] = 250 * k
	m["css_shared_fontrel_other_fs"] = 80 * k
	m["css_shared_percent"] = 40 * k
	m["css_inherit_checked"] = 60 * k
	m["css_inherit_fontrel_other_fs"] = 20 * k
	m["css_inherit_origin"] = 15 * k
	for _, o := range []string{"initial", "keyword", "lp", "kw-kw", "kw-kw-swapped", "lp-kw", "kw-lp", "lp-lp"} {
		m["css_origin_"+o] = 40 * k
	}
	for _, f := range []string{"translate1", "translate2", "scale1", "scale2", "rotate1", "rotate3", "matrix6"} {
		m["svg_fn_"+f] = 400 * k
	}
	if genSkew {
		for _, f := range []string{"skew1", "skew2", "skewX1", "skewY1"} {
			m["css_fn_"+f] = 150 * k
		}
		m["svg_fn_skewX1"] = 400 * k
		m["svg_fn_skewY1"] = 400 * k
		m["laws_skew_spec"] = 45000 * k
	}
	return m
}
