package c20

import (
	"encoding/json"
	"fmt"
	"math/rand"
	"strings"
	"unicode/utf8"

	"github.com/benoitkugler/webrender/css/parser"
	"github.com/benoitkugler/webrender/css/selector"

	"verif/internal/csscmp"
	"verif/internal/fw"
	"verif/internal/gen"
)

// C20 — Serialized CSS re-parses to the same component values.
//
// Monitor: metamorphic round trip  L = Tokenize(src);  L' = Tokenize(Serialize(L));  L ≡ L'
// on complete tokens (comments removed, adjacent white space merged, positions ignored), for every
// error-free L.  Also QualifiedRule / AtRule / Declaration serialisation through the rule parsers.

type c20In struct {
	Src  string `json:"src"`
	Mode string `json:"mode"` // tokens | rules | decl
	Fam  string `json:"fam,omitempty"`
}

// representative tokens for the exhaustive adjacency sweep
var c20Repr = []string{
	"a", "-a", "--a", "-", "\\-", "e", "E3", "n", "url", "a(", "url(x)", "@a", "#a", "#1", "\"s\"", "1", "+1", "-1", ".5", "1e3", "1%", "1px", "1e", "1e-", "1E3", "1x-",
	"U+1F", "u+4??", "#", "@", ".", "+", "/", "*", "|", "~", "^", "$", "=", "?", "%", "<", "!", ">", ":", ",", ";", "&", "(", "[x]", "{}", "()", " ", "\n", "/**/", "-->", "<!--", "\\\n", "||", "|=", "é", "\\31 a", "\\d", "9",
}

// focused triples (both tiers): tokens whose fusion needs three parties — a name, a sign or dot, and
// something that continues a number, an exponent or a unicode-range (u+a, 1e-3, 1.5, -.5 …)
var (
	c20FocusA = []string{"u", "U", "a", "e", "E", "1", "1e", "1E", "-", "#", "@", "--", ".", "1px", "\\-"}
	c20FocusB = []string{"+", "-", "?", ".", "e", "E", "%"}
	c20FocusC = []string{"a", "A", "1", "?", "1F", "-1", "e3", "+1", ".5", "a-b", "1e3"}
)

func c20Focus() int { return 4 * len(c20FocusA) * len(c20FocusB) * len(c20FocusC) }

func c20Exhaustive(tier string) int {
	n := len(c20Repr)
	if tier == "thorough" {
		return 2*n*n + c20Focus() + 4*n*n*n
	}
	return 2*n*n + c20Focus()
}

func init() {
	fw.Register(&fw.Prop{
		ID: "C20",
		Rule: "inputs: (1) exhaustive ordered pairs (thorough: also triples) of representative token texts; (2) token lists built from token kinds with hostile values (escapes of control/quote/digit characters, e-units, urls with special characters) rendered by a generator-side hex escaper; (3) rule/declaration texts through ParseStylesheet/ParseOneDeclaration. " +
			"A case is non-trivial when its tokenization is error-free (no parse-error token, no EOF-flagged string/url) and contains at least two tokens; distinct = distinct source text.",
		N: func(tier string) int {
			if tier == "thorough" {
				return c20Exhaustive(tier) + 1500000
			}
			return c20Exhaustive(tier) + 60000
		},
		Gen: func(r *rand.Rand, i int, tier string) any {
			n := len(c20Repr)
			if i < 2*n*n {
				// adjacent in the source, or adjacent only once comments are skipped
				sep := []string{"", "/**/"}[i/(n*n)]
				i %= n * n
				return c20In{Src: c20Repr[i/n] + sep + c20Repr[i%n], Mode: "tokens"}
			}
			i -= 2 * n * n
			if i < c20Focus() {
				na, nb, nc := len(c20FocusA), len(c20FocusB), len(c20FocusC)
				k := i / (na * nb * nc)
				i %= na * nb * nc
				s1 := []string{"", "/**/"}[k%2]
				s2 := []string{"", "/**/"}[k/2]
				return c20In{Src: c20FocusA[i/(nb*nc)] + s1 + c20FocusB[(i/nc)%nb] + s2 + c20FocusC[i%nc], Mode: "tokens", Fam: "focus"}
			}
			i -= c20Focus()
			if tier == "thorough" && i < 4*n*n*n {
				s1 := []string{"", "/**/"}[(i/(n*n*n))%2]
				s2 := []string{"", "/**/"}[(i/(n*n*n))/2]
				i %= n * n * n
				return c20In{Src: c20Repr[i/(n*n)] + s1 + c20Repr[(i/n)%n] + s2 + c20Repr[i%n], Mode: "tokens"}
			}
			switch r.Intn(10) {
			case 0:
				return c20In{Src: gen.Soup(r, 6), Mode: "tokens"}
			case 1:
				return c20In{Src: c20RuleText(r), Mode: "rules"}
			case 3:
				return c20In{Src: c20Selector(r), Mode: "prelude"}
			case 2:
				return c20In{Src: gen.EscIdent(r, []rune(gen.Pick(r, []string{"color", "-x", "--v", "1a", "a b", "é"}))) + gen.Pick(r, []string{":", " : ", "/**/:"}) + gen.CleanList(r, 1, 4) + gen.Pick(r, []string{"", "!important", " ! IMPORTANT"}), Mode: "decl"}
			}
			return c20In{Src: gen.CleanList(r, 2, 7), Mode: "tokens"}
		},
		Check: c20Check,
		Floor: func(tier string) int { return 20000 },
		CounterFloors: func(tier string) map[string]int64 {
			return map[string]int64{"focus_triples": 4000, "rules_roundtripped": 8000, "rules_roundtripped_comments_skipped": 4000, "decls_roundtripped": 7000, "preludes_equivalent": 2500}
		},
		Assumptions: []string{"the first tokenization L is webrender's own (pure round-trip relation, no reference tokenizer)", "inputs are valid UTF-8", "lists with parse-error tokens or EOF-flagged strings/urls are outside the property and skipped"},
		Batch:       5000,
	})
}

// c20Selector prints a selector with names that need escapes, comments and odd spacing: the text the
// cascade hands to the selector parser is Serialize(prelude), not the author's text.
func c20Selector(r *rand.Rand) string {
	name := func() string {
		return gen.EscIdent(r, []rune(gen.Pick(r, []string{"a", "div", "c1", "1a", "-x", "--y", "a b", "é", "a.b", "x:y", "-", "9"})))
	}
	simple := func() string {
		switch r.Intn(9) {
		case 0:
			return "." + name()
		case 1:
			return "#" + name()
		case 2:
			return "[" + name() + gen.Pick(r, []string{"=", "~=", "|=", "^=", "$=", "*="}) + gen.Pick(r, []string{gen.EscString(r, []rune(gen.Pick(r, []string{"v", "a b", "q\"q", "", "x\ny"}))), name()}) + gen.Pick(r, []string{"", " i", " s"}) + "]"
		case 3:
			return gen.Pick(r, []string{":first-child", ":nth-child(2n+1)", ":nth-child( -n + 3 )", ":not(" + name() + ")", ":is(." + name() + ", #" + name() + ")", ":has(> " + name() + ")", "::before", ":root", ":empty", ":nth-of-type(odd)"})
		case 4:
			return "*"
		}
		return name()
	}
	n := 1 + r.Intn(4)
	var sb strings.Builder
	for i := 0; i < n; i++ {
		if i > 0 {
			sb.WriteString(gen.Pick(r, []string{" ", " > ", ">", " + ", "~", ", ", ",", "/**/ ", " /**/ > /**/"}))
		}
		sb.WriteString(simple())
		if r.Intn(3) == 0 {
			sb.WriteString(gen.Pick(r, []string{"", "/**/", ""}) + simple())
		}
	}
	return sb.String()
}

func c20RuleText(r *rand.Rand) string {
	prelude := gen.CleanList(r, 1, 4)
	// the joint between an at-keyword and its prelude, and between prelude and block: a space, nothing,
	// or only a comment (which disappears when the sheet is parsed with comments skipped)
	joint := func() string { return gen.Pick(r, []string{" ", " ", "", "/**/", "/* c */", " /**/ "}) }
	switch r.Intn(4) {
	case 0:
		return "@" + gen.EscIdent(r, []rune(gen.Pick(r, []string{"media", "x", "-y", "1z"}))) + joint() + prelude + joint() + ";"
	case 1:
		return "@" + gen.EscIdent(r, []rune(gen.Pick(r, []string{"media", "x", "page"}))) + joint() + prelude + joint() + "{" + gen.CleanList(r, 1, 4) + "}"
	}
	return prelude + joint() + "{" + gen.CleanList(r, 1, 5) + "}"
}

var c20opt = csscmp.Options{DropComments: true, MergeWS: true}

func c20Check(raw json.RawMessage) fw.Result {
	var in c20In
	if err := json.Unmarshal(raw, &in); err != nil {
		return fw.Result{Verdict: fw.Inconclusive, Msg: err.Error()}
	}
	var res fw.Result
	if !utf8.ValidString(in.Src) {
		res.Verdict = fw.Skip
		return res
	}
	if in.Fam == "focus" {
		res.Count("focus_triples", 1)
	}
	switch in.Mode {
	case "tokens":
		l := parser.Tokenize([]byte(in.Src), false)
		cl := csscmp.From(l, c20opt)
		if csscmp.HasError(cl) {
			res.Verdict = fw.Skip
			res.Count("skipped_error_lists", 1)
			return res
		}
		ser := parser.Serialize(l)
		l2 := parser.Tokenize([]byte(ser), false)
		cl2 := csscmp.From(l2, c20opt)
		if d := csscmp.Diff(cl, cl2, ""); d != "" {
			res.Fail("roundtrip-tokens", fmt.Sprintf("Tokenize(Serialize(L)) != L for source %q: serialized %q: %s", in.Src, ser, d))
			return res
		}
		// skip-comments variant must agree as well
		l3 := parser.Tokenize([]byte(in.Src), true)
		ser3 := parser.Serialize(l3)
		if d := csscmp.Diff(csscmp.From(l3, c20opt), csscmp.From(parser.Tokenize([]byte(ser3), true), c20opt), ""); d != "" {
			res.Fail("roundtrip-tokens-skipcomments", fmt.Sprintf("round trip (comments skipped) differs for source %q: serialized %q: %s", in.Src, ser3, d))
			return res
		}
		n := 0
		csscmp.Count(cl, func(t csscmp.Tok) { n++; res.Count("tok_"+t.K, 1) })
		res.Nontrivial = n >= 2
	case "rules":
		for _, skipComments := range []bool{false, true} {
			rules := parser.ParseStylesheetBytes([]byte(in.Src), skipComments, false)
			variant := ""
			if skipComments {
				variant = " (comments skipped)"
			}
			for _, ru := range rules {
				var ser string
				var pre, content []parser.Token
				hasContent := false
				name := ""
				switch v := ru.(type) {
				case parser.QualifiedRule:
					ser = serializeCompound(v)
					pre, content, hasContent = v.Prelude, v.Content, true
				case parser.AtRule:
					ser = serializeCompound(v)
					pre, content, hasContent, name = v.Prelude, v.Content, v.Content != nil, v.AtKeyword
				default:
					continue
				}
				if csscmp.HasError(csscmp.From(pre, c20opt)) || csscmp.HasError(csscmp.From(content, c20opt)) {
					res.Count("skipped_error_lists", 1)
					continue
				}
				back := parser.ParseStylesheetBytes([]byte(ser), skipComments, false)
				var sig []parser.Compound
				for _, b := range back {
					switch b.(type) {
					case parser.Whitespace, parser.Comment:
					default:
						sig = append(sig, b)
					}
				}
				if len(sig) != 1 {
					res.Fail("roundtrip-rule", fmt.Sprintf("rule"+variant+" from %q serialized to %q re-parses to %d rules", in.Src, ser, len(sig)))
					return res
				}
				var pre2, content2 []parser.Token
				has2 := false
				name2 := ""
				switch v := sig[0].(type) {
				case parser.QualifiedRule:
					pre2, content2, has2 = v.Prelude, v.Content, true
				case parser.AtRule:
					pre2, content2, has2, name2 = v.Prelude, v.Content, v.Content != nil, v.AtKeyword
				default:
					res.Fail("roundtrip-rule", fmt.Sprintf("rule"+variant+" from %q serialized to %q re-parses to %T", in.Src, ser, sig[0]))
					return res
				}
				if name != name2 || hasContent != has2 {
					res.Fail("roundtrip-rule", fmt.Sprintf("rule"+variant+" from %q serialized to %q: at-keyword %q/%q block %v/%v", in.Src, ser, name, name2, hasContent, has2))
					return res
				}
				if d := csscmp.Diff(csscmp.From(pre, c20opt), csscmp.From(pre2, c20opt), "prelude"); d != "" {
					res.Fail("roundtrip-rule", fmt.Sprintf("rule"+variant+" from %q serialized to %q: %s", in.Src, ser, d))
					return res
				}
				if d := csscmp.Diff(csscmp.From(content, c20opt), csscmp.From(content2, c20opt), "content"); d != "" {
					res.Fail("roundtrip-rule", fmt.Sprintf("rule"+variant+" from %q serialized to %q: %s", in.Src, ser, d))
					return res
				}
				res.Count("rules_roundtripped", 1)
				if skipComments {
					res.Count("rules_roundtripped_comments_skipped", 1)
				}
				res.Nontrivial = true
			}
		}
	case "prelude":
		rules := parser.ParseStylesheetBytes([]byte(in.Src+" {}"), false, false)
		var prelude []parser.Token
		n := 0
		for _, ru := range rules {
			if q, ok := ru.(parser.QualifiedRule); ok {
				prelude = q.Prelude
				n++
			}
		}
		if n != 1 || csscmp.HasError(csscmp.From(prelude, c20opt)) {
			res.Verdict = fw.Skip
			return res
		}
		g1, err1 := selector.ParseGroup(in.Src)
		ser := parser.Serialize(prelude)
		g2, err2 := selector.ParseGroup(ser)
		if (err1 == nil) != (err2 == nil) {
			res.Fail("prelude-selector-accept", fmt.Sprintf("selector text %q: ParseGroup says err=%v, but for Serialize(prelude)=%q it says err=%v", in.Src, err1, ser, err2))
			return res
		}
		if err1 != nil {
			res.Count("preludes_rejected_both", 1)
			return res
		}
		if len(g1) != len(g2) {
			res.Fail("prelude-selector-equiv", fmt.Sprintf("selector text %q parses to %d selectors, Serialize(prelude)=%q to %d", in.Src, len(g1), ser, len(g2)))
			return res
		}
		for i := range g1 {
			if g1[i].String() != g2[i].String() || g1[i].Specificity() != g2[i].Specificity() || g1[i].PseudoElement() != g2[i].PseudoElement() {
				res.Fail("prelude-selector-equiv", fmt.Sprintf("selector text %q and Serialize(prelude)=%q give different selectors: %q vs %q", in.Src, ser, g1[i].String(), g2[i].String()))
				return res
			}
		}
		res.Count("preludes_equivalent", 1)
		res.Nontrivial = true
	case "decl":
		for _, skipComments := range []bool{false, true} {
			if r := c20Decl(in.Src, skipComments, &res); r {
				return res
			}
		}
	}
	return res
}

// c20Decl round-trips one declaration; it reports true when the verdict is final.
func c20Decl(src string, skipComments bool, resp *fw.Result) bool {
	res := resp
	in := struct{ Src string }{src}
	{
		d := parser.ParseOneDeclaration(parser.Tokenize([]byte(in.Src), skipComments))
		decl, ok := d.(parser.Declaration)
		if !ok {
			if !skipComments {
				res.Verdict = fw.Skip
			}
			return true
		}
		if csscmp.HasError(csscmp.From(decl.Value, c20opt)) {
			if !skipComments {
				res.Verdict = fw.Skip
			}
			res.Count("skipped_error_lists", 1)
			return true
		}
		ser := serializeCompound(decl)
		d2, ok := parser.ParseOneDeclaration(parser.Tokenize([]byte(ser), skipComments)).(parser.Declaration)
		if !ok {
			res.Fail("roundtrip-decl", fmt.Sprintf("declaration from %q serialized to %q does not re-parse as a declaration", in.Src, ser))
			return true
		}
		if d2.Name != decl.Name || d2.Important != decl.Important {
			res.Fail("roundtrip-decl", fmt.Sprintf("declaration from %q serialized to %q: name %q/%q important %v/%v", in.Src, ser, decl.Name, d2.Name, decl.Important, d2.Important))
			return true
		}
		if df := csscmp.Diff(csscmp.From(decl.Value, c20opt), csscmp.From(d2.Value, c20opt), "value"); df != "" {
			res.Fail("roundtrip-decl", fmt.Sprintf("declaration from %q serialized to %q: %s", in.Src, ser, df))
			return true
		}
		res.Count("decls_roundtripped", 1)
		res.Nontrivial = true
	}
	return false
}

func serializeCompound(c parser.Compound) string {
	s, _ := parser.VerifSerializeCompound(c)
	return s
}
