package c20

import (
	"encoding/json"
	"fmt"
	"math/rand"
	"unicode/utf8"

	"github.com/benoitkugler/webrender/css/parser"

	"verif/internal/csscmp"
	"verif/internal/fw"
	"verif/internal/gen"
)

// C20 — Serialized CSS re-parses to the same component values.
//
// Monitor: metamorphic round trip  L = Tokenize(src);  L' = Tokenize(Serialize(L));  L ≡ L'
// on complete tokens (comments removed, adjacent white space merged, positions ignored), for every
// error-free L.  Also QualifiedRule / AtRule / Declaration serialisation through the rule parsers.

type c20In struct {
	Src  string `json:"src"`
	Mode string `json:"mode"` // tokens | rules | decl
}

// representative tokens for the exhaustive adjacency sweep
var c20Repr = []string{
	"a", "-a", "--a", "-", "\\-", "e", "E3", "n", "url", "a(", "url(x)", "@a", "#a", "#1", "\"s\"", "1", "+1", "-1", ".5", "1e3", "1%", "1px", "1e", "1e-", "1E3", "1x-",
	"U+1F", "u+4??", "#", "@", ".", "+", "/", "*", "|", "~", "^", "$", "=", "?", "%", "<", "!", ">", ":", ",", ";", "&", "(", "[x]", "{}", "()", " ", "\n", "/**/", "-->", "<!--", "\\\n", "||", "|=", "é", "\\31 a", "\\d", "9",
}

func c20Exhaustive(tier string) int {
	n := len(c20Repr)
	if tier == "thorough" {
		return 2*n*n + 4*n*n*n
	}
	return 2 * n * n
}

func init() {
	fw.Register(&fw.Prop{
		ID: "C20",
		Rule: "inputs: (1) exhaustive ordered pairs (thorough: also triples) of representative token texts; (2) token lists built from token kinds with hostile values (escapes of control/quote/digit characters, e-units, urls with special characters) rendered by a generator-side hex escaper; (3) rule/declaration texts through ParseStylesheet/ParseOneDeclaration. " +
			"A case is non-trivial when its tokenization is error-free (no parse-error token, no EOF-flagged string/url) and contains at least two tokens; distinct = distinct source text.",
		N: func(tier string) int {
			if tier == "thorough" {
				return c20Exhaustive(tier) + 1500000
			}
			return c20Exhaustive(tier) + 60000
		},
		Gen: func(r *rand.Rand, i int, tier string) any {
			n := len(c20Repr)
			if i < 2*n*n {
				// adjacent in the source, or adjacent only once comments are skipped
				sep := []string{"", "/**/"}[i/(n*n)]
				i %= n * n
				return c20In{Src: c20Repr[i/n] + sep + c20Repr[i%n], Mode: "tokens"}
			}
			i -= 2 * n * n
			if tier == "thorough" && i < 4*n*n*n {
				s1 := []string{"", "/**/"}[(i/(n*n*n))%2]
				s2 := []string{"", "/**/"}[(i/(n*n*n))/2]
				i %= n * n * n
				return c20In{Src: c20Repr[i/(n*n)] + s1 + c20Repr[(i/n)%n] + s2 + c20Repr[i%n], Mode: "tokens"}
			}
			switch r.Intn(10) {
			case 0:
				return c20In{Src: gen.Soup(r, 6), Mode: "tokens"}
			case 1:
				return c20In{Src: c20RuleText(r), Mode: "rules"}
			case 2:
				return c20In{Src: gen.EscIdent(r, []rune(gen.Pick(r, []string{"color", "-x", "--v", "1a", "a b", "é"}))) + gen.Pick(r, []string{":", " : ", "/**/:"}) + gen.CleanList(r, 1, 4) + gen.Pick(r, []string{"", "!important", " ! IMPORTANT"}), Mode: "decl"}
			}
			return c20In{Src: gen.CleanList(r, 2, 7), Mode: "tokens"}
		},
		Check:       c20Check,
		Floor:       func(tier string) int { return 20000 },
		Assumptions: []string{"the first tokenization L is webrender's own (pure round-trip relation, no reference tokenizer)", "inputs are valid UTF-8", "lists with parse-error tokens or EOF-flagged strings/urls are outside the property and skipped"},
		Batch:       5000,
	})
}

func c20RuleText(r *rand.Rand) string {
	prelude := gen.CleanList(r, 1, 4)
	switch r.Intn(4) {
	case 0:
		return "@" + gen.EscIdent(r, []rune(gen.Pick(r, []string{"media", "x", "-y", "1z"}))) + " " + prelude + ";"
	case 1:
		return "@" + gen.EscIdent(r, []rune(gen.Pick(r, []string{"media", "x", "page"}))) + " " + prelude + "{" + gen.CleanList(r, 1, 4) + "}"
	}
	return prelude + "{" + gen.CleanList(r, 1, 5) + "}"
}

var c20opt = csscmp.Options{DropComments: true, MergeWS: true}

func c20Check(raw json.RawMessage) fw.Result {
	var in c20In
	if err := json.Unmarshal(raw, &in); err != nil {
		return fw.Result{Verdict: fw.Inconclusive, Msg: err.Error()}
	}
	var res fw.Result
	if !utf8.ValidString(in.Src) {
		res.Verdict = fw.Skip
		return res
	}
	switch in.Mode {
	case "tokens":
		l := parser.Tokenize([]byte(in.Src), false)
		cl := csscmp.From(l, c20opt)
		if csscmp.HasError(cl) {
			res.Verdict = fw.Skip
			res.Count("skipped_error_lists", 1)
			return res
		}
		ser := parser.Serialize(l)
		l2 := parser.Tokenize([]byte(ser), false)
		cl2 := csscmp.From(l2, c20opt)
		if d := csscmp.Diff(cl, cl2, ""); d != "" {
			res.Fail("roundtrip-tokens", fmt.Sprintf("Tokenize(Serialize(L)) != L for source %q: serialized %q: %s", in.Src, ser, d))
			return res
		}
		// skip-comments variant must agree as well
		l3 := parser.Tokenize([]byte(in.Src), true)
		ser3 := parser.Serialize(l3)
		if d := csscmp.Diff(csscmp.From(l3, c20opt), csscmp.From(parser.Tokenize([]byte(ser3), true), c20opt), ""); d != "" {
			res.Fail("roundtrip-tokens-skipcomments", fmt.Sprintf("round trip (comments skipped) differs for source %q: serialized %q: %s", in.Src, ser3, d))
			return res
		}
		n := 0
		csscmp.Count(cl, func(t csscmp.Tok) { n++; res.Count("tok_"+t.K, 1) })
		res.Nontrivial = n >= 2
	case "rules":
		rules := parser.ParseStylesheetBytes([]byte(in.Src), false, false)
		for _, ru := range rules {
			var ser string
			var pre, content []parser.Token
			hasContent := false
			name := ""
			switch v := ru.(type) {
			case parser.QualifiedRule:
				ser = serializeCompound(v)
				pre, content, hasContent = v.Prelude, v.Content, true
			case parser.AtRule:
				ser = serializeCompound(v)
				pre, content, hasContent, name = v.Prelude, v.Content, v.Content != nil, v.AtKeyword
			default:
				continue
			}
			if csscmp.HasError(csscmp.From(pre, c20opt)) || csscmp.HasError(csscmp.From(content, c20opt)) {
				res.Count("skipped_error_lists", 1)
				continue
			}
			back := parser.ParseStylesheetBytes([]byte(ser), false, false)
			var sig []parser.Compound
			for _, b := range back {
				switch b.(type) {
				case parser.Whitespace, parser.Comment:
				default:
					sig = append(sig, b)
				}
			}
			if len(sig) != 1 {
				res.Fail("roundtrip-rule", fmt.Sprintf("rule from %q serialized to %q re-parses to %d rules", in.Src, ser, len(sig)))
				return res
			}
			var pre2, content2 []parser.Token
			has2 := false
			name2 := ""
			switch v := sig[0].(type) {
			case parser.QualifiedRule:
				pre2, content2, has2 = v.Prelude, v.Content, true
			case parser.AtRule:
				pre2, content2, has2, name2 = v.Prelude, v.Content, v.Content != nil, v.AtKeyword
			default:
				res.Fail("roundtrip-rule", fmt.Sprintf("rule from %q serialized to %q re-parses to %T", in.Src, ser, sig[0]))
				return res
			}
			if name != name2 || hasContent != has2 {
				res.Fail("roundtrip-rule", fmt.Sprintf("rule from %q serialized to %q: at-keyword %q/%q block %v/%v", in.Src, ser, name, name2, hasContent, has2))
				return res
			}
			if d := csscmp.Diff(csscmp.From(pre, c20opt), csscmp.From(pre2, c20opt), "prelude"); d != "" {
				res.Fail("roundtrip-rule", fmt.Sprintf("rule from %q serialized to %q: %s", in.Src, ser, d))
				return res
			}
			if d := csscmp.Diff(csscmp.From(content, c20opt), csscmp.From(content2, c20opt), "content"); d != "" {
				res.Fail("roundtrip-rule", fmt.Sprintf("rule from %q serialized to %q: %s", in.Src, ser, d))
				return res
			}
			res.Count("rules_roundtripped", 1)
			res.Nontrivial = true
		}
	case "decl":
		d := parser.ParseOneDeclaration(parser.Tokenize([]byte(in.Src), false))
		decl, ok := d.(parser.Declaration)
		if !ok {
			res.Verdict = fw.Skip
			return res
		}
		if csscmp.HasError(csscmp.From(decl.Value, c20opt)) {
			res.Verdict = fw.Skip
			res.Count("skipped_error_lists", 1)
			return res
		}
		ser := serializeCompound(decl)
		d2, ok := parser.ParseOneDeclaration(parser.Tokenize([]byte(ser), false)).(parser.Declaration)
		if !ok {
			res.Fail("roundtrip-decl", fmt.Sprintf("declaration from %q serialized to %q does not re-parse as a declaration", in.Src, ser))
			return res
		}
		if d2.Name != decl.Name || d2.Important != decl.Important {
			res.Fail("roundtrip-decl", fmt.Sprintf("declaration from %q serialized to %q: name %q/%q important %v/%v", in.Src, ser, decl.Name, d2.Name, decl.Important, d2.Important))
			return res
		}
		if df := csscmp.Diff(csscmp.From(decl.Value, c20opt), csscmp.From(d2.Value, c20opt), "value"); df != "" {
			res.Fail("roundtrip-decl", fmt.Sprintf("declaration from %q serialized to %q: %s", in.Src, ser, df))
			return res
		}
		res.Count("decls_roundtripped", 1)
		res.Nontrivial = true
	}
	return res
}

func serializeCompound(c parser.Compound) string {
	s, _ := parser.VerifSerializeCompound(c)
	return s
}
