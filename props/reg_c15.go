//go:build pC15 || pall

package props

import _ "verif/props/c15"
