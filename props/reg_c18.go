//go:build pC18 || pall

package props

import _ "verif/props/c18"
