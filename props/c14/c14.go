// Package c14 — The backend receives a well-formed, self-consistent drawing.
//
// Monitors (DESIGN.md §6 C14): the online call-protocol monitor of the recording backend
// (internal/rec: finite numbers, path state before Paint/Clip/LineTo, fonts registered before
// DrawText, balanced stacks, once-only document calls) plus offline checks over the finished log:
// page count/order/size, internal links ↔ anchors (defined exactly once, on the page of the first box
// carrying the id, at the scaled hit-area origin), dangling links dropped, bookmark outline vs levels,
// metadata forwarded.
package c14

import (
	"encoding/json"
	"fmt"
	"math"
	"math/rand"
	"sort"
	"strings"

	"github.com/benoitkugler/webrender/backend"
	pr "github.com/benoitkugler/webrender/css/properties"
	bo "github.com/benoitkugler/webrender/html/boxes"

	"verif/internal/fw"
	"verif/internal/gen"
	"verif/internal/wr"
)

type heading struct {
	Level int    `json:"level"`
	Label string `json:"label"`
}

type facts struct {
	Title       string    `json:"title"`
	HasTitle    bool      `json:"has_title"`
	Description string    `json:"description"`
	Generator   string    `json:"generator"`
	Authors     []string  `json:"authors"`
	Keywords    []string  `json:"keywords"` // expected list after splitting/stripping/dedup
	Created     string    `json:"created"`  // expected SetDateCreation argument (RFC 3339, UTC); zero time when absent
	Modified    string    `json:"modified"`
	Headings    []heading `json:"headings"` // displayed headings in document order
	IDs         []string  `json:"ids"`      // ids of displayed elements, document order, with duplicates
	LinkTargets []string  `json:"link_targets"`
	NoTransform bool      `json:"no_transform"`
}

type input struct {
	Kind  string  `json:"kind"` // "doc" (hostile generator) | "struct"
	Doc   gen.Doc `json:"doc"`
	Facts *facts  `json:"facts,omitempty"`
}

func counts(tier string) (docs, structs int) {
	if tier == "thorough" {
		return 40000, 20000
	}
	return 1500, 1000
}

func init() {
	fw.Register(&fw.Prop{
		ID:   "C14",
		Rule: "cases: (a) hostile generated documents (same grammar as C01: backgrounds, gradients, images, borders, radii, outlines, opacity, overflow, transforms, inline SVG, lists, tables) at zoom 0.5/1/2.5; (b) structured documents with ids (duplicates on purpose), internal links to present / missing / duplicate ids across pages, headings with bookmark-level sequences, metadata. Every backend call is checked online; links/anchors/bookmarks/metadata offline against the laid-out pages and the generator's facts. Non-trivial: the render produced >= 1 page and >= 30 backend events (a) / >= 1 anchor or bookmark (b); distinct = distinct input.",
		N:    func(tier string) int { d, s := counts(tier); return d + s },
		Gen: func(r *rand.Rand, i int, tier string) any {
			d, _ := counts(tier)
			if i < d {
				doc := gen.HTMLDoc(r)
				doc.Zoom = gen.Pick(r, []float32{1, 1, 0.5, 2.5})
				return input{Kind: "doc", Doc: doc}
			}
			return genStruct(r)
		},
		Check: check,
		Floor: func(tier string) int {
			if tier == "thorough" {
				return 30000
			}
			return 1500
		},
		CounterFloors: func(tier string) map[string]int64 {
			return map[string]int64{"events": 200000, "ev_Paint": 5000, "ev_DrawText": 5000, "ev_Clip": 500, "ev_Transform": 2000, "anchors_checked": 1000, "internal_links_checked": 500, "bookmarks_checked": 1000, "dangling_links_dropped": 100, "metadata_docs": 500, "multi_page_struct": 200, "dates_checked": 500, "dates_differ": 200, "docs_collapsed-borders": 60, "docs_svg-stroke": 60, "docs_transform_modelled": 400, "anchors_under_transform": 200, "dup_ids_under_transform": 50}
		},
		Assumptions: []string{
			"the call-sequence rules are those written in backend/graphics.go's method comments (current point before LineTo/CubicTo/ClosePath, Paint/Clip act on a non-empty current path, fonts registered with AddFont on the canvas before DrawText)",
			"expected anchors / links / bookmarks are recomputed from webrender's own laid-out page boxes (document.Page.VerifPageBox) and cross-checked with the generator's facts for structured documents",
		},
		Batch: 100,
		// hostile documents that never finish laying out produce no drawing to judge: C01 runs the same
		// grammar and reports CPU / heap overruns as violations
		BudgetOutOfDomain: true,
	})
}

func feq(a, b float64) bool {
	return math.Abs(a-b) <= 0.02+1e-4*math.Max(math.Abs(a), math.Abs(b))
}

type anchorSite struct {
	page int
	x, y float64
	id   string
}

type linkSite struct {
	page   int
	target string
	kind   string
}

type bmSite struct {
	page  int
	level int
	label string
}

// aff is the reference model of a CSS 2D transform restricted to translations and scalings:
// x' = sx*x + tx, y' = sy*y + ty (css-transforms-1 §3, §6: the functions of the list are multiplied
// left to right, the product is applied around the transform origin, transforms of ancestors
// accumulate; non-replaced inline boxes are not transformable).
type aff struct{ sx, sy, tx, ty float64 }

var affID = aff{1, 1, 0, 0}

// then(o, i): apply i first, then o
func then(o, i aff) aff {
	return aff{o.sx * i.sx, o.sy * i.sy, o.sx*i.tx + o.tx, o.sy*i.ty + o.ty}
}

// boxTransform returns the transform of the box's own `transform` property; ok is false when the list
// holds a function outside the model (rotate, skew, matrix, odd units).
func boxTransform(b bo.Box) (m aff, has, ok bool) {
	f := b.Box()
	tr := f.Style.GetTransform()
	if len(tr) == 0 || bo.InlineT.IsInstance(b) {
		return affID, false, true
	}
	bw, bh := float64(f.BorderWidth()), float64(f.BorderHeight())
	res := func(d pr.Dimension, ref float64) (float64, bool) {
		switch d.Unit {
		case pr.Px:
			return float64(d.Value), true
		case pr.Perc:
			return float64(d.Value) * ref / 100, true
		}
		return 0, false
	}
	or := f.Style.GetTransformOrigin()
	ox, ok1 := res(or[0], bw)
	oy, ok2 := res(or[1], bh)
	if !ok1 || !ok2 {
		return affID, true, false
	}
	ox += float64(f.BorderBoxX())
	oy += float64(f.BorderBoxY())
	l := affID
	for _, t := range tr {
		switch {
		case t.String == "translate" && len(t.Dimensions) == 2:
			x, okx := res(t.Dimensions[0], bw)
			y, oky := res(t.Dimensions[1], bh)
			if !okx || !oky {
				return affID, true, false
			}
			l = then(l, aff{1, 1, x, y})
		case t.String == "scale" && len(t.Dimensions) == 2 && t.Dimensions[0].Unit == pr.Scalar && t.Dimensions[1].Unit == pr.Scalar:
			l = then(l, aff{float64(t.Dimensions[0].Value), float64(t.Dimensions[1].Value), 0, 0})
		default:
			return affID, true, false
		}
	}
	m = then(aff{1, 1, ox, oy}, then(l, aff{1, 1, -ox, -oy}))
	if math.IsNaN(m.sx+m.sy+m.tx+m.ty) || math.IsInf(m.sx+m.sy+m.tx+m.ty, 0) {
		return affID, true, false
	}
	return m, true, true
}

type walkState struct {
	seen         map[string]bool
	seenOnPage   map[string]bool // ids met on the current page
	anchors      []anchorSite
	links        []linkSite
	bms          []bmSite
	hasTransform bool // some box is transformed
	unmodelled   bool // some transform is outside the translate/scale model: positions are not judged
	anchorsTf    int  // anchors whose position went through a non-identity transform
	dupTf        int  // later boxes of an id already met on the same page, lying in/on a transformed box
}

// walk collects anchors (first box per name per document), links and bookmarks from a laid-out page,
// the same way a reader of the box tree would: depth first, AllChildren. cur maps the box's own
// coordinates to page coordinates (transforms of the ancestors).
func walk(b bo.Box, page int, w *walkState, cur aff, under bool) {
	f := b.Box()
	if f.Style != nil {
		m, has, ok := boxTransform(b)
		if has {
			w.hasTransform = true
			under = true
			if !ok {
				w.unmodelled = true
			} else {
				cur = then(cur, m)
			}
		}
		if name := string(f.Style.GetAnchor()); name != "" {
			if !w.seen[name] {
				w.seen[name] = true
				h := bo.HitArea(b)
				x, y := float64(h[0]), float64(h[1])
				if cur != affID {
					w.anchorsTf++
				}
				w.anchors = append(w.anchors, anchorSite{page: page, x: cur.sx*x + cur.tx, y: cur.sy*y + cur.ty, id: name})
			} else if w.seenOnPage[name] && under {
				w.dupTf++
			}
			w.seenOnPage[name] = true
		}
		if l := f.Style.GetLink(); !l.IsNone() && !(bo.TextT.IsInstance(b) || bo.LineT.IsInstance(b)) {
			w.links = append(w.links, linkSite{page: page, target: l.String, kind: l.Name})
		}
		if lvl := f.Style.GetBookmarkLevel(); lvl.Tag != pr.None && lvl.I != 0 && f.BookmarkLabel != "" {
			w.bms = append(w.bms, bmSite{page: page, level: lvl.I, label: f.BookmarkLabel})
		}
	}
	for _, c := range b.AllChildren() {
		walk(c, page, w, cur, under)
	}
}

func check(raw json.RawMessage) fw.Result {
	var in input
	var res fw.Result
	if err := json.Unmarshal(raw, &in); err != nil {
		return fw.Result{Verdict: fw.Inconclusive, Msg: err.Error()}
	}
	d := in.Doc
	var (
		r   *wr.Rendered
		err error
	)
	var phase string
	if sig, msg, stack := fw.Protect(func() {
		r, err = wr.Render(wr.Opts{HTML: d.HTML, UserCSS: d.UserCSS, Hints: d.Hints, Engine: d.Engine, Zoom: d.Zoom, Files: d.Files, Phase: &phase})
	}); sig != "" {
		if phase == "write" {
			// the layout succeeded and Document.Write itself gave up half way: the backend is left with a
			// truncated call sequence (pages without the document-level calls, open stacks)
			res.Fail("write-"+sig, "Document.Write panicked after the layout succeeded, leaving the backend with a truncated call sequence: "+msg)
			res.Stack = stack
			return res
		}
		// a render that panics produced no drawing to judge: crashes are C01's verdicts (known crash
		// sites are listed there); here the case is outside the domain, and counted
		res.Verdict = fw.Skip
		res.Count("skipped_render_panics", 1)
		return res
	}
	if err != nil {
		// refused input, or a page loop that does not progress (C01's verdict; known finding there)
		res.Verdict = fw.Skip
		if _, ok := err.(*wr.StallError); ok {
			res.Count("skipped_page_loop_stalls", 1)
		}
		return res
	}
	for _, fam := range []string{"degenerate-floats", "quote-stress", "collapsed-borders", "svg-stroke"} {
		if strings.Contains(d.HTML, "<!--gen:"+fam+"-->") {
			res.Count("docs_"+fam, 1)
		}
	}
	zoom := float64(d.Zoom)
	if zoom == 0 {
		zoom = 1
	}
	scale := zoom * 0.75
	R := r.Rec
	res.Count("events", int64(len(R.Events)))
	for _, e := range R.Events {
		switch e.Op {
		case "Paint", "DrawText", "Clip", "Transform", "DrawGradient", "DrawRasterImage", "DrawWithOpacity", "SetColorPattern", "SetAlphaMask", "CubicTo", "SetDash", "AddFont":
			res.Count("ev_"+e.Op, 1)
		}
	}
	// 1. online protocol monitor
	if len(R.Violations) > 0 {
		res.Fail("protocol:"+protoClass(R.Violations[0]), fmt.Sprintf("backend call protocol violated (%d findings), first: %s", len(R.Violations), R.Violations[0]))
		return res
	}
	// 2. pages
	pages := r.Document.Pages
	if len(R.Pages) != len(pages) {
		res.Fail("page-count", fmt.Sprintf("%d AddPage calls for %d laid-out pages", len(R.Pages), len(pages)))
		return res
	}
	pi := 0
	for _, e := range R.Events {
		if e.Op != "AddPage" {
			continue
		}
		p := pages[pi]
		bl := p.Bleed
		wantW := float64(p.Width) + float64(bl.Left) + float64(bl.Right)
		wantH := float64(p.Height) + float64(bl.Top) + float64(bl.Bottom)
		if !feq(float64(e.F[0]), -float64(bl.Left)) || !feq(float64(e.F[1]), -float64(bl.Top)) || !feq(float64(e.F[2]), wantW) || !feq(float64(e.F[3]), wantH) {
			res.Fail("page-geometry", fmt.Sprintf("AddPage #%d got %v, laid-out page is %gx%g with bleed %+v", pi, e.F, p.Width, p.Height, bl))
			return res
		}
		pi++
	}
	// 3. once-only document level calls
	for _, op := range []string{"SetTitle", "SetDescription", "SetCreator", "SetAuthors", "SetKeywords", "SetProducer", "SetDateCreation", "SetDateModification", "SetAttachments"} {
		if R.MetaCalls[op] != 1 {
			res.Fail("meta-calls", fmt.Sprintf("%s called %d times", op, R.MetaCalls[op]))
			return res
		}
	}
	if R.AnchorsCalls != 1 || R.BookmarkCall != 1 {
		res.Fail("meta-calls", fmt.Sprintf("CreateAnchors called %d times, SetBookmarks %d times", R.AnchorsCalls, R.BookmarkCall))
		return res
	}

	// 4. anchors and links against the laid-out pages
	w := &walkState{seen: map[string]bool{}}
	for i, p := range pages {
		w.seenOnPage = map[string]bool{}
		walk(p.VerifPageBox(), i, w, affID, false)
	}
	anchors, links, bms := w.anchors, w.links, w.bms
	if w.hasTransform && !w.unmodelled {
		res.Count("docs_transform_modelled", 1)
		res.Count("anchors_under_transform", int64(w.anchorsTf))
		res.Count("dup_ids_under_transform", int64(w.dupTf))
	}
	defined := map[string]int{} // name -> times defined
	definedAt := map[string]rec0{}
	for pg, list := range R.Anchors {
		for _, a := range list {
			defined[a.Name]++
			definedAt[a.Name] = rec0{pg, float64(a.X), float64(a.Y)}
		}
	}
	for name, n := range defined {
		if n != 1 {
			res.Fail("anchor-multiple", fmt.Sprintf("anchor %q is defined %d times by CreateAnchors", name, n))
			return res
		}
	}
	for _, a := range anchors {
		got, ok := definedAt[a.id]
		if !ok {
			res.Fail("anchor-missing", fmt.Sprintf("element id %q has a box on page %d but CreateAnchors does not define it", a.id, a.page))
			return res
		}
		if got.page != a.page {
			res.Fail("anchor-page", fmt.Sprintf("anchor %q defined on page %d, the first box with that id is on page %d", a.id, got.page, a.page))
			return res
		}
		if !w.unmodelled {
			H := float64(pages[a.page].Height)
			wx, wy := scale*a.x, H*scale-scale*a.y
			if !feq(got.x, wx) || !feq(got.y, wy) {
				res.Fail("anchor-position", fmt.Sprintf("anchor %q at (%g,%g), expected the scaled (transformed) hit-area origin (%g,%g) of the first box with that id (page %d, zoom %g)", a.id, got.x, got.y, wx, wy, a.page, zoom))
				return res
			}
		}
		res.Count("anchors_checked", 1)
	}
	if len(defined) != len(anchors) {
		res.Fail("anchor-extra", fmt.Sprintf("CreateAnchors defines %d names, the laid-out pages carry %d distinct anchor names", len(defined), len(anchors)))
		return res
	}
	// internal links emitted
	type lk struct {
		page int
		name string
	}
	gotLinks := map[lk]int{}
	for _, e := range R.Events {
		if e.Op == "AddInternalLink" {
			if defined[e.S[0]] != 1 {
				res.Fail("link-dangling", fmt.Sprintf("internal link to %q emitted on page %d but CreateAnchors defines it %d times", e.S[0], e.Page, defined[e.S[0]]))
				return res
			}
			gotLinks[lk{e.Page, e.S[0]}]++
		}
	}
	wantLinks := map[lk]int{}
	for _, l := range links {
		if l.kind != "internal" {
			continue
		}
		if defined[l.target] == 1 {
			wantLinks[lk{l.page, l.target}]++
			res.Count("internal_links_checked", 1)
		} else {
			res.Count("dangling_links_dropped", 1)
		}
	}
	for k, n := range wantLinks {
		if gotLinks[k] != n {
			res.Fail("link-count", fmt.Sprintf("page %d: %d link boxes point to #%s, %d AddInternalLink calls", k.page, n, k.name, gotLinks[k]))
			return res
		}
	}
	for k, n := range gotLinks {
		if wantLinks[k] != n {
			res.Fail("link-count", fmt.Sprintf("page %d: %d AddInternalLink calls to #%s, %d link boxes laid out", k.page, n, k.name, wantLinks[k]))
			return res
		}
	}

	// 5. bookmarks: pre-order of the outline = order of bookmark boxes; depth by the open-ancestor rule
	type flat struct {
		depth, page int
		label       string
	}
	var got []flat
	var fl func(ns []bmNode, depth int)
	fl = func(ns []bmNode, depth int) {
		for _, n := range ns {
			got = append(got, flat{depth, n.PageIndex, n.Label})
			fl(n.Children, depth+1)
		}
	}
	fl(R.Bookmarks, 1)
	if len(got) != len(bms) {
		res.Fail("bookmark-count", fmt.Sprintf("outline has %d entries, %d bookmark boxes were laid out", len(got), len(bms)))
		return res
	}
	var stack []int // levels of open ancestors
	lastPage := 0
	for i, b := range bms {
		for len(stack) > 0 && stack[len(stack)-1] >= b.level {
			stack = stack[:len(stack)-1]
		}
		depth := len(stack) + 1
		stack = append(stack, b.level)
		g := got[i]
		if g.label != b.label || g.page != b.page || g.depth != depth {
			res.Fail("bookmark-outline", fmt.Sprintf("outline entry %d is (label %q, page %d, depth %d); expected (label %q, page %d, depth %d) from the level sequence %v", i, g.label, g.page, g.depth, b.label, b.page, depth, levelsOf(bms)))
			return res
		}
		if g.page < lastPage || g.page >= len(pages) {
			res.Fail("bookmark-page", fmt.Sprintf("outline entry %d points to page %d (previous %d, %d pages)", i, g.page, lastPage, len(pages)))
			return res
		}
		lastPage = g.page
		res.Count("bookmarks_checked", 1)
	}

	// 6. generator facts (structured documents)
	if f := in.Facts; f != nil {
		res.Count("metadata_docs", 1)
		if len(pages) >= 2 {
			res.Count("multi_page_struct", 1)
		}
		chk := func(what string, got, want []string) bool {
			if strings.Join(got, "\x00") != strings.Join(want, "\x00") {
				res.Fail("metadata", fmt.Sprintf("%s forwarded as %q, document says %q", what, got, want))
				return false
			}
			return true
		}
		if !chk("title", R.Meta["SetTitle"], []string{f.Title}) || !chk("description", R.Meta["SetDescription"], []string{f.Description}) ||
			!chk("generator", R.Meta["SetCreator"], []string{f.Generator}) || !chk("authors", R.Meta["SetAuthors"], f.Authors) || !chk("keywords", R.Meta["SetKeywords"], f.Keywords) {
			return res
		}
		if f.Created != "" { // (older replay files carry no dates)
			if !chk("creation date", R.Meta["SetDateCreation"], []string{f.Created}) || !chk("modification date", R.Meta["SetDateModification"], []string{f.Modified}) {
				return res
			}
			res.Count("dates_checked", 1)
			if f.Created != f.Modified {
				res.Count("dates_differ", 1)
			}
		}
		// headings
		var labels []string
		for _, b := range bms {
			labels = append(labels, fmt.Sprintf("%d:%s", b.level, b.label))
		}
		var want []string
		for _, h := range f.Headings {
			want = append(want, fmt.Sprintf("%d:%s", h.Level, h.Label))
		}
		if strings.Join(labels, "|") != strings.Join(want, "|") {
			res.Fail("bookmark-source", fmt.Sprintf("laid-out bookmarks %v differ from the document's headings %v", labels, want))
			return res
		}
		// ids: the set of defined anchors = set of ids of displayed elements
		wantIDs := map[string]bool{}
		for _, id := range f.IDs {
			wantIDs[id] = true
		}
		var missing []string
		for id := range wantIDs {
			if defined[id] != 1 {
				missing = append(missing, id)
			}
		}
		sort.Strings(missing)
		if len(missing) > 0 || len(defined) != len(wantIDs) {
			res.Fail("anchor-source", fmt.Sprintf("document ids %v, anchors defined %v (missing %v)", keys(wantIDs), keysI(defined), missing))
			return res
		}
		res.Nontrivial = len(defined)+len(bms) > 0
		return res
	}
	res.Nontrivial = len(pages) >= 1 && len(R.Events) >= 30
	return res
}

type rec0 struct {
	page int
	x, y float64
}

type bmNode = backend.BookmarkNode

func levelsOf(b []bmSite) []int {
	var out []int
	for _, x := range b {
		out = append(out, x.level)
	}
	return out
}

func keys(m map[string]bool) []string {
	var o []string
	for k := range m {
		o = append(o, k)
	}
	sort.Strings(o)
	return o
}

func keysI(m map[string]int) []string {
	var o []string
	for k := range m {
		o = append(o, k)
	}
	sort.Strings(o)
	return o
}

func protoClass(v string) string {
	// "event N: <text> [called from <site>]" -> first words of the text + the call site
	if k := strings.Index(v, ": "); k >= 0 {
		v = v[k+2:]
	}
	site := ""
	if k := strings.LastIndex(v, " [called from "); k >= 0 {
		site = "@" + strings.TrimSuffix(v[k+len(" [called from "):], "]")
		v = v[:k]
	}
	w := strings.Fields(v)
	for i, x := range w {
		if strings.ContainsAny(x, "0123456789") {
			w[i] = "N"
		}
	}
	if len(w) > 5 {
		w = w[:5]
	}
	return strings.Join(w, " ") + site
}

// ---- structured documents ----

func genStruct(r *rand.Rand) input {
	f := &facts{NoTransform: true, Authors: []string{}, Keywords: []string{}}
	var head strings.Builder
	head.WriteString("<!DOCTYPE html><html><head>")
	if r.Intn(4) != 0 {
		f.HasTitle = true
		f.Title = gen.Pick(r, []string{"Title", "A & B", " spaced  title ", "Ünï <x>", "t"})
		head.WriteString("<title>" + htmlEsc(f.Title) + "</title>")
		if r.Intn(5) == 0 {
			head.WriteString("<title>second</title>")
		}
	}
	if r.Intn(2) == 0 {
		f.Description = gen.Pick(r, []string{"desc", " d  e ", "x & y"})
		head.WriteString(`<meta name="description" content="` + htmlEsc(f.Description) + `">`)
		if r.Intn(4) == 0 {
			head.WriteString(`<meta name="description" content="ignored">`)
		}
	}
	if r.Intn(2) == 0 {
		f.Generator = gen.Pick(r, []string{"gen 1.0", "G"})
		head.WriteString(`<meta name="Generator" content="` + f.Generator + `">`)
	}
	for i := r.Intn(3); i > 0; i-- {
		a := gen.Pick(r, []string{"Ann", "Bob & Co", " Carl "})
		f.Authors = append(f.Authors, a)
		head.WriteString(`<meta name="author" content="` + htmlEsc(a) + `">`)
	}
	if r.Intn(2) == 0 {
		raw := gen.Pick(r, []string{"k1, k2", "a,b , a", " x ", "k1,k2,k1,k3"})
		head.WriteString(`<meta name="keywords" content="` + raw + `">`)
		seen := map[string]bool{}
		for _, k := range strings.Split(raw, ",") {
			k = strings.Trim(k, " \t\n\f\r")
			if !seen[k] {
				seen[k] = true
				f.Keywords = append(f.Keywords, k)
			}
		}
	}
	// dcterms dates (W3C NOTE-datetime); the first element of each name wins
	f.Created, f.Modified = zeroDate, zeroDate
	for _, which := range []string{"created", "modified"} {
		if r.Intn(2) == 0 {
			continue
		}
		d := gen.Pick(r, w3cDates)
		head.WriteString(`<meta name="dcterms.` + which + `" content="` + d[0] + `">`)
		if r.Intn(4) == 0 {
			head.WriteString(`<meta name="dcterms.` + which + `" content="1999-01-01">`)
		}
		if which == "created" {
			f.Created = d[1]
		} else {
			f.Modified = d[1]
		}
	}
	page := gen.Pick(r, []string{"@page { size: 200px 120px; margin: 10px }", "@page { size: 300px 300px; margin: 20px }", "@page { size: 150px 80px; margin: 5px }"})
	head.WriteString("<style>" + page + " body { font: 10px/1.2 Ahem; margin: 0 } h1,h2,h3,h4,h5,h6 { font-size: 10px; margin: 2px 0 } .hid { display: none } .brk { break-before: page } p { margin: 3px 0 }</style></head><body>")
	var body strings.Builder
	idPool := []string{"i1", "i2", "i3", "i4", "dup", "dup"}
	// one document in two carries CSS transforms (translations and scalings, on the element itself or
	// on a wrapper, nested now and then) and more duplicate ids: anchors must still be those of the
	// first element with the id, at its transformed position
	tf := r.Intn(2) == 0
	if tf {
		f.NoTransform = false
		idPool = []string{"i1", "i2", "dup", "dup", "dup", "dup2", "dup2"}
	}
	transforms := []string{
		"translate(16px, 32px)", "translate(-8px, 4px)", "translate(0px, 64px)", "translate(25%, 50%)",
		"scale(2)", "scale(0.5, 1.5)", "translate(8px, 4px) scale(2)", "scale(0.5) translate(32px, 16px)",
	}
	origins := []string{"", "", "transform-origin: 0 0;", "transform-origin: 100% 100%;", "transform-origin: 8px 25%;"}
	n := 4 + r.Intn(14)
	for i := 0; i < n; i++ {
		hidden := r.Intn(10) == 0
		cls := ""
		if hidden {
			cls = "hid"
		}
		if r.Intn(6) == 0 {
			if cls != "" {
				cls += " "
			}
			cls += "brk"
		}
		attr := ""
		if cls != "" {
			attr += ` class="` + cls + `"`
		}
		id := ""
		idOdds := 3
		if tf {
			idOdds = 2
		}
		if r.Intn(idOdds) == 0 {
			id = gen.Pick(r, idPool)
			attr += ` id="` + id + `"`
			if !hidden {
				f.IDs = append(f.IDs, id)
			}
		}
		css, open, shut := "", "", ""
		if tf && r.Intn(5) < 2 {
			t := "transform: " + gen.Pick(r, transforms) + ";" + gen.Pick(r, origins)
			switch r.Intn(4) {
			case 0: // on the element
				css = t
			case 1: // on the element and on a wrapper
				css = t
				fallthrough
			default: // on a wrapper
				open = `<div style="transform: ` + gen.Pick(r, transforms) + ";" + gen.Pick(r, origins) + `">`
				shut = "</div>"
			}
		}
		body.WriteString(open)
		switch r.Intn(4) {
		case 0:
			lvl := 1 + r.Intn(6)
			label := fmt.Sprintf("H%d n%d", lvl, i)
			level := lvl
			if r.Intn(6) == 0 {
				level = 1 + r.Intn(8)
				css += fmt.Sprintf("bookmark-level: %d", level)
			}
			body.WriteString(fmt.Sprintf("<h%d%s%s>%s</h%d>", lvl, attr, styleAttr(css), label, lvl))
			if !hidden {
				f.Headings = append(f.Headings, heading{Level: level, Label: label})
			}
		case 1:
			target := gen.Pick(r, []string{"i1", "i2", "i3", "dup", "missing", "nope"})
			body.WriteString(fmt.Sprintf(`<p%s%s>see <a href="#%s">link n%d</a> and text text text</p>`, attr, styleAttr(css), target, i))
			if !hidden {
				f.LinkTargets = append(f.LinkTargets, target)
			}
		case 2:
			body.WriteString(fmt.Sprintf(`<p%s%s>para n%d <a href="http://example.invalid/%d">ext</a> aaa bbb ccc ddd eee fff ggg hhh</p>`, attr, styleAttr(css), i, i))
		default:
			body.WriteString(fmt.Sprintf(`<div%s%s><span>block n%d</span> lorem ipsum dolor sit amet lorem ipsum</div>`, attr, styleAttr(css), i))
		}
		body.WriteString(shut)
	}
	doc := gen.Doc{HTML: head.String() + body.String() + "</body></html>", Zoom: gen.Pick(r, []float32{1, 0.5, 2.5})}
	return input{Kind: "struct", Doc: doc, Facts: f}
}

func styleAttr(css string) string {
	if css == "" {
		return ""
	}
	return ` style="` + css + `"`
}

const zeroDate = "0001-01-01T00:00:00Z"

// source text, value expected at the backend (as the recorder formats it: RFC 3339, UTC)
var w3cDates = [][2]string{
	{"2011", "2011-01-01T00:00:00Z"},
	{"2011-04", "2011-04-01T00:00:00Z"},
	{"2011-04-05", "2011-04-05T00:00:00Z"},
	{"2013-06-07", "2013-06-07T00:00:00Z"},
	{"2013-06-07T12:34Z", "2013-06-07T12:34:00Z"},
	{"2013-06-07T12:34:56Z", "2013-06-07T12:34:56Z"},
	{"2014-12-31T23:59:59+02:00", "2014-12-31T21:59:59Z"},
	{"2014-12-31T23:59:59-05:00", "2015-01-01T04:59:59Z"},
}

func htmlEsc(s string) string {
	return strings.NewReplacer("&", "&amp;", "<", "&lt;", ">", "&gt;", "\"", "&quot;").Replace(s)
}
