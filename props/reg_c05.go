//go:build pC05 || pall

package props

import _ "verif/props/c05"
