//go:build pC06 || pall

package props

import _ "verif/props/c06"
