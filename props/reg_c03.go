//go:build pC03 || pall

package props

import _ "verif/props/c03"
