package c08

import (
	"math/rand"
	"strconv"
	"strings"
)

// A CSS value on the generator side is a flat list of pieces.  Every piece carries the kind of
// text it is (which decides whether its ASCII case may be changed without changing the meaning)
// and the kind of separator that precedes it (which decides where white space and comments may be
// inserted or removed without changing the token list).

// piece kinds
const (
	kKeyword = 'k' // CSS-defined keyword: ASCII case-insensitive
	kUnit    = 'u' // unit of a dimension: ASCII case-insensitive
	kFunc    = 'f' // function name including its "(": ASCII case-insensitive; opens a nesting level
	kClose   = ')' // closes a nesting level
	kHex     = 'x' // hash colour: hex digits are case-insensitive
	kNumber  = 'n' // number / percentage text (never changed)
	kSci     = 'e' // number in scientific notation: the exponent marker is case-insensitive
	kExact   = 's' // case-sensitive text: strings, urls, custom identifiers, counter names, family names
	kPunct   = 'p' // "," "/" "[" "]"
)

// separators (before the piece)
const (
	sGlue = 0   // nothing may be inserted (inside a token, or between a function name and its first argument token... see sOpt)
	sOpt  = 'o' // optional white space / comments; canonical form: nothing
	sOptS = 'O' // optional white space / comments; canonical form: one space (readability of blocks)
	sReq  = 'r' // mandatory separation; canonical form: one space; a comment alone also separates
)

type piece struct {
	T   string `json:"t"`
	K   byte   `json:"k"`
	Sep byte   `json:"s,omitempty"`
	// ClassNote names the defect class that forbids changing the case of this piece (see defects.go); "" = free
	NoCase bool `json:"nc,omitempty"`
	// WS restricts what may be inserted at the separator before this piece: 0 white space and
	// comments, 1 white space only (inside url( … ), where a comment would make a bad-url token),
	// 2 nothing (known-defect exclusions, defects.go)
	WS byte `json:"ws,omitempty"`
}

type val []piece

func (v val) clone() val { return append(val(nil), v...) }

// --- constructors -------------------------------------------------------------------------------

func kw(s string) val    { return val{{T: s, K: kKeyword}} }
func exact(s string) val { return val{{T: s, K: kExact}} }
func punct(s string) val { return val{{T: s, K: kPunct}} }
func hexc(s string) val  { return val{{T: s, K: kHex}} }

func fmtNum(f float64) string {
	s := strconv.FormatFloat(f, 'f', -1, 64)
	return s
}

func num(f float64) val { return val{{T: fmtNum(f), K: kNumber}} }
func numS(s string) val { return val{{T: s, K: kNumber}} }
func perc(f float64) val {
	return val{{T: fmtNum(f) + "%", K: kNumber}}
}

func dim(f float64, unit string) val {
	return val{{T: fmtNum(f), K: kNumber}, {T: unit, K: kUnit, Sep: sGlue}}
}

// str renders a CSS string token (content must not contain quotes, backslashes or newlines).
func str(s string) val { return val{{T: `"` + s + `"`, K: kExact}} }

// withSep returns v with the separator of its first piece replaced.
func withSep(v val, sep byte) val {
	if len(v) == 0 {
		return v
	}
	out := v.clone()
	out[0].Sep = sep
	return out
}

// seq joins values with mandatory separation.
func seq(vs ...val) val {
	var out val
	for _, v := range vs {
		if len(v) == 0 {
			continue
		}
		if len(out) == 0 {
			out = append(out, v...)
		} else {
			out = append(out, withSep(v, sReq)...)
		}
	}
	return out
}

// join joins values with a punctuation mark surrounded by optional white space.
func join(p string, vs ...val) val {
	var out val
	for _, v := range vs {
		if len(v) == 0 {
			continue
		}
		if len(out) > 0 {
			out = append(out, piece{T: p, K: kPunct, Sep: sOpt})
			out = append(out, withSep(v, sOpt)...)
		} else {
			out = append(out, v...)
		}
	}
	return out
}

func commas(vs ...val) val { return join(",", vs...) }
func slash(a, b val) val   { return join("/", a, b) }

// fn builds name(arg, arg, …) with comma separated arguments.
func fn(name string, args ...val) val {
	out := val{{T: name + "(", K: kFunc}}
	out = append(out, withSep(commas(args...), sOpt)...)
	out = append(out, piece{T: ")", K: kClose, Sep: sOpt})
	return out
}

// fnSp builds name(arg arg …) with space separated arguments.
func fnSp(name string, args ...val) val {
	out := val{{T: name + "(", K: kFunc}}
	out = append(out, withSep(seq(args...), sOpt)...)
	out = append(out, piece{T: ")", K: kClose, Sep: sOpt})
	return out
}

// brackets builds [a b c]
func brackets(args ...val) val {
	out := val{{T: "[", K: kPunct}}
	out = append(out, withSep(seq(args...), sOpt)...)
	out = append(out, piece{T: "]", K: kPunct, Sep: sOpt})
	return out
}

// noCase forbids case changes on all pieces of v (case-insensitivity defect classes, defects.go)
func noCase(v val) val {
	out := v.clone()
	for i := range out {
		out[i].NoCase = true
	}
	return out
}

// --- renderers ----------------------------------------------------------------------------------

// canon renders the canonical spelling: lower case as generated, single spaces.
func (v val) canon() string {
	var sb strings.Builder
	for i, p := range v {
		if i > 0 && (p.Sep == sReq || p.Sep == sOptS) {
			sb.WriteByte(' ')
		}
		sb.WriteString(p.T)
	}
	return sb.String()
}

func caseable(k byte) bool {
	return k == kKeyword || k == kUnit || k == kFunc || k == kHex || k == kSci
}

// flipCase changes the ASCII case of letters of s (mode 0: all upper, 1: random half, 2: first
// letter only); returns the number of changed letters.
func flipCase(r *rand.Rand, s string, mode int) (string, int) {
	b := []byte(s)
	n, seen := 0, 0
	for i, c := range b {
		isL := c >= 'a' && c <= 'z'
		isU := c >= 'A' && c <= 'Z'
		if !isL && !isU {
			continue
		}
		seen++
		change := false
		switch mode {
		case 0:
			change = isL
		case 1:
			change = r.Intn(2) == 0
		default:
			change = seen == 1
		}
		if change {
			if isL {
				b[i] = c - 32
			} else {
				b[i] = c + 32
			}
			n++
		}
	}
	return string(b), n
}

var wsOnlyOpt = []string{"", " ", "  ", "\n", "\t", "\r\n", "\f"}
var wsOnlyReq = []string{" ", "  ", "\n", "\t ", "\r\n", "\f"}
var wsOpt = []string{"", "", " ", "  ", "\n", "\t", "/**/", " /* c */ ", "/*;*/", "\r\n", "\f"}
var wsReq = []string{" ", "  ", "\n", "\t ", "/**/", " /**/ ", "/*x*/", " /* } */", "\r\n", "\f"}

// variant renders v with case changes (if doCase) and white space / comment changes (if doWS).
// classes restricts which piece kinds get case changes ("" = all caseable kinds).
// It returns the text and the number of letters changed + separators changed.
func (v val) variant(r *rand.Rand, doCase, doWS bool) (string, int) {
	s, n, _ := v.variantNote(r, doCase, doWS, false)
	return s, n
}

// variantNote is variant; with single, only one piece (chosen at random) gets its case changed and
// its text is returned as the note.
func (v val) variantNote(r *rand.Rand, doCase, doWS, single bool) (string, int, string) {
	var sb strings.Builder
	changes := 0
	mode := r.Intn(3)
	only := -1
	note := ""
	if single && doCase {
		var cand []int
		for i, p := range v {
			if caseable(p.K) && !p.NoCase && strings.ToLower(p.T) != strings.ToUpper(p.T) {
				cand = append(cand, i)
			}
		}
		if len(cand) == 0 {
			return v.canon(), 0, ""
		}
		only = cand[r.Intn(len(cand))]
		note = string(rune(v[only].K)) + ":" + v[only].T
	}
	for i, p := range v {
		if i > 0 || p.Sep != sGlue {
			switch p.Sep {
			case sReq:
				if doWS && p.WS < 2 {
					w := wsReq[r.Intn(len(wsReq))]
					if p.WS == 1 {
						w = wsOnlyReq[r.Intn(len(wsOnlyReq))]
					}
					if w != " " {
						changes++
					}
					sb.WriteString(w)
				} else {
					sb.WriteByte(' ')
				}
			case sOpt, sOptS:
				if doWS && p.WS < 2 {
					w := wsOpt[r.Intn(len(wsOpt))]
					if p.WS == 1 {
						w = wsOnlyOpt[r.Intn(len(wsOnlyOpt))]
					}
					if w != "" {
						changes++
					}
					sb.WriteString(w)
				} else if p.Sep == sOptS && i > 0 {
					sb.WriteByte(' ')
				}
			}
		}
		t := p.T
		if doCase && caseable(p.K) && !p.NoCase && (only < 0 || only == i) {
			var n int
			t, n = flipCase(r, t, mode)
			changes += n
		}
		sb.WriteString(t)
	}
	return sb.String(), changes, note
}

// balanced reports whether pieces [i,j) form a balanced run that may be cut out as a token
// sub-sequence: it starts and ends at a token boundary and closes every function it opens.
func (v val) balanced(i, j int) bool {
	if i < 0 || j > len(v) || i >= j {
		return false
	}
	if i > 0 && v[i].Sep == sGlue {
		return false
	}
	if j < len(v) && v[j].Sep == sGlue {
		return false
	}
	depth := 0
	for k := i; k < j; k++ {
		switch {
		case v[k].K == kFunc || v[k].T == "[":
			depth++
		case v[k].K == kClose || v[k].T == "]":
			depth--
			if depth < 0 {
				return false
			}
		}
	}
	return depth == 0
}

// depthAt returns the function nesting depth at which piece i sits.
func (v val) depthAt(i int) int {
	depth := 0
	for k := 0; k < i; k++ {
		switch {
		case v[k].K == kFunc || v[k].T == "[":
			depth++
		case v[k].K == kClose || v[k].T == "]":
			depth--
		}
	}
	return depth
}
