package c08

import "strings"

// Known genuine defects of webrender met while calibrating C08 (see notes/C08.md and
// findings/C08/*.json).  The feature combination that triggers each of them is kept out of the
// random workload here — and only here — so that the check is silent on the unchanged tree without
// weakening any oracle.  When a defect is repaired, delete its entry: the workload then covers it.

// discovery switches off every exclusion (development: `C08_DISCOVER=1 vw -scan`), to list what the
// full workload trips over.
var discovery = false

// discoverIDs: exclusions switched off individually (C08_DISCOVER=unit-case,display-case …)
var discoverIDs = map[string]bool{}

// on reports whether the exclusion of defect id is active.
func on(id string) bool { return !discovery && !discoverIDs[id] }

// excludedValue reports whether value v of property name must not be generated.
func excludedValue(name string, v val) bool {
	switch name {
	case "list-style-image", "list-style":
		// F-C08-list-style-image-quoted-url: url("x") / url('x') (a function token holding a string) is
		// rejected by validation.listStyleImage; only the unquoted url token is accepted.
		if on("list-style-image-quoted-url") {
			for _, p := range v {
				if p.T == "url(" || strings.HasPrefix(p.T, "url('") {
					return true
				}
			}
		}
	}
	switch name {
	case "grid-area":
		// F-C08-grid-area-order: grid-area: a / b / c / d is expanded to row-start a, row-end b,
		// column-start c, column-end d (CSS Grid 2 §8.4: row-start / column-start / row-end / column-end).
		if on("grid-area-order") {
			for _, p := range v {
				if p.T == "/" {
					return true
				}
			}
		}
	case "grid":
		// F-C08-grid-autoflow-empty-tracks: grid: auto-flow / <columns> (no <grid-auto-rows>) sets
		// grid-auto-rows to an empty list instead of auto.
		if on("grid-autoflow-empty-tracks") {
			seg, segHasFlow, segOnlyKw := 0, false, true
			_ = seg
			flush := func() bool { return segHasFlow && segOnlyKw }
			for _, p := range v {
				if p.T == "/" && p.K == kPunct {
					if flush() {
						return true
					}
					segHasFlow, segOnlyKw = false, true
					continue
				}
				if p.K == kKeyword && p.T == "auto-flow" {
					segHasFlow = true
				} else if !(p.K == kKeyword && p.T == "dense") {
					segOnlyKw = false
				}
			}
			if flush() {
				return true
			}
		}
	}
	return false
}

// markNoCase forbids ASCII-case changes on the pieces of v whose case webrender is known to
// mishandle.
func markNoCase(name string, v val) val {
	out := v
	cloned := false
	set := func(i int) {
		if !cloned {
			out, cloned = v.clone(), true
		}
		out[i].NoCase = true
	}
	setWS := func(i int, ws byte) {
		if !cloned {
			out, cloned = v.clone(), true
		}
		if out[i].WS < ws {
			out[i].WS = ws
		}
	}
	for i, p := range v {
		switch {
		case (insideFunc(v, i, "[") || p.T == "]") && on("line-names-comment"):
			// F-C08-line-names-comment: a comment inside [line names] makes the grid track list invalid.
			setWS(i, 1)
		case (insideFunc(v, i, "running(") || p.K == kClose && closes(v, i, "running(")) && on("running-ws"):
			// F-C08-running-ws: position: running( x ) is rejected when the parentheses hold white space.
			setWS(i, 2)
		case (insideFunc(v, i, "url(") || p.K == kClose && closes(v, i, "url(")) && on("url-function-ws"):
			// F-C08-url-function-ws: url( "x" ) with white space inside resolves to another URL.
			setWS(i, 2)
		}
		switch {
		case p.K == kKeyword && name == "display" && on("display-case"):
			// F-C08-display-case: validation.display compares the raw identifier for block, inline,
			// flow, flow-root, table, flex, grid, list-item.
			set(i)
		case p.K == kKeyword && fontVariantCaseSensitive[p.T] && on("font-variant-case"):
			// F-C08-font-variant-case: validation.parseFontVariant looks the raw identifier up
			// (font-variant-ligatures / -numeric / -east-asian and the font-variant shorthand).
			set(i)
		case p.K == kFunc && rawNameFunctions[p.T] && on("function-name-case"):
			// F-C08-function-name-case: getString / getUrl / position / listStyleType_ compare
			// token.Name without lower-casing: ATTR( COUNTER( COUNTERS( CONTENT( STRING( URL( RUNNING( SYMBOLS(.
			set(i)
		case p.K == kKeyword && insideFunc(v, i, "leader(") && on("leader-keyword-case"):
			// F-C08-leader-keyword-case: leader(dotted|solid|space) compares the raw identifier.
			set(i)
		case p.K == kKeyword && insideFunc(v, i, "symbols(") && on("symbols-type-case"):
			// F-C08-symbols-type-case: symbols(cyclic|numeric|…) compares the raw identifier.
			set(i)
		case p.K == kKeyword && isCounterStyleName[p.T] && counterStyleContext(name, v, i) && on("counter-style-name-case"):
			// F-C08-counter-style-name-case: predefined counter style names (and none) are kept as
			// written instead of being ASCII lower-cased (Counter Styles 3 §3): LOWER-ALPHA is unknown.
			set(i)
		case p.K == kKeyword && (p.T == "on" || p.T == "off") && name == "font-feature-settings" && on("feature-onoff-case"):
			// F-C08-feature-onoff-case: font-feature-settings compares the raw identifier with "on".
			set(i)
		case p.K == kUnit && caseSensitiveUnits[p.T] && on("unit-case"):
			// F-C08-unit-case: resolution units (RESOLUTIONTODPPX) and "fr" are still looked up
			// case-sensitively: `96DPI`, `1FR` are rejected (length and angle units were repaired in accd666).
			set(i)
		}
	}
	return out
}

// excludedReset reports whether longhand long must be left out of what shorthand short is expected
// to reset.
func excludedReset(short, long string) bool {
	if short == "border" && strings.HasPrefix(long, "border-image-") && on("border-resets-border-image") {
		// F-C08-border-resets-border-image: the border shorthand does not reset border-image-*
		// (Backgrounds 3 §4.4: "the border shorthand also resets border-image to its initial value").
		return true
	}
	if short == "font" && on("font-resets") {
		// F-C08-font-resets: the font shorthand does not reset font-variant-* (other than caps),
		// font-kerning, font-feature-settings, font-language-override, font-variation-settings.
		for _, n := range fontResets {
			if n == long {
				return true
			}
		}
	}
	return false
}

// properties whose validator accepts every value (F-C08-invalid-accepted)
var acceptsAnything = map[string]bool{"bleed-top": true, "bleed-right": true, "bleed-bottom": true, "bleed-left": true, "bleed": true,
	"tab-size": true, "transform-origin": true}

var caseSensitiveUnits = map[string]bool{"dppx": true, "dpi": true, "dpcm": true, "fr": true}

var acceptsPartialJunk = map[string]bool{"font-feature-settings": true}

var fontVariantCaseSensitive = map[string]bool{}
var isCounterStyleName = map[string]bool{}
var rawNameFunctions = map[string]bool{"attr(": true, "counter(": true, "counters(": true, "content(": true, "string(": true, "url(": true, "running(": true, "symbols(": true}

func init() {
	for _, gs := range [][][]string{ligGroups, numGroups, eaGroups} {
		for _, g := range gs {
			for _, k := range g {
				fontVariantCaseSensitive[k] = true
			}
		}
	}
	for _, n := range counterStyleNames {
		isCounterStyleName[n] = true
	}
	for _, n := range []string{"lower-roman", "upper-alpha"} {
		isCounterStyleName[n] = true
	}
}

// insideFunc reports whether piece i lies directly inside the function whose opening piece is fn.
func insideFunc(v val, i int, fn string) bool {
	var stack []string
	for k := 0; k < i; k++ {
		switch {
		case v[k].K == kFunc || v[k].T == "[":
			stack = append(stack, v[k].T)
		case v[k].K == kClose || v[k].T == "]":
			if len(stack) > 0 {
				stack = stack[:len(stack)-1]
			}
		}
	}
	return len(stack) > 0 && stack[len(stack)-1] == fn
}

// closes reports whether the closing piece i closes the function fn.
func closes(v val, i int, fn string) bool {
	var stack []string
	for k := 0; k < i; k++ {
		switch {
		case v[k].K == kFunc || v[k].T == "[":
			stack = append(stack, v[k].T)
		case v[k].K == kClose || v[k].T == "]":
			if len(stack) > 0 {
				stack = stack[:len(stack)-1]
			}
		}
	}
	return len(stack) > 0 && stack[len(stack)-1] == fn
}

// counterStyleContext: piece i is used as a counter style (list-style-type, the list-style
// shorthand, or the style argument of counter() / counters() / target-counter(s)()).
func counterStyleContext(name string, v val, i int) bool {
	if name == "list-style-type" || name == "list-style" {
		return true
	}
	for _, f := range []string{"counter(", "counters(", "target-counter(", "target-counters("} {
		if insideFunc(v, i, f) {
			return true
		}
	}
	return false
}

// switches of the var() workload
var (
	// deepest function nesting level at which a var() is placed (0 = top level of the value)
	varDepthMax = 2
	// change the case of VAR( and of the substituted keywords
	allowVarCase = true
	// custom properties referencing a property that is not defined (without fallback)
	danglingRefs = true
)
