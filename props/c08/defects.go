package c08

// Known genuine defects of webrender met while calibrating C08 (see notes/C08.md and
// findings/C08/*.json).  The feature combination that triggers each of them is kept out of the
// random workload here — and only here (plus the on("<id>") tests in vars.go) — so that the check
// is silent on the unchanged tree without weakening any oracle.  When a defect is repaired, delete
// its entry: the workload then covers it.
//
// Still open: grid-area-order, var-url-base, var-undefined-empty, var-cycle-semantics.
// Everything else that was listed here has been repaired in /repo and is back in the workload.

// discovery switches off every exclusion (development: `C08_DISCOVER=1 vw -scan`), to list what the
// full workload trips over.
var discovery = false

// discoverIDs: exclusions switched off individually (C08_DISCOVER=grid-area-order,var-url-base …)
var discoverIDs = map[string]bool{}

// on reports whether the exclusion of defect id is active.
func on(id string) bool { return !discovery && !discoverIDs[id] }

// excludedValue reports whether value v of property name must not be generated.
func excludedValue(name string, v val) bool {
	switch name {
	case "grid-area":
		// F-C08-grid-area-order: grid-area: a / b / c / d is expanded to row-start a, row-end b,
		// column-start c, column-end d (CSS Grid 2 §8.4: row-start / column-start / row-end / column-end).
		if on("grid-area-order") {
			for _, p := range v {
				if p.T == "/" {
					return true
				}
			}
		}
	}
	return false
}

// applyMarks sets the per-piece restrictions (no case change / no white space) that known defects
// require.  None is needed at present; the hook is kept because values are re-marked after splicing.
func markNoCase(name string, v val) val { return v }

// excludedReset reports whether longhand long must be left out of what shorthand short is expected
// to reset.  No exclusion at present.
func excludedReset(short, long string) bool { return false }

// insideFunc reports whether piece i lies directly inside the function whose opening piece is fn.
func insideFunc(v val, i int, fn string) bool {
	var stack []string
	for k := 0; k < i; k++ {
		switch {
		case v[k].K == kFunc || v[k].T == "[":
			stack = append(stack, v[k].T)
		case v[k].K == kClose || v[k].T == "]":
			if len(stack) > 0 {
				stack = stack[:len(stack)-1]
			}
		}
	}
	return len(stack) > 0 && stack[len(stack)-1] == fn
}

// switches of the var() workload
var (
	// deepest function nesting level at which a var() is placed (0 = top level of the value)
	varDepthMax = 2
	// change the case of VAR( and of the substituted keywords
	allowVarCase = true
	// custom properties referencing a property that is not defined (without fallback)
	danglingRefs = true
)
