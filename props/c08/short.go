package c08

import (
	"math/rand"
	"sort"
)

// Shorthand table: for every shorthand webrender knows (css/properties NewShortand), a generator
// of values of its grammar *together with the longhand declarations CSS assigns to that value*
// (omitted parts are `initial`).  Written from CSS 2.1 §8/§12/§15, Backgrounds 3, Fonts 3/4,
// Flexbox 1, Multicol 1, Lists 3, Text Decoration 3, Break 3, Overflow 4 and Grid 2.

type longDecl struct {
	Name string
	V    val
}

type shortCase struct {
	Name  string
	V     val
	Longs []longDecl // every longhand the shorthand sets, in a fixed order
}

type shortGen func(r *rand.Rand) shortCase

var shorthands = map[string]shortGen{}
var shorthandNames []string

var initialV = kw("initial")

// longs builder: names in order, values from a map, `initial` when missing
func mkLongs(names []string, set map[string]val) []longDecl {
	out := make([]longDecl, len(names))
	for i, n := range names {
		if v, ok := set[n]; ok {
			out[i] = longDecl{n, v}
		} else {
			out[i] = longDecl{n, initialV}
		}
	}
	return out
}

func fourSides(name string, longs [4]string, g gen) shortGen {
	return func(r *rand.Rand) shortCase {
		n := 1 + r.Intn(4)
		vs := make([]val, n)
		for i := range vs {
			vs[i] = g(r)
		}
		top, right, bottom, left := vs[0], vs[0], vs[0], vs[0]
		if n >= 2 {
			right, left = vs[1], vs[1]
		}
		if n >= 3 {
			bottom = vs[2]
		}
		if n >= 4 {
			left = vs[3]
		}
		return shortCase{Name: name, V: seq(vs...), Longs: []longDecl{{longs[0], top}, {longs[1], right}, {longs[2], bottom}, {longs[3], left}}}
	}
}

func sideNames(prefix, suffix string) [4]string {
	var out [4]string
	for i, s := range []string{"top", "right", "bottom", "left"} {
		out[i] = prefix + s + suffix
	}
	return out
}

// width || style || color
func borderSide(name string, longNames []string, styles []string) shortGen {
	// longNames: width, style, color (possibly repeated for several sides)
	return func(r *rand.Rand) shortCase {
		idx := r.Perm(3)
		n := 1 + r.Intn(3)
		set := map[int]val{}
		var vs []val
		for _, k := range idx[:n] {
			var v val
			switch k {
			case 0:
				v = borderWidthG(r)
			case 1:
				v = kw(pick(r, styles...))
			case 2:
				v = color(r)
			}
			set[k] = v
			vs = append(vs, v)
		}
		var longs []longDecl
		for i, ln := range longNames {
			if v, ok := set[i%3]; ok {
				longs = append(longs, longDecl{ln, v})
			} else {
				longs = append(longs, longDecl{ln, initialV})
			}
		}
		return shortCase{Name: name, V: seq(vs...), Longs: longs}
	}
}

var outlineStyles = []string{"none", "dotted", "dashed", "double", "inset", "outset", "groove", "ridge", "solid"}

func expand4(vs []val) [4]val {
	out := [4]val{vs[0], vs[0], vs[0], vs[0]}
	if len(vs) >= 2 {
		out[1], out[3] = vs[1], vs[1]
	}
	if len(vs) >= 3 {
		out[2] = vs[2]
	}
	if len(vs) >= 4 {
		out[3] = vs[3]
	}
	return out
}

func borderRadiusShort(r *rand.Rand) shortCase {
	lp := length(false, true)
	mk := func() []val {
		vs := make([]val, 1+r.Intn(4))
		for i := range vs {
			vs[i] = lp(r)
		}
		return vs
	}
	h := mk()
	v := h
	sv := seq(h...)
	if r.Intn(2) == 0 {
		v = mk()
		sv = slash(sv, seq(v...))
	}
	h4, v4 := expand4(h), expand4(v)
	names := []string{"border-top-left-radius", "border-top-right-radius", "border-bottom-right-radius", "border-bottom-left-radius"}
	var longs []longDecl
	for i, n := range names {
		longs = append(longs, longDecl{n, seq(h4[i], v4[i])})
	}
	return shortCase{Name: "border-radius", V: sv, Longs: longs}
}

func columnsShort(r *rand.Rand) shortCase {
	w := length(false, false)
	names := []string{"column-width", "column-count"}
	switch r.Intn(8) {
	case 0:
		return shortCase{"columns", kw("auto"), mkLongs(names, map[string]val{"column-width": kw("auto"), "column-count": kw("auto")})}
	case 1:
		return shortCase{"columns", seq(kw("auto"), kw("auto")), mkLongs(names, map[string]val{"column-width": kw("auto"), "column-count": kw("auto")})}
	case 2:
		v := w(r)
		for len(v) == 1 { // a unit-less 0 would be ambiguous with nothing, but keep dimensions only
			v = w(r)
		}
		return shortCase{"columns", v, mkLongs(names, map[string]val{"column-width": v, "column-count": kw("auto")})}
	case 3:
		c := integer(1, 6)(r)
		return shortCase{"columns", c, mkLongs(names, map[string]val{"column-width": kw("auto"), "column-count": c})}
	case 4:
		c := integer(1, 6)(r)
		return shortCase{"columns", seq(kw("auto"), c), mkLongs(names, map[string]val{"column-width": kw("auto"), "column-count": c})}
	case 5:
		v := dim(posMag(r), pick(r, "em", "px", "cm"))
		return shortCase{"columns", seq(v, kw("auto")), mkLongs(names, map[string]val{"column-width": v, "column-count": kw("auto")})}
	}
	v := dim(posMag(r), pick(r, "em", "px", "cm"))
	c := integer(1, 6)(r)
	sv := seq(v, c)
	if r.Intn(2) == 0 {
		sv = seq(c, v)
	}
	return shortCase{"columns", sv, mkLongs(names, map[string]val{"column-width": v, "column-count": c})}
}

func flexShort(r *rand.Rand) shortCase {
	names := []string{"flex-grow", "flex-shrink", "flex-basis"}
	basisG := func() val {
		if r.Intn(3) == 0 {
			return kw(pick(r, "auto", "content"))
		}
		if r.Intn(3) == 0 {
			return perc(pick(r, 10.0, 25, 50, 100))
		}
		return dim(mag(r), pick(r, "px", "em", "pt"))
	}
	f := func() val { return num(pick(r, 0.0, 1, 2, 3, 0.5, 1.5)) }
	mk := func(v val, g, s, b val) shortCase {
		return shortCase{"flex", v, mkLongs(names, map[string]val{"flex-grow": g, "flex-shrink": s, "flex-basis": b})}
	}
	zero := dim(0, "px") // "when omitted from the flex shorthand, its specified value is 0"
	switch r.Intn(8) {
	case 0:
		return mk(kw("none"), num(0), num(0), kw("auto"))
	case 1:
		g := f()
		return mk(g, g, num(1), zero)
	case 2:
		g, s := f(), f()
		return mk(seq(g, s), g, s, zero)
	case 3:
		b := basisG()
		return mk(b, num(1), num(1), b)
	case 4:
		g, b := f(), basisG()
		if r.Intn(2) == 0 {
			return mk(seq(g, b), g, num(1), b)
		}
		return mk(seq(b, g), g, num(1), b)
	case 5:
		g, s, b := f(), f(), basisG()
		if r.Intn(2) == 0 {
			return mk(seq(g, s, b), g, s, b)
		}
		return mk(seq(b, g, s), g, s, b)
	case 6: // a unit-less zero after two flex factors is the basis
		g, s := f(), f()
		return mk(seq(g, s, num(0)), g, s, num(0))
	}
	g, s, b := f(), f(), basisG()
	return mk(seq(g, s, b), g, s, b)
}

func flexFlowShort(r *rand.Rand) shortCase {
	names := []string{"flex-direction", "flex-wrap"}
	d := kw(pick(r, "row", "row-reverse", "column", "column-reverse"))
	w := kw(pick(r, "nowrap", "wrap", "wrap-reverse"))
	switch r.Intn(4) {
	case 0:
		return shortCase{"flex-flow", d, mkLongs(names, map[string]val{"flex-direction": d})}
	case 1:
		return shortCase{"flex-flow", w, mkLongs(names, map[string]val{"flex-wrap": w})}
	case 2:
		return shortCase{"flex-flow", seq(w, d), mkLongs(names, map[string]val{"flex-direction": d, "flex-wrap": w})}
	}
	return shortCase{"flex-flow", seq(d, w), mkLongs(names, map[string]val{"flex-direction": d, "flex-wrap": w})}
}

func listStyleShort(r *rand.Rand) shortCase {
	names := []string{"list-style-type", "list-style-position", "list-style-image"}
	set := map[string]val{}
	var parts []val
	if r.Intn(2) == 0 {
		p := kw(pick(r, "inside", "outside"))
		set["list-style-position"] = p
		parts = append(parts, p)
	}
	typeV := func() val {
		for {
			v := listStyleTypeG(r)
			if len(v) == 1 && v[0].T == "none" {
				continue
			}
			return v
		}
	}
	none := kw("none")
	switch r.Intn(8) {
	case 0:
		t := typeV()
		set["list-style-type"] = t
		parts = append(parts, t)
	case 1:
		im := urlTok(r)
		set["list-style-image"] = im
		parts = append(parts, im)
	case 2:
		t, im := typeV(), urlTok(r)
		set["list-style-type"], set["list-style-image"] = t, im
		parts = append(parts, t, im)
	case 3: // none sets whichever of type and image is not otherwise specified
		set["list-style-type"], set["list-style-image"] = none, none
		parts = append(parts, none)
	case 4:
		t := typeV()
		set["list-style-type"], set["list-style-image"] = t, none
		parts = append(parts, none, t)
	case 5:
		im := urlTok(r)
		set["list-style-type"], set["list-style-image"] = none, im
		parts = append(parts, none, im)
	case 6:
		set["list-style-type"], set["list-style-image"] = none, none
		parts = append(parts, none, none)
	default:
		if len(parts) == 0 {
			t := typeV()
			set["list-style-type"] = t
			parts = append(parts, t)
		}
	}
	r.Shuffle(len(parts), func(i, j int) { parts[i], parts[j] = parts[j], parts[i] })
	return shortCase{"list-style", seq(parts...), mkLongs(names, set)}
}

// longhands reset by the font shorthand without being settable in it (Fonts 3 §3.7, Fonts 4 §2.8)
var fontResets = []string{"font-variant-alternates", "font-variant-east-asian", "font-variant-ligatures", "font-variant-numeric", "font-variant-position",
	"font-kerning", "font-feature-settings", "font-language-override", "font-variation-settings"}

func fontShort(r *rand.Rand) shortCase {
	names := append([]string{"font-style", "font-variant-caps", "font-weight", "font-stretch", "font-size", "line-height", "font-family"}, fontResets...)
	set := map[string]val{}
	var pre []val
	idx := r.Perm(4)
	for _, k := range idx[:r.Intn(5)] {
		if r.Intn(4) == 0 {
			pre = append(pre, kw("normal")) // sets nothing: the property keeps its initial value, normal
			continue
		}
		var v val
		switch k {
		case 0:
			v = kw(pick(r, "italic", "oblique"))
			set["font-style"] = v
		case 1:
			v = kw("small-caps")
			set["font-variant-caps"] = v
		case 2:
			v = pick(r, kw("bold"), kw("bolder"), kw("lighter"), num(float64(100*(1+r.Intn(9)))))
			set["font-weight"] = v
		case 3:
			v = kw(pick(r, "ultra-condensed", "extra-condensed", "condensed", "semi-condensed", "semi-expanded", "expanded", "extra-expanded", "ultra-expanded"))
			set["font-stretch"] = v
		}
		pre = append(pre, v)
	}
	size := longhands["font-size"](r)
	set["font-size"] = size
	sz := size
	if r.Intn(2) == 0 {
		lh := longhands["line-height"](r)
		set["line-height"] = lh
		sz = slash(size, lh)
	}
	fam := longhands["font-family"](r)
	set["font-family"] = fam
	return shortCase{"font", seq(seq(pre...), sz, fam), mkLongs(names, set)}
}

func fontVariantShort(r *rand.Rand) shortCase {
	names := []string{"font-variant-alternates", "font-variant-caps", "font-variant-east-asian", "font-variant-ligatures", "font-variant-numeric", "font-variant-position"}
	normal := kw("normal")
	all := func(lig val) map[string]val {
		m := map[string]val{}
		for _, n := range names {
			m[n] = normal
		}
		m["font-variant-ligatures"] = lig
		return m
	}
	switch r.Intn(6) {
	case 0:
		return shortCase{"font-variant", normal, mkLongs(names, all(normal))}
	case 1:
		return shortCase{"font-variant", kw("none"), mkLongs(names, all(kw("none")))}
	}
	type item struct {
		prop string
		v    val
	}
	var items []item
	addGroups := func(prop string, groups [][]string) {
		for _, g := range groups {
			if r.Intn(4) == 0 {
				items = append(items, item{prop, kw(pick(r, g...))})
			}
		}
	}
	addGroups("font-variant-ligatures", ligGroups)
	addGroups("font-variant-numeric", numGroups)
	addGroups("font-variant-east-asian", eaGroups)
	if r.Intn(3) == 0 {
		items = append(items, item{"font-variant-caps", kw(pick(r, "small-caps", "all-small-caps", "petite-caps", "all-petite-caps", "unicase", "titling-caps"))})
	}
	if r.Intn(4) == 0 {
		items = append(items, item{"font-variant-alternates", kw("historical-forms")})
	}
	if r.Intn(4) == 0 {
		items = append(items, item{"font-variant-position", kw(pick(r, "sub", "super"))})
	}
	if len(items) == 0 {
		items = append(items, item{"font-variant-caps", kw("small-caps")})
	}
	r.Shuffle(len(items), func(i, j int) { items[i], items[j] = items[j], items[i] })
	set := map[string]val{}
	var vs []val
	for _, it := range items {
		vs = append(vs, it.v)
		set[it.prop] = seq(set[it.prop], it.v)
	}
	return shortCase{"font-variant", seq(vs...), mkLongs(names, set)}
}

func textDecorationShort(r *rand.Rand) shortCase {
	names := []string{"text-decoration-line", "text-decoration-color", "text-decoration-style"}
	idx := r.Perm(3)
	set := map[string]val{}
	var vs []val
	for _, k := range idx[:1+r.Intn(3)] {
		var v val
		switch k {
		case 0:
			v = longhands["text-decoration-line"](r)
			set["text-decoration-line"] = v
		case 1:
			v = color(r)
			set["text-decoration-color"] = v
		case 2:
			v = longhands["text-decoration-style"](r)
			set["text-decoration-style"] = v
		}
		vs = append(vs, v)
	}
	return shortCase{"text-decoration", seq(vs...), mkLongs(names, set)}
}

func alias(name, long string, pairs ...string) shortGen {
	return func(r *rand.Rand) shortCase {
		k := r.Intn(len(pairs) / 2)
		return shortCase{name, kw(pairs[2*k]), []longDecl{{long, kw(pairs[2*k+1])}}}
	}
}

func lineClampShort(r *rand.Rand) shortCase {
	names := []string{"max-lines", "continue", "block-ellipsis"}
	switch r.Intn(3) {
	case 0:
		return shortCase{"line-clamp", kw("none"), mkLongs(names, map[string]val{"max-lines": kw("none"), "continue": kw("auto"), "block-ellipsis": kw("none")})}
	case 1:
		n := integer(1, 9)(r)
		return shortCase{"line-clamp", n, mkLongs(names, map[string]val{"max-lines": n, "continue": kw("discard"), "block-ellipsis": kw("auto")})}
	}
	n := integer(1, 9)(r)
	e := longhands["block-ellipsis"](r)
	return shortCase{"line-clamp", seq(n, e), mkLongs(names, map[string]val{"max-lines": n, "continue": kw("discard"), "block-ellipsis": e})}
}

func isCustomIdentLine(v val) bool { return len(v) == 1 && v[0].K == kExact }

func gridLinePair(name string) shortGen {
	return func(r *rand.Rand) shortCase {
		a := gridLineG(r)
		names := []string{name + "-start", name + "-end"}
		if r.Intn(2) == 0 {
			end := kw("auto")
			if isCustomIdentLine(a) {
				end = a
			}
			return shortCase{name, a, mkLongs(names, map[string]val{names[0]: a, names[1]: end})}
		}
		b := gridLineG(r)
		return shortCase{name, slash(a, b), mkLongs(names, map[string]val{names[0]: a, names[1]: b})}
	}
}

func gridAreaShort(r *rand.Rand) shortCase {
	// grid-area: row-start / column-start / row-end / column-end
	names := []string{"grid-row-start", "grid-column-start", "grid-row-end", "grid-column-end"}
	n := 1 + r.Intn(4)
	vs := make([]val, n)
	for i := range vs {
		vs[i] = gridLineG(r)
	}
	dflt := func(from val) val {
		if isCustomIdentLine(from) {
			return from
		}
		return kw("auto")
	}
	rs := vs[0]
	cs := dflt(rs)
	if n >= 2 {
		cs = vs[1]
	}
	re := dflt(rs)
	if n >= 3 {
		re = vs[2]
	}
	ce := dflt(cs)
	if n >= 4 {
		ce = vs[3]
	}
	sv := vs[0]
	for _, v := range vs[1:] {
		sv = slash(sv, v)
	}
	return shortCase{"grid-area", sv, mkLongs(names, map[string]val{names[0]: rs, names[1]: cs, names[2]: re, names[3]: ce})}
}

func explicitTracks(r *rand.Rand) val {
	for {
		v := gridTemplateG(r)
		if len(v) == 1 && v[0].T == "none" {
			continue
		}
		return v
	}
}

func gridTemplateShort(r *rand.Rand) shortCase {
	names := []string{"grid-template-columns", "grid-template-rows", "grid-template-areas"}
	none := kw("none")
	if r.Intn(4) == 0 {
		return shortCase{"grid-template", none, mkLongs(names, map[string]val{names[0]: none, names[1]: none, names[2]: none})}
	}
	rows, cols := gridTemplateG(r), gridTemplateG(r)
	return shortCase{"grid-template", slash(rows, cols), mkLongs(names, map[string]val{names[0]: cols, names[1]: rows, names[2]: none})}
}

func gridShort(r *rand.Rand) shortCase {
	names := []string{"grid-template-columns", "grid-template-rows", "grid-template-areas", "grid-auto-columns", "grid-auto-rows", "grid-auto-flow"}
	none, auto := kw("none"), kw("auto")
	switch r.Intn(4) {
	case 0:
		t := gridTemplateShort(r)
		set := map[string]val{names[3]: auto, names[4]: auto, names[5]: kw("row")}
		for _, l := range t.Longs {
			set[l.Name] = l.V
		}
		return shortCase{"grid", t.V, mkLongs(names, set)}
	case 1: // [auto-flow && dense?] <grid-auto-rows>? / <grid-template-columns>
		flowS, flowL := seq(kw("auto-flow")), seq(kw("row"))
		if r.Intn(2) == 0 {
			flowL = seq(kw("row"), kw("dense"))
			if r.Intn(2) == 0 {
				flowS = seq(kw("auto-flow"), kw("dense"))
			} else {
				flowS = seq(kw("dense"), kw("auto-flow"))
			}
		}
		autoRows := auto
		left := flowS
		if r.Intn(2) == 0 {
			autoRows = longhands["grid-auto-rows"](r)
			left = seq(flowS, autoRows)
		}
		cols := gridTemplateG(r)
		return shortCase{"grid", slash(left, cols), mkLongs(names, map[string]val{names[0]: cols, names[1]: none, names[2]: none, names[3]: auto, names[4]: autoRows, names[5]: flowL})}
	}
	// <grid-template-rows> / [auto-flow && dense?] <grid-auto-columns>?
	flowS, flowL := seq(kw("auto-flow")), seq(kw("column"))
	if r.Intn(2) == 0 {
		flowL = seq(kw("column"), kw("dense"))
		if r.Intn(2) == 0 {
			flowS = seq(kw("auto-flow"), kw("dense"))
		} else {
			flowS = seq(kw("dense"), kw("auto-flow"))
		}
	}
	autoCols := auto
	right := flowS
	if r.Intn(2) == 0 {
		autoCols = longhands["grid-auto-columns"](r)
		right = seq(flowS, autoCols)
	}
	rows := gridTemplateG(r)
	return shortCase{"grid", slash(rows, right), mkLongs(names, map[string]val{names[0]: none, names[1]: rows, names[2]: none, names[3]: autoCols, names[4]: auto, names[5]: flowL})}
}

func borderImageShort(r *rand.Rand) shortCase {
	names := []string{"border-image-source", "border-image-slice", "border-image-width", "border-image-outset", "border-image-repeat"}
	set := map[string]val{}
	var parts []val
	idx := r.Perm(3)
	for _, k := range idx[:1+r.Intn(3)] {
		switch k {
		case 0:
			v := longhands["border-image-source"](r)
			set[names[0]] = v
			parts = append(parts, v)
		case 1:
			sl := longhands["border-image-slice"](r)
			set[names[1]] = sl
			v := sl
			switch r.Intn(4) {
			case 0: // slice / width
				w := longhands["border-image-width"](r)
				set[names[2]] = w
				v = slash(sl, w)
			case 1: // slice / width / outset
				w, o := longhands["border-image-width"](r), longhands["border-image-outset"](r)
				set[names[2]], set[names[3]] = w, o
				v = slash(slash(sl, w), o)
			case 2: // slice / / outset
				o := longhands["border-image-outset"](r)
				set[names[3]] = o
				v = append(sl.clone(), piece{T: "/", K: kPunct, Sep: sOpt}, piece{T: "/", K: kPunct, Sep: sOpt})
				v = append(v, withSep(o, sOpt)...)
			}
			parts = append(parts, v)
		case 2:
			v := longhands["border-image-repeat"](r)
			set[names[4]] = v
			parts = append(parts, v)
		}
	}
	return shortCase{"border-image", seq(parts...), mkLongs(names, set)}
}

var bgLongNames = []string{"background-color", "background-image", "background-repeat", "background-attachment", "background-position", "background-size", "background-clip", "background-origin"}

// one <bg-layer>; final layers may carry the colour
func bgLayer(r *rand.Rand, final bool) (val, map[string]val) {
	set := map[string]val{}
	var parts []val
	idx := r.Perm(6)
	for _, k := range idx[:1+r.Intn(4)] {
		switch k {
		case 0:
			if final {
				v := solidColor(r)
				set["background-color"] = v
				parts = append(parts, v)
			}
		case 1:
			v := oneOf(kws("none"), image)(r)
			set["background-image"] = v
			parts = append(parts, v)
		case 2:
			v := bgRepeat(r)
			set["background-repeat"] = v
			parts = append(parts, v)
		case 3:
			v := kw(pick(r, "scroll", "fixed", "local"))
			set["background-attachment"] = v
			parts = append(parts, v)
		case 4:
			p := position(r)
			set["background-position"] = p
			v := p
			if r.Intn(2) == 0 {
				s := bgSize(r)
				set["background-size"] = s
				v = slash(p, s)
			}
			parts = append(parts, v)
		case 5:
			o := kw(pick(r, boxKw...))
			if r.Intn(2) == 0 {
				set["background-origin"], set["background-clip"] = o, o
				parts = append(parts, o)
			} else {
				c := kw(pick(r, boxKw...))
				set["background-origin"], set["background-clip"] = o, c
				parts = append(parts, seq(o, c))
			}
		}
	}
	if len(parts) == 0 {
		v := kw("none")
		set["background-image"] = v
		parts = append(parts, v)
	}
	return seq(parts...), set
}

// initial value of one layer of each background longhand (Backgrounds 3 property definitions)
var bgLayerInitial = map[string]val{
	"background-image":      kw("none"),
	"background-repeat":     kw("repeat"),
	"background-attachment": kw("scroll"),
	"background-position":   seq(perc(0), perc(0)),
	"background-size":       kw("auto"),
	"background-clip":       kw("border-box"),
	"background-origin":     kw("padding-box"),
}

func backgroundShort(r *rand.Rand) shortCase {
	n := 1
	if r.Intn(3) == 0 {
		n = 2 + r.Intn(2)
	}
	var layers []val
	perProp := map[string][]val{}
	colorV := initialV
	for i := 0; i < n; i++ {
		v, set := bgLayer(r, i == n-1)
		layers = append(layers, v)
		for _, p := range bgLongNames[1:] {
			if lv, ok := set[p]; ok {
				perProp[p] = append(perProp[p], lv)
			} else {
				perProp[p] = append(perProp[p], bgLayerInitial[p])
			}
		}
		if c, ok := set["background-color"]; ok {
			colorV = c
		}
	}
	longs := []longDecl{{"background-color", colorV}}
	for _, p := range bgLongNames[1:] {
		longs = append(longs, longDecl{p, commas(perProp[p]...)})
	}
	return shortCase{"background", commas(layers...), longs}
}

func init() {
	lpAny, lpNN, lenAny := length(true, true), length(false, true), length(true, false)
	shorthands["margin"] = fourSides("margin", sideNames("margin-", ""), oneOf(kws("auto"), lpAny, lpAny))
	shorthands["padding"] = fourSides("padding", sideNames("padding-", ""), lpNN)
	shorthands["bleed"] = fourSides("bleed", sideNames("bleed-", ""), oneOf(kws("auto"), lenAny))
	shorthands["border-width"] = fourSides("border-width", sideNames("border-", "-width"), borderWidthG)
	shorthands["border-style"] = fourSides("border-style", sideNames("border-", "-style"), kws(borderStyles...))
	shorthands["border-color"] = fourSides("border-color", sideNames("border-", "-color"), color)
	shorthands["border-radius"] = borderRadiusShort
	var all []string
	for _, s := range []string{"top", "right", "bottom", "left"} {
		n := []string{"border-" + s + "-width", "border-" + s + "-style", "border-" + s + "-color"}
		shorthands["border-"+s] = borderSide("border-"+s, n, borderStyles)
		all = append(all, n...)
	}
	borderBase := borderSide("border", all, borderStyles)
	shorthands["border"] = func(r *rand.Rand) shortCase {
		sc := borderBase(r)
		// Backgrounds 3 §4.4: the border shorthand also resets border-image
		for _, n := range []string{"border-image-source", "border-image-slice", "border-image-width", "border-image-outset", "border-image-repeat"} {
			sc.Longs = append(sc.Longs, longDecl{n, initialV})
		}
		return sc
	}
	shorthands["outline"] = borderSide("outline", []string{"outline-width", "outline-style", "outline-color"}, outlineStyles)
	shorthands["column-rule"] = borderSide("column-rule", []string{"column-rule-width", "column-rule-style", "column-rule-color"}, borderStyles)
	shorthands["columns"] = columnsShort
	shorthands["flex"] = flexShort
	shorthands["flex-flow"] = flexFlowShort
	shorthands["list-style"] = listStyleShort
	shorthands["font"] = fontShort
	shorthands["font-variant"] = fontVariantShort
	shorthands["text-decoration"] = textDecorationShort
	shorthands["page-break-before"] = alias("page-break-before", "break-before", "auto", "auto", "left", "left", "right", "right", "avoid", "avoid", "always", "page")
	shorthands["page-break-after"] = alias("page-break-after", "break-after", "auto", "auto", "left", "left", "right", "right", "avoid", "avoid", "always", "page")
	shorthands["page-break-inside"] = alias("page-break-inside", "break-inside", "auto", "auto", "avoid", "avoid")
	shorthands["word-wrap"] = alias("word-wrap", "overflow-wrap", "normal", "normal", "break-word", "break-word", "anywhere", "anywhere")
	shorthands["line-clamp"] = lineClampShort
	shorthands["grid-column"] = gridLinePair("grid-column")
	shorthands["grid-row"] = gridLinePair("grid-row")
	shorthands["grid-area"] = gridAreaShort
	shorthands["grid-template"] = gridTemplateShort
	shorthands["grid"] = gridShort
	shorthands["border-image"] = borderImageShort
	shorthands["background"] = backgroundShort
	// text-align is left out: webrender expands it to used-value-equivalent longhands
	// (text-align-last: start for justify) that differ from the specified ones CSS assigns (auto).
	for n := range shorthands {
		shorthandNames = append(shorthandNames, n)
	}
	sort.Strings(shorthandNames)
}
