// Package c08 — Declarations mean the same however they are spelled; bad ones are dropped alone.
//
// Every case is a pair of declaration blocks (A: the plain reference spelling, B: a respelling)
// for a probe element, which CSS says mean the same.  Both are run through the real code and
// observed at two points: validation.PreprocessDeclarations (name, typed value, !important) and
// the computed style of the probe element (every known property).  Relations:
//
//	case / ws / casews   ASCII-case changes of property names, keywords, units, function names, hex
//	                     colours, !important; white space and comments between component values
//	short                a shorthand against the longhand declarations CSS assigns (generator-side table)
//	var / varinv / varcycle   var() against textual substitution, fallback, invalid-at-computed-value time
//	iso                  a block of valid declarations against the same block with invalid ones interleaved
package c08

import (
	"encoding/json"
	"fmt"
	"math/rand"
	"os"
	"runtime/debug"
	"strings"
	"sync"

	"verif/internal/fw"
	"verif/internal/wr"
)

type c08In struct {
	Rel  string `json:"rel"`
	Prop string `json:"prop"` // principal property (evidence only)
	A    string `json:"a"`    // reference declarations of the probe element
	B    string `json:"b"`    // respelled declarations of the probe element
	PA   string `json:"pa,omitempty"`
	PB   string `json:"pb,omitempty"` // declarations of the parent element
	// After is a later rule for the probe element, common to both documents
	After string `json:"after,omitempty"`
	// AfterB is a later rule for the probe element of document B only (B's !important declarations must beat it)
	AfterB string `json:"after_b,omitempty"`
	// Decl: compare the PreprocessDeclarations outputs as well (spellings that must not even change the typed declarations)
	Decl bool `json:"decl,omitempty"`
	// Expect: properties that the reference block A must declare with a typed value (it is valid CSS)
	Expect []string `json:"expect,omitempty"`
	// SameNames: A and B must declare the same set of property names
	SameNames bool `json:"same_names,omitempty"`
	// ReportOnly names the known defect (defects.go) in whose domain the case lies: the case is executed
	// (a crash or a non-termination is a verdict) but a disagreement with the reference is only counted
	ReportOnly string `json:"report_only,omitempty"`
	Note       string `json:"note,omitempty"`
}

var relOrder = []string{"case", "ws", "casews", "short", "var", "varinv", "varcycle", "iso"}

// relation of case i: fixed proportions, independent of the seed
func relOf(i int) string {
	switch i % 20 {
	case 0, 1, 2, 3:
		return "case"
	case 4, 5:
		return "ws"
	case 6, 7:
		return "casews"
	case 8, 9, 10, 11:
		return "short"
	case 12, 13, 14:
		return "var"
	case 15:
		return "varinv"
	case 16:
		return "varcycle"
	}
	return "iso"
}

func init() {
	// development only: C08_DISCOVER=1 switches every known-defect exclusion off, C08_DISCOVER=id,id… some of them
	if d := os.Getenv("C08_DISCOVER"); d == "1" || d == "all" {
		discovery = true
	} else if d != "" {
		for _, id := range strings.Split(d, ",") {
			discoverIDs[id] = true
		}
	}
	fw.Register(&fw.Prop{
		ID: "C08",
		Rule: "each case is a pair of declaration blocks that CSS gives the same meaning (reference A, respelling B) for a probe element <p> in a fixed document; " +
			"relations by case index mod 20: case 4, ws 2, casews 2, short 4, var 3, varinv 1, varcycle 1, iso 3; values come from per-property grammars (all longhands with a validator, all shorthands except text-align). " +
			"A case is non-trivial when A differs textually from B and the reference block A is accepted (declares every expected property with a typed value); distinct = distinct input.",
		N: func(tier string) int {
			if tier == "thorough" {
				return 600000
			}
			return 20000
		},
		Gen: func(r *rand.Rand, i int, tier string) any {
			switch relOf(i) {
			case "case", "ws", "casews":
				return genSpelling(r, relOf(i))
			case "short":
				return genShorthandRel(r)
			case "var":
				return genVar(r)
			case "varinv":
				return genVarInvalid(r)
			case "varcycle":
				return genVarCycle(r)
			}
			return genIso(r)
		},
		Check: check,
		Floor: func(tier string) int {
			if tier == "thorough" {
				return 400000
			}
			return 14000
		},
		CounterFloors: func(tier string) map[string]int64 {
			m := map[string]int64{}
			scale := int64(1)
			if tier == "thorough" {
				scale = 30
			}
			for rel, n := range map[string]int64{"case": 3500, "ws": 1800, "casews": 1800, "short": 3500, "var": 2700, "varinv": 900, "varcycle": 300, "iso": 2700} {
				m["rel_"+rel] = n * scale
			}
			m["rel_varcycle_terminated"] = 300 * scale // graphs with cycles / missing references executed to completion
			m["var_empty_fallback"] = 400 * scale                 // var() with an empty fallback among other tokens (missing / invalid / defined custom property)
		m["var_empty-fallback-undefined"] = 150 * scale
		m["computed_pairs"] = 18000 * scale
			m["computed_pairs_in_style_attribute"] = 12000 * scale
			m["decl_pairs"] = 9000 * scale
			m["effect_cases"] = 8000 * scale
			m["important_observable"] = 300 * scale
			m["important_beats_later_rule"] = 300 * scale
			// every generator of the tables must have been exercised as the principal property of a case
			m["longhands_exercised"] = int64(len(longhandNames))
			m["shorthands_exercised"] = int64(len(shorthandNames))
			return m
		},
		Assumptions: []string{
			"the relations are CSS identities: Syntax 3 (case-insensitivity of names/keywords/units/functions, white space and comments), the shorthand definitions of each module, Variables 1 (substitution, fallback, invalid at computed-value time, cycles), CSS 2.1 §4.2 (an invalid declaration is ignored alone)",
			"values are generated from the grammar webrender's validators document as supported; a valid value that is rejected is itself reported (valid-rejected)",
			"computed styles are compared through tree.GetAllComputedStyles on a two-element document with the pango font configuration of /repo/resources_test",
			"known genuine defects are kept out of the workload by the table in props/c08/defects.go (each with a witness in findings/C08)",
		},
		Batch: 500,
		Extra: extra,
	})
}

var quietOnce sync.Once

func check(raw json.RawMessage) fw.Result {
	var in c08In
	if err := json.Unmarshal(raw, &in); err != nil {
		return fw.Result{Verdict: fw.Inconclusive, Msg: err.Error()}
	}
	quietOnce.Do(func() {
		wr.Quiet()
		// an unbounded recursion (var() cycles) must end the worker quickly instead of first growing the
		// stack to the 1 GB default: the style computation of a two-element document needs a few KB.
		debug.SetMaxStack(64 << 20)
	})
	var res fw.Result
	res.Verdict = fw.OK
	witness := func() string {
		s := fmt.Sprintf("[%s] A: p{%s}  B: p{%s}", in.Rel, in.A, in.B)
		if in.PA != "" || in.PB != "" {
			s += fmt.Sprintf("  parent A: body{%s} B: body{%s}", in.PA, in.PB)
		}
		if in.After != "" {
			s += fmt.Sprintf("  later rule: p{%s}", in.After)
		}
		if in.AfterB != "" {
			s += fmt.Sprintf("  later rule in B only: p{%s}", in.AfterB)
		}
		return s
	}

	// observation point 1: typed declarations
	dA, dB := declsOf(in.A), declsOf(in.B)
	res.Count("decls_observed", int64(len(dA)+len(dB)))
	typed := map[string]bool{}
	for _, d := range dA {
		if !d.Pending {
			typed[d.Name] = true
		}
	}
	for _, e := range in.Expect {
		if !typed[e] {
			res.Fail("valid-rejected", fmt.Sprintf("the reference block is valid CSS but %q is not declared with a typed value: %s", e, witness()))
			return res
		}
	}
	if in.SameNames {
		nA, nB := map[string]bool{}, map[string]bool{}
		for _, d := range dA {
			nA[d.Name] = true
		}
		for _, d := range dB {
			nB[d.Name] = true
		}
		for n := range nA {
			if !nB[n] {
				res.Fail(in.Rel+"-names", fmt.Sprintf("%q is declared by A only: %s", n, witness()))
				return res
			}
		}
		for n := range nB {
			if !nA[n] {
				res.Fail(in.Rel+"-names", fmt.Sprintf("%q is declared by B only: %s", n, witness()))
				return res
			}
		}
	}
	if in.Decl {
		res.Count("decl_pairs", 1)
		if d := diffDecls(dA, dB); d != "" {
			res.Fail(in.Rel+"-decl", fmt.Sprintf("PreprocessDeclarations differs: %s: %s", d, witness()))
			return res
		}
	}

	// observation point 2: computed style of the probe element
	sA, err := computedStyle(in.PA, in.A, in.After)
	if err != nil {
		return fw.Result{Verdict: fw.Inconclusive, Msg: err.Error()}
	}
	sB, err := computedStyle(in.PB, in.B, in.After+in.AfterB)
	if err != nil {
		return fw.Result{Verdict: fw.Inconclusive, Msg: err.Error()}
	}
	res.Count("computed_pairs", 1)
	res.Count("computed_values_compared", int64(len(sA)-1))
	if d := diffStyles(sA, sB); len(d) > 0 && in.ReportOnly != "" {
		res.Reports = append(res.Reports, "disagreement in the domain of known defect "+in.ReportOnly)
		res.Count("report_only_disagreements", 1)
		res.Count("rel_"+in.Rel+"_terminated", 1)
		return res
	} else if len(d) > 0 {
		more := ""
		if len(d) > 4 {
			more = fmt.Sprintf(" (+%d more)", len(d)-4)
			d = d[:4]
		}
		res.Fail(in.Rel+"-computed", fmt.Sprintf("computed style differs: %s%s: %s", strings.Join(d, "; "), more, witness()))
		return res
	}
	// the same pair written in style attributes (another site of the cascade: the pending var() /
	// shorthand machinery is copied per site)
	if in.After == "" && in.AfterB == "" && in.ReportOnly == "" {
		tA, errA := computedStyleAt("attr", in.PA, in.A, "")
		tB, errB := computedStyleAt("attr", in.PB, in.B, "")
		if errA == nil && errB == nil {
			res.Count("computed_pairs_in_style_attribute", 1)
			if d := diffStyles(tA, tB); len(d) > 0 {
				if len(d) > 4 {
					d = d[:4]
				}
				res.Fail(in.Rel+"-computed-attr", fmt.Sprintf("computed style differs when both sides are written in style attributes: %s: %s", strings.Join(d, "; "), witness()))
				return res
			}
		}
	}
	if in.AfterB != "" {
		res.Count("important_beats_later_rule", 1)
	}
	if in.PA == "" && in.After == "" {
		if len(diffStyles(sA, baselineStyle())) > 0 {
			res.Count("effect_cases", 1)
		}
	} else if in.After != "" {
		// the later rule alone gives another style: the !important declaration was observable
		if sAfter, err := computedStyle(in.PA, "", in.After); err == nil && len(diffStyles(sA, sAfter)) > 0 {
			res.Count("important_observable", 1)
		}
	}

	if in.ReportOnly != "" {
		res.Count("report_only_agreements", 1)
		res.Count("rel_"+in.Rel+"_terminated", 1)
		return res
	}
	res.Nontrivial = in.A != in.B
	res.Count("rel_"+in.Rel, 1)
	res.Count("prop:"+in.Prop, 1)
	if in.Rel == "var" && strings.HasPrefix(in.Note, "empty-fallback") {
		res.Count("var_empty_fallback", 1)
		res.Count("var_"+in.Note, 1)
	}
	for _, e := range in.Expect {
		if e != in.Prop {
			res.Count("sets:"+e, 1)
		}
	}
	return res
}

func extra(run *fw.RunInfo, cov map[string]any) {
	nl, ns := 0, 0
	for k := range run.Counters {
		if strings.HasPrefix(k, "prop:") {
			name := strings.TrimPrefix(k, "prop:")
			if _, ok := longhands[name]; ok {
				nl++
			}
			if _, ok := shorthands[name]; ok {
				ns++
			}
		}
	}
	cov["longhands_in_table"] = len(longhandNames)
	cov["shorthands_in_table"] = len(shorthandNames)
	cov["longhands_exercised"] = nl
	cov["shorthands_exercised"] = ns
	run.Counters["longhands_exercised"] = int64(nl)
	run.Counters["shorthands_exercised"] = int64(ns)
}
