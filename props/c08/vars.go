package c08

import (
	"math/rand"
	"sort"
	"strings"
)

// ---- M4: var() ---------------------------------------------------------------------------------
//
// Reference semantics (CSS Custom Properties for Cascading Variables 1, §2–§3), implemented here on
// the generator's token pieces, independently of webrender:
//   - var(--x) is replaced by the token sequence of --x; var(--x, fb) uses fb when --x is not defined
//     on the element (own declarations, else inherited) or is invalid at computed-value time;
//   - custom properties whose dependency graph has a cycle are invalid at computed-value time, and
//     so is a custom property that references (without fallback) a missing or invalid one;
//   - a declaration whose value, after substitution, is not valid for its property (or references a
//     missing/invalid custom property without fallback) is invalid at computed-value time: the
//     property takes its inherited value if it is inherited, its initial value otherwise.

// inherited properties, from the property definition tables of the CSS modules (not from webrender)
var inheritedProps = map[string]bool{}

func init() {
	for _, n := range strings.Fields(`border-collapse border-spacing caption-side color direction empty-cells font-family font-feature-settings
		font-kerning font-language-override font-size font-style font-stretch font-variant-alternates font-variant-caps font-variant-east-asian
		font-variant-ligatures font-variant-numeric font-variant-position font-variation-settings font-weight hyphens hyphenate-character
		hyphenate-limit-chars hyphenate-limit-zone image-rendering image-resolution image-orientation letter-spacing line-height list-style-image list-style-position
		list-style-type orphans overflow-wrap quotes tab-size text-align-all text-align-last text-indent text-transform visibility white-space
		widows word-spacing word-break lang link`) {
		inheritedProps[n] = true
	}
}

func varRef(name string, fallback val) val {
	out := val{{T: "var(", K: kFunc}, {T: name, K: kExact, Sep: sOpt}}
	if fallback != nil {
		out = append(out, piece{T: ",", K: kPunct, Sep: sOpt})
		out = append(out, withSep(fallback, sOpt)...)
	}
	out = append(out, piece{T: ")", K: kClose, Sep: sOpt})
	return out
}

// cut picks a balanced sub-range of v that may be moved into a custom property.
func cut(r *rand.Rand, v val, maxDepth int) (int, int, bool) {
	for try := 0; try < 40; try++ {
		i := r.Intn(len(v))
		j := i + 1 + r.Intn(len(v)-i)
		if !v.balanced(i, j) || v.depthAt(i) > maxDepth || v.atomicInside(i) {
			continue
		}
		return i, j, true
	}
	if v.balanced(0, len(v)) {
		return 0, len(v), true
	}
	return 0, 0, false
}

// atomicInside reports whether piece i lies inside url( … ), whose contents var() cannot replace.
func (v val) atomicInside(i int) bool {
	var stack []string
	for k := 0; k < i; k++ {
		switch {
		case v[k].K == kFunc || v[k].T == "[":
			stack = append(stack, v[k].T)
		case v[k].K == kClose || v[k].T == "]":
			if len(stack) > 0 {
				stack = stack[:len(stack)-1]
			}
		}
	}
	for _, s := range stack {
		if s == "url(" {
			return true
		}
	}
	return false
}

// splice returns pre + mid + post with token-level separation kept
func splice(v val, i, j int, mid val) val {
	out := v[:i].clone()
	sep := v[i].Sep
	if i > 0 && (sep == sOpt || sep == sOptS) && len(mid) > 0 && mid[0].K == kFunc && wordLike(v[i-1].K) {
		// "contain" "," → "contain" var(…): without a space the identifier and "var(" would fuse
		sep = sReq
	}
	if len(mid) > 0 {
		out = append(out, withSep(mid, sep)...)
	}
	if j < len(v) {
		rest := v[j:].clone()
		if len(mid) == 0 && len(out) > 0 {
			// nothing in between: keep the stronger separator
			if sep == sReq || rest[0].Sep == sReq {
				rest[0].Sep = sReq
			}
		}
		if len(out) == 0 {
			rest[0].Sep = sGlue
		}
		out = append(out, rest...)
	}
	return out
}

var varNames = []string{"--v", "--w", "--x", "--my-Var", "--V", "--a1"}

func genVar(r *rand.Rand) c08In {
	for {
		d, names := genDecl(r)
		if hasRelativeURL(d.V) && on("var-url-base") {
			// F-C08-var-url-base: a declaration holding var() is validated at computed-value time
			// without the base URL, so a relative url() in it makes it invalid.
			continue
		}
		i, j, ok := cut(r, d.V, varDepthMax)
		if !ok {
			continue
		}
		T := withSep(d.V[i:j].clone(), sGlue)
		name := pick(r, varNames...)
		in := c08In{Rel: "var", Prop: d.Name, Expect: names}
		a := []declT{d}
		var b []declT
		use := func(ref val) declT { return declT{Name: d.Name, V: splice(d.V, i, j, ref), Important: d.Important} }
		switch k := r.Intn(26); {
		case k >= 20: // empty fallback: var(--x,) / var(--x, ) is replaced by nothing (Variables 1 §3: "var(--a,)" is valid, the fallback is an empty token sequence)
			var ok bool
			b, in.PB, in.Note, ok = genEmptyFallback(r, d, name, i, j, T)
			if !ok {
				continue
			}
			in.PA = in.PB
		case k < 9: // own custom property
			b = []declT{{Name: name, V: T}, use(varRef(name, nil))}
			in.Note = "own"
		case k < 12: // inherited custom property
			in.PA = blockText([]declT{{Name: name, V: T}})
			in.PB = in.PA
			b = []declT{use(varRef(name, nil))}
			in.Note = "inherited"
		case k < 14: // inherited, overridden on the element
			other, _ := regenSame(r, d.Name)
			in.PA = blockText([]declT{{Name: name, V: other.V}})
			in.PB = in.PA
			b = []declT{{Name: name, V: T}, use(varRef(name, nil))}
			in.Note = "override"
		case k < 16: // fallback of an undefined property
			b = []declT{use(varRef(name, T))}
			in.Note = "fallback"
		case k < 17: // fallback not used
			other, _ := regenSame(r, d.Name)
			b = []declT{{Name: name, V: T}, use(varRef(name, other.V))}
			in.Note = "fallback-unused"
		case k < 19: // chain
			n2 := name + "-2"
			b = []declT{{Name: n2, V: T}, {Name: name, V: varRef(n2, nil)}, use(varRef(name, nil))}
			in.Note = "chain"
		default: // names of custom properties are case-sensitive
			decoy, _ := regenSame(r, d.Name)
			swapped, _ := flipCase(r, name, 0)
			if swapped == name {
				swapped = strings.ToLower(name)
			}
			if swapped == name {
				continue
			}
			b = []declT{{Name: swapped, V: decoy.V}, {Name: name, V: T}, use(varRef(name, nil))}
			in.Note = "case-sensitive-name"
		}
		// the order of declarations inside a block does not matter for custom properties
		if len(b) > 1 && r.Intn(3) == 0 {
			b[0], b[len(b)-1] = b[len(b)-1], b[0]
		}
		in.A, in.B = blockText(a), blockText(b)
		if r.Intn(4) == 0 || (strings.HasPrefix(in.Note, "empty-fallback") && r.Intn(2) == 0) { // var() forms are themselves respellable
			in.B, _ = blockVal(b).variant(r, allowVarCase, true)
		}
		return in
	}
}

// insertAt returns v with ref inserted before piece p (p == len(v): appended), at a token boundary.
func insertAt(v val, p int, ref val) (val, bool) {
	if p < 0 || p > len(v) || len(v) == 0 {
		return nil, false
	}
	if p > 0 && p < len(v) && v[p].Sep == sGlue {
		return nil, false
	}
	if p < len(v) && (v.depthAt(p) > varDepthMax || v.atomicInside(p)) {
		return nil, false
	}
	out := v[:p].clone()
	sep := byte(sGlue)
	if p > 0 {
		sep = sOpt
		if wordLike(v[p-1].K) || (p < len(v) && v[p].Sep == sReq) {
			sep = sReq
		}
	}
	out = append(out, withSep(ref, sep)...)
	if p < len(v) {
		rest := v[p:].clone()
		if p == 0 {
			rest[0].Sep = sOpt
		}
		out = append(out, rest...)
	}
	return out, true
}

// genEmptyFallback builds the B side of a case whose value holds a var() with an EMPTY fallback.
// When the custom property is missing or invalid at computed-value time the reference is replaced by
// nothing and the rest of the value keeps its meaning (reference A: the plain declaration d).
func genEmptyFallback(r *rand.Rand, d declT, name string, i, j int, T val) (b []declT, parent string, note string, ok bool) {
	empty := val{}
	ins := func() (declT, bool) {
		for try := 0; try < 20; try++ {
			if v, ok := insertAt(d.V, r.Intn(len(d.V)+1), varRef(name, empty)); ok {
				return declT{Name: d.Name, V: v, Important: d.Important}, true
			}
		}
		return declT{}, false
	}
	switch k := r.Intn(10); {
	case k < 4: // undefined custom property
		u, ok := ins()
		if !ok {
			return nil, "", "", false
		}
		return []declT{u}, "", "empty-fallback-undefined", true
	case k < 6: // custom property invalid at computed-value time (references a missing one) on the element
		u, ok := ins()
		if !ok {
			return nil, "", "", false
		}
		return []declT{{Name: name, V: varRef("--zz", nil)}, u}, "", "empty-fallback-invalid-own", true
	case k < 7: // the same, inherited
		u, ok := ins()
		if !ok {
			return nil, "", "", false
		}
		return []declT{u}, blockText([]declT{{Name: name, V: varRef("--zz", nil)}}), "empty-fallback-invalid-inherited", true
	case k < 8: // two empty references
		u, ok := ins()
		if !ok {
			return nil, "", "", false
		}
		v2, ok := insertAt(u.V, len(u.V), varRef("--zz", empty))
		if !ok {
			return nil, "", "", false
		}
		u.V = v2
		return []declT{u}, "", "empty-fallback-twice", true
	default: // the fallback is empty but not used: the custom property is defined
		u := declT{Name: d.Name, V: splice(d.V, i, j, varRef(name, empty)), Important: d.Important}
		return []declT{{Name: name, V: T}, u}, "", "empty-fallback-unused", true
	}
}

// unsetDecls gives the declarations equivalent to "invalid at computed-value time" for the longhands
func unsetDecls(names []string, important bool) []declT {
	var out []declT
	for _, n := range names {
		k := "initial"
		if inheritedProps[n] {
			k = "inherit"
		}
		out = append(out, declT{Name: n, V: kw(k), Important: important})
	}
	return out
}

var junkValues = []val{numS("12xyz"), numS("7qq"), exact("@x"), seq(numS("3zz"), numS("3zz"), numS("3zz"), numS("3zz"), numS("3zz"))}

func genVarInvalid(r *rand.Rand) c08In {
	for {
		d, names := genDecl(r)
		if hasRelativeURL(d.V) && on("var-url-base") {
			continue
		}
		i, j, ok := cut(r, d.V, 0)
		if !ok {
			continue
		}
		whole := r.Intn(2) == 0
		if whole {
			i, j = 0, len(d.V)
		}
		name := pick(r, varNames...)
		in := c08In{Rel: "varinv", Prop: d.Name, Expect: names}
		// the parent carries other values, so that inherit and initial are told apart
		in.PA = blockText(parentBlock(r, names))
		in.PB = in.PA
		var a, b []declT
		use := func(ref val) declT { return declT{Name: d.Name, V: splice(d.V, i, j, ref)} }
		k := r.Intn(5)
		for _, n := range names {
			if n == "transform-origin" && !(i == 0 && j == len(d.V)) && on("transform-origin-third-value") {
				// F-C08-transform-origin-third-value: the third component of transform-origin is dropped
				// without being validated, so `left bottom 12xyz` is accepted; whole-value substitution only.
				i, j = 0, len(d.V)
			}
		}
		switch k {
		case 0: // ill-typed substitution
			b = []declT{{Name: name, V: pick(r, junkValues...)}, use(varRef(name, nil))}
			in.Note = "ill-typed"
		case 1: // undefined, no fallback
			b = []declT{use(varRef(name, nil))}
			in.Note = "undefined"
		case 2: // ill-typed fallback
			b = []declT{use(varRef(name, pick(r, junkValues...)))}
			in.Note = "ill-typed-fallback"
		case 3: // a valid declaration of the same property earlier in the block does not come back:
			// the var() declaration is valid at parse time and wins the cascade
			b = []declT{d, {Name: name, V: pick(r, junkValues...)}, use(varRef(name, nil))}
			a = []declT{d}
			in.Note = "no-fallback-to-earlier-declaration"
		default: // defined on the parent with an ill-typed value
			in.PA = blockText(append(parentBlock(r, names), declT{Name: name, V: pick(r, junkValues...)}))
			in.PB = in.PA
			b = []declT{use(varRef(name, nil))}
			in.Note = "ill-typed-inherited"
		}
		a = append(a, unsetDecls(names, false)...)
		in.A, in.B = blockText(a), blockText(b)
		in.Expect = nil // A consists of initial/inherit keywords
		return in
	}
}

// ---- cycles and graphs of custom properties -----------------------------------------------------

// properties whose grammar accepts any non-empty sequence of the given items
var listProps = []struct {
	name string
	item gen
}{
	{"font-family", func(r *rand.Rand) val { return exact(pick(r, "Ahem", "serif", "Foo", "bar")) }},
	{"content", nonEmptyString},
	{"counter-reset", func(r *rand.Rand) val { return exact(pick(r, "c1", "sect", "Fig")) }},
	{"grid-auto-rows", func(r *rand.Rand) val { return dim(posMag(r), pick(r, "px", "em", "fr")) }},
	{"transform", func(r *rand.Rand) val { return fn("scale", num(pick(r, 1.0, 2, 0.5))) }},
	{"margin", nil}, // 1 to 4 lengths: more is ill-typed
}

// a custom property value on the generator side: items are literal pieces or references
type cpItem struct {
	lit      val
	ref      string // referenced custom property ("" = literal)
	fallback val    // nil = none
}

type cpGraph map[string][]cpItem

// resolve implements the reference semantics; ok=false means invalid at computed-value time.
func (g cpGraph) resolveAll() (map[string]val, map[string]bool) {
	// cycle detection: Tarjan-free version for ≤ 5 nodes: x is cyclic if x reaches x
	reach := map[string]map[string]bool{}
	for x, items := range g {
		reach[x] = map[string]bool{}
		for _, it := range items {
			if it.ref != "" {
				if _, defined := g[it.ref]; defined {
					reach[x][it.ref] = true
				}
			}
		}
	}
	for changed := true; changed; {
		changed = false
		for x := range reach {
			for y := range reach[x] {
				for z := range reach[y] {
					if !reach[x][z] {
						reach[x][z] = true
						changed = true
					}
				}
			}
		}
	}
	resolved := map[string]val{} // valid ones only
	invalid := map[string]bool{}
	for x := range g {
		if reach[x][x] {
			invalid[x] = true
		}
	}
	var eval func(x string) (val, bool)
	eval = func(x string) (val, bool) {
		if invalid[x] {
			return nil, false
		}
		if v, ok := resolved[x]; ok {
			return v, true
		}
		var parts []val
		for _, it := range g[x] {
			if it.ref == "" {
				parts = append(parts, it.lit)
				continue
			}
			if _, defined := g[it.ref]; defined {
				if v, ok := eval(it.ref); ok {
					parts = append(parts, v)
					continue
				}
			}
			if it.fallback != nil {
				parts = append(parts, it.fallback)
				continue
			}
			invalid[x] = true
			return nil, false
		}
		v := seq(parts...)
		resolved[x] = v
		return v, true
	}
	names := make([]string, 0, len(g))
	for x := range g {
		names = append(names, x)
	}
	sort.Strings(names)
	for _, x := range names {
		eval(x)
	}
	cyclic := map[string]bool{}
	for x := range g {
		if reach[x][x] {
			cyclic[x] = true
		}
	}
	return resolved, cyclic
}

func genVarCycle(r *rand.Rand) c08In {
	lp := listProps[r.Intn(len(listProps))]
	item := lp.item
	if item == nil {
		item = length(true, false)
	}
	n := 1 + r.Intn(4)
	names := []string{"--a", "--b", "--c", "--d"}[:n]
	g := cpGraph{}
	edges := 0
	for _, x := range names {
		var items []cpItem
		for k, m := 0, 1+r.Intn(3); k < m; k++ {
			if r.Intn(2) == 0 {
				ref := names[r.Intn(n)]
				if !danglingRefs || r.Intn(8) != 0 {
					// defined target
				} else {
					ref = "--zz"
				}
				it := cpItem{ref: ref}
				if r.Intn(3) == 0 {
					it.fallback = item(r)
				}
				items = append(items, it)
				edges++
			} else {
				items = append(items, cpItem{lit: item(r)})
			}
		}
		g[x] = items
	}
	res, cyclic := g.resolveAll()
	used := names[r.Intn(n)]
	var fb val
	if r.Intn(2) == 0 {
		fb = item(r)
	}
	// reference result of `prop: pre var(--used, fb)`
	var pre val
	if r.Intn(3) == 0 {
		pre = item(r)
	}
	if pre != nil && fb != nil && r.Intn(3) == 0 {
		fb = val{} // empty fallback: `pre var(--used,)` is `pre` when --used is invalid
	}
	var final val
	valid := true
	if v, ok := res[used]; ok {
		final = seq(pre, v)
	} else if fb != nil {
		final = seq(pre, fb)
	} else {
		valid = false
	}
	if valid && lp.name == "margin" && countTop(final) > 4 {
		valid = false
	}
	in := c08In{Rel: "varcycle", Prop: lp.name}
	// does the used property reach (through any reference) a property that is invalid at
	// computed-value time, or a missing one referenced without fallback?
	seen := map[string]bool{}
	touchesCycle, touchesDangling := false, false
	var walk func(x string)
	walk = func(x string) {
		if seen[x] {
			return
		}
		seen[x] = true
		if cyclic[x] {
			touchesCycle = true
		}
		for _, it := range g[x] {
			if it.ref == "" {
				continue
			}
			if _, defined := g[it.ref]; defined {
				walk(it.ref)
			} else if it.fallback == nil {
				touchesDangling = true
			}
		}
	}
	walk(used)
	in.Note = "valid-graph"
	switch {
	case touchesDangling && !touchesCycle:
		in.Note = "missing-reference"
	case touchesCycle:
		in.Note = "cycle"
		if on("var-cycle-semantics") {
			// F-C08-var-cycle-semantics: a reference that closes a cycle is replaced by its fallback (or by
			// nothing) and the rest of the cycle is kept, where Variables 1 §2.3 makes every property of
			// the cycle invalid at computed-value time.  Termination is still a verdict.
			in.ReportOnly = "var-cycle-semantics"
		}
	}
	var b []declT
	for _, x := range names {
		var parts []val
		for _, it := range g[x] {
			if it.ref == "" {
				parts = append(parts, it.lit)
			} else {
				parts = append(parts, varRef(it.ref, it.fallback))
			}
		}
		b = append(b, declT{Name: x, V: seq(parts...)})
	}
	b = append(b, declT{Name: lp.name, V: seq(pre, varRef(used, fb))})
	r.Shuffle(len(b), func(i, j int) { b[i], b[j] = b[j], b[i] })
	lnames := []string{lp.name}
	if lp.name == "margin" {
		lnames = []string{"margin-top", "margin-right", "margin-bottom", "margin-left"}
	}
	in.PA = blockText(parentBlock(r, lnames))
	in.PB = in.PA
	if valid {
		in.A = blockText([]declT{{Name: lp.name, V: final}})
		in.Expect = lnames
	} else {
		in.A = blockText(unsetDecls(lnames, false))
	}
	in.B = blockText(b)
	return in
}

// wordLike: a piece after which a function name may not follow without a separator
func wordLike(k byte) bool {
	return k == kKeyword || k == kExact || k == kNumber || k == kUnit || k == kHex || k == kSci
}
