package c08

import (
	"math/rand"
)

// ---- M5: an invalid declaration is dropped alone -----------------------------------------------
//
// A: a block of valid declarations.  B: the same block with invalid declarations interleaved, each
// terminated by ';' (CSS 2.1 §4.2 / Syntax 3 §5.4.4: the parser recovers at the next top-level
// semicolon).  Garbage never contains unbalanced brackets, '}' outside strings/comments, or '<'.

// fixed invalid declarations (no trailing ';')
var garbageFixed = []string{
	"foo: 1px", "-x-bar: baz", "colr: red", "widht: 10px", "unknown-property: \"a;b\"",
	"width 10px", "color red", "margin", "12px", "\"str\"", ":", ": red", "color:", "color: ", "width:/**/",
	"@#$ ^&", "!important", "width: !important", "(width: 10px)", "[;]", "(a;b): c", "foo: (1;2)",
	"color: red !importan", "color: red ! important x", "color: red !important !important", "width: 10px !ie",
	"margin: 1px 2px 3px 4px 5px", "border: 1px solid red blue", "border: solid solid", "padding: -1px", "font: italic",
	"width: 10px 20px", "color: 12px", "outline-color: 1", "color: rgb(1,2)", "display: block block", "float: top", "z-index: 1.5", "orphans: 0", "opacity: red",
	"width: 12xyz", "height: auto auto", "font-size: -2px", "line-height: -1", "background-color: #12", "background-color: #12345",
	"background-color: rgb(1,2)", "border-top-color: rgb(1 2 3 4 5)", "content: bogus(1)", "quotes: \"a\"", "counter-reset: 3", "text-decoration-line: underline underline",
	"transform: rotate(10px)", "transform: scale()", "margin-top: 1px,2px", "top: 10", "width: 10 px", "width: +", "width: --", "width: 1e", "width: #",
	"foo: 1 !important", "@foo bar", "@media print { color: red }", "foo { a: b; c: d }", "& p { color: red }",
	"/* color: blue */", "width: 1px /* ; */ 2px", "background: url(x.png) url(y.png)", "list-style: none none none", "flex: 1 1 1 1", "columns: 1 2",
	"grid-area: 1 / 2 / 3 / 4 / 5", "border-radius: 1px / ", "font-family: ", "font-family: a,,b", "font-family: 12px",
}

func genGarbage(r *rand.Rand, valid []declT) string {
	switch r.Intn(8) {
	case 0: // a real property with a value that no property accepts
		return genLonghandName(r) + ": " + pick(r, "12xyz", "7qq 7qq", "@x", "bogus(1)", "\"s\" 1 \"s\"")
	case 1: // the fallback idiom: same property as a valid declaration of the block, unsupported value
		if len(valid) > 0 {
			d := valid[r.Intn(len(valid))]
			return d.Name + ": " + pick(r, "12xyz", "7qq", "@x", "foo(1)", "7qq 7qq 7qq 7qq 7qq") + pick(r, "", " !important")
		}
	case 2: // unknown property with a valid value of a real one
		d, _ := genDecl(r)
		return pick(r, "x-", "moz", "foo-") + d.Name + ": " + d.V.canon()
	}
	if r.Intn(10) == 0 {
		// a nested rule whose selector does not parse is dropped alone (repaired in c440a0b)
		return pick(r, "12 { a: b }", "p:bogus-pseudo { color: red }", "p::: { color: red }")
	}
	if r.Intn(10) == 0 {
		// a nested rule with an empty selector is invalid and must not style the parent (repaired in 59e89fe);
		// validators that used to accept anything (repaired): tab-size, bleed-*, transform-origin, font-feature-settings
		return pick(r, "{ color: red }", "tab-size: red", "bleed-left: red", "transform-origin: red blue", "font-feature-settings: \"liga\" 7qq", "margin: 1px inherit", "font: 12px/")
	}
	return garbageFixed[r.Intn(len(garbageFixed))]
}

func genIso(r *rand.Rand) c08In {
	n := 1 + r.Intn(4)
	var valid []declT
	var expect []string
	for len(valid) < n {
		d, names := genDecl(r)
		if r.Intn(6) == 0 {
			d.Important = true
		}
		valid = append(valid, d)
		expect = append(expect, names...)
		if r.Intn(6) == 0 && len(valid) < n { // the same property again: the later declaration wins
			d2, _ := regenSame(r, d.Name)
			valid = append(valid, d2)
		}
	}
	in := c08In{Rel: "iso", Prop: valid[0].Name, Decl: true, Expect: expect}
	in.A = blockText(valid)
	// B: garbage before / between / after
	b := ""
	ng := 0
	for i := 0; i <= len(valid); i++ {
		for r.Intn(2) == 0 || (i == len(valid) && ng == 0) {
			b += genGarbage(r, valid[:i]) + pick(r, ";", "; ", " ;\n")
			ng++
			if ng >= 4 {
				break
			}
		}
		if i < len(valid) {
			b += valid[i].val().canon()
			b += "; "
		}
	}
	in.B = b
	if r.Intn(5) == 0 {
		other, _ := regenSame(r, valid[0].Name)
		in.After = blockText([]declT{other})
	}
	return in
}
