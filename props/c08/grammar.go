package c08

import (
	"math/rand"
	"sort"
	"strings"
)

// Per-property generators of valid values, written from the property grammars in the CSS
// specifications restricted to what webrender's validators document as supported
// (css/validation/validation.go doc comments).  Every generator returns a piece list (val.go).

type gen func(r *rand.Rand) val

func pick[T any](r *rand.Rand, xs ...T) T { return xs[r.Intn(len(xs))] }

func oneOf(gs ...gen) gen {
	return func(r *rand.Rand) val { return gs[r.Intn(len(gs))](r) }
}

// weighted alternatives: (weight, gen) pairs
type wg struct {
	w int
	g gen
}

func weighted(ws ...wg) gen {
	total := 0
	for _, w := range ws {
		total += w.w
	}
	return func(r *rand.Rand) val {
		k := r.Intn(total)
		for _, w := range ws {
			if k < w.w {
				return w.g(r)
			}
			k -= w.w
		}
		return ws[0].g(r)
	}
}

func kws(words ...string) gen {
	return func(r *rand.Rand) val { return kw(words[r.Intn(len(words))]) }
}

func constG(v val) gen { return func(*rand.Rand) val { return v } }

// rep produces min..max space separated repetitions
func rep(g gen, min, max int) gen {
	return func(r *rand.Rand) val {
		n := min + r.Intn(max-min+1)
		var vs []val
		for i := 0; i < n; i++ {
			vs = append(vs, g(r))
		}
		return seq(vs...)
	}
}

// commaRep produces min..max comma separated repetitions
func commaRep(g gen, min, max int) gen {
	return func(r *rand.Rand) val {
		n := min + r.Intn(max-min+1)
		var vs []val
		for i := 0; i < n; i++ {
			vs = append(vs, g(r))
		}
		return commas(vs...)
	}
}

// subset produces a non-empty random subset, in random order, of the alternatives (the "||" combinator)
func anyOrder(gs ...gen) gen {
	return func(r *rand.Rand) val {
		idx := r.Perm(len(gs))
		n := 1 + r.Intn(len(gs))
		var vs []val
		for _, i := range idx[:n] {
			vs = append(vs, gs[i](r))
		}
		return seq(vs...)
	}
}

// --- numbers and dimensions ---------------------------------------------------------------------

// magnitudes exactly representable in binary
var mags = []float64{0, 1, 2, 3, 4, 5, 7, 10, 12, 16, 24, 100, 0.5, 1.5, 2.25, 0.25}

func mag(r *rand.Rand) float64 { return mags[r.Intn(len(mags))] }

func posMag(r *rand.Rand) float64 {
	for {
		if m := mag(r); m > 0 {
			return m
		}
	}
}

var lengthUnits = []string{"px", "pt", "pc", "in", "cm", "mm", "q", "em", "rem", "ex", "ch"}

// length: <length>, optionally negative, optionally <percentage>, unit-less zero allowed
func length(neg, percentage bool) gen {
	return func(r *rand.Rand) val {
		m := mag(r)
		if neg && r.Intn(3) == 0 {
			m = -m
		}
		switch k := r.Intn(12); {
		case k == 0:
			return num(0)
		case k <= 3 && percentage:
			return perc(m)
		case k == 4 && m == 10: // scientific notation: the e is case-insensitive
			return val{{T: "1e1", K: kSci}, {T: lengthUnits[r.Intn(len(lengthUnits))], K: kUnit, Sep: sGlue}}
		}
		return dim(m, lengthUnits[r.Intn(len(lengthUnits))])
	}
}

func integer(min, max int) gen {
	return func(r *rand.Rand) val {
		n := min + r.Intn(max-min+1)
		v := num(float64(n))
		if n > 0 && r.Intn(6) == 0 {
			v[0].T = "+" + v[0].T
		}
		return v
	}
}

func number(neg bool) gen {
	return func(r *rand.Rand) val {
		m := mag(r)
		if neg && r.Intn(3) == 0 {
			m = -m
		}
		return num(m)
	}
}

func percentage(r *rand.Rand) val { return perc(mag(r)) }

var angleUnits = []string{"deg", "rad", "grad", "turn"}

func angle(nonzero bool) gen {
	return func(r *rand.Rand) val {
		m := pick(r, 0.0, 45, 90, 180, 270, 1, 0.5, 0.25, 100, -90, -0.5)
		if nonzero && m == 0 {
			m = 90
		}
		return dim(m, pick(r, angleUnits...))
	}
}

// --- colours ------------------------------------------------------------------------------------

var colorNames = []string{"red", "blue", "lime", "black", "white", "transparent", "lightgoldenrodyellow", "gray", "grey", "currentcolor"}

func color(r *rand.Rand) val {
	switch r.Intn(9) {
	case 0, 1:
		return kw(pick(r, colorNames...))
	case 2:
		return hexc(pick(r, "#abc", "#f00", "#0af", "#a1b2c3", "#ffeedd", "#00ff7f", "#def"))
	case 3:
		return fn("rgb", integer(0, 255)(r), integer(0, 255)(r), integer(0, 255)(r))
	case 4:
		return fn("rgb", perc(pick(r, 0.0, 25, 50, 100)), perc(pick(r, 0.0, 25, 50, 100)), perc(pick(r, 0.0, 25, 50, 100)))
	case 5:
		return fn("rgba", integer(0, 255)(r), integer(0, 255)(r), integer(0, 255)(r), num(pick(r, 0.0, 0.25, 0.5, 1)))
	case 6:
		return fn("hsl", integer(0, 360)(r), perc(pick(r, 0.0, 25, 50, 100)), perc(pick(r, 25.0, 50, 75)))
	case 7:
		return fn("hsla", integer(0, 360)(r), perc(pick(r, 0.0, 50, 100)), perc(pick(r, 25.0, 50)), num(pick(r, 0.25, 0.5, 1)))
	}
	return kw(pick(r, colorNames...))
}

// colour that is not currentcolor (ambiguous inside some shorthands / different computed paths)
func solidColor(r *rand.Rand) val {
	for {
		v := color(r)
		if len(v) == 1 && v[0].T == "currentcolor" {
			continue
		}
		return v
	}
}

// --- images -------------------------------------------------------------------------------------

func urlTok(r *rand.Rand) val {
	switch r.Intn(3) {
	case 0:
		return exact("url(" + pick(r, "a.png", "img/B.PNG", "x.svg", "http://example.test/A.png", "mem://doc/y.png") + ")")
	case 1:
		return val{{T: "url(", K: kFunc}, {T: `"` + pick(r, "a.png", "Img/C.png", "http://example.test/q/B.png") + `"`, K: kExact, Sep: sOpt, WS: 1}, {T: ")", K: kClose, Sep: sOpt, WS: 1}}
	}
	return exact("url('" + pick(r, "a.png", "d/E.gif", "https://example.test/c.gif") + "')")
}

// hasRelativeURL reports whether v holds a url() that needs the base URL to be resolved.
func hasRelativeURL(v val) bool {
	for i, p := range v {
		if p.K == kExact && strings.HasPrefix(p.T, "url(") && !strings.Contains(p.T, "://") && !strings.HasPrefix(p.T, "url(#") {
			return true
		}
		if p.T == "url(" && p.K == kFunc && i+1 < len(v) && !strings.Contains(v[i+1].T, "://") {
			return true
		}
	}
	return false
}

func colorStop(r *rand.Rand) val {
	if r.Intn(2) == 0 {
		return solidColor(r)
	}
	return seq(solidColor(r), length(false, true)(r))
}

func gradient(r *rand.Rand) val {
	var stops []val
	for i, n := 0, 2+r.Intn(2); i < n; i++ {
		stops = append(stops, colorStop(r))
	}
	switch r.Intn(6) {
	case 0:
		return fn(pick(r, "linear-gradient", "repeating-linear-gradient"), stops...)
	case 1:
		return fn("linear-gradient", append([]val{angle(false)(r)}, stops...)...)
	case 2:
		dir := seq(kw("to"), kw(pick(r, "top", "left", "bottom", "right")))
		if r.Intn(2) == 0 {
			dir = seq(kw("to"), kw(pick(r, "top", "bottom")), kw(pick(r, "left", "right")))
		}
		return fn("linear-gradient", append([]val{dir}, stops...)...)
	case 3:
		return fn(pick(r, "radial-gradient", "repeating-radial-gradient"), stops...)
	case 4:
		shape := pick(r, seq(kw("circle")), seq(kw("ellipse"), kw(pick(r, "closest-side", "farthest-corner", "closest-corner", "farthest-side"))),
			seq(kw("circle"), dim(posMag(r), "px")), seq(dim(posMag(r), "px"), dim(posMag(r), "em")))
		return fn("radial-gradient", append([]val{shape}, stops...)...)
	}
	at := seq(kw(pick(r, "circle", "ellipse")), kw("at"), position(r))
	return fn("radial-gradient", append([]val{at}, stops...)...)
}

func image(r *rand.Rand) val {
	if r.Intn(3) == 0 {
		return gradient(r)
	}
	return urlTok(r)
}

// --- positions ----------------------------------------------------------------------------------

// <position> with 1 to 4 components (background-position / object-position grammar)
func position(r *rand.Rand) val {
	lp := length(true, true)
	switch r.Intn(8) {
	case 0:
		return kw(pick(r, "left", "center", "right", "top", "bottom"))
	case 1:
		return lp(r)
	case 2:
		return seq(kw(pick(r, "left", "center", "right")), kw(pick(r, "top", "center", "bottom")))
	case 3:
		return seq(kw(pick(r, "top", "bottom")), kw(pick(r, "left", "center", "right")))
	case 4:
		return seq(lp(r), lp(r))
	case 5:
		if r.Intn(2) == 0 {
			return seq(lp(r), kw(pick(r, "top", "center", "bottom")))
		}
		return seq(kw(pick(r, "left", "center", "right")), lp(r))
	case 6: // 4 values
		if r.Intn(2) == 0 {
			return seq(kw(pick(r, "left", "right")), lp(r), kw(pick(r, "top", "bottom")), lp(r))
		}
		return seq(kw(pick(r, "top", "bottom")), lp(r), kw(pick(r, "left", "right")), lp(r))
	}
	// 3 values
	switch r.Intn(4) {
	case 0:
		return seq(kw(pick(r, "left", "right")), lp(r), kw(pick(r, "top", "bottom", "center")))
	case 1:
		return seq(kw(pick(r, "top", "bottom")), lp(r), kw(pick(r, "left", "right", "center")))
	case 2:
		return seq(kw(pick(r, "left", "right", "center")), kw(pick(r, "top", "bottom")), lp(r))
	}
	return seq(kw(pick(r, "top", "bottom", "center")), kw(pick(r, "left", "right")), lp(r))
}

// 1 or 2 component position (transform-origin grammar)
func position2(r *rand.Rand) val {
	lp := length(true, true)
	switch r.Intn(6) {
	case 0:
		return kw(pick(r, "left", "center", "right", "top", "bottom"))
	case 1:
		return lp(r)
	case 2:
		return seq(kw(pick(r, "left", "center", "right")), kw(pick(r, "top", "center", "bottom")))
	case 3:
		return seq(kw(pick(r, "top", "bottom")), kw(pick(r, "left", "center", "right")))
	case 4:
		return seq(lp(r), lp(r))
	}
	if r.Intn(2) == 0 {
		return seq(lp(r), kw(pick(r, "top", "center", "bottom")))
	}
	return seq(kw(pick(r, "left", "center", "right")), lp(r))
}

// --- identifiers and strings --------------------------------------------------------------------

var customIdents = []string{"foo", "Bar", "my-Name", "x1", "chapter", "Sect_2"}

func customIdent(r *rand.Rand) val { return exact(pick(r, customIdents...)) }

func cssString(r *rand.Rand) val {
	return str(pick(r, "a", "Hello World", "«", "»", ". ", "x;y", "it's", "A}B", "/* no */", ""))
}

func nonEmptyString(r *rand.Rand) val {
	return str(pick(r, "a", "Hello World", "«", "»", ". ", "x;y", "it's", "A}B"))
}

// --- property specific pieces -------------------------------------------------------------------

var borderStyles = []string{"none", "hidden", "dotted", "dashed", "double", "inset", "outset", "groove", "ridge", "solid"}

func borderWidthG(r *rand.Rand) val {
	if r.Intn(3) == 0 {
		return kw(pick(r, "thin", "medium", "thick"))
	}
	return length(false, false)(r)
}

func bgRepeat(r *rand.Rand) val {
	switch r.Intn(3) {
	case 0:
		return kw(pick(r, "repeat-x", "repeat-y"))
	case 1:
		return kw(pick(r, "no-repeat", "repeat", "space", "round"))
	}
	return seq(kw(pick(r, "no-repeat", "repeat", "space", "round")), kw(pick(r, "no-repeat", "repeat", "space", "round")))
}

func bgSize(r *rand.Rand) val {
	la := oneOf(kws("auto"), length(false, true))
	switch r.Intn(3) {
	case 0:
		return kw(pick(r, "contain", "cover"))
	case 1:
		return la(r)
	}
	return seq(la(r), la(r))
}

var boxKw = []string{"border-box", "padding-box", "content-box"}

func displayG(r *rand.Rand) val {
	switch r.Intn(4) {
	case 0, 1:
		return kw(pick(r, "none", "block", "inline", "inline-block", "table", "inline-table", "table-row", "table-cell", "table-caption", "table-row-group",
			"table-header-group", "table-footer-group", "table-column-group", "table-column", "list-item", "flex", "inline-flex", "grid", "inline-grid", "flow-root"))
	case 2:
		a, b := kw(pick(r, "block", "inline")), kw(pick(r, "flow", "flow-root", "table", "flex", "grid"))
		if r.Intn(2) == 0 {
			a, b = b, a
		}
		return seq(a, b)
	}
	parts := []val{kw("list-item")}
	if r.Intn(2) == 0 {
		parts = append(parts, kw(pick(r, "block", "inline")))
	}
	if r.Intn(2) == 0 {
		parts = append(parts, kw(pick(r, "flow", "flow-root")))
	}
	r.Shuffle(len(parts), func(i, j int) { parts[i], parts[j] = parts[j], parts[i] })
	return seq(parts...)
}

func fontFamilyOne(r *rand.Rand) val {
	switch r.Intn(3) {
	case 0:
		return str(pick(r, "Ahem", "Times New Roman", "DejaVu Sans"))
	case 1:
		return exact(pick(r, "serif", "sans-serif", "monospace", "Ahem", "weasyprint", "Helvetica"))
	}
	return seq(exact(pick(r, "Times", "DejaVu")), exact(pick(r, "New", "Sans")), exact(pick(r, "Roman", "Mono")))
}

// one value of each group at most (font-variant-* grammars)
func exclusiveGroups(groups ...[]string) gen {
	return func(r *rand.Rand) val {
		idx := r.Perm(len(groups))
		n := 1 + r.Intn(len(groups))
		var vs []val
		for _, i := range idx[:n] {
			vs = append(vs, kw(pick(r, groups[i]...)))
		}
		return seq(vs...)
	}
}

var ligGroups = [][]string{{"common-ligatures", "no-common-ligatures"}, {"historical-ligatures", "no-historical-ligatures"}, {"discretionary-ligatures", "no-discretionary-ligatures"}, {"contextual", "no-contextual"}}
var numGroups = [][]string{{"lining-nums", "oldstyle-nums"}, {"proportional-nums", "tabular-nums"}, {"diagonal-fractions", "stacked-fractions"}, {"ordinal"}, {"slashed-zero"}}
var eaGroups = [][]string{{"jis78", "jis83", "jis90", "jis04", "simplified", "traditional"}, {"full-width", "proportional-width"}, {"ruby"}}

func fontFeature(r *rand.Rand) val {
	tag := str(pick(r, "liga", "kern", "smcp", "c2sc", "ss01", "TEST"))
	switch r.Intn(3) {
	case 0:
		return tag
	case 1:
		return seq(tag, kw(pick(r, "on", "off")))
	}
	return seq(tag, integer(0, 3)(r))
}

var counterStyleNames = []string{"disc", "circle", "square", "decimal", "decimal-leading-zero", "lower-roman", "upper-roman", "lower-alpha", "upper-latin", "lower-greek", "none"}

func symbolsFn(r *rand.Rand) val {
	var args []val
	if r.Intn(2) == 0 {
		args = append(args, kw(pick(r, "cyclic", "numeric", "alphabetic", "symbolic", "fixed")))
	}
	for i, n := 0, 2+r.Intn(2); i < n; i++ {
		args = append(args, str(pick(r, "*", "†", "a", "B", "0", "1")))
	}
	return fnSp("symbols", args...)
}

func listStyleTypeG(r *rand.Rand) val {
	switch r.Intn(6) {
	case 0:
		return nonEmptyString(r)
	case 1:
		return symbolsFn(r)
	case 2:
		return customIdent(r)
	}
	// predefined counter style names are matched case-sensitively downstream: they are emitted
	// as keywords so that case changes exercise that (see defects.go)
	return kw(pick(r, counterStyleNames...))
}

func counterStyleArg(r *rand.Rand) val {
	switch r.Intn(5) {
	case 0:
		return symbolsFn(r)
	case 1:
		return customIdent(r)
	}
	return kw(pick(r, counterStyleNames[:10]...))
}

func counterFn(r *rand.Rand) val {
	if r.Intn(2) == 0 {
		args := []val{customIdent(r)}
		if r.Intn(2) == 0 {
			args = append(args, counterStyleArg(r))
		}
		return fn("counter", args...)
	}
	args := []val{customIdent(r), nonEmptyString(r)}
	if r.Intn(2) == 0 {
		args = append(args, counterStyleArg(r))
	}
	return fn("counters", args...)
}

func attrFn(r *rand.Rand) val {
	return fnSp("attr", exact(pick(r, "title", "data-X", "href")))
}

func targetFn(r *rand.Rand) val {
	link := oneOf(attrFn, urlTokHash)(r)
	switch r.Intn(3) {
	case 0:
		args := []val{link, customIdent(r)}
		if r.Intn(2) == 0 {
			args = append(args, kw(pick(r, "decimal", "lower-roman", "upper-alpha")))
		}
		return fn("target-counter", args...)
	case 1:
		args := []val{link, customIdent(r), nonEmptyString(r)}
		if r.Intn(2) == 0 {
			args = append(args, kw(pick(r, "decimal", "lower-roman")))
		}
		return fn("target-counters", args...)
	}
	args := []val{link}
	if r.Intn(2) == 0 {
		args = append(args, kw(pick(r, "content", "before", "after", "first-letter")))
	}
	return fn("target-text", args...)
}

func urlTokHash(r *rand.Rand) val { return exact("url(#" + pick(r, "sec1", "Anchor") + ")") }

// one item of <content-list>
func contentItem(r *rand.Rand) val {
	switch r.Intn(12) {
	case 0, 1, 2:
		return cssString(r)
	case 3:
		return counterFn(r)
	case 4:
		return attrFn(r)
	case 5:
		return kw(pick(r, "open-quote", "close-quote", "no-open-quote", "no-close-quote"))
	case 6:
		return kw("contents")
	case 7:
		return urlTok(r)
	case 8:
		return targetFn(r)
	case 9:
		if r.Intn(2) == 0 {
			return fnSp("leader", kw(pick(r, "dotted", "solid", "space")))
		}
		return fnSp("leader", nonEmptyString(r))
	case 10:
		if r.Intn(2) == 0 {
			return fnSp("content")
		}
		return fnSp("content", kw(pick(r, "text", "before", "after", "first-letter", "marker")))
	}
	args := []val{customIdent(r)}
	if r.Intn(2) == 0 {
		args = append(args, kw(pick(r, "first", "start", "last", "first-except")))
	}
	return fn(pick(r, "string", "element"), args...)
}

func contentG(r *rand.Rand) val {
	if r.Intn(5) == 0 {
		return kw(pick(r, "normal", "none"))
	}
	v := rep(contentItem, 1, 3)(r)
	if r.Intn(6) == 0 {
		v = slash(v, nonEmptyString(r))
	}
	return v
}

func counterList(r *rand.Rand) val {
	if r.Intn(5) == 0 {
		return kw("none")
	}
	var vs []val
	for i, n := 0, 1+r.Intn(3); i < n; i++ {
		vs = append(vs, customIdent(r))
		if r.Intn(2) == 0 {
			vs = append(vs, integer(-3, 9)(r))
		}
	}
	return seq(vs...)
}

func transformFn(r *rand.Rand) val {
	lp := length(true, true)
	switch r.Intn(11) {
	case 0:
		return fn("rotate", angle(false)(r))
	case 1:
		if r.Intn(4) == 0 {
			return fn("skew", angle(false)(r), angle(false)(r))
		}
		return fn(pick(r, "skewx", "skewy", "skew"), angle(false)(r))
	case 2:
		return fn(pick(r, "translatex", "translatey", "translate"), lp(r))
	case 3:
		return fn("translate", lp(r), lp(r))
	case 4:
		return fn(pick(r, "scalex", "scaley", "scale"), number(true)(r))
	case 5:
		return fn("scale", number(true)(r), number(true)(r))
	case 6:
		return fn("matrix", number(true)(r), number(true)(r), number(true)(r), number(true)(r), number(true)(r), number(true)(r))
	case 7: // the CSS spelling of the names
		switch r.Intn(3) {
		case 0:
			return fn(pick(r, "skewX", "skewY"), angle(false)(r))
		case 1:
			return fn(pick(r, "scaleX", "scaleY"), number(true)(r))
		}
		return fn(pick(r, "translateX", "translateY"), lp(r))
	}
	return fn("translate", lp(r), lp(r))
}

func transformG(r *rand.Rand) val {
	if r.Intn(6) == 0 {
		return kw("none")
	}
	return rep(transformFn, 1, 3)(r)
}

// --- grid ---------------------------------------------------------------------------------------

func lenPercNN(r *rand.Rand) val { return length(false, true)(r) }

func frDim(r *rand.Rand) val { return dim(posMag(r), "fr") }

func inflexibleBreadth(r *rand.Rand) val {
	if r.Intn(2) == 0 {
		return kw(pick(r, "auto", "min-content", "max-content"))
	}
	return lenPercNN(r)
}

func trackBreadth(r *rand.Rand) val {
	if r.Intn(4) == 0 {
		return frDim(r)
	}
	return inflexibleBreadth(r)
}

func trackSize(r *rand.Rand) val {
	switch r.Intn(5) {
	case 0:
		return fn("minmax", inflexibleBreadth(r), trackBreadth(r))
	case 1:
		return fnSp("fit-content", lenPercNN(r))
	}
	return trackBreadth(r)
}

func lineNames(r *rand.Rand) val {
	var ids []val
	for i, n := 0, r.Intn(3); i < n; i++ {
		ids = append(ids, customIdent(r))
	}
	if len(ids) == 0 {
		return val{{T: "[", K: kPunct}, {T: "]", K: kPunct, Sep: sOpt}}
	}
	return brackets(ids...)
}

func trackList(r *rand.Rand, n int, allowRepeat bool) val {
	var vs []val
	for i := 0; i < n; i++ {
		if r.Intn(3) == 0 {
			vs = append(vs, lineNames(r))
		}
		if allowRepeat && r.Intn(5) == 0 {
			inner := []val{integer(1, 4)(r)}
			for k, m := 0, 1+r.Intn(2); k < m; k++ {
				if r.Intn(3) == 0 {
					inner = append(inner, lineNames(r))
				}
				inner = append(inner, trackSize(r))
			}
			// repeat(n, a b c): first argument comma separated, the rest space separated
			rp := val{{T: "repeat(", K: kFunc}}
			rp = append(rp, withSep(inner[0], sOpt)...)
			rp = append(rp, piece{T: ",", K: kPunct, Sep: sOpt})
			rp = append(rp, withSep(seq(inner[1:]...), sOpt)...)
			rp = append(rp, piece{T: ")", K: kClose, Sep: sOpt})
			vs = append(vs, rp)
			continue
		}
		vs = append(vs, trackSize(r))
	}
	if r.Intn(4) == 0 {
		vs = append(vs, lineNames(r))
	}
	return seq(vs...)
}

func gridTemplateG(r *rand.Rand) val {
	switch r.Intn(8) {
	case 0:
		return kw("none")
	case 1:
		vs := []val{kw("subgrid")}
		for i, n := 0, r.Intn(3); i < n; i++ {
			vs = append(vs, lineNames(r))
		}
		return seq(vs...)
	}
	return trackList(r, 1+r.Intn(3), true)
}

func gridAreasG(r *rand.Rand) val {
	if r.Intn(5) == 0 {
		return kw("none")
	}
	return pick(r,
		seq(str("a b")),
		seq(str("a a"), str("b b")),
		seq(str("head head"), str("Nav main"), str(". foot")),
		seq(str("x . y")),
		seq(str("a"), str("a"), str("b")),
	)
}

func gridLineG(r *rand.Rand) val {
	switch r.Intn(7) {
	case 0:
		return kw("auto")
	case 1:
		return customIdent(r)
	case 2:
		return integer(1, 5)(r)
	case 3:
		return num(float64(-1 - r.Intn(3)))
	case 4:
		return seq(integer(1, 4)(r), customIdent(r))
	case 5:
		parts := []val{kw("span"), integer(1, 4)(r)}
		if r.Intn(2) == 0 {
			parts[0], parts[1] = parts[1], parts[0]
		}
		return seq(parts...)
	}
	return seq(kw("span"), customIdent(r))
}

// --- alignment ----------------------------------------------------------------------------------

func alignG(singles []string, baseline bool, safe []string, legacy bool) gen {
	return func(r *rand.Rand) val {
		k := r.Intn(8)
		switch {
		case k == 0 && baseline:
			switch r.Intn(3) {
			case 0:
				return kw("baseline")
			case 1:
				return seq(kw(pick(r, "first", "last")), kw("baseline"))
			}
			return seq(kw("baseline"), kw(pick(r, "first", "last")))
		case k == 1 && len(safe) > 0:
			return seq(kw(pick(r, "safe", "unsafe")), kw(pick(r, safe...)))
		case k == 2 && legacy:
			switch r.Intn(3) {
			case 0:
				return kw("legacy")
			case 1:
				return seq(kw("legacy"), kw(pick(r, "left", "right", "center")))
			}
			return seq(kw(pick(r, "left", "right", "center")), kw("legacy"))
		}
		return kw(pick(r, singles...))
	}
}

// --- the table ----------------------------------------------------------------------------------

var longhands = map[string]gen{}

func reg(g gen, names ...string) {
	for _, n := range names {
		if _, dup := longhands[n]; dup {
			panic("duplicate generator for " + n)
		}
		longhands[n] = g
	}
}

func init() {
	lenNN := length(false, false)
	lenAny := length(true, false)
	lpNN := length(false, true)
	lpAny := length(true, true)

	reg(kws("auto", "none"), "appearance")
	reg(commaRep(kws("scroll", "fixed", "local"), 1, 3), "background-attachment")
	reg(color, "background-color", "border-top-color", "border-right-color", "border-bottom-color", "border-left-color", "column-rule-color", "text-decoration-color", "color")
	reg(oneOf(color, kws("invert")), "outline-color")
	reg(kws("separate", "collapse"), "border-collapse")
	reg(kws("show", "hide"), "empty-cells")
	reg(func(r *rand.Rand) val {
		v := position2(r)
		if r.Intn(4) == 0 && countTop(v) == 2 {
			return seq(v, lenAny(r))
		}
		return v
	}, "transform-origin")
	reg(position, "object-position")
	reg(commaRep(position, 1, 3), "background-position")
	reg(commaRep(bgRepeat, 1, 3), "background-repeat")
	reg(commaRep(bgSize, 1, 3), "background-size")
	reg(commaRep(kws(boxKw...), 1, 3), "background-clip", "background-origin")
	reg(commaRep(oneOf(kws("none"), image), 1, 3), "background-image")
	reg(rep(lenNN, 1, 2), "border-spacing")
	reg(rep(lpNN, 1, 2), "border-top-left-radius", "border-top-right-radius", "border-bottom-right-radius", "border-bottom-left-radius")
	reg(kws(borderStyles...), "border-top-style", "border-right-style", "border-bottom-style", "border-left-style", "column-rule-style")
	reg(kws("auto", "avoid", "avoid-page", "page", "left", "right", "recto", "verso", "avoid-column", "column", "always"), "break-before", "break-after")
	reg(kws("auto", "avoid", "avoid-page", "avoid-column"), "break-inside")
	reg(kws("slice", "clone"), "box-decoration-break")
	reg(kws("auto", "keep", "discard"), "margin-break")
	reg(oneOf(kws("auto"), customIdent), "page")
	reg(oneOf(kws("auto"), lenAny), "bleed-left", "bleed-right", "bleed-top", "bleed-bottom")
	reg(func(r *rand.Rand) val {
		return pick(r, kw("none"), kw("crop"), kw("cross"), seq(kw("crop"), kw("cross")), seq(kw("cross"), kw("crop")))
	}, "marks")
	reg(kws("none", "dotted", "dashed", "double", "inset", "outset", "groove", "ridge", "solid"), "outline-style")
	reg(borderWidthG, "border-top-width", "border-right-width", "border-bottom-width", "border-left-width", "column-rule-width", "outline-width")
	reg(oneOf(kws("none"), image), "border-image-source")
	reg(func(r *rand.Rand) val {
		v := rep(oneOf(number(false), percentage), 1, 4)(r)
		switch r.Intn(4) {
		case 0:
			return seq(v, kw("fill"))
		case 1:
			return seq(kw("fill"), v)
		}
		return v
	}, "border-image-slice")
	reg(rep(oneOf(kws("auto"), number(false), lpNN), 1, 4), "border-image-width")
	reg(rep(oneOf(number(false), lenNN), 1, 4), "border-image-outset")
	reg(rep(kws("stretch", "repeat", "round", "space"), 1, 2), "border-image-repeat")
	reg(oneOf(kws("auto"), lenNN), "column-width")
	reg(kws("all", "none"), "column-span")
	reg(kws("padding-box", "border-box", "content-box"), "box-sizing")
	reg(kws("top", "bottom"), "caption-side")
	reg(kws("left", "right", "both", "none"), "clear")
	reg(func(r *rand.Rand) val {
		if r.Intn(4) == 0 {
			return kw("auto")
		}
		a := oneOf(kws("auto"), lenAny)
		if r.Intn(2) == 0 {
			return fnSp("rect", a(r), a(r), a(r), a(r))
		}
		return fn("rect", a(r), a(r), a(r), a(r))
	}, "clip")
	reg(oneOf(kws("auto"), lpAny, lpAny), "top", "right", "bottom", "left", "margin-top", "margin-right", "margin-bottom", "margin-left")
	reg(oneOf(kws("auto"), lpNN, lpNN), "width", "height")
	reg(oneOf(kws("normal"), lenNN), "column-gap", "row-gap")
	reg(kws("auto", "balance"), "column-fill")
	reg(kws("ltr", "rtl"), "direction")
	reg(displayG, "display")
	reg(kws("left", "right", "footnote", "none"), "float")
	reg(commaRep(fontFamilyOne, 1, 3), "font-family")
	reg(kws("auto", "normal", "none"), "font-kerning")
	reg(oneOf(kws("normal"), func(r *rand.Rand) val { return str(pick(r, "TRK", "deu", "SRB")) }), "font-language-override")
	reg(oneOf(kws("normal", "none"), exclusiveGroups(ligGroups...)), "font-variant-ligatures")
	reg(kws("normal", "sub", "super"), "font-variant-position")
	reg(kws("normal", "small-caps", "all-small-caps", "petite-caps", "all-petite-caps", "unicase", "titling-caps"), "font-variant-caps")
	reg(oneOf(kws("normal"), exclusiveGroups(numGroups...)), "font-variant-numeric")
	reg(oneOf(kws("normal"), commaRep(fontFeature, 1, 3)), "font-feature-settings")
	reg(kws("normal", "historical-forms"), "font-variant-alternates")
	reg(oneOf(kws("normal"), exclusiveGroups(eaGroups...)), "font-variant-east-asian")
	reg(oneOf(kws("normal"), commaRep(func(r *rand.Rand) val {
		return seq(str(pick(r, "wght", "wdth", "XHGT")), number(true)(r))
	}, 1, 3)), "font-variation-settings")
	reg(oneOf(lpNN, lpNN, kws("xx-small", "x-small", "small", "medium", "large", "x-large", "xx-large", "smaller", "larger")), "font-size")
	reg(kws("normal", "italic", "oblique"), "font-style")
	reg(kws("ultra-condensed", "extra-condensed", "condensed", "semi-condensed", "normal", "semi-expanded", "expanded", "extra-expanded", "ultra-expanded"), "font-stretch")
	reg(oneOf(kws("normal", "bold", "bolder", "lighter"), func(r *rand.Rand) val { return num(float64(100 * (1 + r.Intn(9)))) }), "font-weight")
	reg(kws("block", "inline", "compact"), "footnote-display")
	reg(kws("auto", "line", "block"), "footnote-policy")
	reg(func(r *rand.Rand) val { return dim(pick(r, 1.0, 2, 96, 300, 0.5), pick(r, "dppx", "dpi", "dpcm")) }, "image-resolution")
	reg(oneOf(kws("normal"), lenAny), "letter-spacing", "word-spacing")
	reg(oneOf(kws("normal"), number(false), percentage, lenNN), "line-height")
	reg(kws("inside", "outside"), "list-style-position")
	reg(listStyleTypeG, "list-style-type")
	reg(oneOf(kws("none"), urlTok), "list-style-image")
	reg(oneOf(kws("auto"), lpNN, lpNN), "min-width", "min-height")
	reg(lpNN, "padding-top", "padding-right", "padding-bottom", "padding-left")
	reg(oneOf(kws("none"), lpNN, lpNN), "max-width", "max-height")
	reg(oneOf(func(r *rand.Rand) val { return num(pick(r, 0.0, 0.25, 0.5, 1, 2, -1)) }, func(r *rand.Rand) val { return perc(pick(r, 0.0, 25, 50, 100, 200)) }), "opacity")
	reg(oneOf(kws("auto"), integer(-5, 20)), "z-index")
	reg(integer(1, 9), "orphans", "widows")
	reg(oneOf(kws("auto"), integer(1, 6)), "column-count")
	reg(kws("auto", "visible", "hidden", "scroll"), "overflow")
	reg(kws("normal", "break-all"), "word-break")
	reg(kws("clip", "ellipsis"), "text-overflow")
	reg(oneOf(kws("static", "relative", "absolute", "fixed"), kws("static", "relative", "absolute", "fixed"), func(r *rand.Rand) val { return fnSp("running", customIdent(r)) }), "position")
	reg(oneOf(kws("auto", "none"), func(r *rand.Rand) val {
		var vs []val
		for i, n := 0, 1+r.Intn(2); i < n; i++ {
			vs = append(vs, nonEmptyString(r), nonEmptyString(r))
		}
		return seq(vs...)
	}), "quotes")
	reg(kws("fixed", "auto"), "table-layout")
	reg(kws("left", "right", "center", "justify", "start", "end"), "text-align-all")
	reg(kws("auto", "left", "right", "center", "justify", "start", "end"), "text-align-last")
	reg(oneOf(kws("none"), func(r *rand.Rand) val {
		all := []string{"underline", "overline", "line-through", "blink"}
		idx := r.Perm(4)
		var vs []val
		for _, i := range idx[:1+r.Intn(4)] {
			vs = append(vs, kw(all[i]))
		}
		return seq(vs...)
	}), "text-decoration-line")
	reg(kws("solid", "double", "dotted", "dashed", "wavy"), "text-decoration-style")
	reg(lpAny, "text-indent")
	reg(kws("none", "uppercase", "lowercase", "capitalize", "full-width"), "text-transform")
	reg(oneOf(kws("baseline", "middle", "sub", "super", "text-top", "text-bottom", "top", "bottom"), lpAny), "vertical-align")
	reg(kws("visible", "hidden", "collapse"), "visibility")
	reg(kws("normal", "pre", "nowrap", "pre-wrap", "pre-line"), "white-space")
	reg(kws("anywhere", "normal", "break-word"), "overflow-wrap")
	reg(kws("auto", "crisp-edges", "pixelated"), "image-rendering")
	reg(func(r *rand.Rand) val {
		switch r.Intn(5) {
		case 0:
			return kw(pick(r, "none", "from-image"))
		case 1:
			return kw("flip")
		case 2:
			return angle(false)(r)
		case 3:
			return seq(angle(false)(r), kw("flip"))
		}
		return seq(kw("flip"), angle(false)(r))
	}, "image-orientation")
	reg(func(r *rand.Rand) val {
		ps := []string{"a5", "a4", "a3", "b5", "b4", "jis-b5", "letter", "legal", "ledger"}
		switch r.Intn(6) {
		case 0:
			return rep(lenNN, 1, 2)(r)
		case 1:
			return kw(pick(r, "auto", "portrait", "landscape"))
		case 2:
			return kw(pick(r, ps...))
		case 3:
			return seq(kw(pick(r, ps...)), kw(pick(r, "portrait", "landscape")))
		case 4:
			return seq(kw(pick(r, "portrait", "landscape")), kw(pick(r, ps...)))
		}
		return rep(lenNN, 2, 2)(r)
	}, "size")
	reg(oneOf(integer(0, 12), lenNN), "tab-size")
	reg(kws("none", "manual", "auto"), "hyphens")
	reg(oneOf(kws("auto"), nonEmptyString), "hyphenate-character")
	reg(lpNN, "hyphenate-limit-zone")
	reg(rep(oneOf(kws("auto"), integer(1, 9)), 1, 3), "hyphenate-limit-chars")
	reg(oneOf(kws("none"), func(r *rand.Rand) val { return str(pick(r, "fr", "en-US", "DE")) }, func(r *rand.Rand) val { return fnSp("attr", exact(pick(r, "lang", "data-L"))) }), "lang")
	reg(oneOf(kws("none"), integer(1, 6)), "bookmark-level")
	reg(kws("open", "closed"), "bookmark-state")
	reg(rep(contentItem, 1, 3), "bookmark-label")
	reg(kws("fill", "contain", "cover", "none", "scale-down"), "object-fit")
	reg(oneOf(kws("auto", "content"), lpNN), "flex-basis")
	reg(kws("row", "row-reverse", "column", "column-reverse"), "flex-direction")
	reg(number(false), "flex-grow", "flex-shrink")
	reg(integer(-3, 9), "order")
	reg(kws("nowrap", "wrap", "wrap-reverse"), "flex-wrap")
	reg(alignG([]string{"center", "space-between", "space-around", "space-evenly", "stretch", "normal", "flex-start", "flex-end", "start", "end"}, true,
		[]string{"center", "start", "end", "flex-start", "flex-end"}, false), "align-content")
	reg(alignG([]string{"normal", "stretch", "center", "start", "end", "self-start", "self-end", "flex-start", "flex-end"}, true,
		[]string{"center", "start", "end", "self-start", "self-end", "flex-start", "flex-end"}, false), "align-items")
	reg(alignG([]string{"auto", "normal", "stretch", "center", "start", "end", "self-start", "self-end", "flex-start", "flex-end"}, true,
		[]string{"center", "start", "end", "self-start", "self-end", "flex-start", "flex-end"}, false), "align-self")
	reg(alignG([]string{"center", "space-between", "space-around", "space-evenly", "stretch", "normal", "flex-start", "flex-end", "start", "end", "left", "right"}, false,
		[]string{"center", "start", "end", "flex-start", "flex-end", "left", "right"}, false), "justify-content")
	reg(alignG([]string{"normal", "stretch", "center", "start", "end", "self-start", "self-end", "flex-start", "flex-end", "left", "right"}, true,
		[]string{"center", "start", "end", "self-start", "self-end", "flex-start", "flex-end", "left", "right"}, true), "justify-items")
	reg(alignG([]string{"auto", "normal", "stretch", "center", "start", "end", "self-start", "self-end", "flex-start", "flex-end", "left", "right"}, true,
		[]string{"center", "start", "end", "self-start", "self-end", "flex-start", "flex-end", "left", "right"}, false), "justify-self")
	reg(oneOf(kws("none"), func(r *rand.Rand) val { return fnSp("attr", exact(pick(r, "id", "Name"))) }), "anchor")
	reg(oneOf(kws("none", "auto"), nonEmptyString), "block-ellipsis")
	reg(kws("auto", "discard"), "continue")
	reg(oneOf(kws("none"), integer(1, 9)), "max-lines")
	reg(rep(trackSize, 1, 3), "grid-auto-columns", "grid-auto-rows")
	reg(func(r *rand.Rand) val {
		return pick(r, kw("row"), kw("column"), kw("dense"), seq(kw("row"), kw("dense")), seq(kw("dense"), kw("column")), seq(kw("column"), kw("dense")), seq(kw("dense"), kw("row")))
	}, "grid-auto-flow")
	reg(gridTemplateG, "grid-template-columns", "grid-template-rows")
	reg(gridAreasG, "grid-template-areas")
	reg(gridLineG, "grid-row-start", "grid-column-start", "grid-row-end", "grid-column-end")
	reg(contentG, "content")
	reg(counterList, "counter-increment", "counter-reset", "counter-set")
	reg(transformG, "transform")
	reg(func(r *rand.Rand) val {
		if r.Intn(4) == 0 {
			return kw("none")
		}
		one := func(r *rand.Rand) val { return seq(customIdent(r), rep(contentItem, 1, 2)(r)) }
		return commaRep(one, 1, 2)(r)
	}, "string-set")
	reg(oneOf(kws("none"), urlTok, urlTokHash, func(r *rand.Rand) val { return fnSp("attr", exact(pick(r, "href", "data-U"))) }), "link")

	for n := range longhands {
		longhandNames = append(longhandNames, n)
	}
	sort.Strings(longhandNames)
}

var longhandNames []string

// countTop counts the top-level space separated components of v.
func countTop(v val) int {
	n, depth := 0, 0
	for i, p := range v {
		if depth == 0 && (i == 0 || p.Sep == sReq) {
			n++
		}
		switch {
		case p.K == kFunc || p.T == "[":
			depth++
		case p.K == kClose || p.T == "]":
			depth--
		}
	}
	return n
}
