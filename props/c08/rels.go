package c08

import (
	"math/rand"
	"strings"
)

// A declaration block on the generator side.
type declT struct {
	Name      string
	V         val
	Important bool
}

func (d declT) val() val {
	nameKind := byte(kKeyword)
	if strings.HasPrefix(d.Name, "--") {
		nameKind = kExact
	}
	out := val{{T: d.Name, K: nameKind}}
	out = append(out, piece{T: ":", K: kPunct, Sep: sOpt})
	out = append(out, withSep(markNoCase(d.Name, d.V), sOptS)...) // marks again: d.V may have been spliced
	if d.Important {
		out = append(out, piece{T: "!", K: kPunct, Sep: sOptS}, piece{T: "important", K: kKeyword, Sep: sOpt})
	}
	return out
}

func blockVal(ds []declT) val {
	var out val
	for i, d := range ds {
		v := d.val()
		if i > 0 {
			out = append(out, piece{T: ";", K: kPunct, Sep: sOpt})
			v = withSep(v, sOptS)
		}
		out = append(out, v...)
	}
	return out
}

func blockText(ds []declT) string { return blockVal(ds).canon() }

// genDecl produces one valid declaration of a random longhand or shorthand, and the names of the
// longhands it sets.
func genDecl(r *rand.Rand) (declT, []string) {
	if r.Intn(4) == 0 {
		sc := genShort(r, "")
		return declT{Name: sc.Name, V: sc.V}, sc.names()
	}
	name := genLonghandName(r)
	return declT{Name: name, V: genLong(r, name)}, []string{name}
}

func genLonghandName(r *rand.Rand) string { return longhandNames[r.Intn(len(longhandNames))] }

// genLong produces a value of a longhand with the known-defect exclusions applied (defects.go).
func genLong(r *rand.Rand, name string) val {
	for try := 0; ; try++ {
		v := longhands[name](r)
		if excludedValue(name, v) && try < 50 {
			continue
		}
		return markNoCase(name, v)
	}
}

// genShort produces a shorthand case (of the named shorthand, or a random one).
func genShort(r *rand.Rand, name string) shortCase {
	if name == "" {
		name = shorthandNames[r.Intn(len(shorthandNames))]
	}
	for try := 0; ; try++ {
		sc := shorthands[name](r)
		bad := excludedValue(sc.Name, sc.V)
		for _, l := range sc.Longs {
			bad = bad || excludedValue(l.Name, l.V)
		}
		if bad && try < 50 {
			continue
		}
		sc.V = markNoCase(sc.Name, sc.V)
		for i := range sc.Longs {
			sc.Longs[i].V = markNoCase(sc.Longs[i].Name, sc.Longs[i].V)
		}
		return sc
	}
}

// ---- M1 / M2: spelling variants ---------------------------------------------------------------

func genSpelling(r *rand.Rand, rel string) c08In {
	n := 1
	if r.Intn(4) == 0 {
		n = 2 + r.Intn(2)
	}
	var ds []declT
	var expect []string
	seen := map[string]bool{}
	for len(ds) < n {
		d, names := genDecl(r)
		dup := false
		for _, nm := range names {
			dup = dup || seen[nm]
		}
		if dup {
			continue
		}
		for _, nm := range names {
			seen[nm] = true
		}
		ds = append(ds, d)
		expect = append(expect, names...)
	}
	in := c08In{Rel: rel, Prop: ds[0].Name, Decl: true, Expect: expect}
	// !important: observable in the computed style through a later normal declaration that must lose
	impOnlyB := -1
	if r.Intn(4) == 0 {
		k := r.Intn(len(ds))
		other, _ := regenSame(r, ds[k].Name)
		if r.Intn(2) == 0 {
			ds[k].Important = true
			in.After = blockText([]declT{other})
		} else {
			// A: the plain declaration alone.  B: the same declaration, !important, followed by a later
			// normal rule that it must beat.
			impOnlyB = k
			in.AfterB = blockText([]declT{other})
			in.Decl = false
		}
	}
	bv := blockVal(ds)
	in.A = bv.canon()
	if impOnlyB >= 0 {
		ds[impOnlyB].Important = true
		bv = blockVal(ds)
	}
	single := rel == "case" && r.Intn(2) == 0
	for try := 0; try < 20; try++ {
		var ch int
		in.B, ch, in.Note = bv.variantNote(r, rel != "ws", rel != "case", single)
		if ch > 0 && in.B != in.A {
			break
		}
	}
	return in
}

// regenSame produces another declaration of the same property
func regenSame(r *rand.Rand, name string) (declT, []string) {
	if _, ok := shorthands[name]; ok {
		sc := genShort(r, name)
		return declT{Name: name, V: sc.V}, sc.names()
	}
	return declT{Name: name, V: genLong(r, name)}, []string{name}
}

// ---- M3: shorthand = longhands -----------------------------------------------------------------

func genShorthandRel(r *rand.Rand) c08In {
	sc := genShort(r, "")
	// pre-block: the longhands already carry other values, which the shorthand must override
	// (an omitted part is reset to its initial value, not left alone)
	var pre []declT
	for _, l := range sc.Longs {
		if _, ok := longhands[l.Name]; ok && r.Intn(2) == 0 && !excludedReset(sc.Name, l.Name) {
			pre = append(pre, declT{Name: l.Name, V: genLong(r, l.Name)})
		}
	}
	important := r.Intn(6) == 0
	var longs []declT
	var expect []string
	for _, l := range sc.Longs {
		if excludedReset(sc.Name, l.Name) {
			continue
		}
		longs = append(longs, declT{Name: l.Name, V: l.V, Important: important})
		expect = append(expect, l.Name)
	}
	a := append(append([]declT{}, pre...), longs...)
	b := append(append([]declT{}, pre...), declT{Name: sc.Name, V: sc.V, Important: important})
	in := c08In{Rel: "short", Prop: sc.Name, A: blockText(a), B: blockText(b), Expect: expect, SameNames: true}
	if important {
		// a later normal rule that both spellings must beat
		var later []declT
		for _, n := range expect {
			if _, ok := longhands[n]; ok && r.Intn(2) == 0 {
				later = append(later, declT{Name: n, V: genLong(r, n)})
			}
		}
		in.After = blockText(later)
	}
	// universal keywords apply to every longhand
	if r.Intn(25) == 0 {
		k := kw(pick(r, "initial", "inherit"))
		a, b = append([]declT{}, pre...), append([]declT{}, pre...)
		for _, l := range sc.Longs {
			if !excludedReset(sc.Name, l.Name) {
				a = append(a, declT{Name: l.Name, V: k})
			}
		}
		b = append(b, declT{Name: sc.Name, V: k})
		in.A, in.B = blockText(a), blockText(b)
		in.PA = blockText(parentBlock(r, expect))
		in.PB = in.PA
	}
	return in
}

// parentBlock gives the parent element values for some of the names (so that inherit is observable)
func parentBlock(r *rand.Rand, names []string) []declT {
	var out []declT
	for _, n := range names {
		if _, ok := longhands[n]; ok && r.Intn(2) == 0 {
			out = append(out, declT{Name: n, V: genLong(r, n)})
		}
	}
	return out
}

// names lists the longhands the shorthand is expected to set (known-defect resets left out)
func (sc shortCase) names() []string {
	var names []string
	for _, l := range sc.Longs {
		if !excludedReset(sc.Name, l.Name) {
			names = append(names, l.Name)
		}
	}
	return names
}
