package c08

import (
	"fmt"
	"reflect"
	"sort"
	"strings"
	"sync"

	"github.com/benoitkugler/webrender/css/parser"
	pr "github.com/benoitkugler/webrender/css/properties"
	"github.com/benoitkugler/webrender/css/validation"
	"github.com/benoitkugler/webrender/html/tree"
	"github.com/benoitkugler/webrender/text"
	"github.com/benoitkugler/webrender/text/hyphen"
	"github.com/benoitkugler/webrender/utils"

	"verif/internal/csscmp"
	"verif/internal/wr"
)

const baseURL = "mem://doc/"

// --- observation point 1: validation.PreprocessDeclarations -----------------------------------

// decl is the comparable form of one validation.Declaration: positions are dropped from pending
// token lists (they legitimately differ between spellings), everything else is kept as produced.
type decl struct {
	Name      string
	Important bool
	Shorthand string
	Pending   bool
	Value     any // typed value, or []csscmp.Tok for pending / custom-property token lists
}

var cmpOpt = csscmp.Options{DropComments: true, MergeWS: true}

func declsOf(block string) []decl {
	toks := parser.Tokenize([]byte(block), false)
	ds := validation.PreprocessDeclarations(baseURL, parser.ParseBlocksContents(toks, false))
	out := make([]decl, 0, len(ds))
	for _, d := range ds {
		c := decl{Name: d.Name.String(), Important: d.Important}
		if d.Shortand != 0 {
			c.Shorthand = d.Shortand.String()
		}
		if rt, ok := d.Value.(pr.RawTokens); ok {
			c.Pending = true
			c.Value = csscmp.From([]parser.Token(rt), cmpOpt)
		} else {
			c.Value = d.Value
		}
		out = append(out, c)
	}
	return out
}

func fmtDecl(d decl) string {
	s := fmt.Sprintf("%s: %T %+v", d.Name, d.Value, d.Value)
	if d.Important {
		s += " !important"
	}
	if d.Shorthand != "" {
		s += " (pending " + d.Shorthand + ")"
	}
	return s
}

// diffDecls compares two declaration lists in order.
func diffDecls(a, b []decl) string {
	n := len(a)
	if len(b) > n {
		n = len(b)
	}
	for i := 0; i < n; i++ {
		switch {
		case i >= len(a):
			return fmt.Sprintf("declaration %d only in B: %s", i, fmtDecl(b[i]))
		case i >= len(b):
			return fmt.Sprintf("declaration %d only in A: %s", i, fmtDecl(a[i]))
		case !reflect.DeepEqual(a[i], b[i]):
			return fmt.Sprintf("declaration %d differs: A %s | B %s", i, fmtDecl(a[i]), fmtDecl(b[i]))
		}
	}
	return ""
}

// --- observation point 2: computed style of a probe element ------------------------------------

type tctx struct {
	fonts text.FontConfiguration
	hc    map[text.HyphenDictKey]hyphen.Hyphener
	sc    map[text.StrutLayoutKey][2]pr.Float
}

func (t *tctx) Fonts() text.FontConfiguration                          { return t.fonts }
func (t *tctx) HyphenCache() map[text.HyphenDictKey]hyphen.Hyphener    { return t.hc }
func (t *tctx) StrutLayoutsCache() map[text.StrutLayoutKey][2]pr.Float { return t.sc }

var (
	fontsOnce sync.Once
	fonts     text.FontConfiguration
	fontsErr  error
)

func newTextContext() (*tctx, error) {
	fontsOnce.Do(func() { fonts, fontsErr = wr.NewPangoConfig() })
	if fontsErr != nil {
		return nil, fontsErr
	}
	return &tctx{fonts: fonts, hc: map[text.HyphenDictKey]hyphen.Hyphener{}, sc: map[text.StrutLayoutKey][2]pr.Float{}}, nil
}

// probeDoc is the document whose <p> is the probe element.  bodyDecls style its parent, decls the
// probe itself, after a later rule of equal specificity.
func probeDoc(bodyDecls, decls, after string) string {
	return probeDocAt("sheet", bodyDecls, decls, after)
}

func attrEsc(s string) string {
	return strings.NewReplacer("&", "&amp;", "\"", "&quot;", "<", "&lt;", ">", "&gt;").Replace(s)
}

// probeDocAt writes the same declarations at another site of the cascade: "attr" puts them in the
// style attributes of <body> and <p> (no later rule possible there).
func probeDocAt(site, bodyDecls, decls, after string) string {
	if site == "attr" {
		return "<html><head></head><body style=\"" + attrEsc(bodyDecls) + "\"><p title=\"T\" lang=\"en\" href=\"#x\" style=\"" + attrEsc(decls) + "\"></p></body></html>"
	}
	var sb strings.Builder
	sb.WriteString("<html><head><style>\n")
	if bodyDecls != "" {
		sb.WriteString("body{" + bodyDecls + "}\n")
	}
	sb.WriteString("p{" + decls + "}\n")
	if after != "" {
		sb.WriteString("p{" + after + "}\n")
	}
	sb.WriteString("</style></head><body><p title=\"T\" lang=\"en\" href=\"#x\"></p></body></html>")
	return sb.String()
}

// computedStyle returns the computed value of every known property of the probe element.
func computedStyle(bodyDecls, decls, after string) ([]pr.CssProperty, error) {
	return computedStyleAt("sheet", bodyDecls, decls, after)
}

func computedStyleAt(site, bodyDecls, decls, after string) ([]pr.CssProperty, error) {
	html, err := tree.NewHTML(utils.InputString(probeDocAt(site, bodyDecls, decls, after)), baseURL, wr.MemFetcher(nil), "")
	if err != nil {
		return nil, err
	}
	tc, err := newTextContext()
	if err != nil {
		return nil, err
	}
	sf := tree.GetAllComputedStyles(html, nil, false, tc.fonts, nil, nil, nil, false, tc)
	var p *utils.HTMLNode
	for n := html.Root.FirstChild; n != nil; n = n.NextSibling {
		if n.Data == "body" {
			for c := n.FirstChild; c != nil; c = c.NextSibling {
				if c.Data == "p" {
					p = (*utils.HTMLNode)(c)
				}
			}
		}
	}
	if p == nil {
		return nil, fmt.Errorf("probe element not found")
	}
	st := sf.Get(p, "")
	if st == nil {
		return nil, fmt.Errorf("no style for probe element")
	}
	out := make([]pr.CssProperty, pr.NbProperties)
	for k := pr.KnownProp(1); k < pr.NbProperties; k++ {
		out[k] = st.Get(k.Key())
	}
	return out, nil
}

// diffStyles lists the properties whose computed values differ.
func diffStyles(a, b []pr.CssProperty) []string {
	var out []string
	for k := 1; k < len(a) && k < len(b); k++ {
		if !reflect.DeepEqual(a[k], b[k]) {
			out = append(out, fmt.Sprintf("%s: A %T %+v | B %T %+v", pr.KnownProp(k), a[k], a[k], b[k], b[k]))
		}
	}
	sort.Strings(out)
	return out
}

var (
	baseOnce  sync.Once
	baseStyle []pr.CssProperty
)

// baselineStyle is the computed style of the probe without any declaration.
func baselineStyle() []pr.CssProperty {
	baseOnce.Do(func() { baseStyle, _ = computedStyle("", "", "") })
	return baseStyle
}
