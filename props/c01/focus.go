package c01

import (
	"fmt"
	"math/rand"
	"strings"

	"verif/internal/gen"
)

// Focused small documents for two feature families the hostile grammar reaches too rarely:
//
//   - svg <use> reference graphs: a handful of identified containers (<g>, <symbol>, <svg>, inside or
//     outside <defs>) whose children are shapes and <use> references to random identifiers (self,
//     earlier, later, dangling), so that acyclic sharing, cycles of every length, and cycles met
//     after a terminating sibling <use> all occur; the svg is inline or loaded through <img>;
//   - table column-width mixes: tables with auto / fixed / percentage / tiny widths, under auto and
//     fixed layout, whose cells and <col>s mix percentage, fixed, zero and unspecified widths with
//     empty and non-empty content and column spans, in every order.
//
// The oracle is the crash / budget / page-loop monitor of the property; nothing here is specific to
// one code site.
func genFocus(r *rand.Rand, k int) input {
	if k%2 == 0 {
		return genUseGraph(r)
	}
	return genTableWidths(r)
}

func genUseGraph(r *rand.Rand) input {
	n := 1 + r.Intn(5)
	ids := make([]string, n)
	for i := range ids {
		ids[i] = fmt.Sprintf("n%d", i)
	}
	shape := func() string {
		return gen.Pick(r, []string{
			`<rect width="4" height="3" fill="red"/>`, `<circle cx="3" cy="3" r="2"/>`, `<path d="M0 0 L5 5 Z"/>`,
			`<text x="1" y="8">t</text>`, `<line x1="0" y1="0" x2="5" y2="5" stroke="blue"/>`,
		})
	}
	// edges[i] = identifiers referenced by container i, in document order; -1 = dangling
	edges := make([][]int, n)
	useAfterUse := false
	ref := func(t int) string {
		h := "#nope"
		if t >= 0 {
			h = "#" + ids[t]
		}
		attr := gen.Pick(r, []string{"href", "href", "xlink:href"})
		extra := gen.Pick(r, []string{"", "", ` x="2" y="1"`, ` transform="translate(1 1)"`, ` width="5" height="5"`})
		return fmt.Sprintf(`<use %s="%s"%s/>`, attr, h, extra)
	}
	var defs, body []string
	for i := 0; i < n; i++ {
		var ch []string
		nc := 1 + r.Intn(3)
		for c := 0; c < nc; c++ {
			if r.Intn(3) == 0 {
				ch = append(ch, shape())
				continue
			}
			t := r.Intn(n+1) - 1 // -1 dangling, else any identifier incl. itself
			if r.Intn(3) != 0 && t == -1 {
				t = r.Intn(n)
			}
			if len(edges[i]) > 0 {
				useAfterUse = true
			}
			edges[i] = append(edges[i], t)
			ch = append(ch, ref(t))
		}
		tag := gen.Pick(r, []string{"g", "g", "g", "symbol", "svg"})
		el := fmt.Sprintf(`<%s id="%s">%s</%s>`, tag, ids[i], strings.Join(ch, ""), tag)
		if r.Intn(2) == 0 {
			defs = append(defs, el)
		} else {
			body = append(body, el)
		}
	}
	nu := 1 + r.Intn(3)
	for u := 0; u < nu; u++ {
		body = append(body, ref(r.Intn(n)))
	}
	if r.Intn(2) == 0 {
		body = append(body, shape())
	}
	r.Shuffle(len(body), func(a, b int) { body[a], body[b] = body[b], body[a] })
	d := ""
	if len(defs) > 0 {
		d = "<defs>" + strings.Join(defs, "") + "</defs>"
	}
	inner := d + strings.Join(body, "")
	if r.Intn(4) == 0 { // definitions after their uses
		inner = strings.Join(body, "") + d
	}

	// cyclic: some identifier reaches itself
	cyclic := false
	for s := 0; s < n && !cyclic; s++ {
		seen := map[int]bool{}
		stack := append([]int{}, edges[s]...)
		for len(stack) > 0 {
			t := stack[len(stack)-1]
			stack = stack[:len(stack)-1]
			if t < 0 || seen[t] {
				continue
			}
			if t == s {
				cyclic = true
				break
			}
			seen[t] = true
			stack = append(stack, edges[t]...)
		}
	}

	doc := gen.Doc{}
	const head = `<!DOCTYPE html><html><head><style>@page { size: 200px 150px; margin: 5px } body { font: 10px/1.2 Ahem; margin: 0 }</style></head><body><p>before</p>`
	if r.Intn(3) == 0 {
		svg := `<svg xmlns="http://www.w3.org/2000/svg" xmlns:xlink="http://www.w3.org/1999/xlink" width="40" height="30" viewBox="0 0 40 30">` + inner + `</svg>`
		doc.Files = map[string]string{"g.svg": svg}
		doc.HTML = head + `<img src="mem://doc/g.svg"><p>after</p></body></html>`
	} else {
		doc.HTML = head + `<svg xmlns:xlink="http://www.w3.org/1999/xlink" width="40" height="30" viewBox="0 0 40 30">` + inner + `</svg><p>after</p></body></html>`
	}
	if r.Intn(5) == 0 {
		doc.Engine = "gotext"
	}
	tags := []string{"svg_use_graph"}
	if cyclic {
		tags = append(tags, "svg_use_cyclic")
	}
	if useAfterUse {
		tags = append(tags, "svg_use_after_use")
	}
	return input{Kind: "focus", Doc: doc, Tags: tags}
}

func genTableWidths(r *rand.Rand) input {
	ncol := 1 + r.Intn(5)
	nrow := 1 + r.Intn(3)
	width := func() (string, string) { // css value, class
		switch r.Intn(8) {
		case 0, 1:
			return fmt.Sprintf("%d%%", gen.Pick(r, []int{0, 10, 20, 50, 100, 150})), "pct"
		case 2, 3:
			return fmt.Sprintf("%dpx", gen.Pick(r, []int{0, 1, 20, 50, 300})), "fixed"
		case 4:
			return "auto", "free"
		default:
			return "", "free"
		}
	}
	tw := gen.Pick(r, []string{"", "500px", "500px", "100%", "30px", "0", "1000px", "auto"})
	var tstyle []string
	if tw != "" {
		tstyle = append(tstyle, "width:"+tw)
	}
	if r.Intn(5) == 0 {
		tstyle = append(tstyle, "table-layout:fixed")
	}
	if r.Intn(4) == 0 {
		tstyle = append(tstyle, "border-collapse:collapse")
	}
	if r.Intn(4) == 0 {
		tstyle = append(tstyle, "border-spacing:"+gen.Pick(r, []string{"0", "3px", "10px 0"}))
	}
	var b strings.Builder
	fmt.Fprintf(&b, `<table style="%s">`, strings.Join(tstyle, ";"))
	colKinds := make([]string, ncol) // kind of each column as set by the first row / cols
	if r.Intn(4) == 0 {
		b.WriteString("<colgroup>")
		for c := 0; c < ncol; c++ {
			w, k := width()
			if w != "" {
				fmt.Fprintf(&b, `<col style="width:%s">`, w)
			} else {
				b.WriteString("<col>")
			}
			colKinds[c] = k
		}
		b.WriteString("</colgroup>")
	}
	word := 0
	for y := 0; y < nrow; y++ {
		b.WriteString("<tr>")
		for c := 0; c < ncol; {
			span := 1
			if r.Intn(8) == 0 {
				span = 1 + r.Intn(ncol-c)
			}
			w, k := width()
			var st []string
			if w != "" {
				st = append(st, "width:"+w)
			}
			if r.Intn(8) == 0 {
				st = append(st, gen.Pick(r, []string{"min-width:80px", "max-width:10px", "padding:0 7px", "white-space:nowrap", "border:2px solid"}))
			}
			content := ""
			if r.Intn(4) != 0 {
				word++
				content = strings.Repeat("x", 1+r.Intn(6))
				if r.Intn(4) == 0 {
					content += " " + strings.Repeat("y", 1+r.Intn(12))
				}
			}
			tag := "td"
			if r.Intn(8) == 0 {
				tag = "th"
			}
			attr := ""
			if span > 1 {
				attr = fmt.Sprintf(` colspan="%d"`, span)
			}
			if len(st) > 0 {
				attr += fmt.Sprintf(` style="%s"`, strings.Join(st, ";"))
			}
			fmt.Fprintf(&b, "<%s%s>%s</%s>", tag, attr, content, tag)
			if span == 1 && colKinds[c] == "" || span == 1 && colKinds[c] == "free" && k != "free" {
				if content == "" && k == "fixed" {
					k = "fixed-empty"
				}
				colKinds[c] = k
			}
			c += span
		}
		b.WriteString("</tr>")
	}
	b.WriteString("</table>")

	doc := gen.Doc{HTML: `<!DOCTYPE html><html><head><style>@page { size: ` + gen.Pick(r, []string{"600px 300px", "200px 100px", "1200px 200px"}) +
		`; margin: 5px } body { font: 10px/1.2 Ahem; margin: 0 }</style></head><body><p>before</p>` + b.String() + `<p>after</p></body></html>`}
	if r.Intn(5) == 0 {
		doc.Engine = "gotext"
	}
	tags := []string{"table_width_mix"}
	free, pctThenFixed, seenNonFixed := false, false, false
	for _, k := range colKinds {
		switch k {
		case "free", "":
			free = true
			seenNonFixed = true
		case "fixed":
			if seenNonFixed {
				pctThenFixed = true
			}
		default:
			seenNonFixed = true
		}
	}
	if !free {
		tags = append(tags, "table_no_free_column")
	}
	if pctThenFixed {
		tags = append(tags, "table_pct_then_fixed")
	}
	return input{Kind: "focus", Doc: doc, Tags: tags}
}
