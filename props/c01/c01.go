// Package c01 — Rendering any document terminates without crashing.
//
// Monitors (DESIGN.md §6 C01): (1) crash monitor — a panic escaping NewHTML → Render → Write, a
// process-fatal error or a CPU/heap budget overrun (journal + exit status, internal/fw);
// (2) page-loop progress monitor on the layout.VerifPageHook observation point; (3) skip-not-abort
// monitor: a document with one injected invalid construct must still render every word of the
// base document and log a warning.
package c01

import (
	"encoding/json"
	"fmt"
	"math/rand"
	"regexp"
	"sort"
	"strings"

	"verif/internal/fw"
	"verif/internal/gen"
	"verif/internal/wr"
)

type input struct {
	Kind string  `json:"kind"` // "doc" | "skip"
	Doc  gen.Doc `json:"doc"`
	// skip-not-abort: the same document with one injected invalid construct
	Injected  *gen.Doc `json:"injected,omitempty"`
	Construct string   `json:"construct,omitempty"`
	// focus documents: sub-domain tags computed by the generator (evidence counters)
	Tags []string `json:"tags,omitempty"`
}

// stallLimit: number of consecutive page-loop iterations with an identical state that is taken as
// "the layout does not progress".
const stallLimit = wr.StallLimit

func counts(tier string) (docs, skips int) {
	if tier == "thorough" {
		return 60000, 8000
	}
	return 3000, 600
}

// focusCount: focused small documents of props/c01/focus.go (svg <use> reference graphs, table
// column-width mixes), appended after the hostile documents and the skip pairs so that the
// earlier cases keep their index and random stream.
func focusCount(tier string) int {
	if tier == "thorough" {
		return 6000
	}
	return 500
}

func init() {
	fw.Register(&fw.Prop{
		ID: "C01",
		Rule: "cases: (a) grammar-generated hostile HTML+CSS documents (<= 80 elements, depth <= 8, <= ~4 KiB; ~45 element kinds incl. tables/lists/forms/img/inline svg, 170 CSS properties with valid, boundary and invalid values, @page/@media/@counter-style/@font-face/@import, var() incl. cycles, RTL/CJK/soft-hyphen text, presentational attributes), rendered through NewHTML → Render → Write on the recording backend, pango engine or go-text engine chosen by the seed, hints on/off; " +
			"(c) focused small documents: svg <use> reference graphs (acyclic, cyclic, dangling; inline or as <img>) and tables mixing percentage / fixed / auto / empty columns under auto and fixed table widths; (b) skip-not-abort pairs: a base document of unique word tokens and the same document with one injected invalid construct. Non-trivial: the render completed and drew at least one text run (a) / both renders completed and the base drew >= 4 tokens (b); distinct = distinct input.",
		N: func(tier string) int { d, s := counts(tier); return d + s + focusCount(tier) },
		Gen: func(r *rand.Rand, i int, tier string) any {
			d, sk := counts(tier)
			if i >= d+sk {
				return genFocus(r, i-d-sk)
			}
			if i < d {
				doc := gen.HTMLDoc(r)
				if r.Intn(5) == 0 {
					doc.Engine = "gotext"
				}
				return input{Kind: "doc", Doc: doc}
			}
			return genSkip(r)
		},
		Check: check,
		Floor: func(tier string) int {
			if tier == "thorough" {
				return 40000
			}
			return 2000
		},
		CounterFloors: func(tier string) map[string]int64 {
			return map[string]int64{"docs_multi_page": 300, "pages": 5000, "draw_text_events": 10000, "skip_pairs_checked": 300, "engine_gotext": 100, "docs_degenerate-floats": 150, "docs_quote-stress": 150, "docs_collapsed-borders": 120, "docs_svg-stroke": 120,
				"focus_svg_use_graph": 150, "focus_svg_use_cyclic": 60, "focus_svg_use_after_use": 60, "focus_table_width_mix": 150, "focus_table_pct_then_fixed": 40, "focus_table_no_free_column": 40}
		},
		Assumptions: []string{
			"termination is decided as bounded progress: CPU budget of 120 s per bounded document (>= 40x the worst legitimate cost seen) and no " + fmt.Sprint(stallLimit) + " consecutive identical page-loop states; an unbounded 'eventually' is out of reach of runtime monitoring",
			"only documents produced by the generator grammar are explored",
		},
		Batch: 100,
	})
}

var tokRe = regexp.MustCompile(`w[0-9]+z`)

// render runs one document with the page-loop progress monitor of wr.Render.
func render(d gen.Doc, res *fw.Result) (r *wr.Rendered, stalled string, err error) {
	for _, fam := range []string{"degenerate-floats", "quote-stress", "collapsed-borders", "svg-stroke"} {
		if strings.Contains(d.HTML, "<!--gen:"+fam+"-->") {
			res.Count("docs_"+fam, 1)
		}
	}
	r, err = wr.Render(wr.Opts{HTML: d.HTML, UserCSS: d.UserCSS, Hints: d.Hints, Engine: d.Engine, Zoom: d.Zoom, Files: d.Files})
	res.Count("page_loop_iterations", int64(wr.PageLoopIterations))
	if s, ok := err.(*wr.StallError); ok {
		kind := s.Kind
		if kind == "content" && (strings.Contains(d.HTML, "<thead") || strings.Contains(d.HTML, "<tfoot") || strings.Contains(d.HTML, "table-header-group") || strings.Contains(d.HTML, "table-footer-group")) {
			// a repeated table header/footer group is in play: the identified trigger of finding
			// F-C01-page-loop-stall-repeated-table-group; other content stalls keep the plain signature
			kind = "content+repeated-table-group"
		}
		return r, kind + ": " + s.Msg, nil
	}
	return
}

func drawnTokens(r *wr.Rendered) []string {
	var out []string
	for _, e := range r.Rec.Events {
		if e.Op == "DrawText" {
			out = append(out, tokRe.FindAllString(e.S[0], -1)...)
		}
	}
	sort.Strings(out)
	return out
}

func check(raw json.RawMessage) fw.Result {
	var in input
	var res fw.Result
	if err := json.Unmarshal(raw, &in); err != nil {
		return fw.Result{Verdict: fw.Inconclusive, Msg: err.Error()}
	}
	r, stalled, err := render(in.Doc, &res)
	if stalled != "" {
		res.Fail("page-loop-stall:"+strings.SplitN(stalled, ":", 2)[0], stalled)
		return res
	}
	if err != nil {
		// an error value is a legitimate way to refuse an input (e.g. no root element)
		res.Count("render_errors", 1)
		if in.Kind == "skip" {
			res.Fail("skip-base-error", "base document failed to render: "+err.Error())
		}
		return res
	}
	np := len(r.Document.Pages)
	res.Count("pages", int64(np))
	if np >= 2 {
		res.Count("docs_multi_page", 1)
	}
	res.Count("warnings", int64(len(r.Warnings)))
	nText := 0
	for _, e := range r.Rec.Events {
		if e.Op == "DrawText" {
			nText++
		}
	}
	res.Count("draw_text_events", int64(nText))
	res.Count("backend_events", int64(len(r.Rec.Events)))
	if in.Doc.Engine == "gotext" {
		res.Count("engine_gotext", 1)
	} else {
		res.Count("engine_pango", 1)
	}
	for _, t := range in.Tags {
		res.Count("focus_"+t, 1)
	}
	if in.Kind == "doc" || in.Kind == "focus" {
		res.Nontrivial = nText > 0
		return res
	}

	// skip-not-abort
	base := drawnTokens(r)
	r2, stalled, err := render(*in.Injected, &res)
	if stalled != "" {
		res.Fail("page-loop-stall:"+strings.SplitN(stalled, ":", 2)[0], stalled)
		return res
	}
	if err != nil {
		res.Fail("skip-aborts", fmt.Sprintf("injecting %q made the render fail: %v", in.Construct, err))
		return res
	}
	got := drawnTokens(r2)
	if strings.Join(base, " ") != strings.Join(got, " ") {
		res.Fail("skip-not-abort", fmt.Sprintf("injecting one invalid construct (%s) changed the rendered words: base drew %v, with the construct %v", in.Construct, base, got))
		return res
	}
	if len(r2.Warnings) <= len(r.Warnings) {
		res.Fail("skip-no-warning", fmt.Sprintf("invalid construct (%s) was skipped without a logged warning (base %d warnings, injected %d)", in.Construct, len(r.Warnings), len(r2.Warnings)))
		return res
	}
	res.Count("skip_pairs_checked", 1)
	res.Count("construct_"+strings.SplitN(in.Construct, ":", 2)[0], 1)
	res.Nontrivial = len(base) >= 4
	return res
}

// ---- skip-not-abort generator ----

func genSkip(r *rand.Rand) input {
	id := 0
	tok := func() string { id++; return fmt.Sprintf("w%dz", id) }
	toks := func(n int) string {
		var p []string
		for i := 0; i < n; i++ {
			p = append(p, tok())
		}
		return strings.Join(p, " ")
	}
	nblocks := 3 + r.Intn(5)
	var blocks []string
	for i := 0; i < nblocks; i++ {
		cls := fmt.Sprintf("k%d", i)
		switch r.Intn(5) {
		case 0:
			blocks = append(blocks, fmt.Sprintf(`<ul class="%s"><li>%s</li><li>%s</li></ul>`, cls, toks(2), toks(2)))
		case 1:
			blocks = append(blocks, fmt.Sprintf(`<table class="%s"><tr><td>%s</td><td>%s</td></tr></table>`, cls, toks(1), toks(2)))
		case 2:
			blocks = append(blocks, fmt.Sprintf(`<div class="%s"><span>%s</span> <b>%s</b></div>`, cls, toks(2), toks(1)))
		default:
			blocks = append(blocks, fmt.Sprintf(`<p class="%s">%s</p>`, cls, toks(2+r.Intn(4))))
		}
	}
	hidden := r.Intn(nblocks)
	// rules of the author sheet; the construct is injected at a random position between them
	rules := []string{
		"body { font: 10px/1.2 Ahem; margin: 0 }",
		"p { margin: 2px 0 }",
		fmt.Sprintf(".k%d { display: none }", hidden),
		"td { padding: 1px }",
		fmt.Sprintf(".k%d { color: blue }", r.Intn(nblocks)),
	}
	page := gen.Pick(r, []string{"@page { size: 300px 200px; margin: 10px }", "@page { size: 200px 60px; margin: 5px }", "@page { size: 400px 400px; margin: 0 }"})
	build := func(rules []string, pageRule string, blocks []string, imports string) string {
		return "<!DOCTYPE html><html><head><style>" + imports + pageRule + "\n" + strings.Join(rules, "\n") + "</style></head><body>" + strings.Join(blocks, "\n") + "</body></html>"
	}
	baseHTML := build(rules, page, blocks, "")

	pos := r.Intn(len(rules)) // the construct goes before rules[pos] (never after the last rule only)
	insRule := func(s string) []string {
		out := append([]string{}, rules[:pos]...)
		out = append(out, s)
		return append(out, rules[pos:]...)
	}
	insDecl := func(decl string) []string {
		// put an invalid declaration in the middle of an existing rule's block
		out := append([]string{}, rules...)
		k := r.Intn(len(out))
		out[k] = strings.Replace(out[k], "{ ", "{ "+decl+"; ", 1)
		return out
	}
	b := r.Intn(nblocks)
	for b == hidden { // the carrier of an injected resource must be displayed, or it is never loaded
		b = r.Intn(nblocks)
	}
	blocks2 := append([]string{}, blocks...)
	var injHTML, construct string
	switch r.Intn(12) {
	case 0:
		d := gen.Pick(r, []string{"bogus-property: 1", "-x-unknown: a b c", "colour: red"})
		injHTML, construct = build(insDecl(d), page, blocks, ""), "unknown-property:"+d
	case 1:
		d := gen.Pick(r, []string{"width: bogus", "color: notacolor", "margin: 1px 2px 3px 4px 5px", "display: ruby-text", "font-size: -3px", "border: 1px bogus", "transform: spin(3)", "content: counter()", "grid-template-columns: repeat()"})
		injHTML, construct = build(insDecl(d), page, blocks, ""), "invalid-value:"+d
	case 2:
		s := gen.Pick(r, []string{"@bogus { p { display: none } }", "@unknown x y { .k0 { display: none } }", "@supports (x) { }", "@-x-bogus { }"})
		injHTML, construct = build(insRule(s), page, blocks, ""), "unknown-at-rule:"+s
	case 3:
		s := gen.Pick(r, []string{"p..x { display: none }", "p:unknown-pseudo { display: none }", "div >> p { display: none }", "p[x=] { display: none }", "p::bogus { display: none }", ":nth-child(x) { display: none }"})
		injHTML, construct = build(insRule(s), page, blocks, ""), "bad-selector:"+s
	case 4:
		s := gen.Pick(r, []string{"p { : red }", "p { color red }", "p { color: red; ; : ; }", "p { 1px }", "p { !important }"})
		injHTML, construct = build(insRule(s), page, blocks, ""), "malformed-declaration:"+s
	case 5:
		blocks2[b] = strings.Replace(blocks2[b], ">", `><img src="mem://doc/missing.png">`, 1)
		injHTML, construct = build(rules, page, blocks2, ""), "broken-img:"
	case 6:
		svg := gen.Pick(r, []string{`<svg width="10" height="10"><path d="M0 0 L"/></svg>`, `<svg width="10" height="10"><rect width="x" height="5" transform="bogus(1)"/></svg>`, `<svg width="10" height="10"><use href="#nope"/></svg>`})
		blocks2 = append(blocks2, svg)
		injHTML, construct = build(rules, page, blocks2, ""), "malformed-svg:"+svg
	case 7:
		injHTML, construct = build(rules, page, blocks, `@import url(mem://doc/missing.css);`), "import-missing:"
	case 8:
		s := gen.Pick(r, []string{"@page :bogus { size: 10px }", "@page :nth(x) { margin: 50px }", "@page 1a { size: 5px }"})
		injHTML, construct = build(insRule(s), page, blocks, ""), "bad-page-selector:"+s
	case 9:
		s := gen.Pick(r, []string{"@font-face { font-family: x }", "@font-face { src: url(mem://doc/missing.ttf) }", "@font-face { font-family: x; src: bogus }"})
		injHTML, construct = build(insRule(s), page, blocks, ""), "bad-font-face:"+s
	case 10:
		s := gen.Pick(r, []string{"@counter-style { system: cyclic }", "@counter-style decimal { system: cyclic; symbols: a }", "@counter-style q { system: bogus }"})
		injHTML, construct = build(insRule(s), page, blocks, ""), "bad-counter-style:"+s
	default:
		d := gen.Pick(r, []string{"bogus: 1", "width: bogus"})
		blocks2[b] = strings.Replace(blocks2[b], " class=", ` style="`+d+`" class=`, 1)
		injHTML, construct = build(rules, page, blocks2, ""), "invalid-style-attribute:"+d
	}
	base := gen.Doc{HTML: baseHTML}
	inj := gen.Doc{HTML: injHTML}
	return input{Kind: "skip", Doc: base, Injected: &inj, Construct: construct}
}
