//go:build pC17 || pall

package props

import _ "verif/props/c17"
