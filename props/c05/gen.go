package c05

import (
	"math/rand"
	"strings"
	"sync"
	"unicode"
)

// ---------------------------------------------------------------------------------------------
// generator-side DOM

type gnode struct {
	kind  nodeKind // kElement, kText, kComment
	tag   string
	attrs []rattr
	text  string
	kids  []*gnode
}

func escAttr(s string) string {
	s = strings.ReplaceAll(s, "&", "&amp;")
	s = strings.ReplaceAll(s, "\"", "&quot;")
	// a literal CR would be normalised to LF by the HTML input stream; the character reference survives
	s = strings.ReplaceAll(s, "\r", "&#13;")
	return s
}

func escText(s string) string {
	s = strings.ReplaceAll(s, "&", "&amp;")
	s = strings.ReplaceAll(s, "<", "&lt;")
	return s
}

func (n *gnode) write(b *strings.Builder) {
	switch n.kind {
	case kText:
		b.WriteString(escText(n.text))
	case kComment:
		b.WriteString("<!--" + n.text + "-->")
	case kElement:
		b.WriteString("<" + n.tag)
		for _, a := range n.attrs {
			b.WriteString(" " + a.k + "=\"" + escAttr(a.v) + "\"")
		}
		b.WriteString(">")
		for _, k := range n.kids {
			k.write(b)
		}
		b.WriteString("</" + n.tag + ">")
	}
}

func (n *gnode) countElems() int {
	if n.kind != kElement {
		return 0
	}
	c := 1
	for _, k := range n.kids {
		c += k.countElems()
	}
	return c
}

var (
	tagPool    = []string{"div", "div", "span", "x-a", "x-a", "x-b", "section", "em"}
	classPool  = []string{"c", "c", "d", "d", "e", "C", "1a", "a.b", "é", "-x", "c-d", "x", "\U0001d4b3", "c\u0001", "-1"}
	idPool     = []string{"i", "i", "j", "I", "1", "x:y", "é", "c\td"}
	attrNames  = []string{"k", "k", "k", "k", "data-k", "a.b"}
	valuePool  = []string{"", "c", "c", "C", "d", "cd", "dc", "c-d", "c d", " c", "d c ", "c\td", " ", "  ", "é", "c.d", "cdc", "-c", "d  c", "k", "s", "cé", "c\"d", "c\\d", "c\nd", "\u00a0", "\u3000 ", "c\rd", "d\r\nc"}
	classSeps  = []string{" ", " ", "  ", "\t", "\n", " \f", "\r", "\f", "\r\n"}
	wsTexts    = []string{" ", "\n", "\t \n", "\f", "  "}
	plainTexts = []string{"t", "x y", " t ", "0"}
	oddWSTexts = []string{"\u00a0", "\v", "\u0085", " \u00a0  ", "\u2003", "\u3000", " \u2028", "\u1680", "\u200b", "\ufeff", "\x1c", "\u202f\n"}
)

func pick(r *rand.Rand, l []string) string { return l[r.Intn(len(l))] }

// ---------------------------------------------------------------------------------------------
// pseudo-spaces: code points that are NOT white space for CSS / HTML (only SPACE, TAB, LF, FF, CR
// are), but that a careless implementation treats as such:
//   - everything Go's unicode.IsSpace / strings.Fields / strings.TrimSpace call white space
//     (U+000B, U+0085, U+00A0, U+1680, U+2000–U+200A, U+2028, U+2029, U+202F, U+205F, U+3000),
//   - the information separators U+001C–U+001F (white space for Python's str.split and Java),
//   - invisible look-alikes: U+180E, U+200B ZERO WIDTH SPACE, U+FEFF.
// Inside an attribute value they are ordinary characters of a word; inside a class name / operand
// they are ordinary characters of the name.

func isCSSSpaceRune(c rune) bool { return c == ' ' || c == '\t' || c == '\n' || c == '\f' || c == '\r' }

// isGoSpaceNotCSS: white space for Go's unicode tables, not for CSS.
func isGoSpaceNotCSS(c rune) bool { return unicode.IsSpace(c) && !isCSSSpaceRune(c) }

var pseudoSpaces = func() []string {
	var out []string
	for c := rune(1); c <= 0xffff; c++ {
		if isGoSpaceNotCSS(c) {
			out = append(out, string(c))
		}
	}
	if len(out) != 20 {
		panic("c05: unexpected unicode.IsSpace table")
	}
	return append(out, "\x1c", "\x1d", "\x1e", "\x1f", "\u180e", "\u200b", "\ufeff")
}()

// hasPseudoSpace: s contains one of the characters above.
func hasPseudoSpace(s string) bool {
	for _, c := range s {
		if c == '\v' || (c >= 0x1c && c <= 0x1f) || (c >= 0x80 && (isGoSpaceNotCSS(c) || c == 0x180e || c == 0x200b || c == 0xfeff)) {
			return true
		}
	}
	return false
}

// pickPS: NO-BREAK SPACE (what real documents contain) four times out of ten, else any pseudo-space.
func pickPS(r *rand.Rand) string {
	if r.Intn(10) < 4 {
		return "\u00a0"
	}
	return pick(r, pseudoSpaces)
}

// psCommon: the names both sides (attribute values and selectors) draw from half of the time, so that
// a class selector / ~= operand holding a pseudo-space does meet an element having exactly that word.
var psCommon = []string{"c\u00a0d", "c\u00a0d", "c\u00a0", "\u00a0d", "\u00a0", "c\u2003d", "c\vd", "d\u0085c", "c\u3000", "c\u200bd", "c\x1cd", "\ufeffc", "C\u00a0D"}

// psName returns ONE word (no CSS white space) containing a pseudo-space: w<ps>w, <ps>w, w<ps>, <ps>.
func psName(r *rand.Rand, words []string) string {
	switch x := r.Intn(100); {
	case x < 50:
		return pick(r, psCommon)
	case x < 80:
		return pick(r, words) + pickPS(r) + pick(r, words)
	case x < 88:
		return pickPS(r) + pick(r, words)
	case x < 96:
		return pick(r, words) + pickPS(r)
	default:
		return pickPS(r)
	}
}

// psValue returns an attribute value of 1-3 words separated by real (CSS) white space, at least one of
// which holds a pseudo-space: "c\u00a0d" (one word, not two), "c\u00a0 d" (words "c\u00a0" and "d"),
// "c \u00a0 d" (three words) ...
func psValue(r *rand.Rand, words []string) string {
	n := 1 + r.Intn(3)
	special := r.Intn(n)
	var sb strings.Builder
	if r.Intn(8) == 0 {
		sb.WriteString(pick(r, classSeps))
	}
	for i := 0; i < n; i++ {
		if i > 0 {
			sb.WriteString(pick(r, classSeps))
		}
		if i == special || r.Intn(4) == 0 {
			sb.WriteString(psName(r, words))
		} else {
			sb.WriteString(pick(r, words))
		}
	}
	if r.Intn(8) == 0 {
		sb.WriteString(pick(r, classSeps))
	}
	return sb.String()
}

var (
	psWordsRich  = []string{"c", "c", "d", "d", "C", "e", "cd", "é", "k"}
	psWordsPlain = []string{"c", "c", "d"}
	// the forms the exhaustive selector alphabet looks for (.c\a0 d, [k~="c\a0 d"])
	psFixedPlain = []string{"c\u00a0d", "c\u00a0d", "c\u00a0d c", "d\tc\u00a0d", "c\u00a0d\rd"}
)

// psAttrValue: an attribute value (class or word list) with pseudo-spaces.  plain = for the trees of
// the exhaustive part, whose selector alphabet is small: half of the values are the fixed forms that
// alphabet looks for.
func psAttrValue(r *rand.Rand, rich bool) string {
	if rich {
		return psValue(r, psWordsRich)
	}
	if r.Intn(2) == 0 {
		return pick(r, psFixedPlain)
	}
	return psValue(r, psWordsPlain)
}

// kValue: value of a k / data-k / a.b attribute.
func kValue(r *rand.Rand, rich bool) string {
	switch {
	case rich && r.Intn(100) < 12, !rich && r.Intn(100) < 9:
		return psAttrValue(r, rich)
	case rich:
		return pick(r, valuePool)
	}
	return pick(r, []string{"", "c", "C", "c d", "c-d", "dc", "cd", "d", "k", " c", "d\rc"})
}

// randAttrs gives an element its class / id / k / data-k attributes.
func randAttrs(r *rand.Rand, rich bool) []rattr {
	var out []rattr
	if r.Intn(100) < 60 {
		if (rich && r.Intn(100) < 14) || (!rich && r.Intn(100) < 10) {
			// class list whose "separators" are partly pseudo-spaces: "c\u00a0d" is ONE class name
			out = append(out, rattr{"class", psAttrValue(r, rich)})
		} else {
			n := 1 + r.Intn(3)
			var sb strings.Builder
			if r.Intn(8) == 0 {
				sb.WriteString(pick(r, classSeps))
			}
			for i := 0; i < n; i++ {
				if i > 0 {
					sb.WriteString(pick(r, classSeps))
				}
				if rich {
					sb.WriteString(pick(r, classPool))
				} else {
					sb.WriteString(pick(r, []string{"c", "d", "c", "d", "1a"}))
				}
			}
			if r.Intn(8) == 0 {
				sb.WriteString(pick(r, classSeps))
			}
			out = append(out, rattr{"class", sb.String()})
		}
	} else if r.Intn(20) == 0 {
		out = append(out, rattr{"class", pick(r, []string{"", " ", "\u00a0", "\r"})})
	}
	if r.Intn(100) < 30 {
		switch {
		case rich && r.Intn(100) < 8:
			// an ID is the attribute value verbatim: no trimming, no splitting
			out = append(out, rattr{"id", pick(r, []string{" i", "i ", "i\u00a0", "\u00a0i", "i\u00a0j", "i j", "i\u2003", "\vi"})})
		case rich:
			out = append(out, rattr{"id", pick(r, idPool)})
		default:
			out = append(out, rattr{"id", pick(r, []string{"i", "i", "j"})})
		}
	}
	if r.Intn(100) < 55 {
		out = append(out, rattr{"k", kValue(r, rich)})
	}
	if rich && r.Intn(100) < 20 {
		out = append(out, rattr{"data-k", kValue(r, rich)})
	}
	if rich && r.Intn(100) < 12 {
		out = append(out, rattr{"a.b", kValue(r, rich)})
	}
	if len(out) > 1 && r.Intn(2) == 0 {
		r.Shuffle(len(out), func(i, j int) { out[i], out[j] = out[j], out[i] })
	}
	return out
}

// filler returns 0..2 non-element nodes for a gap between element children.
func filler(r *rand.Rand) []*gnode {
	var out []*gnode
	for k := 0; k < 2; k++ {
		switch x := r.Intn(100); {
		case x < 55:
			return out
		case x < 70:
			out = append(out, &gnode{kind: kText, text: pick(r, wsTexts)})
		case x < 80:
			if r.Intn(100) < 30 {
				// not document white space: U+00A0, U+000B, U+0085 count as content for :empty
				out = append(out, &gnode{kind: kText, text: pick(r, oddWSTexts)})
			} else {
				out = append(out, &gnode{kind: kText, text: pick(r, plainTexts)})
			}
		default:
			out = append(out, &gnode{kind: kComment, text: pick(r, []string{"", "c", " div "})})
		}
	}
	return out
}

// interleave inserts text and comment nodes between (and around) the element children of every
// element, and inside leaves.
func interleave(r *rand.Rand, n *gnode) {
	if n.kind != kElement {
		return
	}
	var kids []*gnode
	kids = append(kids, filler(r)...)
	for _, k := range n.kids {
		interleave(r, k)
		kids = append(kids, k)
		kids = append(kids, filler(r)...)
	}
	n.kids = kids
}

// randForest builds a random forest with at most budget element nodes.
func randForest(r *rand.Rand, budget int, depth int) []*gnode {
	var out []*gnode
	for budget > 0 {
		if len(out) > 0 && r.Intn(100) < 22 {
			break
		}
		n := &gnode{kind: kElement, tag: pick(r, tagPool), attrs: randAttrs(r, true)}
		budget--
		if budget >= 2 && r.Intn(100) < 4 {
			// foreign content: <svg> holding an <html> element (not the root!) and custom elements.
			// Only tag names that do not make the HTML parser break out of foreign content are used.
			n.tag = "svg"
			for k := 0; k < 3 && budget > 0; k++ {
				kid := &gnode{kind: kElement, tag: pick(r, []string{"html", "html", "x-a", "x-b"}), attrs: randAttrs(r, true)}
				budget--
				if budget > 0 && r.Intn(3) == 0 {
					kid.kids = append(kid.kids, &gnode{kind: kElement, tag: pick(r, []string{"html", "x-a"}), attrs: randAttrs(r, true)})
					budget--
				}
				n.kids = append(n.kids, kid)
			}
			out = append(out, n)
			continue
		}
		if depth < 5 && budget > 0 && r.Intn(100) < 55 {
			sub := r.Intn(budget + 1)
			n.kids = randForest(r, sub, depth+1)
			for _, k := range n.kids {
				budget -= k.countElems()
			}
		}
		out = append(out, n)
		if len(out) >= 7 {
			break
		}
	}
	return out
}

// document wraps a forest into a complete HTML document.
func document(r *rand.Rand, forest []*gnode, plain bool) string {
	var b strings.Builder
	b.WriteString("<!DOCTYPE html>")
	if !plain && r.Intn(6) == 0 {
		b.WriteString("<!--before root-->")
	}
	b.WriteString("<html")
	if !plain && r.Intn(4) == 0 {
		b.WriteString(" class=\"" + pick(r, []string{"c", "d", "c d"}) + "\"")
	}
	b.WriteString("><head>")
	if !plain && r.Intn(4) == 0 {
		b.WriteString("<meta k=\"c\">")
	}
	if !plain && r.Intn(6) == 0 {
		b.WriteString("<title>t</title>")
	}
	b.WriteString("</head>")
	if !plain && r.Intn(6) == 0 {
		b.WriteString("\n")
	}
	b.WriteString("<body")
	if !plain && r.Intn(4) == 0 {
		b.WriteString(" id=\"" + pick(r, []string{"i", "j"}) + "\"")
	}
	if !plain && r.Intn(4) == 0 {
		b.WriteString(" k=\"" + escAttr(pick(r, valuePool)) + "\"")
	}
	b.WriteString(">")
	for _, n := range forest {
		n.write(&b)
	}
	b.WriteString("</body></html>")
	return b.String()
}

// ---------------------------------------------------------------------------------------------
// exhaustive tree shapes: every ordered forest with n nodes × every labelling over two tag names

type shape struct{ kids []shape }

var forestMemo = map[int][][]shape{}

func forestsOf(n int) [][]shape {
	if n == 0 {
		return [][]shape{nil}
	}
	if f, ok := forestMemo[n]; ok {
		return f
	}
	var out [][]shape
	for k := 1; k <= n; k++ { // the first tree has k nodes
		for _, sub := range forestsOf(k - 1) {
			for _, rest := range forestsOf(n - k) {
				f := append([]shape{{kids: sub}}, rest...)
				out = append(out, f)
			}
		}
	}
	forestMemo[n] = out
	return out
}

type exhTree struct {
	n      int
	forest []shape
	labels int // bit i = tag of the i-th node in preorder
}

var (
	exhTreesOnce sync.Once
	exhTrees5    []exhTree // <= 5 nodes
	exhTrees6    []exhTree // <= 6 nodes
)

func exhTreeList(tier string) []exhTree {
	exhTreesOnce.Do(func() {
		for n := 1; n <= 6; n++ {
			for _, f := range forestsOf(n) {
				for l := 0; l < 1<<n; l++ {
					t := exhTree{n: n, forest: f, labels: l}
					exhTrees6 = append(exhTrees6, t)
					if n <= 5 {
						exhTrees5 = append(exhTrees5, t)
					}
				}
			}
		}
	})
	if tier == "thorough" {
		return exhTrees6
	}
	return exhTrees5
}

var exhTags = [2]string{"div", "x-a"}

func (t exhTree) build(r *rand.Rand) []*gnode {
	i := 0
	var rec func(s []shape) []*gnode
	rec = func(s []shape) []*gnode {
		var out []*gnode
		for _, sh := range s {
			n := &gnode{kind: kElement, tag: exhTags[(t.labels>>i)&1], attrs: randAttrs(r, false)}
			i++
			n.kids = rec(sh.kids)
			out = append(out, n)
		}
		return out
	}
	return rec(t.forest)
}

// ---------------------------------------------------------------------------------------------
// exhaustive selector sets (deterministic, independent of the seed)

func cx1(s ...Simple) Complex { return Complex{C: []Compound{{S: s}}} }

func ty(n string) Simple               { return Simple{K: "type", N: n} }
func cl(n string) Simple               { return Simple{K: "class", N: n} }
func idS(n string) Simple              { return Simple{K: "id", N: n} }
func at(n, op, v string) Simple        { return Simple{K: "attr", N: n, Op: op, V: v} }
func pc(n string) Simple               { return Simple{K: "pc", N: n} }
func nth(n string, a, b int) Simple    { return Simple{K: "nth", N: n, A: a, B: b} }
func lg(k string, a ...Complex) Simple { return Simple{K: k, Args: a} }

var nthNames = []string{"nth-child", "nth-last-child", "nth-of-type", "nth-last-of-type"}

func exhTypes() []Simple { return []Simple{{K: "univ"}, ty("div"), ty("x-a")} }

func exhOthers() []Simple {
	ci := at("k", "=", "C")
	ci.I = true
	ciOp := func(op, v string) Simple {
		s := at("k", op, v)
		s.I = true
		return s
	}
	return []Simple{
		ciOp("~=", "C"), ciOp("|=", "C"), ciOp("^=", "C"), ciOp("$=", "C"), ciOp("*=", "D"),
		// forms on which the pinned tree diverged (fixed since; kept in the exhaustive alphabet)
		ciOp("=", "\u212a"), at("k", "^=", ""), at("k", "~=", ""), Simple{K: "never", N: "hover"}, lg("not", cx1(Simple{K: "never", N: "hover"})),
		cl("1a"), at("k", "=", "c\"d"),
		// word splitting: NO-BREAK SPACE is not a separator, "c\u00a0d" is one class name / one word
		cl("c\u00a0d"), at("k", "~=", "c\u00a0d"),
		cl("c"), cl("d"), idS("i"), idS("j"),
		at("k", "", ""), at("k", "=", "c"), at("k", "~=", "c"), at("k", "|=", "c"), at("k", "^=", "c"), at("k", "$=", "c"), at("k", "*=", "c"),
		ci, at("k", "=", ""), at("k", "|=", ""), at("k", "~=", "d"),
		pc("first-child"), pc("last-child"), pc("only-child"), pc("first-of-type"), pc("last-of-type"), pc("only-of-type"), pc("root"), pc("empty"),
		nth("nth-child", 2, 1), nth("nth-child", -1, 2), nth("nth-last-child", 0, 2), nth("nth-of-type", 2, 0), nth("nth-last-of-type", -2, 3), nth("nth-child", 1, 2),
		lg("not", cx1(ty("div"))), lg("not", cx1(cl("c"))), lg("is", cx1(ty("div")), cx1(cl("c"))), lg("has", cx1(ty("div"))), lg("has", cx1(cl("c"))),
		lg("not", cx1(pc("first-child"))), lg("not", cx1(ty("div")), cx1(cl("c"))), lg("not", cx1(lg("has", cx1(ty("x-a"))))), lg("has", cx1(pc("empty"))),
		lg("is", Complex{C: []Compound{{S: []Simple{ty("div")}}, {S: []Simple{cl("c")}}}, Comb: []string{">"}}),
		lg("not", Complex{C: []Compound{{S: []Simple{cl("c")}}, {S: []Simple{{K: "univ"}}}}, Comb: []string{"+"}}),
	}
}

// reduced sets for the larger products
func exhReduced() []Simple {
	return []Simple{
		cl("c"), idS("i"), at("k", "", ""), at("k", "~=", "c"), at("k", "|=", "c"),
		pc("first-child"), pc("last-of-type"), pc("only-child"), pc("empty"),
		nth("nth-child", 2, 1), nth("nth-last-child", -1, 2), nth("nth-of-type", 0, 2),
		lg("not", cx1(cl("c"))), lg("is", cx1(ty("div")), cx1(cl("d"))), lg("has", cx1(ty("x-a"))), lg("not", cx1(ty("div")), cx1(cl("c"))),
	}
}

func exhCompoundsForComplex() []Compound {
	var out []Compound
	for _, s := range []Simple{{K: "univ"}, ty("div"), ty("x-a"), cl("c"), cl("d"), idS("i"), at("k", "", ""), at("k", "=", "c"),
		pc("first-child"), pc("last-child"), pc("only-of-type"), pc("empty"), pc("root"),
		nth("nth-child", 2, 0), nth("nth-last-of-type", 0, 1),
		lg("not", cx1(ty("div"))), lg("has", cx1(cl("c"))), lg("is", cx1(cl("c")), cx1(idS("i")))} {
		out = append(out, Compound{S: []Simple{s}})
	}
	out = append(out, Compound{S: []Simple{ty("div"), cl("c")}}, Compound{S: []Simple{ty("x-a"), pc("first-child")}})
	return out
}

type exhSel struct {
	list []Complex
	text string
}

var (
	exhSetMu sync.Mutex
	exhSets  = map[string][]exhSel{}
)

// exhSelectorSet returns the selector set "q" (quick) or "t" (thorough).
func exhSelectorSet(name string) []exhSel {
	exhSetMu.Lock()
	defer exhSetMu.Unlock()
	if s, ok := exhSets[name]; ok {
		return s
	}
	var out []exhSel
	add := func(l ...Complex) {
		out = append(out, exhSel{list: l, text: printList(nil, l)})
	}
	types, others := exhTypes(), exhOthers()
	// one simple selector
	for _, s := range types {
		add(cx1(s))
	}
	for _, s := range others {
		add(cx1(s))
	}
	// two simple selectors
	for _, t := range types {
		for _, s := range others {
			add(cx1(t, s))
		}
	}
	for _, s1 := range others {
		for _, s2 := range others {
			add(cx1(s1, s2))
		}
	}
	// the whole an+b square, alone and after a type selector
	for _, n := range nthNames {
		for a := -4; a <= 4; a++ {
			for b := -4; b <= 4; b++ {
				add(cx1(nth(n, a, b)))
				add(cx1(ty("div"), nth(n, a, b)))
				if name == "t" {
					add(cx1(ty("x-a"), nth(n, a, b)))
					add(cx1(lg("not", cx1(nth(n, a, b)))))
				}
			}
		}
	}
	// two compounds and a combinator
	cc := exhCompoundsForComplex()
	for _, c1 := range cc {
		for _, c2 := range cc {
			for _, cb := range []string{" ", ">", "+", "~"} {
				add(Complex{C: []Compound{c1, c2}, Comb: []string{cb}})
			}
		}
	}
	// selector lists and pseudo-elements
	for _, s1 := range exhReduced() {
		add(cx1(s1), cx1(ty("x-a")))
		add(Complex{C: []Compound{{S: []Simple{s1}, PE: "before"}}})
	}
	if name == "t" {
		// three simple selectors
		for _, t := range types {
			for _, s1 := range others {
				for _, s2 := range others {
					add(cx1(t, s1, s2))
				}
			}
		}
		red := exhReduced()
		for _, s1 := range red {
			for _, s2 := range red {
				for _, s3 := range red {
					add(cx1(s1, s2, s3))
				}
			}
		}
		// three compounds, two combinators
		c3 := []Compound{{S: []Simple{{K: "univ"}}}, {S: []Simple{ty("div")}}, {S: []Simple{ty("x-a")}}, {S: []Simple{cl("c")}},
			{S: []Simple{pc("first-child")}}, {S: []Simple{at("k", "", "")}}, {S: []Simple{lg("not", cx1(cl("c")))}}, {S: []Simple{nth("nth-child", 2, 0)}}}
		combs := []string{" ", ">", "+", "~"}
		for _, a := range c3 {
			for _, b := range c3 {
				for _, c := range c3 {
					for _, k1 := range combs {
						for _, k2 := range combs {
							add(Complex{C: []Compound{a, b, c}, Comb: []string{k1, k2}})
						}
					}
				}
			}
		}
	}
	exhSets[name] = out
	return out
}

// ---------------------------------------------------------------------------------------------
// random selectors

var (
	selClassPool = []string{"c", "c", "d", "d", "e", "C", "a.b", "é", "-x", "c-d", "zz", "x", "\U0001d4b3", "1a", "1a", "-1", "c\td", "c\u0001", "c\nd", "\u007f"}
	selIDPool    = []string{"i", "i", "j", "I", "1", "x:y", "é", "zz", "c\td", "c\u0001"}
	selTagPool   = []string{"div", "div", "span", "x-a", "x-a", "x-b", "section", "em", "body", "html", "zz", "svg", "x-a\u00a0"}
	operandPool  = []string{"c", "c", "d", "C", "cd", "dc", "c-d", "c d", "-", "c-", " c", "d ", "é", "c.d", ".", "D", "zz", "cdc", "c\"d", "c\\d", "c\nd", "\"", "c'd\"", "\\", "\u00c9", "\u212a", "\u017f", "c\u00c9", "k", "s", "K", "S"}
	pcNames      = []string{"first-child", "last-child", "only-child", "first-of-type", "last-of-type", "only-of-type"}
	peNames      = []string{"before", "after", "first-line", "first-letter", "marker", "selection", "placeholder", "backdrop", "cue", "grammar-error", "spelling-error", "footnote-call", "footnote-marker"}
	neverNames   = []string{"hover", "visited", "active", "focus", "target"}
	attrOps      = []string{"", "=", "~=", "|=", "^=", "$=", "*="}
)

// sgen generates random selectors.  The kd* switches enable the feature combinations on which the
// tree is still known to diverge from the specification (see notes/C05.md); they are only set in
// report-only cases.
type sgen struct {
	r *rand.Rand
	// docWords: the words holding a pseudo-space that occur in the attribute values of the case's
	// document; names / operands with a pseudo-space are drawn from them half of the time, so that such
	// selectors do match something
	docWords     []string
	kdAttrBlank  bool // ^= $= *= with a white-space-only (non-empty) operand, against blank values
	kdHasComplex bool // :has() whose argument contains a descendant or child combinator
}

// psWord: a name / operand holding a pseudo-space.
func (g *sgen) psWord() string {
	if len(g.docWords) > 0 && g.r.Intn(2) == 0 {
		return pick(g.r, g.docWords)
	}
	return psName(g.r, psWordsRich)
}

// collectPSWords lists the white-space-separated words with a pseudo-space of all attribute values.
func collectPSWords(forest []*gnode) []string {
	var out []string
	var rec func(n *gnode)
	rec = func(n *gnode) {
		for _, a := range n.attrs {
			if hasPseudoSpace(a.v) {
				for _, w := range splitASCIIWS(a.v) {
					if hasPseudoSpace(w) {
						out = append(out, w)
					}
				}
			}
		}
		for _, k := range n.kids {
			rec(k)
		}
	}
	for _, n := range forest {
		rec(n)
	}
	return out
}

func wsOnly(s string) bool {
	for i := 0; i < len(s); i++ {
		if !isASCIIWS(s[i]) {
			return false
		}
	}
	return true
}

func (g *sgen) attrSimple() Simple {
	r := g.r
	s := Simple{K: "attr", N: pick(r, attrNames), Op: attrOps[r.Intn(len(attrOps))]}
	if r.Intn(12) == 0 {
		s.N = pick(r, []string{"class", "id", "zz"})
	}
	if s.Op == "" {
		return s
	}
	for {
		switch x := r.Intn(100); {
		case x < 8, s.Op == "~=" && x < 25:
			// an operand containing a pseudo-space: one word for ~=, ordinary characters for the others
			s.V = g.psWord()
		case x < 70:
			s.V = pick(r, operandPool)
		case x < 88:
			s.V = pick(r, valuePool)
		default:
			s.V = pick(r, []string{"", "", " ", "  "}) // empty operand: represents nothing for ~= ^= $= *=
		}
		if g.kdAttrBlank {
			if r.Intn(3) != 0 {
				s.Op = pick(r, []string{"^=", "$=", "*="})
				s.V = pick(r, []string{" ", " ", "  ", " ", "\t", " \n"})
			}
			break
		}
		// open defect (attr-blank-value-substring; attr-blank-value-unicode-space is fixed, b812b56): the
		// three substring operators refuse every attribute value made of CSS white space only; only an
		// operand that is itself CSS white space can occur in such a value, so exactly those operands
		// stay out of the asserted domain
		if (s.Op == "^=" || s.Op == "$=" || s.Op == "*=") && s.V != "" && strings.Trim(s.V, " \t\n\f\r") == "" {
			continue
		}
		break
	}
	if r.Intn(100) < 25 {
		s.I = true
		if !g.kdAttrBlank && r.Intn(5) == 0 {
			// letters whose Unicode case folding reaches ASCII or Latin-1 letters: É, KELVIN SIGN, LONG S
			s.V = pick(r, []string{"\u00c9", "\u212a", "\u017f", "c\u00c9", "K", "S"})
		}
	}
	return s
}

func (g *sgen) simple(depth int) Simple {
	r := g.r
	for {
		switch x := r.Intn(100); {
		case x < 18:
			if r.Intn(100) < 9 {
				return cl(g.psWord()) // ".c\a0 d": one class name
			}
			return cl(pick(r, selClassPool))
		case x < 26:
			if r.Intn(100) < 8 {
				return idS(pick(r, []string{" i", "i ", "i\u00a0", "\u00a0i", "i\u00a0j", "i j", "i\u2003", "\vi"}))
			}
			return idS(pick(r, selIDPool))
		case x < 48:
			return g.attrSimple()
		case x < 60:
			a, b := r.Intn(9)-4, r.Intn(9)-4
			if r.Intn(10) == 0 {
				a, b = r.Intn(25)-12, r.Intn(41)-20
			}
			return nth(nthNames[r.Intn(4)], a, b)
		case x < 70:
			return pc(pick(r, pcNames))
		case x < 73:
			return pc("root")
		case x < 79:
			return pc("empty")
		case x < 97:
			if depth >= 2 {
				continue
			}
			k := pick(r, []string{"not", "not", "is", "is", "has"})
			n := 1
			if r.Intn(100) < 45 {
				n = 2 + r.Intn(2)
			}
			var args []Complex
			for i := 0; i < n; i++ {
				args = append(args, g.complex(depth+1, k == "has", k == "has"))
			}
			return lg(k, args...)
		default:
			// user-action / history pseudo-classes: never match in a static document, weigh (0,1,0)
			return Simple{K: "never", N: pick(r, neverNames)}
		}
	}
}

func (g *sgen) compound(depth int) Compound {
	r := g.r
	var c Compound
	switch x := r.Intn(100); {
	case x < 45:
		c.S = append(c.S, ty(pick(r, selTagPool)))
	case x < 55:
		c.S = append(c.S, Simple{K: "univ"})
	}
	n := 0
	switch x := r.Intn(100); {
	case x < 40:
		n = 0
	case x < 85:
		n = 1
	default:
		n = 2
	}
	if len(c.S) == 0 && n == 0 {
		n = 1
	}
	for i := 0; i < n; i++ {
		c.S = append(c.S, g.simple(depth))
	}
	return c
}

// complex generates a complex selector.  inHas: the selector is an argument of :has() – nested
// :has() is invalid there, and (unless kdHasComplex) only sibling combinators are used so that the
// scope boundary cannot decide the result.
func (g *sgen) complex(depth int, inHas bool, noHas bool) Complex {
	r := g.r
	n := 1
	switch x := r.Intn(100); {
	case x < 40:
		n = 1
	case x < 80:
		n = 2
	default:
		n = 3
	}
	if depth > 0 && r.Intn(2) == 0 {
		n = 1
	}
	var cx Complex
	for i := 0; i < n; i++ {
		var c Compound
		for {
			c = g.compound(depth)
			if noHas && containsKind([]Complex{{C: []Compound{c}}}, "has") {
				continue
			}
			break
		}
		cx.C = append(cx.C, c)
		if i > 0 {
			cb := pick(r, []string{" ", " ", ">", ">", "+", "~"})
			if inHas && !g.kdHasComplex {
				cb = pick(r, []string{"+", "~"})
			}
			if inHas && g.kdHasComplex {
				cb = pick(r, []string{" ", ">"})
			}
			cx.Comb = append(cx.Comb, cb)
		}
	}
	return cx
}

func containsKind(l []Complex, kind string) bool {
	found := false
	for i := range l {
		walkSimples(&l[i], func(s *Simple, _ int) {
			if s.K == kind {
				found = true
			}
		})
	}
	return found
}

// list generates a selector list (1–3 complex selectors), some with a pseudo-element.
func (g *sgen) list() []Complex {
	r := g.r
	n := 1
	if r.Intn(100) < 25 {
		n = 2 + r.Intn(2)
	}
	var out []Complex
	for i := 0; i < n; i++ {
		cx := g.complex(0, false, false)
		if r.Intn(100) < 12 {
			last := &cx.C[len(cx.C)-1]
			last.PE = pick(r, peNames)
			if r.Intn(4) == 0 && len(cx.C) == 1 {
				last.S = nil // "::before" alone
			}
		}
		out = append(out, cx)
	}
	return out
}
