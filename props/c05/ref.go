package c05

import (
	"fmt"
	"strings"

	"golang.org/x/net/html"
)

// Reference model: an own document tree (re-read from the parsed *html.Node, so that whatever the
// HTML parser did to the generated text is what both sides see) and a selector evaluator written
// from Selectors Level 4 (and HTML's "matching HTML elements using selectors"), working on the
// generator's AST.  It shares no code with css/selector.

type nodeKind uint8

const (
	kDocument nodeKind = iota
	kDoctype
	kElement
	kText
	kComment
	kOther
)

type rattr struct{ k, v string }

type rnode struct {
	kind     nodeKind
	name     string // element local name (as the HTML parser produced it)
	ns       string
	attrs    []rattr
	text     string // text / comment data
	parent   *rnode
	children []*rnode
	src      *html.Node
	index    int // position in the flat node list
}

// buildTree copies the parsed document; the returned slice lists every node in document order.
func buildTree(doc *html.Node) (*rnode, []*rnode) {
	var all []*rnode
	var rec func(n *html.Node, parent *rnode) *rnode
	rec = func(n *html.Node, parent *rnode) *rnode {
		r := &rnode{parent: parent, src: n, index: len(all)}
		all = append(all, r)
		switch n.Type {
		case html.DocumentNode:
			r.kind = kDocument
		case html.DoctypeNode:
			r.kind = kDoctype
		case html.ElementNode:
			r.kind = kElement
			r.name = n.Data
			r.ns = n.Namespace
			for _, a := range n.Attr {
				if a.Namespace == "" {
					r.attrs = append(r.attrs, rattr{a.Key, a.Val})
				}
			}
		case html.TextNode:
			r.kind = kText
			r.text = n.Data
		case html.CommentNode:
			r.kind = kComment
			r.text = n.Data
		default:
			r.kind = kOther
		}
		for c := n.FirstChild; c != nil; c = c.NextSibling {
			r.children = append(r.children, rec(c, r))
		}
		return r
	}
	root := rec(doc, nil)
	return root, all
}

func (n *rnode) attr(name string) (string, bool) {
	for _, a := range n.attrs {
		if a.k == name {
			return a.v, true
		}
	}
	return "", false
}

// path describes a node for witness messages.
func (n *rnode) path() string {
	if n == nil {
		return "<nil>"
	}
	var parts []string
	for c := n; c != nil; c = c.parent {
		var s string
		switch c.kind {
		case kDocument:
			s = "#document"
		case kDoctype:
			s = "#doctype"
		case kText:
			s = fmt.Sprintf("#text(%q)", c.text)
		case kComment:
			s = fmt.Sprintf("#comment(%q)", c.text)
		case kElement:
			s = c.name
			for _, a := range c.attrs {
				s += fmt.Sprintf("[%s=%q]", a.k, a.v)
			}
		default:
			s = "#other"
		}
		if c.parent != nil {
			k := 0
			for i, sib := range c.parent.children {
				if sib == c {
					k = i
				}
			}
			s += fmt.Sprintf("@%d", k)
		}
		parts = append([]string{s}, parts...)
	}
	return strings.Join(parts, " / ")
}

// ---------------------------------------------------------------------------------------------

func lowerASCII(s string) string {
	bs := []byte(s)
	for i, c := range bs {
		if 'A' <= c && c <= 'Z' {
			bs[i] = c + 32
		}
	}
	return string(bs)
}

// HTML "ASCII whitespace" = document white space of HTML documents.
func isASCIIWS(c byte) bool { return c == ' ' || c == '\t' || c == '\n' || c == '\f' || c == '\r' }

func splitASCIIWS(s string) []string {
	var out []string
	start := -1
	for i := 0; i < len(s); i++ {
		if isASCIIWS(s[i]) {
			if start >= 0 {
				out = append(out, s[start:i])
				start = -1
			}
		} else if start < 0 {
			start = i
		}
	}
	if start >= 0 {
		out = append(out, s[start:])
	}
	return out
}

func hasASCIIWS(s string) bool {
	for i := 0; i < len(s); i++ {
		if isASCIIWS(s[i]) {
			return true
		}
	}
	return false
}

// evidence the evaluator collects on the way (what the run really exercised)
type refStats struct {
	adjAcrossNonElem    int // "+" matched although a text/comment node lies between the two elements
	sibAcrossNonElem    int // "~" matched across at least one text/comment node
	nthNegATrue         int // :nth-*(an+b) with a<0 evaluated to true
	nthPosATrue         int // … with a>0 evaluated to true for n >= 1
	nthOfTypeSkipped    int // an of-type index that differs from the plain child index was used and matched
	nthWithNonElemSib   int // nth-* true on an element having text/comment siblings before it
	emptyTrueWS         int // :empty true with white-space-only text child
	emptyTrueComment    int // :empty true with comment child
	emptyTrueNone       int // :empty true with no child at all
	emptyFalseText      int // :empty false because of a non-white-space text child
	emptyFalseElem      int // :empty false because of an element child
	hasScopeDecided     int // :has(): a candidate was rejected only by the scope boundary
	rootTrue            int
	iflagFolded         int // i flag made the difference
	emptyFalseOddSpace  int // :empty false only because of U+00A0 / U+000B / U+0085 … (Go's TrimSpace would say blank)
	rootFalseNestedHTML int // :root false on an element named html that is not the root (inside <svg>)
	iflagUnicodeOnly    int // i flag: values equal under Unicode folding but not under ASCII folding => no match
	// word lists (class selector, ~=): which separator delimited the matching word, and the cases
	// that distinguish CSS white space from a wider notion of white space
	wordDelim            [5]int // the matching word is delimited (before or after) by SPACE, TAB, LF, FF, CR
	wordWholeValue       int    // the matching word is the whole attribute value
	wordPseudoTrue       int    // true, but false if Go-only white space (U+00A0, U+000B, U+2003 ...) also separated words
	wordPseudoFalse      int    // false, but true if Go-only white space also separated words
	wordLookalikeInMatch int    // true on a word containing U+001C-U+001F / U+180E / U+200B / U+FEFF
	idEdgeSpaceFalse     int    // #x false although the ID equals x after trimming white space
	notListMixed         int    // :not(A, B …) evaluated on an element matching some but not all arguments
	isListMixed          int    // :is(A, B …) likewise
}

type matcher struct {
	st *refStats
}

// eqVal compares attribute values: identical, or equal under ASCII case folding with the i flag.
func (m *matcher) eqVal(a, b string, ci bool) bool {
	if a == b {
		return true
	}
	if ci && lowerASCII(a) == lowerASCII(b) {
		m.st.iflagFolded++
		return true
	}
	if ci && strings.EqualFold(a, b) {
		m.st.iflagUnicodeOnly++ // evidence only: Unicode folding is NOT what the i flag means
	}
	return false
}

// wordMatch: is word one of the white-space-separated words of v?  (word is not empty and holds no
// CSS white space.)  The words are delimited by the five CSS / HTML white space characters only.
func (m *matcher) wordMatch(v, word string, ci bool) bool {
	res := false
	start := -1
	for i := 0; i <= len(v); i++ {
		if i < len(v) && !isASCIIWS(v[i]) {
			if start < 0 {
				start = i
			}
			continue
		}
		if start >= 0 {
			if m.eqVal(v[start:i], word, ci) {
				res = true
				if start == 0 && i == len(v) {
					m.st.wordWholeValue++
				}
				if start > 0 {
					m.st.wordDelim[wsIndex(v[start-1])]++
				}
				if i < len(v) {
					m.st.wordDelim[wsIndex(v[i])]++
				}
				break
			}
			start = -1
		}
	}
	// evidence only: would a splitter that also breaks at Go's other white space characters
	// (strings.Fields) have answered differently?
	if mayHoldPseudoSpace(v) || mayHoldPseudoSpace(word) {
		alt := false
		for _, t := range strings.Fields(v) {
			if t == word || (ci && lowerASCII(t) == lowerASCII(word)) {
				alt = true
			}
		}
		switch {
		case res && !alt:
			m.st.wordPseudoTrue++
		case !res && alt:
			m.st.wordPseudoFalse++
		}
		if res && strings.ContainsAny(word, "\x1c\x1d\x1e\x1f\u180e\u200b\ufeff") {
			m.st.wordLookalikeInMatch++
		}
	}
	return res
}

func wsIndex(c byte) int {
	switch c {
	case ' ':
		return 0
	case '\t':
		return 1
	case '\n':
		return 2
	case '\f':
		return 3
	case '\r':
		return 4
	}
	panic("c05: not a white space character")
}

// mayHoldPseudoSpace: cheap filter (a vertical tab, an information separator or any non-ASCII byte).
func mayHoldPseudoSpace(s string) bool {
	for i := 0; i < len(s); i++ {
		if c := s[i]; c >= 0x80 || c == '\v' || (c >= 0x1c && c <= 0x1f) {
			return true
		}
	}
	return false
}

func (m *matcher) elementIndex(e *rnode, fromEnd, ofType bool) (idx int, sawNonElem bool, plainIdx int) {
	p := e.parent
	if p == nil {
		return 1, false, 1
	}
	sibs := p.children
	count, plain := 0, 0
	if !fromEnd {
		for _, s := range sibs {
			if s.kind != kElement {
				sawNonElem = true
				continue
			}
			plain++
			if !ofType || (s.name == e.name && s.ns == e.ns) {
				count++
			}
			if s == e {
				return count, sawNonElem, plain
			}
		}
	} else {
		for i := len(sibs) - 1; i >= 0; i-- {
			s := sibs[i]
			if s.kind != kElement {
				sawNonElem = true
				continue
			}
			plain++
			if !ofType || (s.name == e.name && s.ns == e.ns) {
				count++
			}
			if s == e {
				return count, sawNonElem, plain
			}
		}
	}
	panic("c05: element is not among its parent's children")
}

// nthMatches: is there an n >= 0 with a*n + b == idx ?  (literal search, no arithmetic shortcuts)
func nthMatches(a, b, idx int) (bool, int) {
	for n := 0; n <= 4096; n++ {
		v := a*n + b
		if v == idx {
			return true, n
		}
		if a > 0 && v > idx {
			break
		}
		if a < 0 && v < 1 {
			break
		}
		if a == 0 {
			break
		}
	}
	return false, 0
}

func (m *matcher) simple(s *Simple, e *rnode) bool {
	switch s.K {
	case "univ":
		return true
	case "type":
		// HTML element in an HTML document: the selector is compared ASCII-case-insensitively,
		// i.e. lower-cased against the (lower-case) local name
		return e.name == lowerASCII(s.N)
	case "class":
		// HTML: the element's classes are the attribute value split on ASCII whitespace
		v, ok := e.attr("class")
		if !ok {
			return false
		}
		return m.wordMatch(v, s.N, false)
	case "id":
		// the element's ID is the attribute value, verbatim
		v, ok := e.attr("id")
		if ok && v != s.N && strings.TrimSpace(v) == strings.TrimSpace(s.N) {
			m.st.idEdgeSpaceFalse++ // evidence only
		}
		return ok && v == s.N
	case "attr":
		v, ok := e.attr(lowerASCII(s.N))
		if !ok {
			return false
		}
		switch s.Op {
		case "":
			return true
		case "=":
			return m.eqVal(v, s.V, s.I)
		case "~=":
			// "a whitespace-separated list of words, one of which is exactly" the operand; an operand that
			// is empty or contains white space represents nothing.  White space = SPACE, TAB, LF, CR, FF.
			if s.V == "" || hasASCIIWS(s.V) {
				return false
			}
			return m.wordMatch(v, s.V, s.I)
		case "|=":
			if m.eqVal(v, s.V, s.I) {
				return true
			}
			return len(v) > len(s.V) && v[len(s.V)] == '-' && m.eqVal(v[:len(s.V)], s.V, s.I)
		case "^=":
			return s.V != "" && len(v) >= len(s.V) && m.eqVal(v[:len(s.V)], s.V, s.I)
		case "$=":
			return s.V != "" && len(v) >= len(s.V) && m.eqVal(v[len(v)-len(s.V):], s.V, s.I)
		case "*=":
			if s.V == "" {
				return false
			}
			for i := 0; i+len(s.V) <= len(v); i++ {
				if m.eqVal(v[i:i+len(s.V)], s.V, s.I) {
					return true
				}
			}
			return false
		}
		panic("c05: unknown attribute operator " + s.Op)
	case "never":
		return false
	case "pc":
		switch s.N {
		case "root":
			if e.parent != nil && e.parent.kind == kDocument {
				m.st.rootTrue++
				return true
			}
			if e.name == "html" {
				m.st.rootFalseNestedHTML++
			}
			return false
		case "empty":
			sawWS, sawComment := false, false
			for _, c := range e.children {
				switch c.kind {
				case kElement:
					m.st.emptyFalseElem++
					return false
				case kText:
					for i := 0; i < len(c.text); i++ {
						if !isASCIIWS(c.text[i]) {
							m.st.emptyFalseText++
							if strings.TrimSpace(c.text) == "" {
								m.st.emptyFalseOddSpace++
							}
							return false
						}
					}
					if len(c.text) > 0 {
						sawWS = true
					}
				case kComment:
					sawComment = true
				}
			}
			switch {
			case sawWS:
				m.st.emptyTrueWS++
			case sawComment:
				m.st.emptyTrueComment++
			default:
				m.st.emptyTrueNone++
			}
			return true
		case "first-child":
			return m.nth(e, 0, 1, false, false)
		case "last-child":
			return m.nth(e, 0, 1, true, false)
		case "first-of-type":
			return m.nth(e, 0, 1, false, true)
		case "last-of-type":
			return m.nth(e, 0, 1, true, true)
		case "only-child":
			return m.nth(e, 0, 1, false, false) && m.nth(e, 0, 1, true, false)
		case "only-of-type":
			return m.nth(e, 0, 1, false, true) && m.nth(e, 0, 1, true, true)
		}
		panic("c05: unknown pseudo-class " + s.N)
	case "nth":
		switch s.N {
		case "nth-child":
			return m.nth(e, s.A, s.B, false, false)
		case "nth-last-child":
			return m.nth(e, s.A, s.B, true, false)
		case "nth-of-type":
			return m.nth(e, s.A, s.B, false, true)
		case "nth-last-of-type":
			return m.nth(e, s.A, s.B, true, true)
		}
		panic("c05: unknown nth pseudo-class " + s.N)
	case "is", "not":
		// every argument is evaluated (no short cut) so that the evidence can say how often the
		// arguments disagreed, i.e. how often "any" and "all" differ
		nTrue := 0
		for i := range s.Args {
			if m.complex(&s.Args[i], e, nil) {
				nTrue++
			}
		}
		if nTrue > 0 && nTrue < len(s.Args) {
			if s.K == "not" {
				m.st.notListMixed++
			} else {
				m.st.isListMixed++
			}
		}
		if s.K == "is" {
			return nTrue > 0 // matches any of the arguments
		}
		return nTrue == 0 // :not(): matches none of the arguments
	case "has":
		// :has(<relative-selector-list>) with the implied descendant combinator: e matches when some
		// element d exists such that ":scope <arg>" matches d with :scope = e, i.e. d and every
		// element the argument's compounds are matched against are descendants of e.
		var found bool
		var walk func(n *rnode)
		walk = func(n *rnode) {
			for _, c := range n.children {
				if found {
					return
				}
				if c.kind != kElement {
					continue
				}
				for i := range s.Args {
					if m.complex(&s.Args[i], c, e) {
						found = true
						return
					}
				}
				walk(c)
			}
		}
		walk(e)
		return found
	}
	panic("c05: unknown simple selector kind " + s.K)
}

func (m *matcher) nth(e *rnode, a, b int, fromEnd, ofType bool) bool {
	idx, sawNonElem, plain := m.elementIndex(e, fromEnd, ofType)
	ok, n := nthMatches(a, b, idx)
	if ok {
		if a < 0 {
			m.st.nthNegATrue++
		}
		if a > 0 && n >= 1 {
			m.st.nthPosATrue++
		}
		if sawNonElem {
			m.st.nthWithNonElemSib++
		}
		if ofType && plain != idx {
			m.st.nthOfTypeSkipped++
		}
	}
	return ok
}

func (m *matcher) compound(c *Compound, e *rnode) bool {
	for i := range c.S {
		if !m.simple(&c.S[i], e) {
			return false
		}
	}
	return true
}

func isProperDescendant(e, scope *rnode) bool {
	for p := e.parent; p != nil; p = p.parent {
		if p == scope {
			return true
		}
	}
	return false
}

// complex: does the complex selector match element e?  With scope != nil the selector is a
// relative selector anchored at scope by a descendant combinator (":scope <sel>").
func (m *matcher) complex(cx *Complex, e *rnode, scope *rnode) bool {
	if e.kind != kElement {
		return false
	}
	var rec func(i int, e *rnode) bool
	rec = func(i int, e *rnode) bool {
		if !m.compound(&cx.C[i], e) {
			return false
		}
		if i == 0 {
			if scope == nil {
				return true
			}
			if isProperDescendant(e, scope) {
				return true
			}
			m.st.hasScopeDecided++
			return false
		}
		switch cx.Comb[i-1] {
		case " ":
			for p := e.parent; p != nil && p.kind == kElement; p = p.parent {
				if rec(i-1, p) {
					return true
				}
			}
			return false
		case ">":
			p := e.parent
			return p != nil && p.kind == kElement && rec(i-1, p)
		case "+", "~":
			if e.parent == nil {
				return false
			}
			sibs := e.parent.children
			pos := -1
			for k, s := range sibs {
				if s == e {
					pos = k
				}
			}
			crossed := false
			for k := pos - 1; k >= 0; k-- {
				s := sibs[k]
				if s.kind != kElement {
					crossed = true
					continue
				}
				if rec(i-1, s) {
					if crossed {
						if cx.Comb[i-1] == "+" {
							m.st.adjAcrossNonElem++
						} else {
							m.st.sibAcrossNonElem++
						}
					}
					return true
				}
				if cx.Comb[i-1] == "+" {
					return false // only the nearest preceding element counts
				}
			}
			return false
		}
		panic("c05: unknown combinator " + cx.Comb[i-1])
	}
	return rec(len(cx.C)-1, e)
}
