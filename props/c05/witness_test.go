package c05

import (
	"encoding/json"
	"os"
	"path/filepath"
	"testing"

	"verif/internal/fw"
)

// Development tool: (re)writes the witness files of the genuine defects described in notes/C05.md.
//
//	C05_WRITE_WITNESSES=/verif/findings/C05 go test -tags "verif pC05" -run TestWitnesses ./props/c05/
//
// Without the variable the test checks that the witnesses of open findings are still violations and
// that those of fixed findings pass, on the tree the test binary was built against.

func docOf(body string) string {
	return "<!DOCTYPE html><html><head></head><body>" + body + "</body></html>"
}

type witness struct {
	// open: the defect is still in /repo (the witness must be a violation); otherwise it has been
	// fixed there and the witness must pass (it is part of the regression corpus of known_findings.json)
	open            bool
	name, msg, html string
	sels            [][]Complex
	texts           []string // optional explicit spellings (same length as sels)
}

func cxN(combs []string, c ...Compound) Complex { return Complex{C: c, Comb: combs} }
func cp(s ...Simple) Compound                   { return Compound{S: s} }

func atI(n, op, v string) Simple {
	s := at(n, op, v)
	s.I = true
	return s
}

func witnesses() []witness {
	return []witness{
		{
			name: "attr-empty-operand",
			msg:  "[k^=\"\"], [k$=\"\"], [k*=\"\"] match every element with a non-blank k attribute and [k~=\"\"] matches values with leading/double white space; Selectors 4 §6.1/6.2: with an empty operand these selectors represent nothing",
			html: docOf(`<div k="c"></div><div k=" c"></div><div k=""></div><div></div>`),
			sels: [][]Complex{{cx1(at("k", "^=", ""))}, {cx1(at("k", "$=", ""))}, {cx1(at("k", "*=", ""))}, {cx1(at("k", "~=", ""))}},
		},
		{
			open: true,
			name: "attr-blank-value-substring",
			msg:  "[k^=\" \"] / [k$=\" \"] / [k*=\" \"] do not match k=\" \" (the code refuses any white-space-only attribute value instead of an empty operand); Selectors 4 §6.2: the value begins with / ends with / contains the operand",
			html: docOf(`<div k=" "></div><div k="  "></div><div k="c"></div>`),
			sels: [][]Complex{{cx1(at("k", "^=", " "))}, {cx1(at("k", "$=", " "))}, {cx1(at("k", "*=", " "))}},
		},
		{
			open: true,
			name: "attr-blank-value-unicode-space",
			msg:  "[k^=\"\\a0 \"] / [k$=\"\\a0 \"] / [k*=\"\\a0 \"] do not match k=\"&nbsp;\" and [k*=\"\\3000 \"] does not match k=\"&#x3000; \": attributePrefixMatch / SuffixMatch / SubstringMatch refuse every attribute value that strings.TrimSpace finds blank, and TrimSpace also strips U+00A0, U+000B, U+0085, U+2000-U+200A, U+3000 ..., which are ordinary characters for CSS; Selectors 4 §6.2: the value begins with / ends with / contains the (non-empty) operand",
			html: docOf("<div k=\"\u00a0\"></div><div k=\"\u3000 \"></div><div k=\"c\"></div>"),
			sels: [][]Complex{{cx1(at("k", "^=", "\u00a0"))}, {cx1(at("k", "$=", "\u00a0"))}, {cx1(at("k", "*=", "\u00a0"))}, {cx1(at("k", "*=", "\u3000"))}},
		},
		{
			open: true,
			name: "has-relative-scope",
			msg:  "div:has(div span) matches a div that merely contains a span (the argument's leftmost compound is matched against the :has() element itself and its ancestors); Selectors 4 §4.5: the argument is a relative selector, i.e. ':scope div span' — every compound must match a descendant of the anchor",
			html: docOf(`<div><span></span></div>`),
			sels: [][]Complex{{cx1(ty("div"), lg("has", cxN([]string{" "}, cp(ty("div")), cp(ty("span")))))}, {cx1(ty("div"), lg("has", cxN([]string{">"}, cp(ty("div")), cp(ty("span")))))}},
		},
		{
			name: "never-match-pseudo-class-specificity",
			msg:  ":hover / :visited / :active / :focus / :target have specificity (0,0,0) instead of (0,1,0) (Selectors 4 §17: count pseudo-classes in B); observable through div:not(:hover), which matches every div with specificity (0,0,1) instead of (0,1,1)",
			html: docOf(`<div></div><span></span>`),
			sels: [][]Complex{{cx1(ty("div"), lg("not", cx1(Simple{K: "never", N: "hover"})))}, {cx1(Simple{K: "never", N: "visited"})}},
		},
		{
			name: "empty-non-ascii-space",
			msg:  ":empty treats U+00A0, U+0085 and U+000B text as white space (strings.TrimSpace); Selectors 4 §13.2 + HTML: only document white space (TAB, LF, FF, CR, SPACE) is ignored",
			html: docOf("<div> </div><div>\v</div><div> </div><div>t</div>"),
			sels: [][]Complex{{cx1(pc("empty"))}},
		},
		{
			name: "iflag-unicode-folding",
			msg:  "[k=\"K\" i] (KELVIN SIGN) matches k=\"k\", [k=\"É\" i] matches k=\"é\", [k^=\"K\" i] matches k=\"k\" (strings.EqualFold / ToLower: Unicode folding); Selectors 4 §6.3: the i flag compares ASCII-case-insensitively",
			html: docOf(`<div k="k"></div><div k="é"></div><div k="s"></div>`),
			sels: [][]Complex{{cx1(atI("k", "=", "\u212a"))}, {cx1(atI("k", "=", "\u00c9"))}, {cx1(atI("k", "^=", "\u212a"))}},
		},
		{
			name: "string-class-leading-digit",
			msg:  "String() of the class selector .\\31 a is \".1a\", which ParseGroup rejects (serialize.go escapes punctuation only, not a leading digit)",
			html: docOf(`<div class="1a"></div><div class="a"></div>`),
			sels: [][]Complex{{cx1(cl("1a"))}},
		},
		{
			name: "string-attr-value-quote",
			msg:  "String() of [k=\"c\\\"d\"] is [k=\"c\"d\"] (attribute operands are printed between quotes without escaping \" and \\): it no longer parses",
			html: docOf(`<div k="c&quot;d"></div><div k="c"></div>`),
			sels: [][]Complex{{cx1(at("k", "=", `c"d`))}, {cx1(at("k", "=", `c\d`))}},
		},
		{
			name: "string-name-control-char",
			msg:  "String() of .c\\9 d (class containing a TAB) is \".c<TAB>d\", which re-parses as the descendant selector '.c d'",
			html: docOf("<div class=\"c\"><div class=\"d\"></div></div>"),
			sels: [][]Complex{{cx1(cl("c\td"))}},
		},
		{
			name:  "comment-inside-compound",
			msg:   "div/**/.c is parsed as the descendant selector 'div .c' (skipWhitespace treats a comment as white space); CSS Syntax 3 §4: comments produce no token, so this is the compound selector div.c (html/tree parses style sheets with comments kept, so the comment reaches ParseGroup)",
			html:  docOf(`<div class="c"></div><div><span class="c"></span></div>`),
			sels:  [][]Complex{{cx1(ty("div"), cl("c"))}},
			texts: []string{"div/**/.c"},
		},
		{
			name: "root-foreign-html-element",
			msg:  ":root matches any element whose tag atom is html, here the <html> element inside <svg> (n.DataAtom == atom.Html); Selectors 4 §13.1: :root is the element whose parent is the document",
			html: docOf(`<svg><html></html></svg>`),
			sels: [][]Complex{{cx1(pc("root"))}},
		},
	}
}

func (w witness) input() Case {
	c := Case{Mode: "rand", HTML: w.html}
	for i, l := range w.sels {
		text := printList(nil, l)
		if w.texts != nil {
			text = w.texts[i]
		}
		c.Sels = append(c.Sels, SelCase{Text: text, List: l})
	}
	return c
}

func TestWitnesses(t *testing.T) {
	dir := os.Getenv("C05_WRITE_WITNESSES")
	p := fw.Get("C05")
	for _, w := range witnesses() {
		in := w.input()
		// every selector of a witness must be a violation on its own
		for i := range in.Sels {
			one := in
			one.Sels = in.Sels[i : i+1]
			raw, _ := json.Marshal(one)
			res := fw.SafeCheck(p, raw)
			switch {
			case w.open && res.Verdict != fw.Violation:
				t.Errorf("open witness %s, selector %q: verdict %s (stale?)", w.name, in.Sels[i].Text, res.Verdict)
			case !w.open && res.Verdict != fw.OK:
				t.Errorf("fixed witness %s, selector %q: regression: %s: %s", w.name, in.Sels[i].Text, res.Sig, res.Msg)
			default:
				t.Logf("%s: %s %s: %.300s", w.name, res.Verdict, res.Sig, res.Msg)
			}
		}
		if dir != "" {
			raw, _ := json.Marshal(in)
			b, _ := json.MarshalIndent(map[string]any{"property": "C05", "msg": w.msg, "input": json.RawMessage(raw)}, "", " ")
			if err := os.WriteFile(filepath.Join(dir, w.name+".json"), append(b, '\n'), 0o644); err != nil {
				t.Fatal(err)
			}
		}
	}
}
