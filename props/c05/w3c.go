package c05

import (
	"encoding/json"
	"errors"
	"fmt"
	"os"
	"path/filepath"
	"regexp"
	"sort"
	"strconv"
	"strings"

	"golang.org/x/net/html"

	"github.com/benoitkugler/webrender/css/selector"

	"verif/internal/fw"
)

// Cross-check of the reference evaluator against an oracle it was not written from: the W3C
// selectors-api expectations shipped in /repo/css/selector/test_resources (valid_selectors.json on
// content.xhtml).  The W3C selector texts are turned into the AST by the small parser below (written
// from the Selectors grammar for exactly this purpose; the generated workload never uses it), the
// reference evaluator computes the matching ids, and these must equal the W3C expectation.  Where
// reference and expectation agree and css/selector does not, that is a violation of C05.

var errUnsupported = errors.New("outside the reference model")

type miniParser struct {
	s string
	i int
}

func (p *miniParser) eof() bool { return p.i >= len(p.s) }
func (p *miniParser) peek() byte {
	if p.eof() {
		return 0
	}
	return p.s[p.i]
}

func (p *miniParser) ws() bool {
	st := p.i
	for !p.eof() && isASCIIWS(p.s[p.i]) {
		p.i++
	}
	return p.i > st
}

func (p *miniParser) escape() (string, error) {
	// p.s[p.i] == '\\'
	p.i++
	if p.eof() {
		return "�", nil
	}
	c := p.s[p.i]
	if c == '\n' || c == '\r' || c == '\f' {
		return "", fmt.Errorf("escaped newline at %d", p.i)
	}
	if isHex(rune(c)) {
		st := p.i
		for p.i < len(p.s) && p.i-st < 6 && isHex(rune(p.s[p.i])) {
			p.i++
		}
		v, _ := strconv.ParseUint(p.s[st:p.i], 16, 32)
		if !p.eof() && isASCIIWS(p.s[p.i]) {
			if p.s[p.i] == '\r' && p.i+1 < len(p.s) && p.s[p.i+1] == '\n' {
				p.i++
			}
			p.i++
		}
		if v == 0 || v > 0x10FFFF || (v >= 0xD800 && v <= 0xDFFF) {
			return "�", nil
		}
		return string(rune(v)), nil
	}
	// any other code point, literally
	r := []rune(p.s[p.i:])[0]
	p.i += len(string(r))
	return string(r), nil
}

func (p *miniParser) name() (string, error) {
	var b strings.Builder
	for !p.eof() {
		c := p.s[p.i]
		switch {
		case c == '\\':
			e, err := p.escape()
			if err != nil {
				return "", err
			}
			b.WriteString(e)
		case c >= 0x80 || isNameChar(rune(c)):
			b.WriteByte(c)
			p.i++
		default:
			goto done
		}
	}
done:
	if b.Len() == 0 {
		return "", fmt.Errorf("name expected at %d in %q", p.i, p.s)
	}
	return b.String(), nil
}

func (p *miniParser) ident() (string, error) {
	// an identifier does not start with a digit, nor with a hyphen followed by a digit
	j := p.i
	if j < len(p.s) && p.s[j] == '-' {
		j++
	}
	if j < len(p.s) && p.s[j] >= '0' && p.s[j] <= '9' {
		return "", fmt.Errorf("identifier expected at %d in %q", p.i, p.s)
	}
	return p.name()
}

func (p *miniParser) str() (string, error) {
	q := p.s[p.i]
	p.i++
	var b strings.Builder
	for {
		if p.eof() {
			return b.String(), nil
		}
		c := p.s[p.i]
		switch {
		case c == q:
			p.i++
			return b.String(), nil
		case c == '\n' || c == '\r' || c == '\f':
			return "", fmt.Errorf("newline in string")
		case c == '\\':
			if p.i+1 < len(p.s) && (p.s[p.i+1] == '\n' || p.s[p.i+1] == '\f') {
				p.i += 2
				continue
			}
			if p.i+1 < len(p.s) && p.s[p.i+1] == '\r' {
				p.i += 2
				if !p.eof() && p.s[p.i] == '\n' {
					p.i++
				}
				continue
			}
			e, err := p.escape()
			if err != nil {
				return "", err
			}
			b.WriteString(e)
		default:
			b.WriteByte(c)
			p.i++
		}
	}
}

var (
	reAnB = regexp.MustCompile(`^([+-]?[0-9]*)n(?:[ \t\r\n\f]*([+-])[ \t\r\n\f]*([0-9]+))?$`)
	reB   = regexp.MustCompile(`^[+-]?[0-9]+$`)
)

func parseAnB(s string) (a, b int, err error) {
	s = lowerASCII(strings.Trim(s, " \t\r\n\f"))
	switch s {
	case "odd":
		return 2, 1, nil
	case "even":
		return 2, 0, nil
	}
	if reB.MatchString(s) {
		b, err = strconv.Atoi(strings.TrimPrefix(s, "+"))
		return 0, b, err
	}
	m := reAnB.FindStringSubmatch(s)
	if m == nil {
		return 0, 0, fmt.Errorf("bad an+b %q", s)
	}
	switch m[1] {
	case "", "+":
		a = 1
	case "-":
		a = -1
	default:
		a, _ = strconv.Atoi(strings.TrimPrefix(m[1], "+"))
	}
	if m[3] != "" {
		b, _ = strconv.Atoi(m[3])
		if m[2] == "-" {
			b = -b
		}
	}
	return a, b, nil
}

func (p *miniParser) pseudo(c *Compound) error {
	p.i++ // ':'
	double := false
	if p.peek() == ':' {
		double = true
		p.i++
	}
	n, err := p.ident()
	if err != nil {
		return err
	}
	n = lowerASCII(n)
	if double || legacyPE[n] {
		c.PE = n
		return nil
	}
	switch n {
	case "root", "empty", "first-child", "last-child", "only-child", "first-of-type", "last-of-type", "only-of-type":
		c.S = append(c.S, pc(n))
		return nil
	case "nth-child", "nth-last-child", "nth-of-type", "nth-last-of-type":
		if p.peek() != '(' {
			return fmt.Errorf("( expected")
		}
		end := strings.IndexByte(p.s[p.i:], ')')
		if end < 0 {
			return fmt.Errorf(") expected")
		}
		a, b, err := parseAnB(p.s[p.i+1 : p.i+end])
		if err != nil {
			return err
		}
		p.i += end + 1
		c.S = append(c.S, nth(n, a, b))
		return nil
	case "not", "is", "has":
		if p.peek() != '(' {
			return fmt.Errorf("( expected")
		}
		p.i++
		l, err := p.list()
		if err != nil {
			return err
		}
		if p.peek() != ')' {
			return fmt.Errorf(") expected at %d in %q", p.i, p.s)
		}
		p.i++
		c.S = append(c.S, lg(n, l...))
		return nil
	}
	return errUnsupported
}

func (p *miniParser) compound() (Compound, error) {
	var c Compound
	switch ch := p.peek(); {
	case ch == '*':
		p.i++
		c.S = append(c.S, Simple{K: "univ"})
	case ch == '|':
		return c, errUnsupported
	case ch == '#' || ch == '.' || ch == '[' || ch == ':':
	default:
		n, err := p.ident()
		if err != nil {
			return c, err
		}
		c.S = append(c.S, ty(n))
	}
	if p.peek() == '|' && !(p.i+1 < len(p.s) && p.s[p.i+1] == '=') {
		return c, errUnsupported // namespace prefix
	}
	for !p.eof() {
		switch p.peek() {
		case '#':
			p.i++
			n, err := p.name()
			if err != nil {
				return c, err
			}
			c.S = append(c.S, idS(n))
		case '.':
			p.i++
			n, err := p.ident()
			if err != nil {
				return c, err
			}
			c.S = append(c.S, cl(n))
		case '[':
			p.i++
			p.ws()
			n, err := p.ident()
			if err != nil {
				return c, err
			}
			s := Simple{K: "attr", N: n}
			p.ws()
			if p.peek() != ']' {
				switch {
				case p.peek() == '=':
					s.Op = "="
					p.i++
				case p.i+1 < len(p.s) && p.s[p.i+1] == '=' && strings.IndexByte("~|^$*", p.s[p.i]) >= 0:
					s.Op = p.s[p.i : p.i+2]
					p.i += 2
				default:
					return c, fmt.Errorf("attribute operator expected at %d in %q", p.i, p.s)
				}
				p.ws()
				if p.peek() == '"' || p.peek() == '\'' {
					s.V, err = p.str()
				} else {
					s.V, err = p.ident()
				}
				if err != nil {
					return c, err
				}
				p.ws()
				if p.peek() == 'i' || p.peek() == 'I' {
					s.I = true
					p.i++
					p.ws()
				}
			}
			if p.peek() != ']' {
				return c, fmt.Errorf("] expected at %d in %q", p.i, p.s)
			}
			p.i++
			c.S = append(c.S, s)
		case ':':
			if c.PE != "" {
				return c, fmt.Errorf("selector after pseudo-element")
			}
			if err := p.pseudo(&c); err != nil {
				return c, err
			}
		default:
			if len(c.S) == 0 && c.PE == "" {
				return c, fmt.Errorf("compound selector expected at %d in %q", p.i, p.s)
			}
			return c, nil
		}
	}
	if len(c.S) == 0 && c.PE == "" {
		return c, fmt.Errorf("compound selector expected at end of %q", p.s)
	}
	return c, nil
}

func (p *miniParser) complex() (Complex, error) {
	var cx Complex
	c, err := p.compound()
	if err != nil {
		return cx, err
	}
	cx.C = append(cx.C, c)
	for {
		sawWS := p.ws()
		ch := p.peek()
		comb := ""
		switch {
		case ch == '>' || ch == '+' || ch == '~':
			comb = string(ch)
			p.i++
			p.ws()
		case p.eof() || ch == ',' || ch == ')':
			return cx, nil
		case sawWS:
			comb = " "
		default:
			return cx, fmt.Errorf("unexpected %q at %d in %q", ch, p.i, p.s)
		}
		c, err := p.compound()
		if err != nil {
			return cx, err
		}
		cx.C = append(cx.C, c)
		cx.Comb = append(cx.Comb, comb)
	}
}

func (p *miniParser) list() ([]Complex, error) {
	var out []Complex
	for {
		p.ws()
		cx, err := p.complex()
		if err != nil {
			return nil, err
		}
		out = append(out, cx)
		p.ws()
		if p.peek() != ',' {
			return out, nil
		}
		p.i++
	}
}

func miniParse(s string) ([]Complex, error) {
	p := &miniParser{s: s}
	l, err := p.list()
	if err != nil {
		return nil, err
	}
	if !p.eof() {
		return nil, fmt.Errorf("trailing input at %d in %q", p.i, s)
	}
	return l, nil
}

// ---------------------------------------------------------------------------------------------

type w3cEntry struct {
	Name     string   `json:"name"`
	Selector string   `json:"selector"`
	Expect   []string `json:"expect"`
	Xfail    bool     `json:"xfail"`
}

func repoDir() string {
	if d := os.Getenv("VERIF_REPO"); d != "" {
		return d
	}
	return "/repo"
}

func idsKey(ids []string) string {
	s := append([]string(nil), ids...)
	sort.Strings(s)
	return strings.Join(s, " ")
}

// checkW3C runs the cross-check; it is one case of every run.
func checkW3C() fw.Result {
	var res fw.Result
	dir := filepath.Join(repoDir(), "css", "selector", "test_resources")
	raw, err := os.ReadFile(filepath.Join(dir, "valid_selectors.json"))
	if err != nil {
		return fw.Result{Verdict: fw.Inconclusive, Msg: err.Error()}
	}
	var entries []w3cEntry
	if err := json.Unmarshal(raw, &entries); err != nil {
		return fw.Result{Verdict: fw.Inconclusive, Msg: err.Error()}
	}
	f, err := os.Open(filepath.Join(dir, "content.xhtml"))
	if err != nil {
		return fw.Result{Verdict: fw.Inconclusive, Msg: err.Error()}
	}
	doc, err := html.Parse(f)
	f.Close()
	if err != nil {
		return fw.Result{Verdict: fw.Inconclusive, Msg: err.Error()}
	}
	_, all := buildTree(doc)
	var st refStats
	m := matcher{st: &st}
	for _, e := range entries {
		if e.Xfail {
			res.Count("w3c_xfail_skipped", 1)
			continue
		}
		list, err := miniParse(e.Selector)
		if err == errUnsupported {
			res.Count("w3c_outside_model_skipped", 1)
			continue
		}
		if err != nil {
			res.Reports = append(res.Reports, fmt.Sprintf("w3c: reference-side parser fails on %q: %v", e.Selector, err))
			continue
		}
		var refIDs, gotIDs []string
		g, perr := selector.ParseGroup(e.Selector)
		for _, n := range all {
			if n.kind != kElement {
				continue
			}
			id, _ := n.attr("id")
			want := false
			for j := range list {
				// a selector with a pseudo-element does not match any element in this API
				if list[j].C[len(list[j].C)-1].PE == "" && m.complex(&list[j], n, nil) {
					want = true
				}
			}
			if want {
				refIDs = append(refIDs, id)
			}
			if perr == nil {
				for _, s := range g {
					if s.PseudoElement() == "" && s.Match(n.src) {
						gotIDs = append(gotIDs, id)
						break
					}
				}
			}
		}
		if idsKey(refIDs) != idsKey(e.Expect) {
			res.Reports = append(res.Reports, fmt.Sprintf("w3c: the REFERENCE disagrees with the W3C expectation for %q: reference [%s], expected [%s]", e.Selector, idsKey(refIDs), idsKey(e.Expect)))
			res.Count("w3c_reference_disagrees", 1)
			continue
		}
		res.Count("w3c_reference_agrees", 1)
		if perr != nil {
			res.Fail("parse-error", fmt.Sprintf("ParseGroup rejects the W3C test selector %q: %v", e.Selector, perr))
			continue
		}
		if idsKey(gotIDs) != idsKey(e.Expect) {
			res.Fail("match", fmt.Sprintf("W3C selectors-api test %q, selector %q on content.xhtml: css/selector matches ids [%s]; W3C expectation and reference evaluator both give [%s]", e.Name, e.Selector, idsKey(gotIDs), idsKey(e.Expect)))
			continue
		}
		res.Count("w3c_selector_agrees", 1)
	}
	res.Nontrivial = res.Verdict != fw.Violation
	return res
}
