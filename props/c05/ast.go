package c05

import (
	"fmt"
	"math/rand"
	"strings"
)

// Generator-side selector AST.  It is the single source of truth of a case: the text given to
// selector.ParseGroup is printed from it (with random spelling), and the reference evaluator works
// on it directly, so no second selector parser is involved.

// Simple is one simple selector.
type Simple struct {
	// K: "type" "univ" "class" "id" "attr" "pc" (argument-less structural pseudo-class)
	//    "nth" (N = nth-child | nth-last-child | nth-of-type | nth-last-of-type)
	//    "not" "is" "has" (Args)    "never" (user-action / history pseudo-classes: N = hover …)
	K    string    `json:"k"`
	N    string    `json:"n,omitempty"`  // tag / class / id / attribute name / pseudo-class name
	Op   string    `json:"op,omitempty"` // attribute operator: "" = ~= |= ^= $= *=
	V    string    `json:"v,omitempty"`  // attribute operand
	I    bool      `json:"i,omitempty"`  // attribute i flag
	A    int       `json:"a,omitempty"`  // an+b
	B    int       `json:"b,omitempty"`
	Args []Complex `json:"args,omitempty"`
}

// Compound is a sequence of simple selectors, optionally followed by a pseudo-element.
type Compound struct {
	S  []Simple `json:"s"`
	PE string   `json:"pe,omitempty"`
}

// Complex is a chain of compounds; Comb[i] links C[i] and C[i+1] (" ", ">", "+", "~").
type Complex struct {
	C    []Compound `json:"c"`
	Comb []string   `json:"comb,omitempty"`
}

// SelCase is one selector list of a case.
type SelCase struct {
	Text string    `json:"text"`
	List []Complex `json:"ast"`
	// CIC: number of comments the printer put between simple selectors of one compound
	CIC int `json:"cic,omitempty"`
}

// ---------------------------------------------------------------------------------------------
// reference specificity (Selectors 4 §17; pseudo-element counted in C)

type spec [3]int

func (s spec) add(o spec) spec { return spec{s[0] + o[0], s[1] + o[1], s[2] + o[2]} }
func (s spec) less(o spec) bool {
	for i := 0; i < 3; i++ {
		if s[i] != o[i] {
			return s[i] < o[i]
		}
	}
	return false
}

func specSimple(s *Simple) spec {
	switch s.K {
	case "id":
		return spec{1, 0, 0}
	case "class", "attr", "pc", "nth", "never":
		return spec{0, 1, 0}
	case "type":
		return spec{0, 0, 1}
	case "univ":
		return spec{}
	case "not", "is", "has":
		// "replaced by the specificity of the most specific complex selector in its argument"
		var m spec
		for i := range s.Args {
			if sp := specComplex(&s.Args[i]); m.less(sp) {
				m = sp
			}
		}
		return m
	}
	panic("c05: unknown simple selector kind " + s.K)
}

func specComplex(c *Complex) spec {
	var out spec
	for i := range c.C {
		for j := range c.C[i].S {
			out = out.add(specSimple(&c.C[i].S[j]))
		}
		if c.C[i].PE != "" {
			out = out.add(spec{0, 0, 1})
		}
	}
	return out
}

// sumSpecComplex is the WRONG rule "sum of all arguments" (only used to count how many cases
// distinguish max from sum).
func sumSpecComplex(c *Complex) spec {
	var out spec
	for i := range c.C {
		for j := range c.C[i].S {
			s := &c.C[i].S[j]
			switch s.K {
			case "not", "is", "has":
				for k := range s.Args {
					out = out.add(sumSpecComplex(&s.Args[k]))
				}
			default:
				out = out.add(specSimple(s))
			}
		}
		if c.C[i].PE != "" {
			out = out.add(spec{0, 0, 1})
		}
	}
	return out
}

// ---------------------------------------------------------------------------------------------
// feature inventory of a selector (coverage counters, known-divergence classes)

func walkSimples(c *Complex, f func(s *Simple, depth int)) { walkSimplesD(c, 0, f) }

func walkSimplesD(c *Complex, depth int, f func(s *Simple, depth int)) {
	for i := range c.C {
		for j := range c.C[i].S {
			s := &c.C[i].S[j]
			f(s, depth)
			for k := range s.Args {
				walkSimplesD(&s.Args[k], depth+1, f)
			}
		}
	}
}

func walkComplex(c *Complex, f func(c *Complex)) {
	f(c)
	for i := range c.C {
		for j := range c.C[i].S {
			for k := range c.C[i].S[j].Args {
				walkComplex(&c.C[i].S[j].Args[k], f)
			}
		}
	}
}

// features returns the set of feature names used by a selector list.
func features(list []Complex) map[string]bool {
	out := map[string]bool{}
	if len(list) > 1 {
		out["list"] = true
	}
	for i := range list {
		walkComplex(&list[i], func(c *Complex) {
			for _, cb := range c.Comb {
				switch cb {
				case " ":
					out["comb_descendant"] = true
				case ">":
					out["comb_child"] = true
				case "+":
					out["comb_adjacent"] = true
				case "~":
					out["comb_sibling"] = true
				}
			}
			for j := range c.C {
				if c.C[j].PE != "" {
					out["pseudo_element"] = true
				}
			}
		})
		walkSimples(&list[i], func(s *Simple, depth int) {
			// a name or operand holding a pseudo-space (U+00A0, U+000B, U+2003 ...: white space for Go, not for CSS)
			switch {
			case s.K == "class" && hasPseudoSpace(s.N):
				out["pseudo_space_in_class"] = true
			case s.K == "attr" && s.Op == "~=" && hasPseudoSpace(s.V):
				out["pseudo_space_in_word_operand"] = true
			case s.K == "attr" && s.Op != "" && hasPseudoSpace(s.V), s.K == "id" && hasPseudoSpace(s.N), s.K == "type" && hasPseudoSpace(s.N):
				out["pseudo_space_in_other_name"] = true
			}
			switch s.K {
			case "attr":
				op := s.Op
				if op == "" {
					op = "exists"
				}
				out["attr_"+op] = true
				if s.I {
					out["attr_iflag"] = true
				}
			case "pc":
				out[s.N] = true
			case "nth":
				out[s.N] = true
				if s.A < 0 {
					out["nth_negative_a"] = true
				}
			case "not", "is", "has":
				out[s.K] = true
				if len(s.Args) > 1 {
					out[s.K+"_list"] = true
				}
				if depth >= 1 {
					out["nested_logical"] = true
				}
			default:
				out[s.K] = true
			}
		})
	}
	return out
}

// ---------------------------------------------------------------------------------------------
// printing

// printer prints an AST; r == nil gives the canonical spelling.
type printer struct {
	r *rand.Rand
	b strings.Builder
	// commentInCompound puts "/**/" between the simple selectors of a compound.  CSS drops comments
	// before parsing, so the compound is unchanged; css/selector treats a comment as white space
	// (known divergence, report-only probes only).
	commentInCompound bool
	insertedComments  int
}

func (p *printer) chance(pct int) bool { return p.r != nil && p.r.Intn(100) < pct }

func (p *printer) pick(l ...string) string {
	if p.r == nil {
		return l[0]
	}
	return l[p.r.Intn(len(l))]
}

// ows prints optional white space (comments are allowed wherever white space is optional).
func (p *printer) ows() {
	if p.r == nil {
		return
	}
	switch p.r.Intn(12) {
	case 0:
		p.b.WriteString(" ")
	case 1:
		p.b.WriteString("\t")
	case 2:
		p.b.WriteString("\n")
	case 3:
		p.b.WriteString("  ")
	case 4:
		p.b.WriteString("/**/")
	case 5:
		p.b.WriteString(" /* c */ ")
	case 6:
		p.b.WriteString("\r\n")
	}
}

// mixCase randomises the case of ASCII letters (only used where matching is case-insensitive).
func (p *printer) mixCase(s string) string {
	if p.r == nil || p.r.Intn(3) != 0 {
		return s
	}
	bs := []byte(s)
	mode := p.r.Intn(3)
	for i, c := range bs {
		if 'a' <= c && c <= 'z' {
			if mode == 0 || (mode == 1 && p.r.Intn(2) == 0) || (mode == 2 && i == 0) {
				bs[i] = c - 32
			}
		}
	}
	return string(bs)
}

func isHex(c rune) bool {
	return '0' <= c && c <= '9' || 'a' <= c && c <= 'f' || 'A' <= c && c <= 'F'
}

func isNameStart(c rune) bool {
	return 'a' <= c && c <= 'z' || 'A' <= c && c <= 'Z' || c == '_' || c >= 0x80
}

func isNameChar(c rune) bool { return isNameStart(c) || '0' <= c && c <= '9' || c == '-' }

// escRune writes one escaped code point.  next is the following rune of the name (0 at the end).
func (p *printer) escRune(c rune, next rune, hasNext bool) {
	literalOK := !isHex(c) && c != '\n' && c != '\r' && c != '\f' && c >= 0x20 && c != 0x7f
	if literalOK && (p.r == nil || p.r.Intn(2) == 0) {
		p.b.WriteByte('\\')
		p.b.WriteRune(c)
		return
	}
	// hexadecimal form.  CSS consumes ONE white space character after a hexadecimal escape, whatever
	// the number of digits.  So: at the end of a name always write that terminator (otherwise a
	// following significant white space – descendant combinator, separator before the i flag –
	// would be swallowed); inside a name write it when the next character is a hexadecimal digit
	// (variable-length form) or white space, optionally otherwise.
	form := 0
	if p.r != nil {
		form = p.r.Intn(3)
	}
	var h string
	switch form {
	case 0:
		h = fmt.Sprintf("%x", c)
	case 1:
		h = strings.ToUpper(fmt.Sprintf("%x", c))
	default:
		h = fmt.Sprintf("%06x", c)
	}
	p.b.WriteString("\\" + h)
	nextWS := next == ' ' || next == '\t' || next == '\n' || next == '\r' || next == '\f'
	switch {
	case !hasNext:
		p.b.WriteByte(' ')
	case nextWS || (form != 2 && isHex(next)):
		p.b.WriteByte(' ')
	case p.chance(40):
		p.b.WriteString(p.pick(" ", "\t", "\n"))
	}
}

// ident prints name as a CSS identifier denoting exactly name.
func (p *printer) ident(name string) {
	rs := []rune(name)
	for i, c := range rs {
		var next rune
		hasNext := i+1 < len(rs)
		if hasNext {
			next = rs[i+1]
		}
		must := false
		switch {
		case !isNameChar(c):
			must = true
		case i == 0 && '0' <= c && c <= '9':
			must = true
		case i == 0 && c == '-' && (len(rs) == 1 || (rs[1] >= '0' && rs[1] <= '9') || rs[1] == '-'):
			// "-", "-1…", "--…": escape the hyphen so that every consumer sees an identifier
			must = true
		}
		if must || p.chance(4) {
			p.escRune(c, next, hasNext)
		} else {
			p.b.WriteRune(c)
		}
	}
}

// hashName prints the name of an ID selector (an identifier).
func (p *printer) hashName(name string) { p.ident(name) }

// str prints a quoted string denoting exactly v.
func (p *printer) str(v string) {
	q := '"'
	if p.r != nil && p.r.Intn(2) == 0 {
		q = '\''
	}
	p.b.WriteRune(q)
	rs := []rune(v)
	for i, c := range rs {
		var next rune
		hasNext := i+1 < len(rs)
		if hasNext {
			next = rs[i+1]
		}
		switch {
		case c == q || c == '\\':
			p.b.WriteByte('\\')
			p.b.WriteRune(c)
		case c == '\n' || c == '\r' || c == '\f' || c < 0x20 && c != '\t' || c == 0x7f:
			h := fmt.Sprintf("\\%x", c)
			p.b.WriteString(h)
			if !hasNext || isHex(next) || next == ' ' || next == '\t' || p.chance(50) {
				p.b.WriteByte(' ')
			}
		case p.chance(3):
			p.escRune(c, next, hasNext)
		default:
			p.b.WriteRune(c)
		}
		if p.chance(2) {
			p.b.WriteString("\\\n") // line continuation: contributes nothing
		}
	}
	p.b.WriteRune(q)
}

func (p *printer) nth(a, b int) {
	if p.r != nil && a == 2 && b == 1 && p.r.Intn(2) == 0 {
		p.b.WriteString(p.mixCase("odd"))
		return
	}
	if p.r != nil && a == 2 && b == 0 && p.r.Intn(2) == 0 {
		p.b.WriteString(p.mixCase("even"))
		return
	}
	n := p.pick("n", "n", "N")
	if a == 0 && (p.r == nil || p.r.Intn(4) != 0) {
		// plain integer
		if b >= 0 && p.chance(30) {
			p.b.WriteByte('+')
		}
		fmt.Fprintf(&p.b, "%d", b)
		return
	}
	switch {
	case a == 1 && (p.r == nil || p.r.Intn(3) != 0):
		p.b.WriteString(p.pick("", "", "+") + n)
	case a == -1 && (p.r == nil || p.r.Intn(3) != 0):
		p.b.WriteString("-" + n)
	default:
		if a >= 0 && p.chance(20) {
			p.b.WriteByte('+')
		}
		fmt.Fprintf(&p.b, "%d%s", a, n)
	}
	if b == 0 && (p.r == nil || p.r.Intn(3) != 0) {
		return
	}
	sign := "+"
	abs := b
	if b < 0 {
		sign, abs = "-", -b
	}
	l, rr := "", ""
	if p.r != nil {
		switch p.r.Intn(6) {
		case 0:
			l, rr = " ", " "
		case 1:
			l = " "
		case 2:
			rr = " "
		case 3:
			l, rr = "\t", "\n"
		}
	}
	fmt.Fprintf(&p.b, "%s%s%s%d", l, sign, rr, abs)
}

func (p *printer) simple(s *Simple) {
	switch s.K {
	case "type":
		p.ident(p.mixCase(s.N))
	case "univ":
		p.b.WriteByte('*')
	case "class":
		p.b.WriteByte('.')
		p.ident(s.N)
	case "id":
		p.b.WriteByte('#')
		p.hashName(s.N)
	case "attr":
		p.b.WriteByte('[')
		p.ows()
		p.ident(p.mixCase(s.N))
		p.ows()
		if s.Op != "" {
			p.b.WriteString(s.Op)
			p.ows()
			identOK := s.V != "" && !(s.V == "i" || s.V == "I")
			if identOK && p.chance(40) {
				p.ident(s.V)
				if s.I {
					p.b.WriteString(p.pick(" ", "\t", "  ")) // white space is required after an identifier
				} else {
					p.ows()
				}
			} else {
				p.str(s.V)
				p.ows()
			}
			if s.I {
				if p.r == nil {
					p.b.WriteString(" i")
				} else {
					p.b.WriteString(p.pick("i", "I"))
				}
				p.ows()
			}
		}
		p.b.WriteByte(']')
	case "pc", "never":
		p.b.WriteByte(':')
		p.pseudoName(s.N)
	case "nth":
		p.b.WriteByte(':')
		p.pseudoName(s.N)
		p.b.WriteByte('(')
		p.ows()
		p.nth(s.A, s.B)
		p.ows()
		p.b.WriteByte(')')
	case "not", "is", "has":
		p.b.WriteByte(':')
		p.pseudoName(s.K)
		p.b.WriteByte('(')
		p.ows()
		p.list(s.Args)
		p.ows()
		p.b.WriteByte(')')
	default:
		panic("c05: print of unknown simple selector kind " + s.K)
	}
}

// pseudoName prints the name of a pseudo-class / pseudo-element / functional pseudo-class: an
// identifier, ASCII-case-insensitive, in which escapes are allowed like in any identifier.
func (p *printer) pseudoName(n string) {
	n = p.mixCase(n)
	if p.r == nil || p.r.Intn(10) != 0 {
		p.b.WriteString(n)
		return
	}
	// escape one character that does not end the name (a hexadecimal escape at the very end would need
	// a terminating space, which is not allowed before "(")
	rs := []rune(n)
	k := p.r.Intn(len(rs))
	for i, c := range rs {
		if i == k && i+1 < len(rs) {
			p.escRune(c, rs[i+1], true)
		} else {
			p.b.WriteRune(c)
		}
	}
}

var legacyPE = map[string]bool{"before": true, "after": true, "first-line": true, "first-letter": true}

func (p *printer) compound(c *Compound) {
	for i := range c.S {
		if i > 0 && p.commentInCompound && p.chance(60) {
			p.b.WriteString("/**/")
			p.insertedComments++
		}
		p.simple(&c.S[i])
	}
	if c.PE != "" {
		if legacyPE[c.PE] && p.chance(30) {
			p.b.WriteString(":")
		} else {
			p.b.WriteString("::")
		}
		p.pseudoName(c.PE)
	}
}

func (p *printer) complex(c *Complex) {
	for i := range c.C {
		if i > 0 {
			cb := c.Comb[i-1]
			if cb == " " {
				p.b.WriteString(p.pick(" ", " ", "  ", "\n", "\t", " /**/ ", "\r\n", " /* > */"))
			} else {
				p.ows()
				p.b.WriteString(cb)
				p.ows()
			}
		}
		p.compound(&c.C[i])
	}
}

func (p *printer) list(l []Complex) {
	for i := range l {
		if i > 0 {
			p.ows()
			p.b.WriteByte(',')
			p.ows()
		}
		p.complex(&l[i])
	}
}

// printList prints a selector list; r == nil gives the canonical spelling.
func printList(r *rand.Rand, l []Complex) string {
	s, _ := printListOpt(r, l, false)
	return s
}

// printListOpt also returns the number of comments written between simple selectors of a compound.
func printListOpt(r *rand.Rand, l []Complex, commentInCompound bool) (string, int) {
	p := &printer{r: r, commentInCompound: commentInCompound}
	if r != nil && r.Intn(8) == 0 {
		p.b.WriteString(p.pick(" ", "\n", "/**/"))
	}
	p.list(l)
	if r != nil && r.Intn(8) == 0 {
		p.b.WriteString(p.pick(" ", "\n", " /**/"))
	}
	return p.b.String(), p.insertedComments
}
