// Package c05 is the runtime check of property C05: css/selector matches and weighs elements as
// Selectors Level 4 defines, and a parsed selector printed back parses to an equivalent selector.
//
// Monitor shape: reference-model monitor.  The generator builds a selector AST and an HTML document;
// the AST is printed with random (valid) spellings and handed to selector.ParseGroup, the document is
// parsed with net/html; every node of the parsed tree is then submitted to Sel.Match and to an
// independent evaluator working on the AST (ref.go).  Specificity() and PseudoElement() are compared
// with the AST's, and ParseGroup(String()) must be the same selector again.
package c05

import (
	"encoding/json"
	"fmt"
	"math/rand"
	"os"
	"sort"
	"strings"
	"sync"

	"golang.org/x/net/html"

	"github.com/benoitkugler/webrender/css/selector"

	"verif/internal/fw"
)

// Case is the self-contained input of one case.
type Case struct {
	Mode string `json:"mode"` // "exh": HTML × built-in selector set Set; "rand": HTML × Sels
	HTML string `json:"html"`
	// Elems is the number of elements the generator meant to create (sanity counter only).
	Elems int       `json:"elems,omitempty"`
	Set   string    `json:"set,omitempty"`
	Sels  []SelCase `json:"sels,omitempty"`
	// RO marks a probe of a known divergence: failures whose signature is listed are reported in
	// evidence ("report_only_disagreements") instead of being verdicts.  Never set on witnesses.
	RO *ReportOnly `json:"report_only,omitempty"`
}

type ReportOnly struct {
	Class string   `json:"class"`
	Sigs  []string `json:"sigs"`
}

const (
	quickRandom    = 9000
	thoroughRandom = 90000
	selsPerCase    = 8
)

// assertedProbeClasses lists the known-divergence classes (ReportOnly.Class) whose defect has been
// fixed in /repo: their probe cases are then generated as ordinary asserted cases.  Empty on the
// current tree ("attr-blank-value" and "has-relative" are the two open classes).
var assertedProbeClasses = map[string]bool{}

func nExh(tier string) int { return 2 * len(exhTreeList(tier)) }

func setName(tier string) string {
	if tier == "thorough" {
		return "t"
	}
	return "q"
}

func init() {
	fw.Register(&fw.Prop{
		ID: "C05",
		Rule: "cases: (1) exhaustive — every ordered forest of <= 5 (thorough: 6) elements over the tag names {div, x-a} placed in <body>, twice (bare; with random text / white-space / comment nodes interleaved), with random class/id/k attributes, each evaluated against the whole built-in selector set (all compounds of <= 2 (thorough: 3) simple selectors over a fixed alphabet of 3 type/universal + 54 other simple selectors, among them .c\\a0 d and [k~=\"c\\a0 d\"] (NO-BREAK SPACE inside one word); 5 415 selectors (thorough: 27 099), the full an+b square a,b in [-4,4] for the four :nth-* classes, all pairs of 20 compounds under the 4 combinators (thorough: triples of 8 under 16 combinator pairs), lists, pseudo-elements); " +
			"Word lists: in both parts class / k / data-k / a.b values are separated by every CSS white space character (SPACE, TAB, LF, FF, CR, CR LF; CR written as &#13;) and 9-14 % of them hold pseudo-spaces — the 20 code points that are white space for Go (unicode.IsSpace: U+000B, U+0085, U+00A0, U+1680, U+2000-U+200A, U+2028, U+2029, U+202F, U+205F, U+3000) but not for CSS, plus U+001C-U+001F, U+180E, U+200B, U+FEFF — between words, at the edges, next to real separators or alone; class selectors, ~= operands (also other operands, IDs, one type name) hold them too, half of the time drawn from the words of the case's document. " +
			"(2) random — a random document (<= 25 generated elements, 6 tag names, hostile class/id/attribute values, text / white-space / comment children) with 8 random selector lists (<= 3 complex selectors of <= 3 compounds, :not/:is/:has nested to depth 2, pseudo-elements) printed with random white space, comments (also between the simple selectors of a compound), case and escapes. " +
			"(3) one case replays the W3C selectors-api expectations of css/selector/test_resources through the reference evaluator (it must reproduce all 175 it has a model for) and through css/selector. " +
			"Every node of the parsed document (elements, text, comments, doctype, document) is submitted to Match. A case is non-trivial when at least one of its selectors matched some but not all elements of its document and all comparisons (match, specificity, pseudo-element, round trip) were carried out; distinct = distinct input.",
		N: func(tier string) int {
			// + 1: the W3C cross-check of the reference evaluator (w3c.go) is the last case
			if tier == "thorough" {
				return nExh(tier) + thoroughRandom + 1
			}
			return nExh(tier) + quickRandom + 1
		},
		Gen:   genCase,
		Check: check,
		Floor: func(tier string) int {
			if tier == "thorough" {
				return 60000
			}
			return 8000
		},
		CounterFloors: counterFloors,
		Exhaustive:    func(string) bool { return false },
		Assumptions: []string{
			"documents are HTML documents parsed by golang.org/x/net/html in no-quirks mode, so type and attribute names match ASCII-case-insensitively",
			"the reference evaluator (props/c05/ref.go, written from Selectors 4) is trusted; it reads the parsed *html.Node tree, so HTML parsing itself is not under test",
			"Selectors-4 semantics where levels differ: structural pseudo-classes apply to the root element; :empty ignores document white space (ASCII white space in HTML)",
			"documents are HTML-namespace elements except an occasional <svg> subtree holding elements named html / x-a / x-b (lower-case names only; case-sensitive foreign names are not generated)",
			"outside the asserted domain, probed as report-only in 2 % of the random cases (open known findings, see notes/C05.md): ^= $= *= with an operand that is blank for Go's strings.TrimSpace (CSS white space and/or U+00A0, U+3000 ...) against attribute values that are blank in the same sense; :has() arguments with descendant/child combinators",
			"white space = SPACE, TAB, LF, FF, CR only (Selectors 4 / CSS Syntax 3 / HTML ASCII whitespace): every other code point, in particular U+00A0 and the other Unicode White_Space characters, is an ordinary character of a class name, a word, an ID or an operand; an ID is the attribute value verbatim (no trimming)",
			"cascadia extensions (:contains, :matches, :haschild, :input, #=, !=), namespaces, :lang/:link/:enabled/:disabled/:checked and invalid selectors are not generated",
			"exhaustive cases name a built-in, seed-independent selector set instead of carrying it (5 415 / 27 099 selectors); a replay needs the same props/c05 code",
		},
		Batch: 150,
	})
}

func genCase(r *rand.Rand, i int, tier string) any {
	ne := nExh(tier)
	if i < ne {
		t := exhTreeList(tier)[i/2]
		forest := t.build(r)
		c := Case{Mode: "exh", Set: setName(tier)}
		for _, n := range forest {
			if i%2 == 1 {
				interleave(r, n)
			}
			c.Elems += n.countElems()
		}
		c.Elems += 3
		c.HTML = document(r, forest, true)
		return c
	}
	j := i - ne
	if (tier == "thorough" && j == thoroughRandom) || (tier != "thorough" && j == quickRandom) {
		return Case{Mode: "w3c"}
	}
	g := &sgen{r: r}
	c := Case{Mode: "rand"}
	switch j % 100 {
	case 0:
		g.kdAttrBlank = true
		c.RO = &ReportOnly{Class: "attr-blank-value", Sigs: []string{"match"}}
	case 2:
		g.kdHasComplex = true
		c.RO = &ReportOnly{Class: "has-relative", Sigs: []string{"match"}}
	}
	if c.RO != nil && assertedProbeClasses[c.RO.Class] {
		c.RO = nil
	}
	forest := randForest(r, 1+r.Intn(25), 0)
	for _, n := range forest {
		interleave(r, n)
		c.Elems += n.countElems()
	}
	c.Elems += 3
	c.HTML = document(r, forest, false)
	g.docWords = collectPSWords(forest)
	if strings.Contains(c.HTML, "<title>") {
		c.Elems++
	}
	if strings.Contains(c.HTML, "<meta") {
		c.Elems++
	}
	for k := 0; k < selsPerCase; k++ {
		l := g.list()
		if g.kdHasComplex && k%2 == 0 {
			// X:has(Y Z) / X:has(Y > Z) with X = Y: the shape on which the scope boundary decides
			x := ty(pick(r, []string{"div", "x-a", "span"}))
			z := g.compound(1)
			l = []Complex{cx1(x, lg("has", Complex{C: []Compound{{S: []Simple{x}}, z}, Comb: []string{pick(r, []string{" ", ">"})}}))}
		}
		// one selector in seven is printed with comments between the simple selectors of its compounds
		text, cic := printListOpt(r, l, r.Intn(7) == 0)
		c.Sels = append(c.Sels, SelCase{Text: text, List: l, CIC: cic})
	}
	return c
}

// ---------------------------------------------------------------------------------------------

// parsedSel is what is known about a selector independently of any document.
type parsedSel struct {
	text  string
	list  []Complex
	g     selector.SelectorGroup
	g2    selector.SelectorGroup // ParseGroup(g.String())
	ser   string
	feats []string
	// failure found at the selector level (parse, specificity, pseudo-element, round-trip parse)
	sig, msg string
	rtSig    string // round-trip failure (kept apart: g stays usable)
	rtMsg    string
	maxNeSum bool
	cic      int  // comments inside compounds in the text
	hardEsc  bool // a name / operand that needs an escape beyond punctuation when printed back
	never    bool // contains a :hover-like pseudo-class
}

// needsHardEscape: leading digit (identifiers only) or a C0 control / DEL anywhere.
func needsHardEscape(s string, ident bool) bool {
	for i, r := range s {
		if r < 0x20 || r == 0x7f || (ident && i == 0 && '0' <= r && r <= '9') {
			return true
		}
	}
	return false
}

func toSpec(s selector.Specificity) spec { return spec{s[0], s[1], s[2]} }

// analyse parses the text and runs every document-independent comparison.
func analyse(text string, list []Complex) *parsedSel {
	ps := &parsedSel{text: text, list: list}
	for f := range features(list) {
		ps.feats = append(ps.feats, f)
	}
	sort.Strings(ps.feats)
	for i := range list {
		walkSimples(&list[i], func(s *Simple, _ int) {
			switch s.K {
			case "never":
				ps.never = true
			case "class", "id", "type":
				if needsHardEscape(s.N, true) {
					ps.hardEsc = true
				}
			case "attr":
				if needsHardEscape(s.N, true) || strings.ContainsAny(s.N, ".:") || strings.ContainsAny(s.V, "\"\\\n\r\f") || needsHardEscape(s.V, false) {
					ps.hardEsc = true
				}
			}
		})
	}
	var g selector.SelectorGroup
	var err error
	if sig, msg, _ := fw.Protect(func() { g, err = selector.ParseGroup(text) }); sig != "" {
		ps.sig, ps.msg = "parse-panic", fmt.Sprintf("ParseGroup(%q) panicked: %s", text, msg)
		return ps
	}
	if err != nil {
		ps.sig, ps.msg = "parse-error", fmt.Sprintf("ParseGroup(%q) rejects a valid selector: %v", text, err)
		return ps
	}
	if len(g) != len(list) {
		ps.sig, ps.msg = "group-len", fmt.Sprintf("ParseGroup(%q) has %d selectors, the list has %d", text, len(g), len(list))
		return ps
	}
	ps.g = g
	for j := range list {
		want := specComplex(&list[j])
		if sumSpecComplex(&list[j]) != want {
			ps.maxNeSum = true
		}
		if got := toSpec(g[j].Specificity()); got != want && ps.sig == "" {
			ps.sig, ps.msg = "specificity", fmt.Sprintf("selector %q (item %d of %q): Specificity() = %v, Selectors 4 §17 gives %v", printList(nil, list[j:j+1]), j, text, got, want)
		}
		wantPE := list[j].C[len(list[j].C)-1].PE
		if got := g[j].PseudoElement(); got != wantPE && ps.sig == "" {
			ps.sig, ps.msg = "pseudo-element", fmt.Sprintf("selector %q (item %d of %q): PseudoElement() = %q, expected %q", printList(nil, list[j:j+1]), j, text, got, wantPE)
		}
	}
	// round trip, document-independent part
	var ser string
	if sig, msg, _ := fw.Protect(func() { ser = g.String() }); sig != "" {
		ps.rtSig, ps.rtMsg = "roundtrip-parse", fmt.Sprintf("String() of ParseGroup(%q) panicked: %s", text, msg)
		return ps
	}
	ps.ser = ser
	g2, err := selector.ParseGroup(ser)
	switch {
	case err != nil:
		ps.rtSig, ps.rtMsg = "roundtrip-parse", fmt.Sprintf("ParseGroup(%q).String() = %q does not parse: %v", text, ser, err)
	case len(g2) != len(g):
		ps.rtSig, ps.rtMsg = "roundtrip-len", fmt.Sprintf("ParseGroup(%q).String() = %q parses to %d selectors instead of %d", text, ser, len(g2), len(g))
	default:
		ps.g2 = g2
		if ser2 := g2.String(); ser2 != ser {
			ps.rtSig, ps.rtMsg = "roundtrip-string", fmt.Sprintf("ParseGroup(%q).String() = %q re-parses to a different selector, printed %q", text, ser, ser2)
		}
		for j := range g {
			if a, b := g[j].Specificity(), g2[j].Specificity(); a != b && ps.rtSig == "" {
				ps.rtSig, ps.rtMsg = "roundtrip-specificity", fmt.Sprintf("ParseGroup(%q).String() = %q: specificity %v became %v", text, ser, a, b)
			}
			if a, b := g[j].PseudoElement(), g2[j].PseudoElement(); a != b && ps.rtSig == "" {
				ps.rtSig, ps.rtMsg = "roundtrip-pseudo-element", fmt.Sprintf("ParseGroup(%q).String() = %q: pseudo-element %q became %q", text, ser, a, b)
			}
		}
	}
	return ps
}

var (
	exhParsedMu sync.Mutex
	exhParsed   = map[string][]*parsedSel{}
)

func exhParsedSet(name string) []*parsedSel {
	exhParsedMu.Lock()
	defer exhParsedMu.Unlock()
	if p, ok := exhParsed[name]; ok {
		return p
	}
	set := exhSelectorSet(name)
	out := make([]*parsedSel, len(set))
	for i, s := range set {
		out[i] = analyse(s.text, s.list)
	}
	exhParsed[name] = out
	return out
}

// ---------------------------------------------------------------------------------------------

type caseRun struct {
	in    *Case
	res   *fw.Result
	all   []*rnode
	elems int
	st    refStats
	m     matcher
	cnt   map[string]int64
	// per-case
	mixed   int
	reports map[string]bool
}

func (cr *caseRun) fail(sig, msg string) bool {
	if cr.in.RO != nil {
		for _, s := range cr.in.RO.Sigs {
			if s == sig {
				cr.reports[cr.in.RO.Class+": "+sig] = true
				cr.cnt["report_only_events"]++
				return false
			}
		}
	}
	cr.res.Fail(sig, msg)
	return true
}

func single(ps *parsedSel, j int) string {
	if len(ps.list) == 1 {
		return fmt.Sprintf("%q", ps.text)
	}
	return fmt.Sprintf("%q (item %d = %q)", ps.text, j, printList(nil, ps.list[j:j+1]))
}

// evalSel compares one selector on every node of the document.  It returns true when a verdict
// (violation) was reached.
func (cr *caseRun) evalSel(ps *parsedSel) bool {
	cr.cnt["selectors"]++
	if ps.sig != "" {
		if cr.fail(ps.sig, ps.msg+"\n  html: "+cr.in.HTML) {
			return true
		}
		if ps.g == nil {
			return false
		}
	}
	if ps.maxNeSum {
		cr.cnt["spec_max_differs_from_sum"]++
	}
	matched, unmatched := 0, 0
	want := make([]bool, len(ps.list))
	for _, n := range cr.all {
		anyWant := false
		for j := range ps.list {
			want[j] = n.kind == kElement && cr.m.complex(&ps.list[j], n, nil)
			anyWant = anyWant || want[j]
		}
		for j := range ps.list {
			got := ps.g[j].Match(n.src)
			if got != want[j] {
				if cr.fail("match", fmt.Sprintf("selector %s on node %s: Match = %v, Selectors 4 gives %v\n  html: %s", single(ps, j), n.path(), got, want[j], cr.in.HTML)) {
					return true
				}
			}
			if ps.g2 != nil {
				if got2 := ps.g2[j].Match(n.src); got2 != got {
					if cr.fail("roundtrip-match", fmt.Sprintf("selector %s printed as %q: the re-parsed selector gives Match = %v on node %s, the original %v\n  html: %s", single(ps, j), ps.ser, got2, n.path(), got, cr.in.HTML)) {
						return true
					}
				}
			}
		}
		if len(ps.list) > 1 {
			if got := ps.g.Match(n.src); got != anyWant {
				if cr.fail("match", fmt.Sprintf("selector list %q on node %s: SelectorGroup.Match = %v, expected %v\n  html: %s", ps.text, n.path(), got, anyWant, cr.in.HTML)) {
					return true
				}
			}
		}
		if n.kind == kElement {
			if anyWant {
				matched++
			} else {
				unmatched++
			}
		}
	}
	cr.cnt["node_evals"] += int64(len(cr.all) * len(ps.list))
	cr.cnt["elem_match_true"] += int64(matched)
	cr.cnt["elem_match_false"] += int64(unmatched)
	if ps.rtSig != "" {
		if cr.fail(ps.rtSig, ps.rtMsg) {
			return true
		}
	} else if ps.sig == "" {
		cr.cnt["roundtrips_ok"]++
		if ps.hardEsc {
			cr.cnt["roundtrips_ok_hard_escapes"]++ // leading digit, control character, quote / backslash / newline in operand, '.' in attribute name
		}
		if ps.cic > 0 {
			cr.cnt["selectors_ok_comment_inside_compound"]++
		}
		if ps.never {
			cr.cnt["selectors_ok_with_never_pseudo_class"]++
		}
		if strings.Contains(ps.ser, "\\") {
			cr.cnt["roundtrips_with_escapes"]++
		}
	}
	if matched > 0 && unmatched > 0 {
		cr.mixed++
		cr.cnt["selectors_mixed"]++
		pre := "mixed:"
		if cr.in.Mode == "rand" {
			pre = "rmixed:" // random part counted apart, so that its own floors guard the random generator
			cr.cnt["selectors_mixed_random"]++
		}
		for _, f := range ps.feats {
			cr.cnt[pre+f]++
		}
	}
	return false
}

func check(raw json.RawMessage) fw.Result {
	var in Case
	if err := json.Unmarshal(raw, &in); err != nil {
		return fw.Result{Verdict: fw.Inconclusive, Msg: err.Error()}
	}
	if in.Mode == "w3c" {
		return checkW3C()
	}
	if os.Getenv("C05_ASSERT_PROBES") != "" {
		// development switch (validating candidate fixes): treat the report-only probes as assertions
		in.RO = nil
	}
	var res fw.Result
	doc, err := html.Parse(strings.NewReader(in.HTML))
	if err != nil {
		return fw.Result{Verdict: fw.Inconclusive, Msg: "html.Parse: " + err.Error()}
	}
	cr := &caseRun{in: &in, res: &res, cnt: map[string]int64{}, reports: map[string]bool{}}
	cr.m.st = &cr.st
	_, cr.all = buildTree(doc)
	for _, n := range cr.all {
		switch n.kind {
		case kElement:
			cr.elems++
			if n.ns != "" {
				cr.cnt["dom_foreign_elements"]++
			}
			for _, a := range n.attrs {
				if hasPseudoSpace(a.v) {
					if a.k == "class" {
						cr.cnt["dom_class_values_with_pseudo_space"]++
					} else {
						cr.cnt["dom_other_attr_values_with_pseudo_space"]++
					}
				}
				if strings.Contains(a.v, "\r") {
					cr.cnt["dom_attr_values_with_cr"]++
				}
			}
		case kText:
			if wsOnly(n.text) {
				cr.cnt["dom_text_ws_only"]++
			} else {
				cr.cnt["dom_text_other"]++
			}
		case kComment:
			cr.cnt["dom_comments"]++
		}
	}
	cr.cnt["dom_elements"] = int64(cr.elems)
	if in.Elems != 0 && in.Elems != cr.elems {
		cr.cnt["dom_restructured_by_html_parser"]++
	}

	stopped := false
	switch in.Mode {
	case "exh":
		for _, ps := range exhParsedSet(in.Set) {
			if cr.evalSel(ps) {
				stopped = true
				break
			}
		}
		cr.cnt["cases_exhaustive"]++
	case "rand":
		for i := range in.Sels {
			ps := analyse(in.Sels[i].Text, in.Sels[i].List)
			ps.cic = in.Sels[i].CIC
			if cr.evalSel(ps) {
				stopped = true
				break
			}
		}
		if in.RO != nil {
			cr.cnt["cases_report_only_probe"]++
		} else {
			cr.cnt["cases_random"]++
		}
	default:
		return fw.Result{Verdict: fw.Inconclusive, Msg: "unknown mode " + in.Mode}
	}

	st := &cr.st
	for k, v := range map[string]int{
		"ref_adjacent_across_text_or_comment":  st.adjAcrossNonElem,
		"ref_sibling_across_text_or_comment":   st.sibAcrossNonElem,
		"ref_nth_negative_a_true":              st.nthNegATrue,
		"ref_nth_positive_a_true_n_ge_1":       st.nthPosATrue,
		"ref_nth_of_type_index_differs":        st.nthOfTypeSkipped,
		"ref_nth_true_with_non_element_sibs":   st.nthWithNonElemSib,
		"ref_empty_true_whitespace_text":       st.emptyTrueWS,
		"ref_empty_true_comment_only":          st.emptyTrueComment,
		"ref_empty_true_no_child":              st.emptyTrueNone,
		"ref_empty_false_text":                 st.emptyFalseText,
		"ref_empty_false_element":              st.emptyFalseElem,
		"ref_has_candidate_outside_scope":      st.hasScopeDecided,
		"ref_root_true":                        st.rootTrue,
		"ref_iflag_folded":                     st.iflagFolded,
		"ref_not_list_args_disagree":           st.notListMixed,
		"ref_empty_false_non_ascii_space":      st.emptyFalseOddSpace,
		"ref_root_false_nested_html":           st.rootFalseNestedHTML,
		"ref_iflag_unicode_fold_only":          st.iflagUnicodeOnly,
		"ref_is_list_args_disagree":            st.isListMixed,
		"ref_word_delimited_by_space":          st.wordDelim[0],
		"ref_word_delimited_by_tab":            st.wordDelim[1],
		"ref_word_delimited_by_lf":             st.wordDelim[2],
		"ref_word_delimited_by_ff":             st.wordDelim[3],
		"ref_word_delimited_by_cr":             st.wordDelim[4],
		"ref_word_is_whole_value":              st.wordWholeValue,
		"ref_word_true_only_css_space_splits":  st.wordPseudoTrue,
		"ref_word_false_only_css_space_splits": st.wordPseudoFalse,
		"ref_word_true_with_lookalike_char":    st.wordLookalikeInMatch,
		"ref_id_false_untrimmed":               st.idEdgeSpaceFalse,
	} {
		if v != 0 {
			cr.cnt[k] += int64(v)
		}
	}
	if in.RO != nil {
		// probes of known divergences do not feed the floors of the asserted domain
		keep := map[string]int64{"cases_report_only_probe": cr.cnt["cases_report_only_probe"], "report_only_events": cr.cnt["report_only_events"]}
		cr.cnt = keep
	}
	for k, v := range cr.cnt {
		res.Count(k, v)
	}
	for r := range cr.reports {
		res.Reports = append(res.Reports, r)
	}
	sort.Strings(res.Reports)
	res.Nontrivial = !stopped && cr.mixed > 0 && in.RO == nil
	return res
}

func counterFloors(tier string) map[string]int64 {
	// ~40 percent of what seed 1 of the quick tier observes; the thorough tier observes at least 10
	// times more of everything.  "mixed:<feature>" = selectors of the exhaustive part using the feature
	// whose match set was neither empty nor everything; "rmixed:" the same for the random part;
	// "ref_*" = situations the reference evaluator went through (see refStats).
	q := map[string]int64{
		"dom_attr_values_with_cr":                 8000,
		"dom_class_values_with_pseudo_space":      3000,
		"dom_other_attr_values_with_pseudo_space": 5300,
		"mixed:pseudo_space_in_class":             7500,
		"mixed:pseudo_space_in_word_operand":      7200,
		"rmixed:pseudo_space_in_class":            200,
		"rmixed:pseudo_space_in_other_name":       580,
		"rmixed:pseudo_space_in_word_operand":     95,
		"ref_id_false_untrimmed":                  180,
		"ref_word_delimited_by_space":             1200000,
		"ref_word_delimited_by_tab":               300000,
		"ref_word_delimited_by_lf":                410000,
		"ref_word_delimited_by_ff":                420000,
		"ref_word_delimited_by_cr":                540000,
		"ref_word_is_whole_value":                 500000,
		"ref_word_true_only_css_space_splits":     28000,
		"ref_word_false_only_css_space_splits":    270000,
		"ref_word_true_with_lookalike_char":       12,
		"dom_comments":                            15000,
		"dom_elements":                            51000,
		"dom_foreign_elements":                    3200,
		"dom_text_other":                          7600,
		"dom_text_ws_only":                        9200,
		"elem_match_false":                        45000000,
		"elem_match_true":                         6700000,
		"mixed:attr_$=":                           86000,
		"mixed:attr_*=":                           110000,
		"mixed:attr_=":                            73000,
		"mixed:attr_^=":                           100000,
		"mixed:attr_exists":                       170000,
		"mixed:attr_iflag":                        260000,
		"mixed:attr_|=":                           83000,
		"mixed:attr_~=":                           110000,
		"mixed:class":                             860000,
		"mixed:comb_adjacent":                     240000,
		"mixed:comb_child":                        270000,
		"mixed:comb_descendant":                   280000,
		"mixed:comb_sibling":                      160000,
		"mixed:empty":                             230000,
		"mixed:first-child":                       310000,
		"mixed:first-of-type":                     90000,
		"mixed:has":                               360000,
		"mixed:id":                                180000,
		"mixed:is":                                180000,
		"mixed:is_list":                           160000,
		"mixed:last-child":                        190000,
		"mixed:last-of-type":                      93000,
		"mixed:list":                              18000,
		"mixed:nested_logical":                    85000,
		"mixed:never":                             92000,
		"mixed:not":                               660000,
		"mixed:not_list":                          77000,
		"mixed:nth-child":                         440000,
		"mixed:nth-last-child":                    150000,
		"mixed:nth-last-of-type":                  290000,
		"mixed:nth-of-type":                       110000,
		"mixed:nth_negative_a":                    290000,
		"mixed:only-child":                        72000,
		"mixed:only-of-type":                      200000,
		"mixed:pseudo_element":                    17000,
		"mixed:root":                              80000,
		"mixed:type":                              980000,
		"mixed:univ":                              270000,
		"node_evals":                              81000000,
		"ref_adjacent_across_text_or_comment":     21000,
		"ref_empty_false_element":                 1100000,
		"ref_empty_false_non_ascii_space":         31000,
		"ref_empty_false_text":                    100000,
		"ref_empty_true_comment_only":             69000,
		"ref_empty_true_no_child":                 1000000,
		"ref_empty_true_whitespace_text":          74000,
		"ref_iflag_folded":                        480000,
		"ref_iflag_unicode_fold_only":             23000,
		"ref_is_list_args_disagree":               480000,
		"ref_not_list_args_disagree":              230000,
		"ref_nth_negative_a_true":                 1700000,
		"ref_nth_of_type_index_differs":           1600000,
		"ref_nth_positive_a_true_n_ge_1":          1000000,
		"ref_nth_true_with_non_element_sibs":      2100000,
		"ref_root_false_nested_html":              300,
		"ref_root_true":                           280000,
		"ref_sibling_across_text_or_comment":      18000,
		"rmixed:attr_$=":                          440,
		"rmixed:attr_*=":                          470,
		"rmixed:attr_=":                           430,
		"rmixed:attr_^=":                          450,
		"rmixed:attr_exists":                      680,
		"rmixed:attr_iflag":                       620,
		"rmixed:attr_|=":                          400,
		"rmixed:attr_~=":                          440,
		"rmixed:class":                            2000,
		"rmixed:comb_adjacent":                    960,
		"rmixed:comb_child":                       1500,
		"rmixed:comb_descendant":                  1500,
		"rmixed:comb_sibling":                     940,
		"rmixed:empty":                            1200,
		"rmixed:first-child":                      400,
		"rmixed:first-of-type":                    420,
		"rmixed:has":                              550,
		"rmixed:has_list":                         290,
		"rmixed:id":                               1000,
		"rmixed:is":                               920,
		"rmixed:is_list":                          490,
		"rmixed:last-child":                       450,
		"rmixed:last-of-type":                     400,
		"rmixed:list":                             2300,
		"rmixed:nested_logical":                   680,
		"rmixed:never":                            380,
		"rmixed:not":                              1100,
		"rmixed:not_list":                         600,
		"rmixed:nth-child":                        550,
		"rmixed:nth-last-child":                   530,
		"rmixed:nth-last-of-type":                 500,
		"rmixed:nth-of-type":                      470,
		"rmixed:nth_negative_a":                   810,
		"rmixed:only-child":                       410,
		"rmixed:only-of-type":                     380,
		"rmixed:pseudo_element":                   930,
		"rmixed:root":                             610,
		"rmixed:type":                             4000,
		"rmixed:univ":                             1600,
		"roundtrips_ok":                           6700000,
		"roundtrips_ok_hard_escapes":              280000,
		"roundtrips_with_escapes":                 900000,
		"selectors":                               6700000,
		"selectors_mixed":                         2700000,
		"selectors_mixed_random":                  5800,
		"selectors_ok_comment_inside_compound":    2100,
		"selectors_ok_with_never_pseudo_class":    270000,
		"spec_max_differs_from_sum":               480000,
	}
	out := map[string]int64{}
	for k, v := range q {
		if tier == "thorough" {
			v *= 8
		}
		out[k] = v
	}
	out["cases_exhaustive"] = int64(nExh(tier))
	rnd := quickRandom
	if tier == "thorough" {
		rnd = thoroughRandom
	}
	out["cases_random"] = int64(rnd) * 98 / 100
	out["cases_report_only_probe"] = int64(rnd) * 2 / 100
	out["w3c_reference_agrees"] = 175 // every W3C expectation the reference has a model for
	return out
}
