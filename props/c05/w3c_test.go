package c05

import "testing"

// The reference evaluator must reproduce every W3C expectation it has a model for.
func TestReferenceAgainstW3C(t *testing.T) {
	res := checkW3C()
	t.Logf("verdict=%q counters=%v", res.Verdict, res.Counters)
	for _, r := range res.Reports {
		t.Errorf("%s", r)
	}
	if res.Msg != "" {
		t.Errorf("%s: %s", res.Sig, res.Msg)
	}
	if res.Counters["w3c_reference_agrees"] < 160 {
		t.Errorf("only %d W3C entries evaluated", res.Counters["w3c_reference_agrees"])
	}
}
