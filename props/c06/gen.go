package c06

import (
	"encoding/json"
	"fmt"
	"math/rand"
	"os"
	"path/filepath"
	"strings"
	"sync"

	"verif/internal/gen"
)

// alphabet3: url / escape / number / at / hash / CDO boundaries (14 symbols like the other two)
var alphabet3 = []string{"url(", ")", " ", "\\", "0", "e", "+", ".", "%", "#", "@", "<!--", ">", "u"}

func exhLens(tier string) (l14, l2, l3 int) {
	if tier == "thorough" {
		return 6, 5, 5
	}
	return 4, 4, 4
}

// nRandom is the number of random sources (a multiple of rndBatch).
func nRandom(tier string) int {
	if tier == "thorough" {
		return 1500000
	}
	return 250000
}

// exhaustive strings are grouped by exhBatch per case (the driver keeps every outcome in memory)
const exhBatch = 64

func nBatches(n int) int { return (n + exhBatch - 1) / exhBatch }

func nCases(tier string) int {
	a, b, c := exhLens(tier)
	return nBatches(gen.CountStrings(14, a)) + nBatches(gen.CountStrings(14, b)) + nBatches(gen.CountStrings(14, c)) + nRandom(tier)/rndBatch
}

func exhCase(alpha []string, class string, bi, maxLen int) c06In {
	in := c06In{Class: class}
	for k := bi * exhBatch; k < (bi+1)*exhBatch; k++ {
		s, ok := gen.NthString(alpha, k, maxLen)
		if !ok {
			break
		}
		in.Srcs = append(in.Srcs, s)
	}
	return in
}

// random sources are grouped too (rndBatch per case, each with its own class)
const rndBatch = 8

func genCase(r *rand.Rand, i int, tier string) any {
	a, b, c := exhLens(tier)
	if n := nBatches(gen.CountStrings(14, a)); i < n {
		return exhCase(gen.Alphabet14, "x14", i, a)
	} else {
		i -= n
	}
	if n := nBatches(gen.CountStrings(14, b)); i < n {
		return exhCase(gen.Alphabet2, "x2", i, b)
	} else {
		i -= n
	}
	if n := nBatches(gen.CountStrings(14, c)); i < n {
		return exhCase(alphabet3, "x3", i, c)
	}
	in := c06In{Class: "random"}
	for k := 0; k < rndBatch; k++ {
		src, class := randomSource(r)
		in.Srcs = append(in.Srcs, src)
		in.Cls = append(in.Cls, class)
	}
	return in
}

func randomSource(r *rand.Rand) (src, class string) {
	switch k := r.Intn(22); {
	case k >= 20:
		return anb(r), "anb"
	case k < 4:
		return gen.Soup(r, 8), "soup"
	case k < 8:
		return damage(r, sheet(r, 2)), "sheet"
	case k < 11:
		return damage(r, declBlock(r, 2)), "decls"
	case k < 14:
		if s, ok := corpusCase(r); ok {
			return s, "corpus"
		}
		return gen.Soup(r, 8), "soup"
	case k < 17:
		return micro(r), "micro"
	case k < 19:
		return positions(r), "positions"
	}
	return gen.CleanList(r, 2, 8), "clean"
}

// ------------------------------------------------------------------------------------------------
// structured style sheets

func pick(r *rand.Rand, xs ...string) string { return xs[r.Intn(len(xs))] }

func ws(r *rand.Rand) string {
	return pick(r, "", "", "", " ", " ", "\n", "\t", "  ", "/**/", " /* c */ ", "\r\n", "/*;*/", "/*}*/")
}

func ident(r *rand.Rand) string {
	return pick(r, "a", "b", "color", "margin-top", "--x", "--", "-a", "_", "é", "a1", "\\31 a", "\\@x", "imp\\6frtant", "url", "u", "U", "important", "e3", "x-")
}

func valueTok(r *rand.Rand, depth int) string {
	switch k := r.Intn(22); {
	case k < 5:
		return ident(r)
	case k < 8:
		return pick(r, "0", "1", "-1", "+.5", "1e3", "1.5E-2", "10px", "50%", "1e", "1e+", "2n-1", "-0", "1.", ".5.5", "00.10")
	case k < 10:
		return pick(r, "\"s\"", "'t'", "\"a\\\"b\"", "'\\\n'", "\"\"", "\"a;b}\"")
	case k < 11:
		return pick(r, "url(x)", "url( x )", "url(\"x\")", "url()", "url(a\\)b)", "URL(x y)", "url('x' y)", "u\\72l(x)", "url(a(b)", "url(a'b)")
	case k < 12:
		return pick(r, "#fff", "#a-b", "#1", "#-", "#--", "#\\31", "#")
	case k < 14:
		return pick(r, ",", "/", "+", "-", "*", ">", "~", "|", "||", "~=", "|=", "^=", "$=", "*=", "=", ".", "&", "!", "?", "<", "$", "^", "%", "`")
	case k < 15:
		return pick(r, "<!--", "-->", "@x", "@", "\\", "\\\n", "U+1F", "u+?", "u+a-b")
	case k < 16 && depth > 0:
		return "(" + valueList(r, depth-1, 3) + ")"
	case k < 17 && depth > 0:
		return "[" + valueList(r, depth-1, 3) + "]"
	case k < 18 && depth > 0:
		return pick(r, "rgb", "calc", "var", "f", "-x", "url", "Url") + "(" + valueList(r, depth-1, 3) + ")"
	case k < 19 && depth > 0:
		return "{" + valueList(r, depth-1, 3) + "}"
	case k < 20:
		return gen.CleanToken(r, depth)
	}
	return pick(r, "!important", "! important", "!IMPORTANT", "!/**/important", "!ie", "!")
}

func valueList(r *rand.Rand, depth, n int) string {
	var sb strings.Builder
	k := r.Intn(n + 1)
	for i := 0; i < k; i++ {
		sb.WriteString(valueTok(r, depth))
		sb.WriteString(ws(r))
	}
	return sb.String()
}

func decl(r *rand.Rand, depth int) string {
	var sb strings.Builder
	sb.WriteString(ident(r))
	sb.WriteString(ws(r))
	sb.WriteString(pick(r, ":", ":", ":", ":", ":", "", "=", "::", ";"))
	sb.WriteString(ws(r))
	sb.WriteString(valueList(r, depth, 4))
	sb.WriteString(pick(r, "", "", "", "!important", " ! important ", "!important!", "!important;!important", " !IMPORTANT", "!imp"))
	return sb.String()
}

// declBlock is the contents of a declaration block, with nested rules and at-rules.
func declBlock(r *rand.Rand, depth int) string {
	var sb strings.Builder
	n := r.Intn(5)
	for i := 0; i < n; i++ {
		sb.WriteString(ws(r))
		switch k := r.Intn(12); {
		case k < 7:
			sb.WriteString(decl(r, depth))
		case k < 8 && depth > 0:
			sb.WriteString(pick(r, "&", "&:hover", "a b", ".c", "a:hover", "> p", "a:b", "", "--x:y", "#i") + ws(r) + "{" + declBlock(r, depth-1) + "}")
		case k < 9 && depth > 0:
			sb.WriteString("@" + pick(r, "media", "x", "font-face", "-y", "\\40 ") + ws(r) + valueList(r, 1, 2) + pick(r, ";", "{"+declBlock(r, depth-1)+"}", "{"+sheet(r, depth-1)+"}", ""))
		case k < 10:
			sb.WriteString(valueList(r, depth, 3))
		default:
			sb.WriteString(pick(r, ";", ";;", "}", ")", "]", "{}", "a", "a:", ":b", "a b", "@", "!important"))
		}
		sb.WriteString(pick(r, ";", ";", ";", "", " ;", ";\n"))
	}
	return sb.String()
}

func prelude(r *rand.Rand) string {
	var sb strings.Builder
	n := 1 + r.Intn(3)
	for i := 0; i < n; i++ {
		sb.WriteString(pick(r, "a", "div", ".c", "#i", "*", "a:hover", "a::before", "[x=y]", "[x~=\"y\"]", ":not(p)", ">", "+", ",", "a|b", "--x:", "@", ";", "<!--", "-->", "(", "[", "0%", "é"))
		sb.WriteString(ws(r))
	}
	return sb.String()
}

// sheet is a rule list.
func sheet(r *rand.Rand, depth int) string {
	var sb strings.Builder
	n := r.Intn(4)
	for i := 0; i < n; i++ {
		sb.WriteString(pick(r, "", "", "", " ", "\n", "<!--", "-->", "/* c */", " <!-- "))
		switch k := r.Intn(10); {
		case k < 5:
			sb.WriteString(prelude(r) + "{" + declBlock(r, depth) + pick(r, "}", "}", "}", "", ")", "]}"))
		case k < 8:
			name := pick(r, "media", "import", "charset", "font-face", "page", "supports", "x", "-y", "--z", "\\66oo", "1")
			body := ""
			switch r.Intn(4) {
			case 0:
				body = ";"
			case 1:
				if depth > 0 {
					body = "{" + sheet(r, depth-1) + "}"
				} else {
					body = "{}"
				}
			case 2:
				body = "{" + declBlock(r, depth) + pick(r, "}", "")
			}
			sb.WriteString("@" + name + ws(r) + valueList(r, 1, 3) + body)
		case k < 9:
			sb.WriteString(valueList(r, 1, 3) + pick(r, "", ";", "}"))
		default:
			sb.WriteString(pick(r, "{}", "{", "}", ";", "a{}b", "a{};b{}", "@;", "@{}", "a{b:c}}d{e:f}", "a{b:c;}/*"))
		}
	}
	return sb.String()
}

var hostile = []string{"\\", "\n", "\"", "'", "(", ")", "{", "}", "[", "]", "/*", "*/", "/", "*", ";", ":", "!", "@", "#", "-", "--", "-->", "<!--", "url(", "\\0", "\\41 ", "\r", "\f", "\x00", "\r\n", "é", "\U0001F600", "u+", "e", "E", ".", "+", "%", "important", " ", "\t", "0", "9", "a", "\x01", "\x7f", "\\\n", "\\\r\n", "\\\\", ","}

// damage applies a few character-level edits and possibly a truncation.
func damage(r *rand.Rand, s string) string {
	rs := []rune(s)
	edits := 0
	switch r.Intn(4) {
	case 0:
		edits = 0
	case 1:
		edits = 1
	case 2:
		edits = 2
	default:
		edits = 1 + r.Intn(5)
	}
	for e := 0; e < edits; e++ {
		pos := 0
		if len(rs) > 0 {
			pos = r.Intn(len(rs) + 1)
		}
		switch r.Intn(5) {
		case 0: // delete
			if pos < len(rs) {
				rs = append(rs[:pos:pos], rs[pos+1:]...)
			}
		case 1: // duplicate
			if pos < len(rs) {
				rs = append(rs[:pos+1:pos+1], rs[pos:]...)
			}
		case 2, 3: // insert
			ins := []rune(hostile[r.Intn(len(hostile))])
			rs = append(rs[:pos:pos], append(ins, rs[pos:]...)...)
		default: // replace
			if pos < len(rs) {
				ins := []rune(hostile[r.Intn(len(hostile))])
				rs = append(rs[:pos:pos], append(ins, rs[pos+1:]...)...)
			}
		}
	}
	if len(rs) > 0 && r.Intn(4) == 0 {
		rs = rs[:r.Intn(len(rs)+1)] // EOF at a random place: inside strings, urls, comments, blocks
	}
	return string(rs)
}

// ------------------------------------------------------------------------------------------------
// micro grammars: escapes, numbers, urls, ident starts

func hexDigits(r *rand.Rand) string {
	n := 1 + r.Intn(8)
	var sb strings.Builder
	for i := 0; i < n; i++ {
		sb.WriteByte("0123456789abcdefABCDEF"[r.Intn(22)])
	}
	return sb.String()
}

func escape(r *rand.Rand) string {
	switch r.Intn(8) {
	case 0:
		return "\\" + pick(r, "0", "00", "000000", "0000000", "110000", "10FFFF", "10ffff0", "D800", "dfff", "d7ff", "e000", "FFFFFF", "fffd", "1", "7f", "80")
	case 1:
		return "\\" + hexDigits(r)
	case 2:
		return "\\" + hexDigits(r) + pick(r, " ", "\n", "\t", "\r\n", "\r", "\f", "  ", "\r\r")
	case 3:
		return "\\" + pick(r, "\n", "\r", "\f", "\r\n")
	case 4:
		return "\\" + pick(r, "g", "z", "-", "\\", "\"", "'", "(", ")", "{", ";", " ", "\t", "é", "\U0001F600", "\x00", "\x7f", "!")
	case 5:
		return "\\"
	}
	return "\\" + hexDigits(r)[:1] + pick(r, "", " ", "g", "0")
}

func number(r *rand.Rand) string {
	var sb strings.Builder
	sb.WriteString(pick(r, "", "", "+", "-", "+-", "--", "-+"))
	sb.WriteString(pick(r, "", "0", "1", "12", "007", "9", "4294967296", "340282346638528859811704183484516925440", "999999999999999999"))
	if r.Intn(2) == 0 {
		sb.WriteString(pick(r, ".", ".0", ".5", ".25", "..", ".e", ".1.2", ".000000000000000000000000000000000000000000001"))
	}
	if r.Intn(2) == 0 {
		sb.WriteString(pick(r, "e", "E", "e+", "e-", "e3", "E3", "e+3", "e-3", "e+-3", "e38", "e39", "e-45", "e-46", "e-50", "e400", "e-400", "e99999", "e0", "e00", "ee3", "e3e3", "e3.5"))
	}
	sb.WriteString(pick(r, "", "", "%", "px", "e", "-", "--", "-x", "\\", "\\65", "\\\n", "_", "é", "%%", "n-1", "(", "u+1"))
	return sb.String()
}

func urlText(r *rand.Rand) string {
	var sb strings.Builder
	sb.WriteString(pick(r, "url(", "url(", "URL(", "uRl(", "u\\72l(", "\\75rl(", "url (", "urlx(", "-url(", "url\\28"))
	sb.WriteString(pick(r, "", "", " ", "  ", "\n", "\t \n"))
	n := r.Intn(5)
	for i := 0; i < n; i++ {
		switch r.Intn(12) {
		case 0:
			sb.WriteString(pick(r, " ", "\n", "\t", "  "))
		case 1:
			sb.WriteString(pick(r, "\"", "'", "\"x\"", "'x'", "\"x", "'\n"))
		case 2:
			sb.WriteString(pick(r, "(", "\x01", "\x08", "\x0b", "\x0e", "\x1f", "\x7f", "\x00", "\t", "\x0c"))
		case 3, 4:
			sb.WriteString(escape(r))
		case 5:
			sb.WriteString(pick(r, "\\)", "\\\\", "\\(", "\\'", "\\ ", "\\;"))
		default:
			sb.WriteString(pick(r, "a", "b", "/", ".", "é", "?", "#", ";", "{", "}", ",", "%20", "*/", "/*", "-", "!"))
		}
	}
	sb.WriteString(pick(r, ")", ")", ")", " )", "", " ", ") x", ");a:b", "){}"))
	return sb.String()
}

func identStart(r *rand.Rand) string {
	return pick(r, "-", "--", "---", "-a", "--a", "-1", "-.5", "-\\", "-\\41", "-\\\n", "-->", "--->", "-é", "_", "a", "\\", "\\-", "#", "#-", "#--", "#-a", "#-1", "#1", "#\\", "#\\\n", "@", "@-", "@--", "@-a", "@1", "@-1", "@\\", "@\\\n", "@-\\", ".", "+", "+a", ".a", "<", "<!", "<!-", "<!--", "<!---", "/", "/*", "/**", "/*/", "*/")
}

func micro(r *rand.Rand) string {
	var sb strings.Builder
	n := 1 + r.Intn(4)
	for i := 0; i < n; i++ {
		switch r.Intn(9) {
		case 0, 1:
			sb.WriteString(pick(r, "", "a", "#", "@", "1", "-", "\"", "'", "url(") + escape(r) + pick(r, "", "a", "0", " ", "(", "\"", "'", ")"))
		case 2, 3:
			sb.WriteString(number(r))
		case 4, 5:
			sb.WriteString(urlText(r))
		case 6:
			sb.WriteString(identStart(r) + pick(r, "", "a", "0", "(", " ", "-", "\\"))
		case 7:
			q := pick(r, "\"", "'")
			sb.WriteString(q + pick(r, "", "a", "\\", "\\\n", "\\\r\n", "\n", "\\"+q, escape(r), "é", "/*", "\\\\") + pick(r, "", "b", "\n", escape(r)) + pick(r, q, q, "", "\n", "\\"))
		default:
			sb.WriteString(pick(r, "(", "[", "{", "f(", "url(\"") + pick(r, "", "a", "/*", "\"", "'", "\\", "url(", "(", ")", "]", "}") + pick(r, "", "", ")", "]", "}"))
		}
		sb.WriteString(pick(r, "", "", " ", ";", "/**/", "\n"))
	}
	return sb.String()
}

// anb: texts in and around the An+B microsyntax (§6)
func anb(r *rand.Rand) string {
	sp := func() string { return pick(r, "", "", "", " ", "  ", "\n", "/**/", "\t") }
	num := func() string { return pick(r, "0", "1", "2", "3", "14", "007", "16777216", "99999", "1.0", "1e1", "") }
	var sb strings.Builder
	sb.WriteString(sp())
	switch r.Intn(8) {
	case 0:
		sb.WriteString(pick(r, "odd", "even", "ODD", "eVen", "\\6fdd", "ödd", "odd1", "evenn", "-odd", "+even"))
	case 1:
		sb.WriteString(pick(r, "", "+", "-", "+ ", "- ", "--", "+-") + num())
	default:
		sb.WriteString(pick(r, "", "", "+", "-", "+ ", "- ", "+/**/", "--", "+-"))
		sb.WriteString(pick(r, "", "", num(), num()))
		sb.WriteString(pick(r, "n", "n", "n", "N", "\\6e", "n-", "N-", "n--", "n-a", "m", "nn", "n\\-", "_n"))
		sb.WriteString(sp())
		if r.Intn(4) != 0 {
			sb.WriteString(pick(r, "", "+", "-", "+", "-", "+ +", "- -", "+-", "*"))
			sb.WriteString(sp())
			sb.WriteString(pick(r, num(), num(), "+"+num(), "-"+num(), "1n", "x"))
		}
	}
	sb.WriteString(sp())
	sb.WriteString(pick(r, "", "", "", "", "", "foo", ",", "n", "1", "of a", ")"))
	return sb.String()
}

// positions: many line breaks of every kind, NULs and multi-byte characters between tokens.
func positions(r *rand.Rand) string {
	var sb strings.Builder
	n := 2 + r.Intn(8)
	for i := 0; i < n; i++ {
		sb.WriteString(pick(r, "a", "é", "\U0001F600", "\x00", "1px", "\"s\"", "\"a\\\nb\"", "'x\\\r\nz'", "/*\n\n*/", "/*\r\n*/", "/*é\f*/", "url(\n x\n)", "url(é)", "{", "}", "(", ")", ";", ":", "@m", "#é", "\"\n", "f(", "\\\n", "\\\r", "~=", "||", "<!--", "-->", "\"é\x00\"", "\\0 ", "\\\x00"))
		sb.WriteString(pick(r, "", " ", "\n", "\r", "\r\n", "\f", "\n\n", "\r\r\n", "\t", " \n ", "\n\r", "\f\f"))
	}
	return sb.String()
}

// ------------------------------------------------------------------------------------------------
// css-parsing-tests inputs (data only) and their mutations

var (
	corpusOnce sync.Once
	corpus     []string
)

func repoDir() string {
	if d := os.Getenv("VERIF_REPO"); d != "" {
		return d
	}
	return "/repo"
}

func loadCorpus() {
	dir := filepath.Join(repoDir(), "css/parser/css-parsing-tests")
	for _, f := range []string{"component_value_list.json", "declaration_list.json", "blocks_contents.json", "one_declaration.json", "one_rule.json", "rule_list.json", "stylesheet.json", "one_component_value.json", "An+B.json"} {
		b, err := os.ReadFile(filepath.Join(dir, f))
		if err != nil {
			fmt.Fprintln(os.Stderr, "c06: corpus:", err)
			continue
		}
		var l []interface{}
		if json.Unmarshal(b, &l) != nil {
			continue
		}
		for i := 0; i+1 < len(l); i += 2 {
			if s, ok := l[i].(string); ok {
				corpus = append(corpus, s)
			}
		}
	}
}

func corpusCase(r *rand.Rand) (string, bool) {
	corpusOnce.Do(loadCorpus)
	if len(corpus) == 0 {
		return "", false
	}
	s := corpus[r.Intn(len(corpus))]
	rs := []rune(s)
	// long entries: take a window so that single edits matter
	if len(rs) > 60 && r.Intn(3) != 0 {
		a := r.Intn(len(rs) - 30)
		b := a + 10 + r.Intn(50)
		if b > len(rs) {
			b = len(rs)
		}
		rs = rs[a:b]
	}
	s = string(rs)
	switch r.Intn(6) {
	case 0:
		return s, true
	case 1: // splice with another entry
		t := []rune(corpus[r.Intn(len(corpus))])
		if len(t) > 40 {
			t = t[:40]
		}
		return s + pick(r, "", " ", ";", "}", "\n") + string(t), true
	}
	return damage(r, s), true
}
