// Package c06 is the runtime monitor of property C06: "CSS text is tokenized and parsed as CSS
// Syntax Level 3 prescribes".
//
// Every case is one source text.  It is run through webrender's tokenizer and all its rule /
// declaration parsers, and through the independent reference implementation props/c06/csssyntax;
// both results are brought to one comparison form (internal/csscmp tokens with source positions,
// and {declaration, at-rule, qualified-rule, error} items) and must be equal.
//
// Comparison conventions (each is a place where the specification leaves a representation choice):
//   - a parse error of the specification that webrender materialises as a ParseError token is
//     expected as such a token at the same place: <bad-string> -> error 'b', <bad-url> -> error 'u',
//     a string / url ended by EOF -> the token with its error flag followed by error 's' / 'e',
//     a <)-token>, <]-token>, <}-token> that closes nothing -> error ')' ']' '}';
//   - <colon>, <semicolon>, <comma>, <CDO>, <CDC> are literals; webrender's two-character literals
//     (~= |= ^= $= *= ||, match tokens of the 2014 CR) are split into delims;
//   - white space tokens carry their source text; after "url(" the reference lets the white space
//     token start at the first white space code point (the specification consumes all but one);
//   - positions are (line, column) of the first code point of a token, column counted in UTF-8
//     bytes of the preprocessed text (the specification defines no positions);
//   - declaration values are compared without leading / trailing white space (the specification
//     strips it, webrender keeps it); comments are dropped and adjacent white space merged at rule
//     level; "return nothing" after a parse error corresponds to one ParseError compound.
package c06

import (
	"encoding/json"
	"fmt"
	"math"
	"math/big"
	"math/rand"
	"os"
	"strings"
	"unicode/utf8"

	"github.com/benoitkugler/webrender/css/parser"

	"verif/internal/csscmp"
	"verif/internal/fw"
	"verif/props/c06/csssyntax"
)

// Known findings of the unchanged tree whose trigger is kept out of the compared domain (see
// notes/C06.md; witnesses in findings/C06/).  Setting one to false compares that sub-domain too;
// the environment variable C06_COMPARE=all (or a comma separated list of the names below) does the
// same for one run (development aid: shows what the check says about the excluded sub-domains).
var (
	excludeNestedCommentEOF   = false                                         // fixed in /repo 0d3c143; F-C06-nested-comment-eof
	excludeURLBackslashNL     = false                                         // fixed in /repo 1114af0; F-C06-url-backslash-newline
	excludeBadURLBackslashEnd = false                                         // fixed in /repo 3a5a8a8; F-C06-bad-url-escaped-backslash
	excludeBigInteger         = !compareAnyway("integer-overflow")            // F-C06-integer-overflow
	excludeBangAfterBang      = false                                         // fixed in /repo e1930b2; F-C06-important-after-bang
	excludeCustomCurly        = !compareAnyway("custom-property-block")       // F-C06-custom-property-block
	excludeCurlyFirst         = !compareAnyway("block-in-nested-declaration") // F-C06-block-in-nested-declaration (ParseBlocksContents only)
)

func compareAnyway(name string) bool {
	v := os.Getenv("C06_COMPARE")
	if v == "all" {
		return true
	}
	for _, n := range strings.Split(v, ",") {
		if n == name {
			return true
		}
	}
	return false
}

// c06In is one case: a run of 64 consecutive strings of an exhaustive enumeration, or 8 random
// sources (the driver keeps every outcome in memory, so sources are grouped).  A witness names the failing source; {"srcs":["…"],"class":"replay"} replays it alone.
type c06In struct {
	Srcs  []string `json:"srcs"`
	Class string   `json:"class"`
	Cls   []string `json:"cls,omitempty"` // class of each source when they differ (random cases)
}

func init() {
	fw.Register(&fw.Prop{
		ID: "C06",
		Rule: "one case = 64 consecutive strings of an exhaustive enumeration or 8 random source texts; every source is run through Tokenize (comments kept and skipped), ParseStylesheetBytes, ParseRuleList, ParseDeclarationListString, ParseBlocksContents, ParseOneDeclaration, ParseOneComponentValue and ParseNth, each compared with the reference implementation of CSS Syntax 3. " +
			"Classes: exhaustive strings over three 14-symbol alphabets (tokenizer boundaries; declaration/rule punctuation; url/escape/number) up to length 4 (quick) or 5 (thorough, first alphabet 6), then random: hostile token soup, structured style sheets with character-level damage and truncation, mutations of the css-parsing-tests inputs, escape/number/url micro-grammars, An+B shaped texts, newline/NUL/multi-byte position stress. " +
			"A source is non-trivial when the reference sees at least two component values (recursively) and every entry point was compared for it (counter sources_nontrivial); a case is non-trivial when one of its sources is.",
		N:     nCases,
		Gen:   genCase,
		Check: check,
		Floor: func(tier string) int {
			if tier == "thorough" {
				return 300000
			}
			return 30000
		},
		CounterFloors: func(tier string) map[string]int64 {
			m := map[string]int64{
				"tok_error_b": 2000, "tok_error_u": 1000, "tok_error_s": 2000, "tok_error_e": 500, "tok_error_)": 2000, "tok_error_}": 2000,
				"tok_url": 1000, "tok_string": 5000, "tok_hash": 2000, "tok_at-keyword": 2000, "tok_dimension": 2000, "tok_percentage": 1000,
				"tok_function": 2000, "tok_comment": 2000, "tok_{}": 5000, "tok_()": 5000, "tok_unicode-range": 100,
				"blocks_ended_by_eof": 5000, "escapes_in_source": 5000, "multi_line_inputs": 5000, "non_ascii_inputs": 2000,
				"item_stylesheet_qualified-rule": 5000, "item_stylesheet_at-rule": 2000, "item_stylesheet_error": 5000,
				"item_decllist_declaration": 5000, "item_decllist_error": 5000, "item_decllist_at-rule": 1000,
				"item_blocks_declaration": 5000, "item_blocks_qualified-rule": 2000, "item_blocks_error": 5000,
				"item_onedecl_declaration": 3000, "important_declarations": 500,
				"anb_matches": 3000, "class_anb": 5000, "sources_nontrivial": 200000, "tokens_compared": 3000000,
				"class_corpus": 1000, "class_x14": 40000, "class_x2": 40000, "class_x3": 40000,
			}
			if tier == "thorough" {
				m["sources_nontrivial"] = 6000000
				m["class_x14"], m["class_x2"], m["class_x3"] = 8000000, 570000, 570000
			}
			return m
		},
		Assumptions: []string{
			"the reference is an independent implementation of CSS Syntax Level 3 (CR draft of 24 December 2021) written from the specification text and cross-checked against the css-parsing-tests expectations bundled with the repository (go test ./props/c06/csssyntax/)",
			"ParseBlocksContents is compared with the Editor's Draft algorithm \"consume a block's contents\" (declaration first, else qualified rule with ';' as stop token); inputs with a '}' at their top level are outside the compared domain",
			"a token starting with u+ / U+ followed by a hex digit or '?' is compared with the unicode-range token of the 2014 Candidate Recommendation (webrender follows tinycss2 there); the match tokens ~= |= ^= $= *= || are compared as their delims",
			"declarations whose value holds a top-level {}-block next to another value are version dependent (valid in the 2021 text, dropped by the Editor's Draft) and not compared at declaration level",
			"source positions are not defined by the specification: line = 1 + preceding newlines, column = 1 + UTF-8 bytes since the last newline of the preprocessed text; positions of ParseError compounds are not compared",
			"numeric values are the exact decimal value rounded to the nearest float32",
			"inputs are valid UTF-8; decoding of byte streams (BOM, @charset) is not covered",
			"sub-domains removed because of known findings are listed in notes/C06.md and counted in the excluded_* counters",
		},
		Exhaustive: func(tier string) bool { return true },
		Batch:      2000,
	})
}

// ------------------------------------------------------------------------------------------------
// reference -> comparison form

func bits(f float32) uint32 { return math.Float32bits(f) }

func refTok(c csssyntax.CV) []csscmp.Tok {
	t := c.Tok
	r := csscmp.Tok{Line: t.Line, Col: t.Col}
	if c.Block {
		r.K = map[csssyntax.Kind]string{csssyntax.LBrace: "{}", csssyntax.LBracket: "[]", csssyntax.LParen: "()"}[t.Kind]
		r.Args = refToks(c.Children)
		return []csscmp.Tok{r}
	}
	if c.Func {
		r.K, r.V, r.Args = "function", t.Value, refToks(c.Children)
		return []csscmp.Tok{r}
	}
	errTok := func(kind string) csscmp.Tok { return csscmp.Tok{K: "error", V: kind, Line: t.Line, Col: t.Col} }
	switch t.Kind {
	case csssyntax.Ident:
		r.K, r.V = "ident", t.Value
	case csssyntax.AtKeyword:
		r.K, r.V = "at-keyword", t.Value
	case csssyntax.Hash:
		r.K, r.V, r.ID = "hash", t.Value, t.ID
	case csssyntax.String:
		r.K, r.V, r.Err = "string", t.Value, t.EOFError
		if t.EOFError {
			return []csscmp.Tok{r, errTok("s")}
		}
	case csssyntax.URL:
		r.K, r.V, r.Err = "url", t.Value, t.EOFError
		if t.EOFError {
			return []csscmp.Tok{r, errTok("e")}
		}
	case csssyntax.BadString:
		return []csscmp.Tok{errTok("b")}
	case csssyntax.BadURL:
		return []csscmp.Tok{errTok("u")}
	case csssyntax.RParen, csssyntax.RBracket, csssyntax.RBrace:
		return []csscmp.Tok{errTok(t.Value)}
	case csssyntax.Number:
		r.K, r.Repr, r.Num, r.Int = "number", t.Repr, bits(t.Num32), t.Integer
	case csssyntax.Percentage:
		r.K, r.Repr, r.Num, r.Int = "percentage", t.Repr, bits(t.Num32), t.Integer
	case csssyntax.Dimension:
		r.K, r.Repr, r.Num, r.Int, r.Unit = "dimension", t.Repr, bits(t.Num32), t.Integer, t.Unit
	case csssyntax.Whitespace:
		r.K, r.V = "ws", t.Value
	case csssyntax.Comment:
		r.K, r.V = "comment", t.Value
	case csssyntax.UnicodeRange:
		r.K, r.R0, r.R1 = "unicode-range", t.RangeStart, t.RangeEnd
	default: // delim, colon, semicolon, comma, CDO, CDC
		r.K, r.V = "delim", t.Value
	}
	return []csscmp.Tok{r}
}

func refToks(cs []csssyntax.CV) []csscmp.Tok {
	var out []csscmp.Tok
	for _, c := range cs {
		out = append(out, refTok(c)...)
	}
	return out
}

func mergeWS(in []csscmp.Tok) []csscmp.Tok {
	var m []csscmp.Tok
	for _, t := range in {
		if t.Args != nil {
			t.Args = mergeWS(t.Args)
		}
		if t.K == "ws" && len(m) > 0 && m[len(m)-1].K == "ws" {
			m[len(m)-1].V += t.V
			continue
		}
		m = append(m, t)
	}
	return m
}

func stripWS(in []csscmp.Tok) []csscmp.Tok {
	for len(in) > 0 && in[0].K == "ws" {
		in = in[1:]
	}
	for len(in) > 0 && in[len(in)-1].K == "ws" {
		in = in[:len(in)-1]
	}
	return in
}

// item is the rule-level comparison form.
type item struct {
	Kind      string
	Name      string
	Prelude   []csscmp.Tok
	Block     []csscmp.Tok
	HasBlock  bool
	Value     []csscmp.Tok
	Important bool
	Line, Col int
}

func refItem(it csssyntax.Item) item {
	r := item{Kind: it.Kind, Name: it.Name, HasBlock: it.HasBlock, Important: it.Important, Line: it.Line, Col: it.Col}
	switch it.Kind {
	case "declaration":
		r.Value = stripWS(mergeWS(refToks(it.Value)))
	case "at-rule", "qualified-rule":
		r.Prelude = mergeWS(refToks(it.Prelude))
		r.Block = mergeWS(refToks(it.Block))
	default:
		r = item{Kind: "error"}
	}
	return r
}

func refItems(its []csssyntax.Item) []item {
	out := make([]item, 0, len(its))
	for _, it := range its {
		out = append(out, refItem(it))
	}
	return out
}

var (
	optTok  = csscmp.Options{Positions: true, SplitLits: true}
	optRule = csscmp.Options{Positions: true, SplitLits: true, DropComments: true, MergeWS: true}
)

// deepMerge applies the white space merge recursively (csscmp merges per list already, after
// dropping comments).
func gotToks(ts []parser.Token) []csscmp.Tok { return csscmp.From(ts, optRule) }

func gotItem(c parser.Compound) (item, bool) {
	switch v := c.(type) {
	case parser.Declaration:
		p := v.Pos()
		return item{Kind: "declaration", Name: v.Name, Value: stripWS(gotToks(v.Value)), Important: v.Important, Line: p.Line, Col: p.Column}, true
	case parser.AtRule:
		p := v.Pos()
		return item{Kind: "at-rule", Name: v.AtKeyword, Prelude: gotToks(v.Prelude), Block: gotToks(v.Content), HasBlock: v.Content != nil, Line: p.Line, Col: p.Column}, true
	case parser.QualifiedRule:
		p := v.Pos()
		return item{Kind: "qualified-rule", Prelude: gotToks(v.Prelude), Block: gotToks(v.Content), HasBlock: true, Line: p.Line, Col: p.Column}, true
	case parser.ParseError:
		return item{Kind: "error"}, true
	}
	return item{}, false // top-level white space or comment
}

func gotItems(cs []parser.Compound) (out []item, wsOrComments int) {
	out = make([]item, 0, len(cs))
	for _, c := range cs {
		if it, ok := gotItem(c); ok {
			out = append(out, it)
		} else {
			wsOrComments++
		}
	}
	return
}

func (it item) String() string {
	switch it.Kind {
	case "declaration":
		return fmt.Sprintf("declaration(%q, %d value tokens, important=%v)@%d:%d", it.Name, len(it.Value), it.Important, it.Line, it.Col)
	case "at-rule":
		return fmt.Sprintf("at-rule(%q, %d prelude tokens, block=%v/%d)@%d:%d", it.Name, len(it.Prelude), it.HasBlock, len(it.Block), it.Line, it.Col)
	case "qualified-rule":
		return fmt.Sprintf("qualified-rule(%d prelude tokens, block %d)@%d:%d", len(it.Prelude), len(it.Block), it.Line, it.Col)
	}
	return it.Kind
}

func diffItems(want, got []item) string {
	n := len(want)
	if len(got) < n {
		n = len(got)
	}
	for i := 0; i < n; i++ {
		w, g := want[i], got[i]
		if w.Kind != g.Kind || w.Name != g.Name || w.Important != g.Important || w.HasBlock != g.HasBlock || w.Line != g.Line || w.Col != g.Col {
			return fmt.Sprintf("item %d: expected %s, observed %s", i, w, g)
		}
		if d := csscmp.Diff(w.Prelude, g.Prelude, "prelude"); d != "" {
			return fmt.Sprintf("item %d (%s): expected vs observed %s", i, w.Kind, d)
		}
		if d := csscmp.Diff(w.Block, g.Block, "block"); d != "" {
			return fmt.Sprintf("item %d (%s): expected vs observed %s", i, w.Kind, d)
		}
		if d := csscmp.Diff(w.Value, g.Value, "value"); d != "" {
			return fmt.Sprintf("item %d (%s %q): expected vs observed %s", i, w.Kind, w.Name, d)
		}
	}
	if len(want) != len(got) {
		if len(want) > len(got) {
			return fmt.Sprintf("expected %d items, observed %d; first missing: %s", len(want), len(got), want[n])
		}
		return fmt.Sprintf("expected %d items, observed %d; first extra: %s", len(want), len(got), got[n])
	}
	return ""
}

// ------------------------------------------------------------------------------------------------

var refOpt = csssyntax.Options{UnicodeRange: true}

func check(raw json.RawMessage) fw.Result {
	var in c06In
	if err := json.Unmarshal(raw, &in); err != nil {
		return fw.Result{Verdict: fw.Inconclusive, Msg: err.Error()}
	}
	var res fw.Result
	compared, nontrivial := 0, 0
	for k, src := range in.Srcs {
		class := in.Class
		if k < len(in.Cls) {
			class = in.Cls[k]
		}
		one := checkOne(src, class)
		for k, v := range one.Counters {
			res.Count(k, v)
		}
		res.Reports = append(res.Reports, one.Reports...)
		if one.Verdict == fw.Violation {
			res.Fail(one.Sig, one.Msg)
			return res
		}
		if one.Verdict != fw.Skip {
			compared++
		}
		if one.Nontrivial {
			nontrivial++
		}
	}
	res.Count("sources_compared", int64(compared))
	res.Count("sources_nontrivial", int64(nontrivial))
	if compared == 0 {
		res.Verdict = fw.Skip
	}
	res.Nontrivial = nontrivial > 0
	if len(res.Reports) > 1 {
		res.Reports = res.Reports[:1]
	}
	return res
}

func checkOne(src, class string) fw.Result {
	// A witness of a known finding is compared in full: none of the sub-domain exclusions applies,
	// so that the finding is reported while it exists and its repair is noticed.
	if class == "witness" {
		return checkWith(src, class, exclusions{})
	}
	return checkWith(src, class, exclusions{excludeNestedCommentEOF, excludeURLBackslashNL, excludeBadURLBackslashEnd, excludeBigInteger, excludeBangAfterBang, excludeCustomCurly, excludeCurlyFirst})
}

type exclusions struct {
	nestedCommentEOF, urlBackslashNL, badURLBackslashEnd, bigInteger, bangAfterBang, customCurly, curlyFirst bool
}

func checkWith(src, class string, ex exclusions) fw.Result {
	excludeNestedCommentEOF, excludeURLBackslashNL, excludeBadURLBackslashEnd, excludeBigInteger := ex.nestedCommentEOF, ex.urlBackslashNL, ex.badURLBackslashEnd, ex.bigInteger
	excludeBangAfterBang, excludeCustomCurly, excludeCurlyFirst := ex.bangAfterBang, ex.customCurly, ex.curlyFirst
	var res fw.Result
	if !utf8.ValidString(src) {
		res.Verdict = fw.Skip
		res.Count("skipped_invalid_utf8", 1)
		return res
	}
	res.Count("class_"+class, 1)

	// ---- reference: component values
	refC, pfC := csssyntax.ParseComponentValues(src, csssyntax.Options{Comments: true, UnicodeRange: true})
	refN, pf := csssyntax.ParseComponentValues(src, refOpt)

	// ---- known-finding sub-domains (tokenizer level: the whole case is outside the compared domain)
	skip := func(name string) fw.Result {
		res.Verdict = fw.Skip
		res.Count("excluded_"+name, 1)
		return res
	}
	switch {
	case excludeNestedCommentEOF && (pf.CommentEOFNested || pfC.CommentEOFNested):
		return skip("nested_comment_eof")
	case excludeURLBackslashNL && pf.BadURLInvalidEsc:
		return skip("url_backslash_newline")
	case excludeBadURLBackslashEnd && pf.BadURLRemnantBackslashParen:
		return skip("bad_url_escaped_backslash")
	case excludeBigInteger && pf.IntegerDigits >= 19:
		return skip("integer_overflow")
	}

	// ---- 1. Tokenize, comments kept and skipped
	wantC, wantN := refToks(refC), refToks(refN)
	gotC := csscmp.From(parser.Tokenize([]byte(src), false), optTok)
	if d := csscmp.Diff(wantC, gotC, ""); d != "" {
		res.Fail("tokenize", fmt.Sprintf("Tokenize(%q, skipComments=false): expected (CSS Syntax 3) vs observed: %s", src, d))
		return res
	}
	gotN := csscmp.From(parser.Tokenize([]byte(src), true), optTok)
	if d := csscmp.Diff(wantN, gotN, ""); d != "" {
		res.Fail("tokenize-skipcomments", fmt.Sprintf("Tokenize(%q, skipComments=true): expected (CSS Syntax 3) vs observed: %s", src, d))
		return res
	}
	nTok := 0
	csscmp.Count(wantC, func(t csscmp.Tok) {
		nTok++
		k := "tok_" + t.K
		if t.K == "error" {
			k += "_" + t.V
		}
		res.Count(k, 1)
	})
	res.Count("tokens_compared", int64(nTok))
	countStructure(&res, refC)
	if pf.UnicodeRangeStart {
		res.Count("cases_with_unicode_range_2014", 1)
	}
	if pf.CommentEOF {
		res.Count("comment_ended_by_eof_top_level", 1)
	}
	for i := 0; i < len(src); i++ {
		if src[i] == '\\' {
			res.Count("escapes_in_source", 1)
			break
		}
	}
	if multiLine(src) {
		res.Count("multi_line_inputs", 1)
	}
	for i := 0; i < len(src); i++ {
		if src[i] >= 0x80 {
			res.Count("non_ascii_inputs", 1)
			break
		}
	}

	allCompared := true
	fail := func(sig, entry, d string) fw.Result {
		res.Fail(sig, fmt.Sprintf("%s on %q: expected (CSS Syntax 3) vs observed: %s", entry, src, d))
		return res
	}
	countItems := func(entry string, its []item) {
		for _, it := range its {
			res.Count("item_"+entry+"_"+it.Kind, 1)
			if it.Important {
				res.Count("important_declarations", 1)
			}
		}
	}

	// ---- 2. style sheet and rule list (§5.4.1 with and without the top-level flag)
	{
		ref, _ := csssyntax.ParseStylesheet(src, refOpt)
		want := refItems(ref)
		for _, variant := range [][2]bool{{true, true}, {false, false}, {true, false}} {
			got, extra := gotItems(parser.ParseStylesheetBytes([]byte(src), variant[0], variant[1]))
			if d := diffItems(want, got); d != "" {
				return fail("stylesheet", fmt.Sprintf("ParseStylesheetBytes(skipComments=%v, skipWhitespace=%v)", variant[0], variant[1]), d)
			}
			if variant[0] && variant[1] && extra != 0 {
				return fail("stylesheet", "ParseStylesheetBytes(true, true)", fmt.Sprintf("%d top-level white space / comment entries although both are skipped", extra))
			}
		}
		countItems("stylesheet", want)

		ref, _ = csssyntax.ParseListOfRules(src, refOpt)
		want = refItems(ref)
		for _, variant := range [][2]bool{{true, true}, {false, false}} {
			got, _ := gotItems(parser.ParseRuleList(parser.Tokenize([]byte(src), variant[0]), variant[0], variant[1]))
			if d := diffItems(want, got); d != "" {
				return fail("rule-list", fmt.Sprintf("ParseRuleList(skipComments=%v, skipWhitespace=%v)", variant[0], variant[1]), d)
			}
		}
		countItems("rulelist", want)
	}

	// ---- 3. declaration list (§5.4.5, 2021 text)
	{
		ref, dpf := csssyntax.ParseListOfDeclarations(src, refOpt)
		switch {
		case dpf.SawCurlyInValue:
			res.Count("notcompared_decllist_block_in_value_version_dependent", 1)
			allCompared = false
		case excludeCustomCurly && dpf.SawCustomCurly:
			res.Count("excluded_custom_property_block", 1)
			allCompared = false
		case excludeBangAfterBang && dpf.SawBangAmbiguous:
			res.Count("excluded_important_after_bang", 1)
			allCompared = false
		default:
			want := refItems(ref)
			for _, variant := range [][2]bool{{true, true}, {false, false}} {
				got, _ := gotItems(parser.ParseDeclarationListString(src, variant[0], variant[1]))
				if d := diffItems(want, got); d != "" {
					return fail("declaration-list", fmt.Sprintf("ParseDeclarationListString(skipComments=%v, skipWhitespace=%v)", variant[0], variant[1]), d)
				}
			}
			countItems("decllist", want)
		}
	}

	// ---- 4. block contents (Editor's Draft: declaration first, else nested qualified rule)
	{
		ref, bpf := csssyntax.ParseBlockContents(src, refOpt)
		switch {
		case bpf.StrayRBraceTop:
			res.Count("notcompared_blocks_top_level_rbrace", 1)
			allCompared = false
		case excludeCustomCurly && bpf.SawCustomCurly:
			res.Count("excluded_custom_property_block", 1)
			allCompared = false
		case excludeCurlyFirst && (bpf.SawCurlyFirst || bpf.SawCurlyImportant):
			res.Count("excluded_leading_block_declaration", 1)
			allCompared = false
		case excludeBangAfterBang && bpf.SawBangAmbiguous:
			res.Count("excluded_important_after_bang", 1)
			allCompared = false
		default:
			want := refItems(ref)
			got, _ := gotItems(parser.ParseBlocksContentsString(src))
			if d := diffItems(want, got); d != "" {
				return fail("blocks-contents", "ParseBlocksContentsString", d)
			}
			got, extra := gotItems(parser.ParseBlocksContents(parser.Tokenize([]byte(src), true), true))
			if d := diffItems(want, got); d != "" {
				return fail("blocks-contents", "ParseBlocksContents(Tokenize(skipComments), skipWhitespace)", d)
			}
			if extra != 0 {
				return fail("blocks-contents", "ParseBlocksContents(Tokenize(skipComments), skipWhitespace)", fmt.Sprintf("%d top-level white space / comment entries", extra))
			}
			countItems("blocks", want)
		}
	}

	// ---- 5. one declaration (§5.3.6)
	{
		ref, dpf := csssyntax.ParseDeclaration(src, refOpt)
		switch {
		case dpf.SawCurlyInValue:
			res.Count("notcompared_onedecl_block_in_value_version_dependent", 1)
			allCompared = false
		case excludeCustomCurly && dpf.SawCustomCurly:
			res.Count("excluded_custom_property_block", 1)
			allCompared = false
		case excludeBangAfterBang && dpf.SawBangAmbiguous:
			res.Count("excluded_important_after_bang", 1)
			allCompared = false
		default:
			want := []item{refItem(ref)}
			for _, skipC := range []bool{true, false} {
				got, _ := gotItems([]parser.Compound{parser.ParseOneDeclaration(parser.Tokenize([]byte(src), skipC))})
				if d := diffItems(want, got); d != "" {
					return fail("one-declaration", fmt.Sprintf("ParseOneDeclaration(Tokenize(skipComments=%v))", skipC), d)
				}
			}
			countItems("onedecl", want)
		}
	}

	// ---- 6. one component value (§5.3.9)
	{
		cv, why, _ := csssyntax.ParseComponentValue(src, refOpt)
		if why == "extra-input" && isOneMatchToken(refN) {
			// ~= |= ^= $= *= || are single tokens of the 2014 CR (and of webrender), two delims in the 2021 text
			res.Count("notcompared_onevalue_match_token_version_dependent", 1)
			why = "skip"
		}
		optOne := optTok
		optOne.DropComments = true
		for _, skipC := range []bool{true, false} {
			if why == "skip" {
				break
			}
			got := parser.ParseOneComponentValue(parser.Tokenize([]byte(src), skipC))
			g := csscmp.From([]parser.Token{got}, optOne)
			if why != "" {
				kind := map[string]string{"empty": "E", "extra-input": "x"}[why]
				if len(g) != 1 || g[0].K != "error" || g[0].V != kind {
					return fail("one-component-value", "ParseOneComponentValue", fmt.Sprintf("expected syntax error %q, observed %v", why, g))
				}
				res.Count("onevalue_errors", 1)
				continue
			}
			want := refTok(cv)
			if len(want) == 2 && len(g) == 1 && g[0].K == "error" && g[0].V == "x" {
				// A string / url ended by EOF is one component value for the specification; webrender
				// materialises the parse error as a second token and therefore reports "extra input".
				// Consequence of the representation, reported but not a verdict.
				res.Count("onevalue_eof_token_reported_as_extra_input", 1)
				if skipC {
					res.Reports = append(res.Reports, "ParseOneComponentValue: a lone string/url ended by EOF is reported as extra input (its ParseError token counts as a second value)")
				}
				continue
			}
			if d := csscmp.Diff(want, g, ""); d != "" {
				return fail("one-component-value", "ParseOneComponentValue", d)
			}
			res.Count("onevalue_values", 1)
		}
	}

	// ---- 7. An+B (§6), on the comment-free token list
	{
		a, b, ok := csssyntax.ParseAnB(src)
		lim := big.NewInt(1 << 24) // webrender keeps numeric values as float32: integers are exact up to 2^24
		switch {
		case ok && (new(big.Int).Abs(a).Cmp(lim) > 0 || new(big.Int).Abs(b).Cmp(lim) > 0):
			res.Count("notcompared_anb_beyond_float32_integers", 1)
		default:
			got := parser.ParseNth(parser.Tokenize([]byte(src), true))
			switch {
			case ok && got == nil:
				return fail("an+b", "ParseNth", fmt.Sprintf("expected A=%v B=%v, observed no match", a, b))
			case !ok && got != nil:
				return fail("an+b", "ParseNth", fmt.Sprintf("expected no match, observed A=%d B=%d", got[0], got[1]))
			case ok && (int64(got[0]) != a.Int64() || int64(got[1]) != b.Int64()):
				return fail("an+b", "ParseNth", fmt.Sprintf("expected A=%v B=%v, observed A=%d B=%d", a, b, got[0], got[1]))
			}
			if ok {
				res.Count("anb_matches", 1)
			} else {
				res.Count("anb_rejections", 1)
			}
		}
	}

	res.Nontrivial = nTok >= 2 && allCompared
	return res
}

// isOneMatchToken: the significant top-level values are exactly two adjacent delims spelling a
// match / column token of the 2014 CR.
func isOneMatchToken(cs []csssyntax.CV) bool {
	var sig []csssyntax.CV
	for _, c := range cs {
		if !c.Block && !c.Func && c.Tok.Kind == csssyntax.Whitespace {
			continue
		}
		sig = append(sig, c)
	}
	if len(sig) != 2 || sig[0].Block || sig[0].Func || sig[1].Block || sig[1].Func {
		return false
	}
	a, b := sig[0].Tok, sig[1].Tok
	if a.Kind != csssyntax.Delim || b.Kind != csssyntax.Delim || a.End != b.Start {
		return false
	}
	switch a.Value + b.Value {
	case "~=", "|=", "^=", "$=", "*=", "||":
		return true
	}
	return false
}

func multiLine(s string) bool {
	for i := 0; i < len(s); i++ {
		if s[i] == '\n' || s[i] == '\r' || s[i] == '\f' {
			return true
		}
	}
	return false
}

func countStructure(res *fw.Result, cs []csssyntax.CV) {
	for _, c := range cs {
		if (c.Block || c.Func) && c.EOFEnded {
			res.Count("blocks_ended_by_eof", 1)
		}
		if c.Children != nil {
			countStructure(res, c.Children)
		}
	}
}

var _ = rand.Int
