package csssyntax

// Cross-check of the reference implementation against the W3C-derived css-parsing-tests
// expectations bundled with the repository (used as data only).  Run with
//   go test ./props/c06/csssyntax/
// Differences between the test-suite conventions (tinycss2 flavour) and the specification are
// normalised here, not in the reference: match tokens (~= |= ^= $= *= ||) are split into delims,
// leading/trailing white space of declaration values is stripped.

import (
	"encoding/json"
	"os"
	"path/filepath"
	"reflect"
	"testing"
)

func testsDir() string {
	if d := os.Getenv("VERIF_REPO"); d != "" {
		return filepath.Join(d, "css/parser/css-parsing-tests")
	}
	return "/repo/css/parser/css-parsing-tests"
}

func load(t *testing.T, name string) []interface{} {
	b, err := os.ReadFile(filepath.Join(testsDir(), name))
	if err != nil {
		t.Skip(err)
	}
	var l []interface{}
	if err := json.Unmarshal(b, &l); err != nil {
		t.Fatal(err)
	}
	return l
}

func cvJSON(c CV) []interface{} {
	typ := func(b bool) string {
		if b {
			return "integer"
		}
		return "number"
	}
	t := c.Tok
	if c.Block {
		name := map[Kind]string{LBrace: "{}", LBracket: "[]", LParen: "()"}[t.Kind]
		return []interface{}{append([]interface{}{name}, cvsJSON(c.Children)...)}
	}
	if c.Func {
		return []interface{}{append([]interface{}{"function", t.Value}, cvsJSON(c.Children)...)}
	}
	switch t.Kind {
	case Ident:
		return []interface{}{[]interface{}{"ident", t.Value}}
	case AtKeyword:
		return []interface{}{[]interface{}{"at-keyword", t.Value}}
	case Hash:
		ty := "unrestricted"
		if t.ID {
			ty = "id"
		}
		return []interface{}{[]interface{}{"hash", t.Value, ty}}
	case String:
		out := []interface{}{[]interface{}{"string", t.Value}}
		if t.EOFError {
			out = append(out, []interface{}{"error", "eof-in-string"})
		}
		return out
	case URL:
		out := []interface{}{[]interface{}{"url", t.Value}}
		if t.EOFError {
			out = append(out, []interface{}{"error", "eof-in-url"})
		}
		return out
	case BadString:
		return []interface{}{[]interface{}{"error", "bad-string"}}
	case BadURL:
		return []interface{}{[]interface{}{"error", "bad-url"}}
	case Number:
		return []interface{}{[]interface{}{"number", t.Repr, t.Num, typ(t.Integer)}}
	case Percentage:
		return []interface{}{[]interface{}{"percentage", t.Repr, t.Num, typ(t.Integer)}}
	case Dimension:
		return []interface{}{[]interface{}{"dimension", t.Repr, t.Num, typ(t.Integer), t.Unit}}
	case UnicodeRange:
		return []interface{}{[]interface{}{"unicode-range", float64(t.RangeStart), float64(t.RangeEnd)}}
	case Whitespace:
		return []interface{}{" "}
	case RBrace, RBracket, RParen:
		return []interface{}{[]interface{}{"error", t.Value}}
	}
	return []interface{}{t.Value}
}

func cvsJSON(cs []CV) []interface{} {
	out := []interface{}{}
	for _, c := range cs {
		out = append(out, cvJSON(c)...)
	}
	return out
}

// normExpected splits match tokens and maps nil to empty lists.
func normExpected(v interface{}) interface{} {
	l, ok := v.([]interface{})
	if !ok {
		return v
	}
	out := []interface{}{}
	for _, e := range l {
		if s, ok := e.(string); ok {
			switch s {
			case "~=", "|=", "^=", "$=", "*=", "||":
				out = append(out, s[:1], s[1:])
				continue
			}
		}
		out = append(out, normExpected(e))
	}
	return out
}

func strip(l []interface{}) []interface{} {
	for len(l) > 0 && l[0] == " " {
		l = l[1:]
	}
	for len(l) > 0 && l[len(l)-1] == " " {
		l = l[:len(l)-1]
	}
	return l
}

func itemJSON(it Item) interface{} {
	switch it.Kind {
	case "declaration":
		return []interface{}{"declaration", it.Name, cvsJSON(it.Value), it.Important}
	case "at-rule":
		var blk interface{}
		if it.HasBlock {
			blk = cvsJSON(it.Block)
		}
		return []interface{}{"at-rule", it.Name, cvsJSON(it.Prelude), blk}
	case "qualified-rule":
		return []interface{}{"qualified rule", cvsJSON(it.Prelude), cvsJSON(it.Block)}
	}
	why := "invalid"
	if it.Why == "empty" || it.Why == "extra-input" {
		why = it.Why
	}
	return []interface{}{"error", why}
}

func normItem(v interface{}) interface{} {
	l, ok := v.([]interface{})
	if !ok || len(l) == 0 {
		return v
	}
	switch l[0] {
	case "declaration":
		val := normExpected(l[2]).([]interface{})
		return []interface{}{"declaration", l[1], strip(val), l[3]}
	case "at-rule":
		var blk interface{}
		if l[3] != nil {
			blk = normExpected(l[3])
		}
		return []interface{}{"at-rule", l[1], normExpected(l[2]), blk}
	case "qualified rule":
		return []interface{}{"qualified rule", normExpected(l[1]), normExpected(l[2])}
	}
	return v
}

func itemsJSON(its []Item) []interface{} {
	out := []interface{}{}
	for _, it := range its {
		out = append(out, itemJSON(it))
	}
	return out
}

func normItems(v interface{}) []interface{} {
	out := []interface{}{}
	for _, e := range v.([]interface{}) {
		out = append(out, normItem(e))
	}
	return out
}

func cmp(t *testing.T, file, in string, got, want interface{}) {
	if !reflect.DeepEqual(got, want) {
		g, _ := json.Marshal(got)
		w, _ := json.Marshal(want)
		t.Errorf("%s: input %q\n  reference: %s\n  expected : %s", file, in, g, w)
	}
}

var o2014 = Options{UnicodeRange: true}

func TestComponentValueList(t *testing.T) {
	l := load(t, "component_value_list.json")
	for i := 0; i+1 < len(l); i += 2 {
		in := l[i].(string)
		cvs, _ := ParseComponentValues(in, o2014)
		cmp(t, "component_value_list", in, cvsJSON(cvs), normExpected(l[i+1]))
	}
}

func TestOneComponentValue(t *testing.T) {
	l := load(t, "one_component_value.json")
	for i := 0; i+1 < len(l); i += 2 {
		in := l[i].(string)
		cv, why, _ := ParseComponentValue(in, o2014)
		var got interface{}
		if why != "" {
			got = []interface{}{"error", why}
		} else {
			got = cvJSON(cv)[0]
		}
		cmp(t, "one_component_value", in, got, normExpected(l[i+1]))
	}
}

func TestDeclarationList(t *testing.T) {
	l := load(t, "declaration_list.json")
	for i := 0; i+1 < len(l); i += 2 {
		in := l[i].(string)
		its, _ := ParseListOfDeclarations(in, o2014)
		cmp(t, "declaration_list", in, itemsJSON(its), normItems(l[i+1]))
	}
}

func TestBlocksContents(t *testing.T) {
	l := load(t, "blocks_contents.json")
	for i := 0; i+1 < len(l); i += 2 {
		in := l[i].(string)
		its, _ := ParseBlockContents(in, o2014)
		cmp(t, "blocks_contents", in, itemsJSON(its), normItems(l[i+1]))
	}
}

func TestOneDeclaration(t *testing.T) {
	l := load(t, "one_declaration.json")
	for i := 0; i+1 < len(l); i += 2 {
		in := l[i].(string)
		it, _ := ParseDeclaration(in, o2014)
		cmp(t, "one_declaration", in, itemJSON(it), normItem(l[i+1]))
	}
}

func TestOneRule(t *testing.T) {
	l := load(t, "one_rule.json")
	for i := 0; i+1 < len(l); i += 2 {
		in := l[i].(string)
		it, _ := ParseRule(in, o2014)
		cmp(t, "one_rule", in, itemJSON(it), normItem(l[i+1]))
	}
}

func TestRuleList(t *testing.T) {
	l := load(t, "rule_list.json")
	for i := 0; i+1 < len(l); i += 2 {
		in := l[i].(string)
		its, _ := ParseListOfRules(in, o2014)
		cmp(t, "rule_list", in, itemsJSON(its), normItems(l[i+1]))
	}
}

func TestStylesheet(t *testing.T) {
	l := load(t, "stylesheet.json")
	for i := 0; i+1 < len(l); i += 2 {
		in := l[i].(string)
		its, _ := ParseStylesheet(in, o2014)
		cmp(t, "stylesheet", in, itemsJSON(its), normItems(l[i+1]))
	}
}

func TestAnB(t *testing.T) {
	l := load(t, "An+B.json")
	for i := 0; i+1 < len(l); i += 2 {
		in := l[i].(string)
		a, b, ok := ParseAnB(in)
		var got interface{}
		if ok {
			got = []interface{}{float64(a.Int64()), float64(b.Int64())}
		}
		cmp(t, "An+B", in, got, l[i+1])
	}
}
