// Package csssyntax is an independent reference implementation of CSS Syntax Module Level 3
// (W3C Candidate Recommendation Draft, 24 December 2021): §3.3 preprocessing, §4 tokenization and
// §5 parsing, plus the "consume a block's contents" algorithm of the CSS Nesting era Editor's
// Draft (used only for webrender's ParseBlocksContents).
//
// It is written from the specification text and shares no code with /repo.  Every function is named
// after the algorithm of the specification it implements; the step comments quote the algorithm.
//
// Beyond the specification the tokenizer records, for each token, the byte offsets of its first and
// one-past-last code point in the *preprocessed* text and the (line, column) of its first code
// point (line = 1 + number of newlines before it, column = 1 + number of UTF-8 bytes since the last
// newline: the specification defines no source positions, this is the convention being observed).
package csssyntax

import (
	"math"
	"math/big"
	"strings"
	"unicode/utf8"
)

// Kind is a token type of §4.
type Kind int

const (
	EOF Kind = iota
	Ident
	Function
	AtKeyword
	Hash
	String
	BadString
	URL
	BadURL
	Delim
	Number
	Percentage
	Dimension
	Whitespace
	CDO
	CDC
	Colon
	Semicolon
	Comma
	LBracket
	RBracket
	LParen
	RParen
	LBrace
	RBrace
	Comment      // not a token of the specification: produced only when comments are requested
	UnicodeRange // token of the 2014 Candidate Recommendation, produced only with Options.UnicodeRange
)

var kindNames = [...]string{"EOF", "ident", "function", "at-keyword", "hash", "string", "bad-string", "url", "bad-url", "delim", "number", "percentage", "dimension", "whitespace", "CDO", "CDC", "colon", "semicolon", "comma", "[", "]", "(", ")", "{", "}", "comment", "unicode-range"}

func (k Kind) String() string { return kindNames[k] }

// Token is one token of §4 with all its fields.
type Token struct {
	Kind  Kind
	Value string // ident/function/at-keyword/hash/string/url: value; delim: the code point; whitespace, comment: source text
	// numeric tokens
	Repr    string  // the representation consumed by "consume a number"
	Num     float64 // exact decimal value rounded to the nearest float64 (informative)
	Num32   float32 // exact decimal value rounded to the nearest float32 (ties to even)
	Range32 bool    // false when the exact value overflows float32 (value then not comparable)
	Integer bool    // type flag "integer"
	Unit    string
	// hash
	ID bool // type flag "id"
	// unicode-range (2014 CR)
	RangeStart, RangeEnd uint32
	// parse errors attached to the token by the algorithms that produced it
	EOFError bool // string or url ended by EOF
	// source position
	Start, End int // byte offsets in the preprocessed text
	Line, Col  int
}

// Flags describe which corner of the algorithms an input touched; the monitor uses them to keep
// documented sub-domains (version-dependent behaviour, known findings) apart.
type Flags struct {
	CommentEOF         bool // a comment ended by EOF
	InvalidEscapeDelim bool // '\' followed by a newline produced a delim (parse error)
	BadURLInvalidEsc   bool // url( … '\' newline: bad-url because of an invalid escape inside url()
	BadURLRemnantEsc   bool // "consume the remnants of a bad url" consumed a valid escape
	// … and that escape was an escaped backslash directly followed by the ')' that ends the bad url
	BadURLRemnantBackslashParen bool
	IntegerDigits               int  // longest digit run of an integer-typed numeric token
	UnicodeRangeStart           bool // a token starts with u+ / U+ followed by a hex digit or '?' (unicode-range token of the 2014 CR)
	NonASCIIIdent               bool // an ident code point >= U+0080 was consumed (ED restricts the set)
}

// Preprocess implements §3.3 "Preprocessing the input stream".
func Preprocess(s string) string {
	var sb strings.Builder
	rs := []rune(s)
	for i := 0; i < len(rs); i++ {
		c := rs[i]
		switch {
		case c == '\r':
			// "Replace any U+000D CARRIAGE RETURN (CR) code points, U+000C FORM FEED (FF) code points, or
			// pairs of U+000D CARRIAGE RETURN (CR) followed by U+000A LINE FEED (LF) in input by a single
			// U+000A LINE FEED (LF) code point."
			if i+1 < len(rs) && rs[i+1] == '\n' {
				i++
			}
			sb.WriteByte('\n')
		case c == '\f':
			sb.WriteByte('\n')
		case c == 0 || (c >= 0xD800 && c <= 0xDFFF):
			// "Replace any U+0000 NULL or surrogate code points in input with U+FFFD"
			sb.WriteRune(0xFFFD)
		default:
			sb.WriteRune(c)
		}
	}
	return sb.String()
}

const eof rune = -1

type tokenizer struct {
	rs       []rune
	off      []int // byte offset of rs[i] in the preprocessed text; off[len(rs)] = total length
	pos      int   // index of the next input code point
	comments bool
	urange   bool
	flags    *Flags
	line     []int // line of rs[i]
	col      []int // column of rs[i]
}

func newTokenizer(pre string, comments bool, fl *Flags) *tokenizer {
	t := &tokenizer{comments: comments, flags: fl}
	t.rs = []rune(pre)
	t.off = make([]int, len(t.rs)+1)
	t.line = make([]int, len(t.rs)+1)
	t.col = make([]int, len(t.rs)+1)
	o, ln, cl := 0, 1, 1
	for i, c := range t.rs {
		t.off[i], t.line[i], t.col[i] = o, ln, cl
		w := utf8.RuneLen(c)
		o += w
		if c == '\n' {
			ln++
			cl = 1
		} else {
			cl += w
		}
	}
	t.off[len(t.rs)], t.line[len(t.rs)], t.col[len(t.rs)] = o, ln, cl
	return t
}

// peek returns the k-th next input code point (k = 0: the next one), or eof.
func (t *tokenizer) peek(k int) rune {
	if t.pos+k < len(t.rs) {
		return t.rs[t.pos+k]
	}
	return eof
}

// definitions of §4.2
func isDigit(c rune) bool    { return c >= '0' && c <= '9' }
func isHexDigit(c rune) bool { return isDigit(c) || c >= 'a' && c <= 'f' || c >= 'A' && c <= 'F' }
func isLetter(c rune) bool   { return c >= 'a' && c <= 'z' || c >= 'A' && c <= 'Z' }
func isNonASCII(c rune) bool { return c >= 0x80 }
func isIdentStart(c rune) bool {
	return isLetter(c) || isNonASCII(c) || c == '_'
}
func isIdentChar(c rune) bool { return isIdentStart(c) || isDigit(c) || c == '-' }
func isNonPrintable(c rune) bool {
	return c >= 0 && c <= 8 || c == 0xB || c >= 0xE && c <= 0x1F || c == 0x7F
}
func isNewline(c rune) bool    { return c == '\n' }
func isWhitespace(c rune) bool { return c == '\n' || c == '\t' || c == ' ' }

// §4.3.8 "Check if two code points are a valid escape"
func validEscape(a, b rune) bool {
	if a != '\\' {
		return false
	}
	if isNewline(b) {
		return false
	}
	return true
}

// §4.3.9 "Check if three code points would start an ident sequence"
func wouldStartIdent(a, b, c rune) bool {
	switch {
	case a == '-':
		return isIdentStart(b) || b == '-' || validEscape(b, c)
	case a != eof && isIdentStart(a):
		return true
	case a == '\\':
		return validEscape(a, b)
	}
	return false
}

// §4.3.10 "Check if three code points would start a number"
func wouldStartNumber(a, b, c rune) bool {
	switch {
	case a == '+' || a == '-':
		if isDigit(b) {
			return true
		}
		return b == '.' && isDigit(c)
	case a == '.':
		return isDigit(b)
	case isDigit(a):
		return true
	}
	return false
}

// consumeComments implements §4.3.2.  It returns the comments consumed.
func (t *tokenizer) consumeComments() []Token {
	var out []Token
	for t.peek(0) == '/' && t.peek(1) == '*' {
		start := t.pos
		t.pos += 2
		closed := false
		for t.pos < len(t.rs) {
			if t.rs[t.pos] == '*' && t.peek(1) == '/' {
				closed = true
				break
			}
			t.pos++
		}
		textEnd := t.pos
		if closed {
			t.pos += 2
		} else {
			t.flags.CommentEOF = true // "If the preceding paragraph ended by consuming an EOF code point, this is a parse error."
		}
		out = append(out, t.mk(Token{Kind: Comment, Value: string(t.rs[start+2 : textEnd])}, start))
	}
	return out
}

func (t *tokenizer) mk(tok Token, start int) Token {
	tok.Start, tok.End = t.off[start], t.off[t.pos]
	tok.Line, tok.Col = t.line[start], t.col[start]
	return tok
}

// consumeToken implements §4.3.1 "Consume a token".  Comments consumed before the token are
// returned separately.
func (t *tokenizer) consumeToken() (comments []Token, tok Token) {
	comments = t.consumeComments()
	start := t.pos
	c := t.peek(0)
	if c == eof {
		return comments, t.mk(Token{Kind: EOF}, start)
	}
	t.pos++ // "Consume the next input code point."
	delim := func() Token { return t.mk(Token{Kind: Delim, Value: string(c)}, start) }
	simple := func(k Kind) Token { return t.mk(Token{Kind: k, Value: string(c)}, start) }
	switch {
	case isWhitespace(c):
		for isWhitespace(t.peek(0)) {
			t.pos++
		}
		return comments, t.mk(Token{Kind: Whitespace, Value: string(t.rs[start:t.pos])}, start)
	case c == '"' || c == '\'':
		return comments, t.consumeString(c, start)
	case c == '#':
		// "If the next input code point is an ident code point or the next two input code points are a valid escape"
		if n := t.peek(0); (n != eof && isIdentChar(n)) || validEscape(t.peek(0), t.peek(1)) {
			tok := Token{Kind: Hash}
			if wouldStartIdent(t.peek(0), t.peek(1), t.peek(2)) {
				tok.ID = true
			}
			tok.Value = t.consumeIdentSequence()
			return comments, t.mk(tok, start)
		}
		return comments, delim()
	case c == '(':
		return comments, simple(LParen)
	case c == ')':
		return comments, simple(RParen)
	case c == '+':
		if wouldStartNumber(c, t.peek(0), t.peek(1)) {
			t.pos = start
			return comments, t.consumeNumeric(start)
		}
		return comments, delim()
	case c == ',':
		return comments, simple(Comma)
	case c == '-':
		if wouldStartNumber(c, t.peek(0), t.peek(1)) {
			t.pos = start
			return comments, t.consumeNumeric(start)
		}
		if t.peek(0) == '-' && t.peek(1) == '>' {
			t.pos += 2
			return comments, t.mk(Token{Kind: CDC, Value: "-->"}, start)
		}
		if wouldStartIdent(c, t.peek(0), t.peek(1)) {
			t.pos = start
			return comments, t.consumeIdentLike(start)
		}
		return comments, delim()
	case c == '.':
		if wouldStartNumber(c, t.peek(0), t.peek(1)) {
			t.pos = start
			return comments, t.consumeNumeric(start)
		}
		return comments, delim()
	case c == ':':
		return comments, simple(Colon)
	case c == ';':
		return comments, simple(Semicolon)
	case c == '<':
		if t.peek(0) == '!' && t.peek(1) == '-' && t.peek(2) == '-' {
			t.pos += 3
			return comments, t.mk(Token{Kind: CDO, Value: "<!--"}, start)
		}
		return comments, delim()
	case c == '@':
		if wouldStartIdent(t.peek(0), t.peek(1), t.peek(2)) {
			v := t.consumeIdentSequence()
			return comments, t.mk(Token{Kind: AtKeyword, Value: v}, start)
		}
		return comments, delim()
	case c == '[':
		return comments, simple(LBracket)
	case c == '\\':
		if validEscape(c, t.peek(0)) {
			t.pos = start
			return comments, t.consumeIdentLike(start)
		}
		t.flags.InvalidEscapeDelim = true // "Otherwise, this is a parse error. Return a <delim-token>"
		return comments, delim()
	case c == ']':
		return comments, simple(RBracket)
	case c == '{':
		return comments, simple(LBrace)
	case c == '}':
		return comments, simple(RBrace)
	case isDigit(c):
		t.pos = start
		return comments, t.consumeNumeric(start)
	case isIdentStart(c):
		if (c == 'u' || c == 'U') && t.peek(0) == '+' && (t.peek(1) == '?' || (t.peek(1) != eof && isHexDigit(t.peek(1)))) {
			// Not a token of the 2021 text (there: ident "u", then a number).  CR 2014 §4.3.1: "If the next
			// 2 input code points are U+002B PLUS SIGN (+) followed by a hex digit or U+003F QUESTION
			// MARK (?), consume the next input code point.  Consume a unicode-range token and return it."
			t.flags.UnicodeRangeStart = true
			if t.urange {
				t.pos++
				return comments, t.consumeUnicodeRange(start)
			}
		}
		t.pos = start
		return comments, t.consumeIdentLike(start)
	}
	return comments, delim()
}

// consumeNumeric implements §4.3.3 "Consume a numeric token".
func (t *tokenizer) consumeNumeric(start int) Token {
	tok := t.consumeNumber()
	if wouldStartIdent(t.peek(0), t.peek(1), t.peek(2)) {
		tok.Kind = Dimension
		tok.Unit = t.consumeIdentSequence()
		return t.mk(tok, start)
	}
	if t.peek(0) == '%' {
		t.pos++
		tok.Kind = Percentage
		return t.mk(tok, start)
	}
	tok.Kind = Number
	return t.mk(tok, start)
}

// consumeIdentLike implements §4.3.4 "Consume an ident-like token".
func (t *tokenizer) consumeIdentLike(start int) Token {
	s := t.consumeIdentSequence()
	if strings.EqualFold(s, "url") && asciiOnly(s) && t.peek(0) == '(' {
		t.pos++
		// "While the next two input code points are whitespace, consume the next input code point."
		// (Position bookkeeping only: the monitor lets the white space token that follows a url
		// function token start at the first of these code points; see the package comment of c06.)
		save := t.pos
		for isWhitespace(t.peek(0)) && isWhitespace(t.peek(1)) {
			t.pos++
		}
		a, b := t.peek(0), t.peek(1)
		if a == '"' || a == '\'' || (isWhitespace(a) && (b == '"' || b == '\'')) {
			t.pos = save
			return t.mk(Token{Kind: Function, Value: s}, start)
		}
		return t.consumeURL(start)
	}
	if t.peek(0) == '(' {
		t.pos++
		return t.mk(Token{Kind: Function, Value: s}, start)
	}
	return t.mk(Token{Kind: Ident, Value: s}, start)
}

func asciiOnly(s string) bool {
	for _, c := range s {
		if c >= 0x80 {
			return false
		}
	}
	return true
}

// consumeString implements §4.3.5 "Consume a string token" (the opening quote is consumed).
func (t *tokenizer) consumeString(ending rune, start int) Token {
	var sb strings.Builder
	for {
		c := t.peek(0)
		if c != eof {
			t.pos++
		}
		switch {
		case c == ending:
			return t.mk(Token{Kind: String, Value: sb.String()}, start)
		case c == eof:
			// "This is a parse error. Return the <string-token>."
			return t.mk(Token{Kind: String, Value: sb.String(), EOFError: true}, start)
		case isNewline(c):
			// "This is a parse error. Reconsume the current input code point, create a <bad-string-token>, and return it."
			t.pos--
			return t.mk(Token{Kind: BadString}, start)
		case c == '\\':
			n := t.peek(0)
			if n == eof {
				// "If the next input code point is EOF, do nothing."
			} else if isNewline(n) {
				t.pos++
			} else {
				sb.WriteRune(t.consumeEscaped())
			}
		default:
			sb.WriteRune(c)
		}
	}
}

// consumeURL implements §4.3.6 "Consume a url token" ("url(" is consumed).
func (t *tokenizer) consumeURL(start int) Token {
	var sb strings.Builder
	for isWhitespace(t.peek(0)) {
		t.pos++
	}
	for {
		c := t.peek(0)
		if c != eof {
			t.pos++
		}
		switch {
		case c == ')':
			return t.mk(Token{Kind: URL, Value: sb.String()}, start)
		case c == eof:
			return t.mk(Token{Kind: URL, Value: sb.String(), EOFError: true}, start)
		case isWhitespace(c):
			for isWhitespace(t.peek(0)) {
				t.pos++
			}
			if n := t.peek(0); n == ')' || n == eof {
				if n == ')' {
					t.pos++
					return t.mk(Token{Kind: URL, Value: sb.String()}, start)
				}
				return t.mk(Token{Kind: URL, Value: sb.String(), EOFError: true}, start)
			}
			t.consumeBadURLRemnants()
			return t.mk(Token{Kind: BadURL}, start)
		case c == '"' || c == '\'' || c == '(' || isNonPrintable(c):
			t.consumeBadURLRemnants()
			return t.mk(Token{Kind: BadURL}, start)
		case c == '\\':
			if validEscape(c, t.peek(0)) {
				sb.WriteRune(t.consumeEscaped())
			} else {
				t.flags.BadURLInvalidEsc = true
				t.consumeBadURLRemnants()
				return t.mk(Token{Kind: BadURL}, start)
			}
		default:
			sb.WriteRune(c)
		}
	}
}

// consumeEscaped implements §4.3.7 "Consume an escaped code point" ('\' is consumed, the escape is valid).
func (t *tokenizer) consumeEscaped() rune {
	c := t.peek(0)
	if c == eof {
		return 0xFFFD // "EOF: This is a parse error. Return U+FFFD"
	}
	t.pos++
	if isHexDigit(c) {
		v := hexVal(c)
		for n := 0; n < 5 && isHexDigit(t.peek(0)); n++ {
			v = v*16 + hexVal(t.peek(0))
			t.pos++
		}
		if isWhitespace(t.peek(0)) {
			t.pos++
		}
		if v == 0 || (v >= 0xD800 && v <= 0xDFFF) || v > 0x10FFFF {
			return 0xFFFD
		}
		return rune(v)
	}
	return c
}

func hexVal(c rune) int {
	switch {
	case c >= '0' && c <= '9':
		return int(c - '0')
	case c >= 'a' && c <= 'f':
		return int(c-'a') + 10
	}
	return int(c-'A') + 10
}

// consumeIdentSequence implements §4.3.11 "Consume an ident sequence".
func (t *tokenizer) consumeIdentSequence() string {
	var sb strings.Builder
	for {
		c := t.peek(0)
		switch {
		case c != eof && isIdentChar(c):
			if isNonASCII(c) {
				t.flags.NonASCIIIdent = true
			}
			t.pos++
			sb.WriteRune(c)
		case validEscape(c, t.peek(1)):
			t.pos++
			sb.WriteRune(t.consumeEscaped())
		default:
			return sb.String()
		}
	}
}

// consumeNumber implements §4.3.12 "Consume a number" and §4.3.13 "Convert a string to a number".
func (t *tokenizer) consumeNumber() Token {
	tok := Token{Integer: true}
	start := t.pos
	neg := false
	if c := t.peek(0); c == '+' || c == '-' {
		neg = c == '-'
		t.pos++
	}
	var mant []rune
	intDigits := 0
	for isDigit(t.peek(0)) {
		mant = append(mant, t.peek(0))
		intDigits++
		t.pos++
	}
	fracDigits := 0
	if t.peek(0) == '.' && isDigit(t.peek(1)) {
		t.pos++
		tok.Integer = false
		for isDigit(t.peek(0)) {
			mant = append(mant, t.peek(0))
			fracDigits++
			t.pos++
		}
	}
	exp := 0
	expHuge := false
	if e := t.peek(0); e == 'e' || e == 'E' {
		k := 1
		eneg := false
		if s := t.peek(1); s == '+' || s == '-' {
			eneg = s == '-'
			k = 2
		}
		if isDigit(t.peek(k)) {
			t.pos += k
			tok.Integer = false
			for isDigit(t.peek(0)) {
				if exp < 100000 {
					exp = exp*10 + int(t.peek(0)-'0')
				} else {
					expHuge = true
				}
				t.pos++
			}
			if eneg {
				exp = -exp
			}
		}
	}
	_ = expHuge
	tok.Repr = string(t.rs[start:t.pos])
	if tok.Integer && intDigits > t.flags.IntegerDigits {
		t.flags.IntegerDigits = intDigits
	}
	tok.Num, tok.Num32, tok.Range32 = decimalValue(neg, string(mant), exp-fracDigits)
	return tok
}

// decimalValue returns ±mant·10^exp10 rounded to float64 and to float32 (nearest, ties to even),
// and whether the magnitude is within the finite range of float32.
func decimalValue(neg bool, mant string, exp10 int) (float64, float32, bool) {
	mant = strings.TrimLeft(mant, "0")
	if mant == "" {
		return 0, 0, true
	}
	// magnitude in [10^(d-1+e), 10^(d+e))
	d := len(mant)
	if d-1+exp10 > 310 {
		inf := math.Inf(1)
		if neg {
			inf = -inf
		}
		return inf, float32(inf), false
	}
	if d+exp10 < -400 {
		return 0, 0, true // underflows to zero in both formats
	}
	m, _ := new(big.Int).SetString(mant, 10)
	r := new(big.Rat).SetInt(m)
	p := new(big.Int).Exp(big.NewInt(10), big.NewInt(int64(abs(exp10))), nil)
	if exp10 >= 0 {
		r.Mul(r, new(big.Rat).SetInt(p))
	} else {
		r.Quo(r, new(big.Rat).SetInt(p))
	}
	if neg {
		r.Neg(r)
	}
	f64, _ := r.Float64()
	f32, _ := r.Float32()
	inRange := !math.IsInf(float64(f32), 0)
	if f32 == 0 {
		f32 = 0 // no negative zero: the value of "-0" and of an underflowing negative number is 0
	}
	if f64 == 0 {
		f64 = 0
	}
	return f64, f32, inRange
}

func abs(x int) int {
	if x < 0 {
		return -x
	}
	return x
}

// consumeBadURLRemnants implements §4.3.14 "Consume the remnants of a bad url".
func (t *tokenizer) consumeBadURLRemnants() {
	for {
		c := t.peek(0)
		if c == eof {
			return
		}
		t.pos++
		if c == ')' {
			return
		}
		if validEscape(c, t.peek(0)) {
			t.flags.BadURLRemnantEsc = true
			e := t.peek(0)
			t.consumeEscaped()
			if e == '\\' && t.peek(0) == ')' {
				t.flags.BadURLRemnantBackslashParen = true
			}
		}
	}
}

// consumeUnicodeRange implements "Consume a unicode-range token" of the 2014 Candidate
// Recommendation (§4.3.6 there); "u+" is consumed.
func (t *tokenizer) consumeUnicodeRange(start int) Token {
	// "Consume as many hex digits as possible, but no more than 6.  If less than 6 hex digits were
	// consumed, consume as many U+003F QUESTION MARK (?) code points as possible, but no more than
	// enough to make the total of hex digits and U+003F QUESTION MARK (?) code points equal to 6."
	n := 0
	var lo, hi uint32
	for n < 6 && t.peek(0) != eof && isHexDigit(t.peek(0)) {
		lo = lo*16 + uint32(hexVal(t.peek(0)))
		hi = lo
		t.pos++
		n++
	}
	q := 0
	for n < 6 && t.peek(0) == '?' {
		lo, hi = lo*16, hi*16+15
		t.pos++
		n++
		q++
	}
	if q > 0 {
		return t.mk(Token{Kind: UnicodeRange, RangeStart: lo, RangeEnd: hi}, start)
	}
	// "If the next 2 input code points are U+002D HYPHEN-MINUS (-) followed by a hex digit"
	if t.peek(0) == '-' && t.peek(1) != eof && isHexDigit(t.peek(1)) {
		t.pos++
		hi = 0
		for n = 0; n < 6 && t.peek(0) != eof && isHexDigit(t.peek(0)); n++ {
			hi = hi*16 + uint32(hexVal(t.peek(0)))
			t.pos++
		}
	}
	return t.mk(Token{Kind: UnicodeRange, RangeStart: lo, RangeEnd: hi}, start)
}

// Options of the tokenizer.
type Options struct {
	Comments     bool // return comments as Comment pseudo-tokens at the place they were consumed
	UnicodeRange bool // tokenize u+… as the unicode-range token of the 2014 Candidate Recommendation
}

// Tokenize preprocesses s and returns all tokens up to and including the EOF token.
func Tokenize(s string, o Options) ([]Token, Flags) {
	var fl Flags
	pre := Preprocess(s)
	comments := o.Comments
	t := newTokenizer(pre, comments, &fl)
	t.urange = o.UnicodeRange
	var out []Token
	for {
		cs, tok := t.consumeToken()
		if comments {
			out = append(out, cs...)
		}
		out = append(out, tok)
		if tok.Kind == EOF {
			return out, fl
		}
	}
}
