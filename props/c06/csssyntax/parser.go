package csssyntax

import "strings"

// CV is a component value (§5): a preserved token, a simple block or a function.
type CV struct {
	Tok      Token // preserved token; or the token that opened the block / the function token
	Block    bool  // simple block; Tok.Kind is LBrace, LBracket or LParen
	Func     bool  // function; Tok.Value is the name
	Children []CV
	EOFEnded bool // the block / function was ended by EOF (parse error)
}

// ParseFlags extend the tokenizer flags with parser-level observations.
type ParseFlags struct {
	Flags
	CommentEOFNested bool // a comment ended by EOF while a block or function was open
	MaxDepth         int
	StrayRBraceTop   bool // a <}-token> at the top level of an input given to "consume a block's contents"
	// aggregated over every run of "consume a declaration" (including attempts that returned nothing)
	SawCurlyInValue   bool // a non-custom declaration value holds a top-level {}-block and another non-whitespace value
	SawCurlyFirst     bool // … and the {}-block is the first non-whitespace value
	SawCurlyImportant bool // an !important declaration whose value holds a top-level {}-block
	SawCustomCurly    bool // a custom property (--*) value holds a top-level {}-block and another non-whitespace value
	SawBangAmbiguous  bool // a recognised "!important" directly preceded by "!" or by "! important"
}

// stream is the token stream of §5.3 with "reconsume".
type stream struct {
	toks []Token // ends with EOF; Comment pseudo-tokens may be interleaved
	pos  int
	pf   *ParseFlags
}

// next consumes the next input token.  Comment pseudo-tokens are not tokens: when they are present
// (comments requested) they are collected by consumeCV directly; the rule-level algorithms are only
// run on streams without them.
func (s *stream) next() Token {
	t := s.toks[s.pos]
	if t.Kind != EOF {
		s.pos++
	}
	return t
}

func (s *stream) peek() Token { return s.toks[s.pos] }

// consumeCV implements §5.4.7 "Consume a component value".
func (s *stream) consumeCV(depth int) CV {
	t := s.next()
	switch t.Kind {
	case LBrace, LBracket, LParen:
		return s.consumeSimpleBlock(t, depth)
	case Function:
		return s.consumeFunction(t, depth)
	}
	return CV{Tok: t}
}

func mirror(k Kind) Kind {
	switch k {
	case LBrace:
		return RBrace
	case LBracket:
		return RBracket
	}
	return RParen
}

// consumeSimpleBlock implements §5.4.8 "Consume a simple block" (the opening token is consumed).
func (s *stream) consumeSimpleBlock(open Token, depth int) CV {
	b := CV{Tok: open, Block: true}
	s.consumeUntil(&b, mirror(open.Kind), depth)
	return b
}

// consumeFunction implements §5.4.9 "Consume a function" (the function token is consumed).
func (s *stream) consumeFunction(fn Token, depth int) CV {
	f := CV{Tok: fn, Func: true}
	s.consumeUntil(&f, RParen, depth)
	return f
}

func (s *stream) consumeUntil(into *CV, ending Kind, depth int) {
	if depth+1 > s.pf.MaxDepth {
		s.pf.MaxDepth = depth + 1
	}
	for {
		t := s.peek()
		switch t.Kind {
		case ending:
			s.next()
			return
		case EOF:
			into.EOFEnded = true // "This is a parse error. Return the block."
			if s.pf.CommentEOF {
				// an unterminated comment is necessarily the last thing of the input, so it lies inside
				// every block still open at EOF
				s.pf.CommentEOFNested = true
			}
			return
		}
		into.Children = append(into.Children, s.consumeCV(depth+1))
	}
}

// ParseComponentValues implements §5.3.10 "Parse a list of component values".
func ParseComponentValues(src string, o Options) ([]CV, ParseFlags) {
	toks, fl := Tokenize(src, o)
	pf := ParseFlags{Flags: fl}
	s := &stream{toks: toks, pf: &pf}
	var out []CV
	for s.peek().Kind != EOF {
		out = append(out, s.consumeCV(0))
	}
	return out, pf
}

// ---------------------------------------------------------------------------------------------
// §5.4 rule-level algorithms (operate on streams without Comment pseudo-tokens)

// Item is a rule, a declaration or the trace of a parse error that made the algorithm drop a
// construct ("return nothing").
type Item struct {
	Kind      string // "declaration" | "at-rule" | "qualified-rule" | "error"
	Name      string
	Prelude   []CV
	Block     []CV
	HasBlock  bool
	Value     []CV
	Important bool
	Line, Col int
	Why       string // for errors
	// observations for the monitor's domain decisions
	CurlyInValue  bool // declaration value contains a top-level {}-block together with another non-whitespace value
	CurlyAlone    bool // declaration value is exactly one top-level {}-block
	CurlyFirst    bool // a {}-block is preceded by nothing but "!" / "important" tokens, and the value holds something else too
	BangAmbiguous bool // the "!important" that was recognised is directly preceded by "!" or by "! important"
	Custom        bool // name starts with "--"
}

type ruleParser struct {
	*stream
}

func newRuleParser(src string, o Options) (*ruleParser, *ParseFlags) {
	o.Comments = false
	toks, fl := Tokenize(src, o)
	pf := &ParseFlags{Flags: fl}
	return &ruleParser{&stream{toks: toks, pf: pf}}, pf
}

// consumeListOfRules implements §5.4.1 "Consume a list of rules".
func (p *ruleParser) consumeListOfRules(topLevel bool) []Item {
	var rules []Item
	for {
		t := p.peek()
		switch t.Kind {
		case Whitespace:
			p.next()
		case EOF:
			return rules
		case CDO, CDC:
			if topLevel {
				p.next()
				continue
			}
			rules = append(rules, p.consumeQualifiedRule())
		case AtKeyword:
			rules = append(rules, p.consumeAtRule())
		default:
			rules = append(rules, p.consumeQualifiedRule())
		}
	}
}

// consumeAtRule implements §5.4.2 "Consume an at-rule".
func (p *ruleParser) consumeAtRule() Item {
	at := p.next()
	r := Item{Kind: "at-rule", Name: at.Value, Line: at.Line, Col: at.Col}
	for {
		t := p.peek()
		switch t.Kind {
		case Semicolon:
			p.next()
			return r
		case EOF:
			return r // "This is a parse error. Return the at-rule."
		case LBrace:
			b := p.consumeCV(0)
			r.Block, r.HasBlock = b.Children, true
			return r
		}
		r.Prelude = append(r.Prelude, p.consumeCV(0))
	}
}

// consumeQualifiedRule implements §5.4.3 "Consume a qualified rule".  "Return nothing" after a
// parse error is represented by an Item of kind "error".
func (p *ruleParser) consumeQualifiedRule() Item {
	first := p.peek()
	r := Item{Kind: "qualified-rule", Line: first.Line, Col: first.Col}
	for {
		t := p.peek()
		switch t.Kind {
		case EOF:
			return Item{Kind: "error", Why: "EOF before the {}-block of a qualified rule", Line: first.Line, Col: first.Col}
		case LBrace:
			b := p.consumeCV(0)
			r.Block, r.HasBlock = b.Children, true
			return r
		}
		r.Prelude = append(r.Prelude, p.consumeCV(0))
	}
}

// consumeListOfDeclarations implements §5.4.5 "Consume a list of declarations" (CR 2021).
func (p *ruleParser) consumeListOfDeclarations() []Item {
	var decls []Item
	for {
		t := p.peek()
		switch t.Kind {
		case Whitespace, Semicolon:
			p.next()
		case EOF:
			return decls
		case AtKeyword:
			decls = append(decls, p.consumeAtRule())
		case Ident:
			// "Initialize a temporary list initially filled with the current input token. As long as the
			// next input token is anything other than a <semicolon-token> or <EOF-token>, consume a
			// component value and append it to the temporary list. Consume a declaration from the
			// temporary list."
			var tmp []CV
			for k := p.peek().Kind; k != Semicolon && k != EOF; k = p.peek().Kind {
				tmp = append(tmp, p.consumeCV(0))
			}
			decls = append(decls, consumeDeclaration(tmp, p.pf))
		default:
			// "This is a parse error. Reconsume the current input token. As long as the next input
			// token is anything other than a <semicolon-token> or <EOF-token>, consume a component
			// value and throw away the returned value."
			for k := p.peek().Kind; k != Semicolon && k != EOF; k = p.peek().Kind {
				p.consumeCV(0)
			}
			decls = append(decls, Item{Kind: "error", Why: "declaration list item does not start with an ident", Line: t.Line, Col: t.Col})
		}
	}
}

func isWS(c CV) bool { return !c.Block && !c.Func && c.Tok.Kind == Whitespace }

func isDelim(c CV, v string) bool {
	return !c.Block && !c.Func && c.Tok.Kind == Delim && c.Tok.Value == v
}

func isCurly(c CV) bool { return c.Block && c.Tok.Kind == LBrace }

// consumeDeclaration implements §5.4.6 "Consume a declaration" on a list of component values whose
// first element is an <ident-token>.
func consumeDeclaration(in []CV, pf *ParseFlags) Item {
	name := in[0].Tok
	d := Item{Kind: "declaration", Name: name.Value, Line: name.Line, Col: name.Col, Custom: strings.HasPrefix(name.Value, "--")}
	i := 1
	// 1. "While the next input token is a <whitespace-token>, consume the next input token."
	for i < len(in) && isWS(in[i]) {
		i++
	}
	// 2. "If the next input token is anything other than a <colon-token>, this is a parse error. Return nothing."
	if i >= len(in) || in[i].Block || in[i].Func || in[i].Tok.Kind != Colon {
		return Item{Kind: "error", Why: "no colon after the declaration name", Line: name.Line, Col: name.Col}
	}
	i++
	// 3. "While the next input token is a <whitespace-token>, consume the next input token."
	for i < len(in) && isWS(in[i]) {
		i++
	}
	// 4. "As long as the next input token is anything other than an <EOF-token>, consume a component
	//    value and append it to the declaration's value."
	val := append([]CV(nil), in[i:]...)
	// 5. "If the last two non-<whitespace-token>s in the declaration's value are a <delim-token> with
	//    the value "!" followed by an <ident-token> with a value that is an ASCII case-insensitive
	//    match for "important", remove them from the declaration's value and set the declaration's
	//    important flag to true."
	var sig []int
	for k, c := range val {
		if !isWS(c) {
			sig = append(sig, k)
		}
	}
	if n := len(sig); n >= 2 {
		a, b := val[sig[n-2]], val[sig[n-1]]
		if isDelim(a, "!") && !b.Block && !b.Func && b.Tok.Kind == Ident && asciiOnly(b.Tok.Value) && strings.EqualFold(b.Tok.Value, "important") {
			d.Important = true
			// what precedes the "!" ?
			if n >= 3 && isDelim(val[sig[n-3]], "!") {
				d.BangAmbiguous = true
			}
			if n >= 4 && isDelim(val[sig[n-4]], "!") {
				c := val[sig[n-3]]
				if !c.Block && !c.Func && c.Tok.Kind == Ident && asciiOnly(c.Tok.Value) && strings.EqualFold(c.Tok.Value, "important") {
					d.BangAmbiguous = true
				}
			}
			// remove the two tokens (white space between or after them goes with step 6 or stays)
			nv := append([]CV(nil), val[:sig[n-2]]...)
			nv = append(nv, val[sig[n-2]+1:sig[n-1]]...)
			nv = append(nv, val[sig[n-1]+1:]...)
			val = nv
		}
	}
	// 6. "While the last token in the declaration's value is a <whitespace-token>, remove that token."
	for len(val) > 0 && isWS(val[len(val)-1]) {
		val = val[:len(val)-1]
	}
	d.Value = val
	nonWS, curly, bangish := 0, 0, 0
	firstCurly := false
	for _, c := range val {
		if isWS(c) {
			continue
		}
		if isCurly(c) {
			curly++
			if nonWS == bangish {
				firstCurly = true
			}
		}
		if isDelim(c, "!") || (!c.Block && !c.Func && c.Tok.Kind == Ident && asciiOnly(c.Tok.Value) && strings.EqualFold(c.Tok.Value, "important")) {
			bangish++
		}
		nonWS++
	}
	d.CurlyInValue = curly > 0 && nonWS > 1
	d.CurlyAlone = curly == 1 && nonWS == 1
	d.CurlyFirst = firstCurly && nonWS > 1
	if d.CurlyInValue && d.Custom {
		pf.SawCustomCurly = true
	}
	if d.CurlyInValue && !d.Custom {
		pf.SawCurlyInValue = true
		if d.CurlyFirst {
			pf.SawCurlyFirst = true
		}
	}
	if d.BangAmbiguous {
		pf.SawBangAmbiguous = true
	}
	if d.Important && curly > 0 {
		pf.SawCurlyImportant = true
	}
	return d
}

// ---------------------------------------------------------------------------------------------
// entry points of §5.3

// ParseStylesheet implements §5.3.3 "Parse a stylesheet" for an input that is already a string.
func ParseStylesheet(src string, o Options) ([]Item, *ParseFlags) {
	p, pf := newRuleParser(src, o)
	return p.consumeListOfRules(true), pf
}

// ParseListOfRules implements §5.3.4 "Parse a list of rules".
func ParseListOfRules(src string, o Options) ([]Item, *ParseFlags) {
	p, pf := newRuleParser(src, o)
	return p.consumeListOfRules(false), pf
}

// ParseListOfDeclarations implements §5.3.8 "Parse a list of declarations".
func ParseListOfDeclarations(src string, o Options) ([]Item, *ParseFlags) {
	p, pf := newRuleParser(src, o)
	return p.consumeListOfDeclarations(), pf
}

// ParseDeclaration implements §5.3.6 "Parse a declaration".  A syntax error is an Item of kind
// "error" (Why "empty" when the input holds no token but white space).
func ParseDeclaration(src string, o Options) (Item, *ParseFlags) {
	p, pf := newRuleParser(src, o)
	// 2. "While the next input token is a <whitespace-token>, consume the next input token."
	for p.peek().Kind == Whitespace {
		p.next()
	}
	t := p.peek()
	// 3. "If the next input token is not an <ident-token>, return a syntax error."
	if t.Kind == EOF {
		return Item{Kind: "error", Why: "empty"}, pf
	}
	if t.Kind != Ident {
		// consume the rest so that flags cover the whole input
		for p.peek().Kind != EOF {
			p.consumeCV(0)
		}
		return Item{Kind: "error", Why: "not an ident", Line: t.Line, Col: t.Col}, pf
	}
	// 4. "Consume a declaration from input."
	var all []CV
	for p.peek().Kind != EOF {
		all = append(all, p.consumeCV(0))
	}
	return consumeDeclaration(all, pf), pf
}

// ParseRule implements §5.3.5 "Parse a rule".
func ParseRule(src string, o Options) (Item, *ParseFlags) {
	p, pf := newRuleParser(src, o)
	for p.peek().Kind == Whitespace {
		p.next()
	}
	var r Item
	switch p.peek().Kind {
	case EOF:
		return Item{Kind: "error", Why: "empty"}, pf
	case AtKeyword:
		r = p.consumeAtRule()
	default:
		r = p.consumeQualifiedRule()
		if r.Kind == "error" {
			return r, pf
		}
	}
	for p.peek().Kind == Whitespace {
		p.next()
	}
	if t := p.peek(); t.Kind != EOF {
		for p.peek().Kind != EOF {
			p.consumeCV(0)
		}
		return Item{Kind: "error", Why: "extra-input", Line: t.Line, Col: t.Col}, pf
	}
	return r, pf
}

// ParseComponentValue implements §5.3.9 "Parse a component value".
func ParseComponentValue(src string, o Options) (cv CV, why string, pf *ParseFlags) {
	p, pf := newRuleParser(src, o)
	for p.peek().Kind == Whitespace {
		p.next()
	}
	if p.peek().Kind == EOF {
		return CV{}, "empty", pf
	}
	cv = p.consumeCV(0)
	for p.peek().Kind == Whitespace {
		p.next()
	}
	if p.peek().Kind != EOF {
		for p.peek().Kind != EOF {
			p.consumeCV(0)
		}
		return CV{}, "extra-input", pf
	}
	return cv, "", pf
}

// ---------------------------------------------------------------------------------------------
// Editor's Draft (CSS Nesting era) "consume a block's contents": try a declaration first, otherwise
// restore the stream and consume a qualified rule with <semicolon-token> as the stop token.

// ParseBlockContents implements "Parse a block's contents" of the Editor's Draft.  A <}-token> at
// the top level of the input (impossible for the contents of a real block) is flagged and otherwise
// treated like any other preserved token.
func ParseBlockContents(src string, o Options) ([]Item, *ParseFlags) {
	p, pf := newRuleParser(src, o)
	var out []Item
	for {
		t := p.peek()
		switch t.Kind {
		case Whitespace, Semicolon:
			p.next()
		case EOF:
			return out, pf
		case AtKeyword:
			out = append(out, p.consumeAtRule())
		default:
			if t.Kind == RBrace {
				pf.StrayRBraceTop = true
			}
			mark := p.pos
			if d, ok := p.consumeDeclarationED(); ok {
				out = append(out, d)
				continue
			}
			p.pos = mark
			out = append(out, p.consumeQualifiedRuleED())
		}
	}
}

// consumeDeclarationED implements "Consume a declaration" of the Editor's Draft with nested = true.
// ok is false for "return nothing" (the caller restores the stream, so what was consumed does not
// matter).
func (p *ruleParser) consumeDeclarationED() (Item, bool) {
	// 1. "If the next token is an <ident-token>, consume a token from input and set decl's name …
	//    Otherwise, consume the remnants of a bad declaration from input, with nested, and return nothing."
	if p.peek().Kind != Ident {
		return Item{}, false
	}
	tmp := []CV{p.consumeCV(0)}
	// 2.–5. white space, colon, white space, then "Consume a list of component values from input, with
	//    nested, and with <semicolon-token> as the stop token"
	for k := p.peek().Kind; k != Semicolon && k != EOF; k = p.peek().Kind {
		if k == RBrace {
			p.pf.StrayRBraceTop = true
		}
		tmp = append(tmp, p.consumeCV(0))
	}
	d := consumeDeclaration(tmp, p.pf) // steps 2–7 are those of the 2021 text
	if d.Kind != "declaration" {
		return Item{}, false
	}
	// 8. "If decl's name is a custom property name string, then … Otherwise, if decl's value contains a
	//    top-level simple block with an associated token of <{-token>, and also contains any other
	//    non-<whitespace-token> value, return nothing."
	if !d.Custom && d.CurlyInValue {
		return d, false
	}
	return d, true
}

// consumeQualifiedRuleED implements "Consume a qualified rule" of the Editor's Draft with nested =
// true and <semicolon-token> as the stop token.
func (p *ruleParser) consumeQualifiedRuleED() Item {
	first := p.peek()
	r := Item{Kind: "qualified-rule", Line: first.Line, Col: first.Col}
	for {
		t := p.peek()
		switch t.Kind {
		case EOF, Semicolon:
			// "This is a parse error. Return nothing." (the stop token is left for the caller)
			return Item{Kind: "error", Why: "EOF or ';' before the {}-block of a nested qualified rule", Line: first.Line, Col: first.Col}
		case RBrace:
			p.pf.StrayRBraceTop = true
		case LBrace:
			// "If the first two non-<whitespace-token> values of rule's prelude are an <ident-token> whose
			// value starts with "--" followed by a <colon-token>, then: if nested is true, consume the
			// remnants of a bad declaration from input, with nested set to true, and return nothing."
			var sig []CV
			for _, c := range r.Prelude {
				if !isWS(c) {
					sig = append(sig, c)
				}
			}
			if len(sig) >= 2 && !sig[0].Block && !sig[0].Func && sig[0].Tok.Kind == Ident && strings.HasPrefix(sig[0].Tok.Value, "--") &&
				!sig[1].Block && !sig[1].Func && sig[1].Tok.Kind == Colon {
				for k := p.peek().Kind; k != Semicolon && k != EOF; k = p.peek().Kind {
					p.consumeCV(0)
				}
				return Item{Kind: "error", Why: "custom-property-like prelude", Line: first.Line, Col: first.Col, Custom: true}
			}
			b := p.consumeCV(0)
			r.Block, r.HasBlock = b.Children, true
			return r
		}
		r.Prelude = append(r.Prelude, p.consumeCV(0))
	}
}
