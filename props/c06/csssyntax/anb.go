package csssyntax

import (
	"math/big"
	"strings"
)

// ParseAnB implements §6 "The An+B microsyntax" on the tokens of src (comments are not tokens).
// It returns ok=false when src does not match <an+b>, otherwise A and B as exact integers.
//
//	<an+b> =
//	  odd | even | <integer> |
//	  <n-dimension> | '+'?† n | -n |
//	  <ndashdigit-dimension> | '+'?† <ndashdigit-ident> | <dashndashdigit-ident> |
//	  <n-dimension> <signed-integer> | '+'?† n <signed-integer> | -n <signed-integer> |
//	  <ndash-dimension> <signless-integer> | '+'?† n- <signless-integer> | -n- <signless-integer> |
//	  <n-dimension> ['+' | '-'] <signless-integer> | '+'?† n ['+' | '-'] <signless-integer> | -n ['+' | '-'] <signless-integer>
//
// "†: There must be no whitespace between the two tokens"; elsewhere white space is optional
// between tokens; leading and trailing white space is accepted here (the production is used inside a
// function's arguments).
func ParseAnB(src string) (a, b *big.Int, ok bool) {
	toks, _ := Tokenize(src, Options{})
	i := 0
	skipWS := func() {
		for toks[i].Kind == Whitespace {
			i++
		}
	}
	lower := func(s string) string {
		if !asciiOnly(s) {
			return "\x00" // cannot match any of the ASCII keywords
		}
		return strings.ToLower(s)
	}
	integer := func(t Token) bool { return t.Kind == Number && t.Integer }
	signed := func(t Token) bool { return integer(t) && (t.Repr[0] == '+' || t.Repr[0] == '-') }
	signless := func(t Token) bool { return integer(t) && isDigit(rune(t.Repr[0])) }
	val := func(repr string) *big.Int {
		v, _ := new(big.Int).SetString(strings.TrimPrefix(repr, "+"), 10)
		return v
	}
	// "n-" followed by digits: returns the value of "-digits"
	ndashdigit := func(s string) (*big.Int, bool) {
		if !strings.HasPrefix(s, "n-") || len(s) < 3 {
			return nil, false
		}
		for _, c := range s[2:] {
			if !isDigit(c) {
				return nil, false
			}
		}
		return val(s[1:]), true
	}
	end := func(a, b *big.Int) (*big.Int, *big.Int, bool) {
		skipWS()
		if toks[i].Kind != EOF {
			return nil, nil, false
		}
		return a, b, true
	}
	// after "An": nothing | <signed-integer> | ['+' | '-'] <signless-integer>
	afterN := func(a *big.Int) (*big.Int, *big.Int, bool) {
		skipWS()
		t := toks[i]
		switch {
		case t.Kind == EOF:
			return a, big.NewInt(0), true
		case signed(t):
			i++
			return end(a, val(t.Repr))
		case t.Kind == Delim && (t.Value == "+" || t.Value == "-"):
			i++
			skipWS()
			u := toks[i]
			if !signless(u) {
				return nil, nil, false
			}
			i++
			b := val(u.Repr)
			if t.Value == "-" {
				b.Neg(b)
			}
			return end(a, b)
		}
		return nil, nil, false
	}
	// after "An-": <signless-integer>
	afterNDash := func(a *big.Int) (*big.Int, *big.Int, bool) {
		skipWS()
		u := toks[i]
		if !signless(u) {
			return nil, nil, false
		}
		i++
		return end(a, new(big.Int).Neg(val(u.Repr)))
	}

	skipWS()
	t := toks[i]
	switch {
	case integer(t):
		i++
		return end(big.NewInt(0), val(t.Repr))
	case t.Kind == Dimension && t.Integer:
		i++
		unit := lower(t.Unit)
		switch {
		case unit == "n":
			return afterN(val(t.Repr))
		case unit == "n-":
			return afterNDash(val(t.Repr))
		}
		if bv, ok := ndashdigit(unit); ok {
			return end(val(t.Repr), bv)
		}
		return nil, nil, false
	case t.Kind == Ident:
		i++
		id := lower(t.Value)
		switch id {
		case "even":
			return end(big.NewInt(2), big.NewInt(0))
		case "odd":
			return end(big.NewInt(2), big.NewInt(1))
		case "n":
			return afterN(big.NewInt(1))
		case "-n":
			return afterN(big.NewInt(-1))
		case "n-":
			return afterNDash(big.NewInt(1))
		case "-n-":
			return afterNDash(big.NewInt(-1))
		}
		if bv, ok := ndashdigit(id); ok {
			return end(big.NewInt(1), bv)
		}
		if strings.HasPrefix(id, "-") {
			if bv, ok := ndashdigit(id[1:]); ok {
				return end(big.NewInt(-1), bv)
			}
		}
		return nil, nil, false
	case t.Kind == Delim && t.Value == "+":
		i++
		u := toks[i] // † no white space allowed here
		if u.Kind != Ident {
			return nil, nil, false
		}
		i++
		id := lower(u.Value)
		switch id {
		case "n":
			return afterN(big.NewInt(1))
		case "n-":
			return afterNDash(big.NewInt(1))
		}
		if bv, ok := ndashdigit(id); ok {
			return end(big.NewInt(1), bv)
		}
		return nil, nil, false
	}
	return nil, nil, false
}
