//go:build pC04 || pall

package props

import _ "verif/props/c04"
