// Package c09 is the runtime monitor of property C09: the box tree built by
// boxes.BuildFormattingStructure obeys the CSS box-generation rules.
//
// Every case is a small generated HTML document (literal text + the generator's own tree).  The
// real pipeline tree.NewHTML → tree.GetAllComputedStyles → boxes.BuildFormattingStructure is
// executed on it and the resulting box tree is walked by an invariant monitor written from
// CSS 2.1 §9.2 / §9.7 / §17.2.1 / §17.5, css-display-3, css-flexbox-1 §4 and css-grid §6.1, with a
// small reference model (model.go) telling which elements must and must not generate boxes.
package c09

import (
	"encoding/json"
	"fmt"
	"math/rand"
	"strings"

	"verif/internal/fw"
	"verif/internal/wr"
)

const (
	n20 = 20
	n12 = 12
)

// family sizes
const nCaptions = 81

// footnote family: parent display × footnote display × footnote-display × 3 shapes
const nFoot = 3 * 4 * n20 * n20

// running family: parent display × running element display × 5 shapes
const nRunning = nRunShapes * n20 * n20

func famSizes(tier string) (chain3, sib, oof, pseudo, chain4, random int) {
	chain3 = 2 * n20 * n20 * n20 // with and without text
	sib = 3 * n20 * n20 * n20    // separators: none, white space, text
	oof = 4 * n20 * n20
	pseudo = 2*n20*n20 + nCaptions
	random = 12000
	if tier == "thorough" {
		chain4 = 2 * n12 * n12 * n12 * n12
		random = 500000
	}
	return
}

func genCase(r *rand.Rand, i int, tier string) Input {
	chain3, sib, oof, pseudo, chain4, _ := famSizes(tier)
	if i < chain3 {
		withText := i >= chain3/2
		i %= chain3 / 2
		return genChain([]string{disp20[i/(n20*n20)], disp20[(i/n20)%n20], disp20[i%n20]}, withText)
	}
	i -= chain3
	if i < sib {
		sep := []string{"", " ", "t"}[i/(n20*n20*n20)]
		i %= n20 * n20 * n20
		return genSiblings(disp20[i/(n20*n20)], disp20[(i/n20)%n20], disp20[i%n20], sep)
	}
	i -= sib
	if i < oof {
		mode := i / (n20 * n20)
		i %= n20 * n20
		return genOOF(disp20[i/n20], disp20[i%n20], mode)
	}
	i -= oof
	if i < nCaptions {
		return genCaptions(i)
	}
	i -= nCaptions
	pseudo -= nCaptions
	if i < pseudo {
		after := i >= n20*n20
		i %= n20 * n20
		return genPseudo(disp20[i/n20], disp20[i%n20], after)
	}
	i -= pseudo
	if i < nFoot {
		shape := i / (4 * n20 * n20)
		i %= 4 * n20 * n20
		return genFootnote(disp20[(i/n20)%n20], disp20[i%n20], []string{"", "block", "inline", "compact"}[i/(n20*n20)], shape)
	}
	i -= nFoot
	if i < nSpans() {
		return genSpans(i)
	}
	i -= nSpans()
	if i < nRunning {
		shape := i / (n20 * n20)
		i %= n20 * n20
		return genRunning(disp20[i/n20], disp20[i%n20], shape)
	}
	i -= nRunning
	if i < chain4 {
		withText := i >= chain4/2
		i %= chain4 / 2
		return genChain([]string{dispTable12[i/(n12*n12*n12)], dispTable12[(i/(n12*n12))%n12], dispTable12[(i/n12)%n12], dispTable12[i%n12]}, withText)
	}
	return genRandom(r)
}

func init() {
	fw.Register(&fw.Prop{
		ID: "C09",
		Rule: "inputs: generated HTML documents whose elements carry one of 20 display values (block, inline, inline-block, list-item, table, inline-table, the 8 table-internal values, flex, inline-flex, grid, inline-grid, flow-root, none) × float (left, right, footnote with footnote-display block / inline / compact) × position (relative, absolute, fixed, running(name) of css-gcpm-3 §1.2) × ::before/::after with display and float × list-style-position × caption-side, plus (random trees only) multi-keyword display spellings and inline list-item, HTML tables whose cells carry colspan / rowspan and whose <col> / <colgroup> carry span with values of the whole attribute-value family (small valid numbers mostly; also 0, negative, signed, zero-padded, white-space padded, empty / non-numeric, digits followed by other characters, the maxima 1000 / 65534 and beyond, more than 18 digits, non-ASCII white space and digits), replaced elements with children (svg, object, img). " +
			"Enumerated exhaustively: every (parent, child, grandchild) display triple with and without surrounding text, every (parent, child, child) sibling triple with no / white-space / text separator, every (parent, child) pair with the child floated or absolutely positioned, every (element, pseudo-element) display pair, every caption-side combination of two captions of a table, every (parent display, footnote element display, footnote-display) combination of a footnote element in three shapes (between text, first with block and display:none children, nested in another footnote), every value of the 35-value span attribute list as colspan or rowspan of a cell (3 positions in a 3-group table, alone or with the other attribute = 2, on HTML table elements and on div elements with table display values), every (colspan, rowspan) pair of these values on one cell, every value as span of a <col> (first / last of its group) and of a <colgroup> without <col>, followed by further columns, every (parent display, running element display) pair of a running element (position: running()) in five shapes (first before trailing text, between text, holding another running element, with mixed content next to an ordinary block, two running elements before trailing text); thorough adds every 4-chain over the 12 table-related values. The rest are random trees of at most 40 elements (7 % of their elements are footnote elements, with any display incl. none, any position, in any context incl. tables, flex/grid containers, hidden and replaced ancestors, other footnotes, body; 6 % are running elements, with any display incl. none, never floated). " +
			"Running elements: a box whose own computed position is running() is a placeholder -- nothing is laid out where it stands and webrender's anonymous-box passes leave its content unformed until content: element() places it in a margin box. Where it stands it is judged as one out-of-flow box (it may be the child of a block container among block-level boxes, of a line / inline box, of a flex / grid container without being an item, or a table part of the proper kind), its parent's clauses hold with it (in particular a line box never has a placeholder as sibling), each running element has exactly one placeholder (running-placeholder-count, running-of-non-running); its content is walked with every clause in an area formed as layout does (Deepcopy, position static, CreateAnonymousBox over a block container holding it), running elements met inside give further areas; running_* counters tell how many placeholders were met in which context, running_only_blocks_beside_inline_content how many block containers had running elements as only block-level children beside inline content. " +
			"Footnotes: the footnote boxes are reached through the Footnote link of the ::footnote-call boxes met in the tree and must be listed in the footnotes output; they are put in a footnote area formed as layout does (CreateAnonymousBox over a block holding deep copies of them) and that area is walked with every clause; footnote_* counters tell how many were walked, how many display:none / hidden footnote elements were verified box-less. " +
			"Span attributes (HTML 4.9.11 / 4.9.3 / 4.9.4, rules for parsing non-negative integers; model in spans.go): on every value a cell spans 1..1000 columns and 1..(rows left in its group) rows, takes the first free slot and shares none, a <col> / childless <colgroup> stands for 1..1000 columns and the columns after it are numbered accordingly; the exact Colspan / Rowspan / number of column boxes must equal the HTML value (colspan, span: error or 0 -> 1, > 1000 -> 1000; rowspan: error -> 1, 0 -> to the end of the group, > 65534 -> 65534) on every value except the four classes trailing_chars, huge, unicode_space and negative rowspan, where a difference is reported only (span_html_parse_deviation, report_only_disagreements); span_<attribute>_<class> counters tell how many attributes of each class were judged, span_values_exact_verified / span_values_range_only how many exactly / by range. " +
			"A case is non-trivial when at least one element other than html/body is rendered, every clause held, and the observed tree has more boxes than the document has rendered elements (text, line, anonymous or wrapper boxes were generated and walked); distinct = distinct input.",
		N: func(tier string) int {
			a, b, c, d, e, f := famSizes(tier)
			return a + b + c + d + e + f + nFoot + nSpans() + nRunning
		},
		Gen: func(r *rand.Rand, i int, tier string) any { return genCase(r, i, tier) },
		Check: func(raw json.RawMessage) fw.Result {
			return check(raw)
		},
		Floor: func(tier string) int {
			if tier == "thorough" {
				return 300000
			}
			return 30000
		},
		CounterFloors: func(tier string) map[string]int64 {
			return map[string]int64{
				"box_Line": 20000, "box_Inline": 5000, "box_InlineBlock": 2000, "box_Table": 10000, "box_InlineTable": 1000,
				"box_RowGroup": 10000, "box_Row": 10000, "box_Cell": 10000, "box_ColGroup": 1000, "box_Col": 1000, "box_Caption": 1000,
				"box_Flex": 1000, "box_InlineFlex": 500, "box_Grid": 1000, "box_InlineGrid": 500,
				"box_BlockReplaced": 50, "box_InlineReplaced": 100,
				"flex_items": 1000, "grid_items": 1000, "table_wrappers": 10000, "cells": 10000,
				"cells_rowspan": 200, "cells_colspan": 200, "out_of_flow_in_inline_fc": 300,
				"inline_elements_split": 300, "elements_checked": 100000, "pseudo_checked": 500,
				"tokens_conserved": 100000, "tokens_hidden_absent": 3000, "hidden_elements_verified": 3000,
				"replaced_children_verified": 100, "column_children_verified": 500,
				"markers_outside": 500, "markers_inside": 20, "captions_top": 500, "captions_bottom": 100, "docs_order_checked": 10000,
				// footnote elements (float:footnote): walked in a footnote area, by display in the area,
				// nested, and the ones that must generate nothing (display:none itself / hidden otherwise)
				"fam_footnote": nFoot, "footnotes_walked": 6000, "footnote_calls": 6000, "footnote_elements_checked": 6000,
				"footnote_display_block": 3000, "footnote_display_inline": 2000, "footnote_calls_nested": 800,
				"footnote_display_none_verified": 200, "footnote_hidden_verified": 800, "footnote_float_on_abspos": 200,
				"footnotes_listed_without_call": 400, "footnote_specified_list-item": 100, "footnote_specified_table-cell": 300,
				// span attribute family (colspan / rowspan / span over the whole attribute-value space)
				"fam_spans": int64(nSpans()), "span_values_exact_verified": 8000, "span_values_range_only": 1000,
				"span_colspan_valid": 2500, "span_colspan_zero": 150, "span_colspan_negative": 150, "span_colspan_over_max": 200,
				"span_colspan_non_numeric": 300, "span_colspan_white_space": 100, "span_colspan_plus_sign": 50,
				"span_rowspan_valid": 2500, "span_rowspan_zero": 800, "span_rowspan_over_max": 100, "span_rowspan_non_numeric": 300,
				"span_rowspan_white_space": 100, "span_rowspan_negative": 150,
				"span_span_valid": 500, "span_span_zero": 25, "span_span_negative": 20, "span_span_non_numeric": 40, "span_span_over_max": 12,
				"col_span_checked": 800, "colgroup_span_checked": 400,
				// running elements (position: running()): placeholders by context, areas walked
				// (the 17 enumerated cases of the former finding F-C09-running-inline-split-by-block, repaired by 7022988, count again)
				"fam_running": nRunning - 40, "running_placeholders": 3000, "running_areas": 3000, "running_elements_checked": 3000,
				"running_placeholder_in_block_fc": 800, "running_placeholder_in_inline_fc": 1000, "running_placeholder_flex_grid_item": 200,
				"running_placeholder_in_table_part": 700, "running_only_blocks_beside_inline_content": 200, "running_nested": 250,
				"running_in_footnote": 150, "running_display_block": 900, "running_display_inline": 300, "running_display_table": 100,
				"running_display_table-cell": 100, "running_display_flex": 80,
			}
		},
		Assumptions: []string{
			"the HTML parser (golang.org/x/net/html) is trusted: the oracle first checks that the parsed DOM equals the generator's tree and declares the case inconclusive otherwise",
			"the cascade and computed values other than display/float/position are not judged here (C03/C04); every element is styled through one id selector",
			"out-of-flow boxes are recognised from the box's own computed float/position",
			"a table-internal child of a flex container is accepted either blockified (css-flexbox-1 §4) or, as webrender does, kept inside an anonymous table that is the flex item",
			"run-in, ruby and display:contents are not generated",
			"running elements (css-gcpm-3 §1.2): position: running() is generated on div / span elements with any display value, not on HTML table parts, replaced elements, html / body or pseudo-elements, and never together with float (how the two combine is not defined); the display of a running element is the specified one (CSS 2.1 §9.7 names absolute and fixed only); BuildFormattingStructure leaves the content of a running box unformed, so the check forms it the way boxes.ContentToBoxes / layout's margin boxes do (bo.Deepcopy, position set to static on a copy of the style, bo.CreateAnonymousBox over an anonymous block of the root box holding it) and judges every clause there; the kind of a placeholder is not judged where it stands (a running table is a bare table box there, its wrapper is supplied in the area), the columns after a running column group are renumbered from wherever webrender resumes, the rows of a running row group / cells of a running row take no part in the slot check of the table they stand in; the anonymous block webrender wraps around an inline-level flex / grid item carries the item's style incl. position: the running box met again inside it is the same placeholder (running_item_wrapper_unwrapped)",
			"finding F-C09-running-inline-split-by-block (repaired in /repo by 7022988; history: the 17 cases of the enumerated running family with an inline running element holding a block, and about 45 of the 12 000 random trees -- 19 of 20 random running inline elements are given inline content only): BlockInInline splits a running inline box around an in-flow block-level box inside it",
			"span attributes: the oracle reads the generator's attribute values (the parsed DOM must carry the same strings, else the case is inconclusive); colspan / rowspan are generated on elements whose computed display is table-cell only, span on <col> / <colgroup> only (an anonymous cell or a column group of another element reading such an attribute is not judged); a <colgroup> has either a span attribute or <col> children, never both; on attribute values with characters after the digits, more than 18 digits, non-ASCII white space, and on a negative rowspan, webrender reads the attribute with a strict integer parser where HTML parses a prefix / clamps / rejects: the box tree stays well formed, the difference is reported, not judged; a ::before/::after with display table-column on a <colgroup span> makes the expected number of columns undefined (range only)",
			"open finding F-C09-colgroup-span-lost-to-generated-content (matched by its own signature, stays in the generated domain: about 15 of the 12 000 random trees): <colgroup span=N> with ::before/::after content stands for 1 or 2 columns instead of N",
			"footnotes (css-gcpm-3 §2): float:footnote is generated on elements other than the root, not on ::before/::after (webrender leaves such a pseudo-element in the flow; undefined in GCPM); BuildFormattingStructure returns footnote boxes before anonymous-box fix-up, so the check forms the footnote area itself the way layoutContext.updateFootnoteArea does (bo.CreateAnonymousBox over an anonymous block of the root box whose children are bo.Deepcopy of the footnote boxes reached through ::footnote-call links, nested footnotes in a further area); footnote-display:compact may give a block or an inline box (UA's choice per GCPM); a footnote element keeps the marker of a list-item display (blockified per CSS 2.1 §9.7); ::footnote-marker is not judged on replaced elements and <img>",
			"which element a ::footnote-call box is attached to is not judged (webrender: the parent of the footnote element, counted as footnote_calls_on_parent_element); entries of the footnotes list that no call links (the call was removed with the content of a replaced element or by §17.2.1 rules 1.1/1.2; never laid out) are counted, not judged, unless their element is in a display:none subtree",
		},
		Exhaustive: func(tier string) bool { return false },
		Batch:      1500,
	})
}

func check(raw json.RawMessage) fw.Result {
	var in Input
	var res fw.Result
	if err := json.Unmarshal(raw, &in); err != nil || in.Root == nil {
		return fw.Result{Verdict: fw.Inconclusive, Msg: fmt.Sprint("bad input: ", err)}
	}
	wr.Quiet()
	b, err := buildBoxes(in.HTML)
	if err != nil {
		return fw.Result{Verdict: fw.Inconclusive, Msg: "NewHTML: " + err.Error()}
	}
	dom, err := matchDOM(b.doc.Root.AsHtmlNode(), in.Root)
	if err != nil {
		return fw.Result{Verdict: fw.Inconclusive, Msg: "generated tree and parsed DOM differ: " + err.Error() + " in " + in.HTML}
	}
	m := &monitor{res: &res, in: &in, b: b, dom: dom}
	m.byID, m.list, m.rootNone = buildModel(in.Root)
	m.run()
	if res.Verdict == fw.Violation {
		return res
	}
	// evidence: what the model declared hidden and the walk confirmed absent
	rendered := 0
	for _, e := range m.list {
		if e.n.Float == "footnote" && e.parent != nil {
			switch {
			case !isFootnoteNode(e.n):
				res.Count("footnote_float_on_abspos", 1) // computed float none: an ordinary positioned element
			case e.shown && !(m.rootNone && e.parent != nil):
			case specifiedDisplay(e.n) == "none":
				res.Count("footnote_display_none_verified", 1) // display:none + float:footnote: no call, no footnote box
			default:
				res.Count("footnote_hidden_verified", 1)
			}
		}
		switch {
		case e.shown && !(m.rootNone && e.parent != nil):
			rendered++
		case e.parent != nil && e.parent.replaced:
			res.Count("replaced_children_verified", 1)
		case strings.Contains(e.why, "17.2.1"):
			res.Count("column_children_verified", 1)
		default:
			res.Count("hidden_elements_verified", 1)
		}
	}
	res.Count("fam_"+in.Fam, 1)
	res.Nontrivial = rendered > 2 && m.nBoxes > rendered
	return res
}
