package c09

import "strings"

// Reference model (written from CSS 2.1 §9.2, §9.7, §17.2.1, css-display-3 §2, css-flexbox-1 §4,
// css-grid §6.1; shares no code with /repo).  It answers, for the generator's tree:
//   - the computed display of each element (§9.7 blockification of floats / absolutely positioned
//     boxes / the root);
//   - whether an element, a text run or a pseudo-element takes part in box generation at all
//     (display:none subtrees, children of replaced elements, §17.2.1 rules 1.1 and 1.2);
//   - the kind of the principal box of each element.

// canonDisplay maps the multi-keyword spellings of css-display-3 §2 to the single legacy keyword
// the model works with ("inline list-item" has none and stays as it is).
var canonDisplay = map[string]string{
	"block flow": "block", "flow": "block", "inline flow": "inline", "block flow-root": "flow-root",
	"inline flow-root": "inline-block", "block table": "table", "inline table": "inline-table",
	"block flex": "flex", "inline flex": "inline-flex", "block grid": "grid", "inline grid": "inline-grid",
	"block flow list-item": "list-item", "list-item block": "list-item", "flow list-item": "list-item",
	"flow-root list-item": "list-item", "inline flow list-item": "inline list-item", "list-item inline": "inline list-item",
}

func canon(d string) string {
	if c, ok := canonDisplay[d]; ok {
		return c
	}
	return d
}

func isListItem(d string) bool { return d == "list-item" || d == "inline list-item" }

// pseudoDisplay: computed display of a ::before/::after (initial inline; blockified when floated).
func pseudoDisplay(p *Pseudo) string {
	if p == nil {
		return ""
	}
	d := canon(p.Disp)
	if d == "" {
		d = "inline"
	}
	if p.Float != "" && d != "none" {
		d = blockify(d)
	}
	return d
}

func specifiedDisplay(n *Node) string {
	if n.Disp != "" {
		return canon(n.Disp)
	}
	if d, ok := uaDisplay[n.Tag]; ok {
		return d
	}
	return "inline"
}

func isOutOfFlow(n *Node) bool {
	return n.Float != "" || n.Pos == "absolute" || n.Pos == "fixed"
}

// isRunningNode: the element is a running element (css-gcpm-3 §1.2, `position: running(name)`): it
// is taken out of the flow and kept for the page margin boxes (`content: element(name)`).  No rule
// of CSS 2.1 §9.7 applies to it (that section names absolute and fixed only), so its display is the
// specified one; where it stood nothing is laid out.
func isRunningNode(n *Node) bool { return strings.HasPrefix(n.Pos, "running(") }

// isFootnoteNode: the element is a footnote element (css-gcpm-3 §2.1, `float: footnote`).  The
// computed float of an absolutely positioned / fixed element is none (CSS 2.1 §9.7 rule 2), so
// such an element is no footnote.
func isFootnoteNode(n *Node) bool {
	return n.Float == "footnote" && n.Pos != "absolute" && n.Pos != "fixed"
}

// footnoteDisplay: the display of a footnote element in the footnote area (css-gcpm-3 §2.4
// footnote-display: block -> block element; inline -> inline element; compact -> the UA chooses
// between the two: the model says inline, the walker also takes a block box, see checkElements).
func footnoteDisplay(n *Node) string {
	if n.FD == "inline" || n.FD == "compact" {
		return "inline"
	}
	return "block"
}

// blockify is the display column of the CSS 2.1 §9.7 table, extended with the css-display-3 §2.7
// rows for flex and grid.
func blockify(d string) string {
	switch d {
	case "inline-table":
		return "table"
	case "inline-flex":
		return "flex"
	case "inline-grid":
		return "grid"
	case "inline list-item":
		return "list-item"
	case "inline", "inline-block", "table-row-group", "table-header-group", "table-footer-group",
		"table-row", "table-column-group", "table-column", "table-cell", "table-caption":
		return "block"
	}
	return d // block, list-item, table, flex, grid, flow-root, none
}

func isTableInternal(d string) bool {
	return strings.HasPrefix(d, "table-")
}

// principal box kinds
type kind int

const (
	kOther kind = iota
	kBlock
	kLine
	kInline
	kText
	kInlineBlock
	kBlockRepl
	kInlineRepl
	kTable
	kInlineTable
	kRowGroup
	kRow
	kColGroup
	kCol
	kCell
	kCaption
	kFlex
	kInlineFlex
	kGrid
	kInlineGrid
)

var kindNames = [...]string{"Other", "Block", "Line", "Inline", "Text", "InlineBlock", "BlockReplaced", "InlineReplaced", "Table", "InlineTable", "RowGroup", "Row", "ColGroup", "Col", "Cell", "Caption", "Flex", "InlineFlex", "Grid", "InlineGrid"}

func (k kind) String() string { return kindNames[k] }

// kindForDisplay maps a computed display value to the kind of the principal box of a non-replaced
// element (CSS 2.1 §9.2.1–§9.2.4, §17.2; css-display-3 §2.1–§2.5).  For table / inline-table it is
// the kind of the table wrapper box.
func kindForDisplay(d string) kind {
	switch d {
	case "block", "list-item", "flow-root":
		return kBlock
	case "inline", "inline list-item":
		return kInline
	case "inline-block":
		return kInlineBlock
	case "table":
		return kBlock // the wrapper
	case "inline-table":
		return kInlineBlock // the wrapper
	case "table-row-group", "table-header-group", "table-footer-group":
		return kRowGroup
	case "table-row":
		return kRow
	case "table-column-group":
		return kColGroup
	case "table-column":
		return kCol
	case "table-cell":
		return kCell
	case "table-caption":
		return kCaption
	case "flex":
		return kFlex
	case "inline-flex":
		return kInlineFlex
	case "grid":
		return kGrid
	case "inline-grid":
		return kInlineGrid
	}
	return kOther
}

// einfo is what the model knows about one element.
type einfo struct {
	n        *Node
	parent   *einfo
	order    int    // document order
	cd       string // computed display (spec), "none" when the element itself is display:none
	shown    bool   // takes part in box generation
	replaced bool   // replaced element (its children generate nothing)
	why      string // reason when !shown
	running  bool   // running element (position: running()): its box is a placeholder in the flow, formed when placed in a margin box
	footnote bool   // footnote element: its box lives in the footnote area, a ::footnote-call stands in its place
	listItem bool   // generates a ::marker box
}

// isReplacedNode: <svg>, <img src>, <object data> with the (always loadable) test image.
func isReplacedNode(n *Node) bool {
	switch n.Tag {
	case "svg":
		return true
	case "img":
		return n.Attrs["src"] != ""
	case "object":
		return n.Attrs["data"] != ""
	}
	return false
}

// childSuppressed implements §17.2.1 rules 1.1 / 1.2 for a child (element or pseudo-element) with
// computed display cd under a parent with computed display pcd.
func childSuppressed(pcd, cd string) bool {
	if pcd == "table-column" {
		return true
	}
	if pcd == "table-column-group" && cd != "table-column" {
		return true
	}
	return false
}

// textSuppressed: text directly inside a table-column or table-column-group is removed (same rules).
func textSuppressed(pcd string) bool {
	return pcd == "table-column" || pcd == "table-column-group"
}

// buildModel fills the einfo of every element.  rootNone reports display:none on the root, for
// which a formatting structure still needs a (childless) root box.
func buildModel(root *Node) (byID map[int]*einfo, list []*einfo, rootNone bool) {
	byID = map[int]*einfo{}
	var rec func(n *Node, p *einfo)
	rec = func(n *Node, p *einfo) {
		if n.isText() {
			return
		}
		e := &einfo{n: n, parent: p, order: len(list)}
		list = append(list, e)
		byID[n.ID] = e
		sd := specifiedDisplay(n)
		e.cd = sd
		if sd != "none" && (isOutOfFlow(n) || p == nil) {
			e.cd = blockify(sd)
		}
		e.listItem = isListItem(e.cd)
		e.running = sd != "none" && p != nil && isRunningNode(n)
		if sd != "none" && p != nil && isFootnoteNode(n) {
			// css-gcpm-3 §2: the element is taken out of the flow into the footnote area, where
			// footnote-display alone says whether it is a block or an inline element; a
			// ::footnote-call (inline) stands where the element was.  display:none wins: the element
			// "generates no boxes at all" (css-display-3 §2.5), footnote or not.
			e.footnote = true
			e.cd = footnoteDisplay(n)
		}
		e.replaced = isReplacedNode(n)
		if e.replaced && isTableInternal(e.cd) {
			// css-display-3 §2.4: a replaced element with a layout-internal display is handled as inline
			e.cd = "inline"
		}
		switch {
		case p == nil:
			e.shown = true
			if sd == "none" {
				rootNone = true
				e.cd = "block"
			}
		case !p.shown:
			e.why = "ancestor generates no box (" + p.why + ")"
		case rootNone && p.parent == nil:
			e.why = "root is display:none"
		case p.replaced:
			e.why = "child of a replaced element"
		case sd == "none":
			e.why = "display:none"
		case childSuppressed(p.cd, e.cd):
			// (for a footnote element the box standing in the parent is its inline ::footnote-call:
			// never a table-column either)
			e.why = "§17.2.1 rule 1.1/1.2 (child of " + p.cd + ")"
		default:
			e.shown = true
		}
		if !e.shown && e.why == "" {
			e.why = "?"
		}
		for _, k := range n.Kids {
			rec(k, e)
		}
	}
	rec(root, nil)
	return
}

// pseudoShown tells whether the ::before/::after of e generates a box.
func pseudoShown(e *einfo, p *Pseudo, rootNone bool) bool {
	if p == nil || !e.shown || e.replaced {
		return false
	}
	if e.n.Tag == "img" {
		// an <img> without image represents its alt text only (HTML §4.8.3); generated content on
		// it is not defined and webrender replaces all children by the alt text
		return false
	}
	if rootNone {
		return false
	}
	if e.n.Tag == "colgroup" && e.cd == "table-column-group" && !hasColKid(e.n) {
		// HTML: a <colgroup> without <col> children stands for `span` columns; webrender builds
		// them in place of any generated content
		return false
	}
	d := pseudoDisplay(p)
	if d == "none" {
		return false
	}
	return !childSuppressed(e.cd, d)
}

// textShown tells whether a text kid of e generates (part of) a text box, white space aside.
func textShown(e *einfo, rootNone bool) bool {
	if !e.shown || e.replaced || rootNone {
		return false
	}
	return !textSuppressed(e.cd)
}

// isFlexOrGrid: computed display establishing a flex or grid container.
func isFlexContainerDisplay(d string) bool { return d == "flex" || d == "inline-flex" }
func isGridContainerDisplay(d string) bool { return d == "grid" || d == "inline-grid" }

func isTabularContainer(d string) bool {
	switch d {
	case "table", "inline-table", "table-row-group", "table-header-group", "table-footer-group", "table-row":
		return true
	}
	return false
}

// hasColKid: the element has a <col> child element (HTML §4.9.3: then its span attribute is not used).
func hasColKid(n *Node) bool {
	for _, k := range n.Kids {
		if k.Tag == "col" {
			return true
		}
	}
	return false
}
