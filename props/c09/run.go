package c09

import (
	"fmt"
	"strings"

	"golang.org/x/net/html"

	"github.com/benoitkugler/webrender/css/counters"
	pr "github.com/benoitkugler/webrender/css/properties"
	bo "github.com/benoitkugler/webrender/html/boxes"
	"github.com/benoitkugler/webrender/html/tree"
	"github.com/benoitkugler/webrender/images"
	"github.com/benoitkugler/webrender/utils"

	"verif/internal/wr"
)

// built is the observation of one execution of the real code.
type built struct {
	doc  *tree.HTML
	root bo.Box
	foot []bo.Box
}

// buildBoxes runs webrender's own pipeline up to the formatting structure, exactly as
// layout.Layout does (tree.NewHTML, tree.GetAllComputedStyles, boxes.BuildFormattingStructure),
// without fonts and without layout.
func buildBoxes(src string) (*built, error) {
	doc, err := tree.NewHTML(utils.InputString(src), "mem://doc/", wr.MemFetcher(memFiles), "")
	if err != nil {
		return nil, err
	}
	cs := make(counters.CounterStyle)
	tc := tree.NewTargetCollector()
	var pageRules []tree.PageRule
	styleFor := tree.GetAllComputedStyles(doc, nil, false, nil, cs, &pageRules, &tc, false, nil)
	cache := images.NewCache()
	fetchImage := func(url, forcedMimeType string, orientation pr.SBoolFloat) images.Image {
		return images.GetImageFromUri(cache, doc.UrlFetcher, false, url, forcedMimeType, orientation)
	}
	out := &built{doc: doc}
	root := bo.BuildFormattingStructure(doc.Root, styleFor, bo.URLResolver{Fetch: doc.UrlFetcher, FetchImage: fetchImage},
		doc.BaseUrl, &tc, cs, &out.foot)
	out.root = root
	return out, nil
}

// matchDOM maps the parsed DOM (golang.org/x/net/html, not code under test) onto the generator's
// tree and fails when they differ: the oracle's expectations are only valid for the tree the
// generator meant.
func matchDOM(docRoot *html.Node, root *Node) (map[*html.Node]*Node, error) {
	m := map[*html.Node]*Node{}
	var rec func(d *html.Node, n *Node, top bool) error
	rec = func(d *html.Node, n *Node, top bool) error {
		if d.Type != html.ElementNode || d.Data != n.Tag {
			return fmt.Errorf("DOM node %q (type %d) where <%s id=n%d> was generated", d.Data, d.Type, n.Tag, n.ID)
		}
		id := ""
		for _, a := range d.Attr {
			if a.Key == "id" {
				id = a.Val
			}
		}
		if id != fmt.Sprintf("n%d", n.ID) {
			return fmt.Errorf("DOM element <%s id=%q> where id n%d was generated", d.Data, id, n.ID)
		}
		for k, v := range n.Attrs {
			// (the span attribute family carries white space, signs, non-ASCII characters: the oracle
			// reads the generator's value, which must be the one the parser handed to webrender)
			got, found := "", false
			for _, a := range d.Attr {
				if a.Key == k {
					got, found = a.Val, true
				}
			}
			if !found || got != v {
				return fmt.Errorf("attribute %s of n%d is %q in the DOM, %q generated", k, n.ID, got, v)
			}
		}
		m[d] = n
		var kids []*html.Node
		for c := d.FirstChild; c != nil; c = c.NextSibling {
			if top && c.Type == html.ElementNode && c.Data == "head" {
				continue
			}
			kids = append(kids, c)
		}
		if len(kids) != len(n.Kids) {
			return fmt.Errorf("<%s id=n%d> has %d DOM children, %d generated", n.Tag, n.ID, len(kids), len(n.Kids))
		}
		for i, c := range kids {
			k := n.Kids[i]
			if k.isText() {
				if c.Type != html.TextNode || c.Data != k.Text {
					return fmt.Errorf("child %d of n%d: DOM %q (type %d), generated text %q", i, n.ID, c.Data, c.Type, k.Text)
				}
				continue
			}
			if err := rec(c, k, false); err != nil {
				return err
			}
		}
		return nil
	}
	if err := rec(docRoot, root, true); err != nil {
		return nil, err
	}
	return m, nil
}

// ---- observation helpers over box types (by concrete Go type, independent of BoxType.IsInstance)

func kindOf(b bo.Box) kind {
	switch b.(type) {
	case *bo.TableCaptionBox:
		return kCaption
	case *bo.BlockBox:
		return kBlock
	case *bo.LineBox:
		return kLine
	case *bo.InlineBox:
		return kInline
	case *bo.TextBox:
		return kText
	case *bo.InlineBlockBox:
		return kInlineBlock
	case *bo.BlockReplacedBox:
		return kBlockRepl
	case *bo.InlineReplacedBox:
		return kInlineRepl
	case *bo.InlineTableBox:
		return kInlineTable
	case *bo.TableBox:
		return kTable
	case *bo.TableRowGroupBox:
		return kRowGroup
	case *bo.TableRowBox:
		return kRow
	case *bo.TableColumnGroupBox:
		return kColGroup
	case *bo.TableColumnBox:
		return kCol
	case *bo.TableCellBox:
		return kCell
	case *bo.FlexBox:
		return kFlex
	case *bo.InlineFlexBox:
		return kInlineFlex
	case *bo.GridBox:
		return kGrid
	case *bo.InlineGridBox:
		return kInlineGrid
	}
	return kOther
}

// block-level boxes that may stand directly in a block formatting context / be a flex or grid item
func isBlockLevelKind(k kind) bool {
	return k == kBlock || k == kBlockRepl || k == kFlex || k == kGrid
}

func isInlineLevelKind(k kind) bool {
	return k == kInline || k == kText || k == kInlineBlock || k == kInlineRepl || k == kInlineFlex || k == kInlineGrid
}

func isBlockContainerKind(k kind) bool {
	return k == kBlock || k == kInlineBlock || k == kCell || k == kCaption
}

// boxOutOfFlow reads the positioning scheme from the box's own computed style.
func boxOutOfFlow(b bo.Box) bool {
	st := b.Box().Style
	if st == nil {
		return false
	}
	if st.GetFloat() != "none" {
		return true
	}
	pos := st.GetPosition()
	return pos.Bool || pos.String == "absolute" || pos.String == "fixed"
}

func elemID(e *html.Node) string {
	if e == nil {
		return "nil"
	}
	for _, a := range e.Attr {
		if a.Key == "id" {
			return a.Val
		}
	}
	return "<" + e.Data + ">"
}

// dump renders a box tree compactly for witness messages.
func dump(b bo.Box) string {
	var sb strings.Builder
	var rec func(b bo.Box, depth int)
	rec = func(b bo.Box, depth int) {
		if sb.Len() > 6000 {
			return
		}
		f := b.Box()
		k := kindOf(b)
		sb.WriteString(k.String())
		sb.WriteString("<" + elemID(f.Element))
		if f.PseudoType != "" {
			sb.WriteString("::" + f.PseudoType)
		}
		sb.WriteString(">")
		if f.IsTableWrapper {
			sb.WriteString("{wrapper}")
		}
		if k == kCell {
			fmt.Fprintf(&sb, "{x%d c%d r%d}", f.GridX, f.Colspan, f.Rowspan)
		}
		if boxOutOfFlow(b) {
			sb.WriteString("{oof}")
		}
		if t, ok := b.(*bo.TextBox); ok {
			fmt.Fprintf(&sb, "%q", string(t.Text))
			return
		}
		var kids []bo.Box
		if t, ok := tableOf(b); ok {
			for _, g := range t.ColumnGroups {
				kids = append(kids, g)
			}
		}
		kids = append(kids, f.Children...)
		if len(kids) == 0 {
			return
		}
		sb.WriteString("[")
		for i, c := range kids {
			if i > 0 {
				sb.WriteString(" ")
			}
			rec(c, depth+1)
		}
		sb.WriteString("]")
	}
	rec(b, 0)
	return sb.String()
}

func tableOf(b bo.Box) (*bo.TableBox, bool) {
	switch t := b.(type) {
	case *bo.TableBox:
		return t, true
	case *bo.InlineTableBox:
		return &t.TableBox, true
	}
	return nil, false
}
