package c09

import (
	"encoding/json"
	"os"
	"testing"

	"verif/internal/fw"
)

func runDoc(t *testing.T, name string, root *Node) fw.Result {
	t.Helper()
	in := mkInput(name, root)
	raw, _ := json.Marshal(in)
	res := fw.SafeCheck(fw.Get("C09"), raw)
	b, err := buildBoxes(in.HTML)
	tree := ""
	if err == nil && b.root != nil {
		tree = dump(b.root)
	}
	t.Logf("%s: verdict=%s sig=%q\n  html: %s\n  tree: %s\n  msg: %.600s", name, res.Verdict, res.Sig, in.HTML, tree, res.Msg)
	return res
}

// Probes of hand-written documents (development aid and regression of the oracle's corrections).
func TestProbes(t *testing.T) {
	b := newBuilder()

	// anonymous cell inherits the colspan attribute of a row element
	row := b.el("div", "table-row", b.tk())
	row.Attrs = map[string]string{"colspan": "3", "rowspan": "2"}
	runDoc(t, "anon-cell-attrs", b.doc(b.el("div", "table", row)))

	// overlap through colspan reaching a rowspan (HTML table model error)
	b = newBuilder()
	c := func(cs, rs string) *Node {
		n := b.el("div", "table-cell", b.tk())
		n.Attrs = map[string]string{}
		if cs != "" {
			n.Attrs["colspan"] = cs
		}
		if rs != "" {
			n.Attrs["rowspan"] = rs
		}
		return n
	}
	r1 := b.el("div", "table-row", c("", ""), c("", "2"))
	r2 := b.el("div", "table-row", c("2", ""))
	runDoc(t, "table-model-error", b.doc(b.el("div", "table", r1, r2)))

	// floated inline-flex
	b = newBuilder()
	f := b.el("div", "inline-flex", b.tk())
	f.Float = "left"
	runDoc(t, "float-inline-flex", b.doc(f))
	b = newBuilder()
	f = b.el("div", "inline-table", b.tk())
	f.Pos = "absolute"
	runDoc(t, "abs-inline-table", b.doc(f))

	// white space as the only content of a row / of a table
	b = newBuilder()
	runDoc(t, "ws-only-row", b.doc(b.el("div", "table", b.el("div", "table-row", b.text(" ")), b.el("div", "table-row", b.el("div", "table-cell", b.tk())))))
	b = newBuilder()
	runDoc(t, "ws-only-table", b.doc(b.tk(), b.el("div", "table", b.text("\n")), b.tk()))

	// flex container with a table-cell child
	b = newBuilder()
	runDoc(t, "flex-table-cell", b.doc(b.el("div", "flex", b.el("div", "table-cell", b.tk()))))
}

func TestProbeCommentRoot(t *testing.T) {
	defer func() {
		if r := recover(); r != nil {
			t.Logf("panic: %v", r)
		}
	}()
	for _, src := range []string{
		"<!-- c --><html id=n0><body id=n1><p id=n2>q1z</p></body></html>",
		"<!DOCTYPE html><!-- c --><html id=n0><body id=n1><p id=n2>q1z</p></body></html>",
	} {
		b, err := buildBoxes(src)
		if err != nil {
			t.Logf("%s: error %v", src, err)
			continue
		}
		t.Logf("%s\n  root node type %d data %q\n  tree: %s", src, b.doc.Root.Type, b.doc.Root.Data, dump(b.root))
	}
}

// TestWriteFindings (C09_WRITE_FINDINGS=1) regenerates the witnesses under findings/C09/.
func TestWriteFindings(t *testing.T) {
	if os.Getenv("C09_WRITE_FINDINGS") == "" {
		t.Skip("set C09_WRITE_FINDINGS=1")
	}
	type finding struct {
		Property string `json:"property"`
		Msg      string `json:"msg"`
		Input    Input  `json:"input"`
	}
	write := func(name string, root *Node) {
		in := mkInput("finding", root)
		in.NoGuard = true
		raw, _ := json.Marshal(in)
		res := fw.SafeCheck(fw.Get("C09"), raw)
		if res.Verdict != fw.Violation {
			t.Errorf("%s: verdict %s, not a violation", name, res.Verdict)
		}
		out, _ := json.MarshalIndent(finding{"C09", res.Sig + ": " + res.Msg, in}, "", " ")
		if err := os.WriteFile("../../findings/C09/"+name+".json", append(out, '\n'), 0o644); err != nil {
			t.Fatal(err)
		}
		t.Logf("%s: %s", name, res.Sig)
	}
	os.MkdirAll("../../findings/C09", 0o755)
	b := newBuilder()
	write("flex-drops-table-cell-child", b.doc(b.tk(), b.el("div", "flex", b.el("div", "table-cell", b.tk()), b.el("div", "block", b.tk()))))
	b = newBuilder()
	f := b.el("div", "inline-flex", b.tk())
	f.Float = "left"
	write("float-inline-flex-not-flex", b.doc(f, b.tk()))
	b = newBuilder()
	f = b.el("div", "inline-table", b.el("div", "table-cell", b.tk()))
	f.Pos = "absolute"
	write("abspos-inline-table-not-table", b.doc(f, b.tk()))
	b = newBuilder()
	f = b.el("div", "inline-grid", b.tk())
	f.Float = "right"
	write("float-inline-grid-not-grid", b.doc(f, b.tk()))
	b = newBuilder()
	write("white-space-only-table-gets-cell", b.doc(b.tk(), b.el("div", "table", b.text("\n")), b.tk()))
	b = newBuilder()
	write("white-space-only-row-gets-cell", b.doc(b.el("div", "table", b.el("div", "table-row", b.text(" ")), b.el("div", "table-row", b.el("div", "table-cell", b.tk())))))
}

// Probes of footnote elements (css-gcpm-3 §2).
func TestProbeFootnotes(t *testing.T) {
	fn := func(b *builder, d, fd string, kids ...*Node) *Node {
		n := b.el("span", d, kids...)
		n.Float, n.FD = "footnote", fd
		return n
	}
	b := newBuilder()
	runDoc(t, "fn-plain", b.doc(b.el("div", "", b.tk(), fn(b, "", "", b.tk()), b.tk())))
	b = newBuilder()
	runDoc(t, "fn-inline", b.doc(b.el("div", "", b.tk(), fn(b, "", "inline", b.tk()), fn(b, "table-cell", "compact", b.tk()), b.tk())))
	b = newBuilder()
	runDoc(t, "fn-none", b.doc(b.el("div", "", b.tk(), fn(b, "none", "", b.tk()), b.tk())))
	b = newBuilder()
	runDoc(t, "fn-list-item", b.doc(b.el("div", "", b.tk(), fn(b, "list-item", "", b.tk()), fn(b, "inline list-item", "inline", b.tk()))))
	b = newBuilder()
	runDoc(t, "fn-nested", b.doc(b.el("div", "", b.tk(), fn(b, "", "", b.tk(), fn(b, "", "inline", b.tk())))))
	b = newBuilder()
	runDoc(t, "fn-in-table", b.doc(b.el("div", "table", fn(b, "table-row", "", b.el("div", "table-cell", b.tk())), b.el("div", "table-row", b.tk()))))
	b = newBuilder()
	runDoc(t, "fn-in-colgroup", b.doc(b.el("div", "table", b.el("div", "table-column-group", fn(b, "", "", b.tk())), b.tk())))
	b = newBuilder()
	runDoc(t, "fn-in-flex", b.doc(b.el("div", "flex", fn(b, "grid", "", b.tk()), b.tk())))
	b = newBuilder()
	a := fn(b, "", "", b.tk())
	a.Pos = "absolute"
	runDoc(t, "fn-abspos", b.doc(b.el("div", "", b.tk(), a)))
	b = newBuilder()
	img := b.el("img", "")
	img.Attrs = map[string]string{"src": "i.svg"}
	img.Float = "footnote"
	img2 := b.el("img", "")
	img2.Attrs = map[string]string{"alt": "q99z"}
	img2.Float, img2.FD = "footnote", "inline"
	runDoc(t, "fn-img", b.doc(b.el("div", "", b.tk(), img, img2)))
	b = newBuilder()
	d := b.doc(b.tk())
	d.Kids[0].Float = "footnote"
	runDoc(t, "fn-body", d)
	b = newBuilder()
	f := fn(b, "", "", b.tk())
	f.Before = &Pseudo{Tok: b.token(), Disp: "block"}
	runDoc(t, "fn-before", b.doc(b.el("span", "", b.tk(), f)))
}

// Probes of the span attribute family (raw documents, observation only).
func TestProbeSpans(t *testing.T) {
	for _, src := range []string{
		`<table><colgroup id=g span="2"></colgroup><tr><td>a</td></tr></table>`,
		`<style>#g::before{content:"x"}</style><table><colgroup id=g span="2"></colgroup><tr><td>a</td></tr></table>`,
		`<style>#g::before{content:"x";display:table-row}</style><table><colgroup id=g span="3"></colgroup><tr><td>a</td></tr></table>`,
		`<style>#g::before{content:"x";display:table-column}</style><table><colgroup id=g span="3"></colgroup><tr><td>a</td></tr></table>`,
		`<style>#g::after{content:"x";display:table-column}</style><table><colgroup id=g span="3"></colgroup><tr><td>a</td></tr></table>`,
	} {
		b, err := buildBoxes(src)
		if err != nil {
			t.Fatal(err)
		}
		t.Logf("%s\n   %s", src, dump(b.root))
	}
}

// TestWriteSpanFinding (C09_WRITE_FINDINGS=span) writes the witness of the open finding met while the
// span attribute family was added: <colgroup span=N> with generated content.
func TestWriteSpanFinding(t *testing.T) {
	if os.Getenv("C09_WRITE_FINDINGS") != "span" {
		t.Skip("set C09_WRITE_FINDINGS=span")
	}
	b := newBuilder()
	g := b.el("colgroup", "")
	g.Attrs = map[string]string{"span": "3"}
	g.Before = &Pseudo{Tok: b.token()}
	t1 := b.el("table", "", g, b.el("tbody", "", b.el("tr", "", b.el("td", "", b.tk()), b.el("td", "", b.tk()), b.el("td", "", b.tk()))))
	in := mkInput("finding", b.doc(t1))
	raw, _ := json.Marshal(in)
	res := fw.SafeCheck(fw.Get("C09"), raw)
	if res.Verdict != fw.Violation || res.Sig != "colgroup-span-lost-to-generated-content" {
		t.Fatalf("verdict %s sig %s", res.Verdict, res.Sig)
	}
	out, _ := json.MarshalIndent(struct {
		Property string `json:"property"`
		Msg      string `json:"msg"`
		Input    Input  `json:"input"`
	}{"C09", res.Sig + ": " + res.Msg, in}, "", " ")
	if err := os.WriteFile("../../findings/C09/colgroup-span-lost-to-generated-content.json", append(out, '\n'), 0o644); err != nil {
		t.Fatal(err)
	}
	t.Log(res.Msg)
}

func TestProbeSpans2(t *testing.T) {
	for _, src := range []string{
		`<table><colgroup id=g span="0"></colgroup><colgroup id=h><col id=c></colgroup><tr><td>a</td></tr></table>`,
	} {
		b, err := buildBoxes(src)
		if err != nil {
			t.Fatal(err)
		}
		t.Logf("%s\n   %s", src, dump(b.root))
	}
}
