package c09

import (
	"fmt"
	"math/rand"
	"unicode"
)

// Span attributes of the table model: `colspan` / `rowspan` of cells, `span` of <col> / <colgroup>.
//
// Reference model, written from HTML (Living Standard) §4.9.11 "Attributes common to td and th
// elements", §4.9.3/§4.9.4 (colgroup / col `span`), §4.9.12 "forming a table" and §2.3.4.1/§2.3.4.2
// ("rules for parsing integers" / "rules for parsing non-negative integers"); CSS 2.1 §17.5 for the
// slots.  Shares no code with /repo.
//
//	colspan : parse as non-negative integer; error or 0 -> 1; > 1000 -> 1000
//	rowspan : parse as non-negative integer; error -> 1; > 65534 -> 65534; 0 = up to the end of the
//	          row group
//	span    : parse as non-negative integer; error or 0 -> 1; > 1000 -> 1000
//
// Whatever the attribute value, the outcome lies in [1,1000] (colspan, span) / [0,65534] (rowspan):
// that, and everything the grid derives from it (every cell covers at least one slot, first free
// slot, no shared slot), is judged on every value.  The exact value is judged on every value too,
// except four classes of non-conforming values on which webrender (like WeasyPrint) is known to
// read the attribute with a strict integer parser instead of HTML's prefix parser; there a
// difference from the HTML value is reported (Result.Reports, counter span_html_parse_deviation),
// not judged, because the box tree stays well formed either way (see notes/C09.md):
//
//	trailing_chars  digits followed by something else ("2x", "2.5", "2 3"): HTML takes the digits
//	huge            more than 18 digits: HTML clamps to the maximum
//	unicode_space   white space that is not ASCII white space around the number (U+00A0, U+000B …):
//	                HTML: not a number
//	negative        rowspan only ("-1": HTML: error -> 1); a negative colspan / span is judged: 1

type spanExpect struct {
	present bool
	html    int    // value per HTML; for rowspan 0 = to the end of the row group
	exact   bool   // the exact value is judged
	class   string // evidence class of the attribute value
}

func isASCIISpace(c rune) bool {
	return c == ' ' || c == '\t' || c == '\n' || c == '\f' || c == '\r'
}

// parseHTMLInteger: HTML §2.3.4.1 rules for parsing integers (the value saturates at 1e15).
// ok is false for "error"; digits is the number of digits collected; rest what follows them.
func parseHTMLInteger(s string) (val int, neg, ok bool, digits int, plus, ws bool, rest string) {
	rs := []rune(s)
	i := 0
	for i < len(rs) && isASCIISpace(rs[i]) {
		i++
		ws = true
	}
	if i >= len(rs) {
		return
	}
	switch rs[i] {
	case '-':
		neg = true
		i++
	case '+':
		plus = true
		i++
	}
	if i >= len(rs) || rs[i] < '0' || rs[i] > '9' {
		return
	}
	for i < len(rs) && rs[i] >= '0' && rs[i] <= '9' {
		if val < 1e15 {
			val = val*10 + int(rs[i]-'0')
		}
		digits++
		i++
	}
	return val, neg, true, digits, plus, ws, string(rs[i:])
}

// expectSpan gives the model's reading of attribute name ("colspan", "rowspan", "span") of n.
func expectSpan(n *Node, name string) spanExpect {
	s, present := n.Attrs[name]
	max, zeroIsOne := 1000, true
	if name == "rowspan" {
		max, zeroIsOne = 65534, false
	}
	e := spanExpect{present: present, html: 1, exact: true, class: "absent"}
	if !present {
		return e
	}
	val, neg, ok, digits, plus, ws, rest := parseHTMLInteger(s)
	if ok && neg && val > 0 {
		ok = false // rules for parsing non-negative integers: a negative value is an error
	}
	if ok {
		e.html = val
		if val > max {
			e.html = max
		}
		if val == 0 && zeroIsOne {
			e.html = 1
		}
	}
	restGarbage, uniSpace := false, false
	for _, c := range rest {
		if !isASCIISpace(c) {
			restGarbage = true
		} else {
			ws = true
		}
	}
	for _, c := range s {
		if !isASCIISpace(c) && (unicode.IsSpace(c) || c == 0x0B) {
			uniSpace = true
		}
	}
	switch {
	case uniSpace:
		e.class, e.exact = "unicode_space", false
	case digits == 0:
		e.class = "non_numeric" // "", "x", "+", "-", ".5", non-ASCII digits: error -> 1
	case restGarbage:
		e.class, e.exact = "trailing_chars", false
	case digits > 18:
		e.class, e.exact = "huge", false
	case neg:
		e.class, e.exact = "negative", name != "rowspan"
	case val == 0:
		e.class = "zero"
	case val > max:
		e.class = "over_max"
	case plus:
		e.class = "plus_sign"
	case ws:
		e.class = "white_space"
	default:
		e.class = "valid"
	}
	return e
}

// the attribute values of the enumerated family, also drawn by the random trees
var spanValues = []string{
	"0", "1", "2", "3", "4", "007", "00", "+2", "+0", "-1", "-3", "-0", " 2 ", "\n3\t", "",
	"x", "+", "-", ".5", "٣", "2x", "2.5", "1e3", "2 3", "0x10", "3;", " 2", "2\u000b",
	"1000", "1001", "65534", "65535", "4294967297", "18446744073709551617", "99999999999999999999",
}

// the values that multiply boxes when used as `span` (1000 column boxes): drawn rarely there
func bigSpan(v string) bool {
	e := expectSpan(&Node{Attrs: map[string]string{"span": v}}, "span")
	return e.html > 8
}

// sizes of the enumerated family "spans"
func nSpansA() int { return 2 * len(spanValues) * 3 * 2 * 2 }
func nSpansB() int { return len(spanValues) * len(spanValues) }
func nSpansC() int { return len(spanValues) * 4 }
func nSpans() int  { return nSpansA() + nSpansB() + nSpansC() }

// spanTable builds
//
//	table[ thead[ tr[c c] ]  tbody[ tr[c c c] tr[c c c] tr[c c c] ]  tbody[ tr[c c] ] ]
//
// with HTML table elements (html) or with div elements carrying the display values, and returns the
// cells of the middle group.
func spanTable(b *builder, html bool, cols []*Node) (*Node, [3][3]*Node) {
	el := func(tag, disp string, kids ...*Node) *Node {
		if html {
			return b.el(tag, "", kids...)
		}
		return b.el("div", disp, kids...)
	}
	cell := func() *Node { return el("td", "table-cell", b.tk()) }
	var mid [3][3]*Node
	var rows []*Node
	for r := 0; r < 3; r++ {
		var cs []*Node
		for c := 0; c < 3; c++ {
			mid[r][c] = cell()
			cs = append(cs, mid[r][c])
		}
		rows = append(rows, el("tr", "table-row", cs...))
	}
	kids := append([]*Node{}, cols...)
	kids = append(kids,
		el("thead", "table-header-group", el("tr", "table-row", cell(), cell())),
		el("tbody", "table-row-group", rows...),
		el("tbody", "table-row-group", el("tr", "table-row", cell(), cell())))
	return el("table", "table", kids...), mid
}

func setAttr(n *Node, k, v string) {
	if n.Attrs == nil {
		n.Attrs = map[string]string{}
	}
	n.Attrs[k] = v
}

// genSpans: case i of the enumerated family.
//
//	A  one attribute (colspan | rowspan) = v on a cell at (row 0, first) / (row 0, middle) /
//	   (row 1, last) of the middle row group, alone or with the other attribute = 2, on HTML table
//	   elements or on div elements with table display values
//	B  colspan = v1 and rowspan = v2 on the middle cell of the first row of the middle group
//	C  span = v on a <col> (first or last of its group), on a <colgroup> without <col>, or on both,
//	   always followed by further columns so that the numbering after it is observed
func genSpans(i int) Input {
	b := newBuilder()
	nV := len(spanValues)
	if i < nSpansA() {
		attr := []string{"colspan", "rowspan"}[i%2]
		i /= 2
		v := spanValues[i%nV]
		i /= nV
		pos := i % 3
		i /= 3
		companion := i%2 == 1
		html := (i/2)%2 == 0
		t, mid := spanTable(b, html, nil)
		target := [3]*Node{mid[0][0], mid[0][1], mid[1][2]}[pos]
		setAttr(target, attr, v)
		if companion {
			setAttr(target, map[string]string{"colspan": "rowspan", "rowspan": "colspan"}[attr], "2")
		}
		return mkInput("spans", b.doc(t))
	}
	i -= nSpansA()
	if i < nSpansB() {
		t, mid := spanTable(b, true, nil)
		setAttr(mid[0][1], "colspan", spanValues[i%nV])
		setAttr(mid[0][1], "rowspan", spanValues[i/nV])
		return mkInput("spans", b.doc(t))
	}
	i -= nSpansB()
	v := spanValues[i%nV]
	shape := i / nV
	col := func(span string) *Node {
		c := b.el("col", "")
		if span != "-" {
			setAttr(c, "span", span)
		}
		return c
	}
	var cols []*Node
	switch shape {
	case 0:
		cols = []*Node{b.el("colgroup", "", col(v), col("-")), b.el("colgroup", "", col("-"))}
	case 1:
		g := b.el("colgroup", "")
		setAttr(g, "span", "2")
		cols = []*Node{b.el("colgroup", "", col("-"), col(v)), g}
	case 2:
		g := b.el("colgroup", "")
		setAttr(g, "span", v)
		cols = []*Node{g, b.el("colgroup", "", col("-"))}
	default:
		g := b.el("colgroup", "")
		setAttr(g, "span", v)
		cols = []*Node{g, b.el("colgroup", "", col(v), col("-"))}
	}
	t, _ := spanTable(b, true, cols)
	return mkInput("spans", b.doc(t))
}

// randSpan draws an attribute value for the random trees: mostly small valid numbers (so that the
// slot algorithm meets real spans), otherwise any value of the enumerated list.
func randSpan(r *rand.Rand, name string) string {
	if r.Float64() < 0.72 {
		switch name {
		case "rowspan":
			return fmt.Sprint(r.Intn(4))
		default:
			return fmt.Sprint(1 + r.Intn(3))
		}
	}
	v := spanValues[r.Intn(len(spanValues))]
	if name == "span" && bigSpan(v) && r.Float64() < 0.8 {
		return fmt.Sprint(r.Intn(4)) // 0 included
	}
	return v
}
