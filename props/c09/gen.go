package c09

import (
	"fmt"
	"math/rand"
	"strings"
)

// ---- deterministic families (exhaustive sub-spaces)

type builder struct {
	id, tok int
}

func (b *builder) el(tag, disp string, kids ...*Node) *Node {
	b.id++
	return &Node{ID: b.id, Tag: tag, Disp: disp, Kids: kids}
}

func (b *builder) token() string {
	b.tok++
	return fmt.Sprintf("q%dz", b.tok)
}

func (b *builder) text(s string) *Node { return &Node{Tag: "#text", Text: s} }
func (b *builder) tk() *Node           { return b.text(b.token()) }

func (b *builder) doc(bodyKids ...*Node) *Node {
	body := &Node{ID: 1, Tag: "body", Kids: bodyKids}
	return &Node{ID: 0, Tag: "html", Kids: []*Node{body}}
}

func newBuilder() *builder { return &builder{id: 1} }

func mkInput(fam string, root *Node) Input {
	return Input{Fam: fam, Root: root, HTML: renderHTML(root)}
}

// chain: nested elements with the given display values; withText surrounds every level with text.
func genChain(disps []string, withText bool) Input {
	b := newBuilder()
	var build func(i int) *Node
	build = func(i int) *Node {
		var kids []*Node
		if i+1 < len(disps) {
			inner := build(i + 1)
			if withText {
				kids = []*Node{b.text(b.token() + " "), inner, b.text(" " + b.token())}
			} else {
				kids = []*Node{inner}
			}
		} else {
			kids = []*Node{b.tk()}
		}
		return b.el("div", disps[i], kids...)
	}
	top := build(0)
	// ids are assigned innermost first by the recursion above; harmless
	fam := fmt.Sprintf("chain%d", len(disps))
	if withText {
		fam += "-text"
	}
	return mkInput(fam, b.doc(top))
}

// siblings: parent P with two children C1, C2 separated by sep ("" none, " " white space, "t" a token)
func genSiblings(p, c1, c2 string, sep string) Input {
	b := newBuilder()
	k1 := b.el("div", c1, b.tk())
	k2 := b.el("div", c2, b.tk())
	var kids []*Node
	switch sep {
	case "":
		kids = []*Node{k1, k2}
	case " ":
		kids = []*Node{b.text(" "), k1, b.text("\n "), k2, b.text(" ")}
	default:
		kids = []*Node{k1, b.tk(), k2}
	}
	return mkInput("siblings"+map[string]string{"": "", " ": "-ws", "t": "-text"}[sep], b.doc(b.el("div", p, kids...)))
}

// out of flow child C (float / absolute) inside P, after some text or first.
func genOOF(p, c string, mode int) Input {
	b := newBuilder()
	k := b.el("div", c, b.tk())
	if mode&1 == 0 {
		k.Float = "left"
	} else {
		k.Pos = "absolute"
	}
	kids := []*Node{k, b.tk()}
	if mode&2 != 0 {
		kids = []*Node{b.tk(), k, b.tk()}
	}
	return mkInput("out-of-flow", b.doc(b.el("div", p, kids...)))
}

// pseudo-element with display d on an element with display p.
func genPseudo(p, d string, after bool) Input {
	b := newBuilder()
	e := b.el("div", p, b.tk())
	ps := &Pseudo{Disp: d, Tok: b.token()}
	if after {
		e.After = ps
	} else {
		e.Before = ps
	}
	return mkInput("pseudo", b.doc(e))
}

// captions: a table with two captions around a row, every caption-side combination and order;
// tside is the caption-side set on the table itself (inherited by the captions).
func genCaptions(i int) Input {
	sides := []string{"", "top", "bottom"}
	a, c, tside, order := sides[i%3], sides[(i/3)%3], sides[(i/9)%3], (i/27)%3
	b := newBuilder()
	c1 := b.el("div", "table-caption", b.tk())
	c1.Cap = a
	c2 := b.el("div", "table-caption", b.tk())
	c2.Cap = c
	row := b.el("div", "table-row", b.el("div", "table-cell", b.tk()))
	var kids []*Node
	switch order {
	case 0:
		kids = []*Node{c1, row, c2}
	case 1:
		kids = []*Node{row, c1, c2}
	default:
		kids = []*Node{c1, c2, row}
	}
	t := b.el("div", "table", kids...)
	t.Cap = tside
	return mkInput("captions", b.doc(t))
}

// footnotes (css-gcpm-3 §2): a footnote element F with specified display d and footnote-display fd
// inside a parent with display p.
//
//	shape 0: P[ text F[text] text ]
//	shape 1: P[ F[ text <div block>text</div> <span none>text</span> ] ]     (F first, mixed content)
//	shape 2: P[ text G[ text F[text] ] ]   G a block footnote: F is a footnote inside a footnote
func genFootnote(p, d, fd string, shape int) Input {
	b := newBuilder()
	f := b.el("div", d)
	f.Float, f.FD = "footnote", fd
	var top *Node
	switch shape {
	case 0:
		f.Kids = []*Node{b.tk()}
		top = b.el("div", p, b.text(b.token()+" "), f, b.text(" "+b.token()))
	case 1:
		f.Kids = []*Node{b.tk(), b.el("div", "block", b.tk()), b.el("span", "none", b.tk())}
		top = b.el("div", p, f)
	default:
		f.Kids = []*Node{b.tk()}
		g := b.el("span", "", b.text(b.token()+" "), f)
		g.Float = "footnote"
		top = b.el("div", p, b.tk(), g)
	}
	return mkInput("footnote", b.doc(top))
}

// running elements (css-gcpm-3 §1.2): an element R with `position: running(name)` and specified display
// d inside a parent with display p.
//
//	shape 0: P[ R[text] text ]                      R first, inline content ends the container
//	shape 1: P[ text R[text] text ]                 R between text
//	shape 2: P[ R[ text R2[text] ] <span>text</span> ]   R2 (display block) a running element inside R
//	shape 3: P[ R[ text <div block>text</div> ] <div block>text</div> text ]   next to an ordinary block; mixed content in R
//	shape 4: P[ R[text] R2[text] text ]             two running elements (R2 display block), then text
const nRunShapes = 5

func running(n *Node) *Node {
	n.Pos = fmt.Sprintf("running(r%d)", n.ID)
	n.Float, n.FD = "", ""
	return n
}

func genRunning(p, d string, shape int) Input {
	b := newBuilder()
	r := running(b.el("div", d))
	var top *Node
	switch shape {
	case 0:
		r.Kids = []*Node{b.tk()}
		top = b.el("div", p, r, b.tk())
	case 1:
		r.Kids = []*Node{b.tk()}
		top = b.el("div", p, b.text(b.token()+" "), r, b.text(" "+b.token()))
	case 2:
		r.Kids = []*Node{b.tk(), running(b.el("div", "block", b.tk()))}
		top = b.el("div", p, r, b.el("span", "", b.tk()))
	case 3:
		r.Kids = []*Node{b.tk(), b.el("div", "block", b.tk())}
		top = b.el("div", p, r, b.el("div", "block", b.tk()), b.tk())
	default:
		r.Kids = []*Node{b.tk()}
		top = b.el("div", p, r, running(b.el("div", "block", b.tk())), b.tk())
	}
	return mkInput("running", b.doc(top))
}

// ---- random trees

type rgen struct {
	r      *rand.Rand
	b      *builder
	budget int
	tableP float64 // probability of drawing displays from the table alphabet
}

func pick(r *rand.Rand, l []string) string { return l[r.Intn(len(l))] }

// multi-keyword spellings (css-display-3 §2) and inline list items, random workload only
var dispAliases = []string{
	"block flow", "flow", "inline flow", "block flow-root", "inline flow-root", "block table", "inline table",
	"block flex", "inline flex", "block grid", "inline grid", "block flow list-item", "list-item block",
	"flow-root list-item", "inline list-item", "inline flow list-item", "inline list-item",
}

func (g *rgen) display(def bool) string {
	x := g.r.Float64()
	if g.r.Float64() < 0.08 {
		return pick(g.r, dispAliases)
	}
	switch {
	case def && x < 0.45:
		return ""
	case x < 0.45+g.tableP*0.55:
		return pick(g.r, dispTable12)
	}
	return pick(g.r, disp20)
}

func (g *rgen) decorate(n *Node) {
	r := g.r
	if r.Float64() < 0.12 {
		n.Float = pick(r, []string{"left", "right"})
	}
	if r.Float64() < 0.07 {
		// footnote element; combined below with any position (absolute/fixed make it an ordinary
		// positioned element) and, through display(), with any display value including none
		n.Float = "footnote"
		n.FD = pick(r, []string{"", "", "block", "inline", "compact"})
	}
	switch x := r.Float64(); {
	case x < 0.05:
		n.Pos = "relative"
	case x < 0.13:
		n.Pos = "absolute"
	case x < 0.16:
		n.Pos = "fixed"
	}
	if r.Float64() < 0.06 {
		// running element (css-gcpm-3 §1.2), with any display value including none; never floated
		// nor a footnote (how float combines with running() is not defined)
		running(n)
	}
	if r.Float64() < 0.10 {
		n.LSP = pick(r, []string{"inside", "outside"})
	}
	if sd := specifiedDisplay(n); r.Float64() < 0.06 || (sd == "table-caption" && r.Float64() < 0.5) {
		n.Cap = pick(r, []string{"top", "bottom", "bottom"})
	}
	for _, which := range []int{0, 1} {
		if r.Float64() < 0.10 {
			p := &Pseudo{Tok: g.b.token()}
			if r.Float64() < 0.6 {
				p.Disp = pick(r, disp20)
			}
			if r.Float64() < 0.12 {
				p.Float = pick(r, []string{"left", "right"})
			}
			if which == 0 {
				n.Before = p
			} else {
				n.After = p
			}
		}
	}
}

// cellAttrs puts colspan/rowspan on elements whose computed display is table-cell: small valid
// numbers mostly, otherwise any value of the span attribute family (spans.go: 0, negative, signed,
// padded, non-numeric, over the maximum, ...).
func (g *rgen) cellAttrs(n *Node) {
	sd := specifiedDisplay(n)
	if sd != "table-cell" || isOutOfFlow(n) {
		return
	}
	if g.r.Float64() < 0.45 {
		if n.Attrs == nil {
			n.Attrs = map[string]string{}
		}
		if g.r.Float64() < 0.6 {
			n.Attrs["colspan"] = randSpan(g.r, "colspan")
		}
		if g.r.Float64() < 0.7 {
			n.Attrs["rowspan"] = randSpan(g.r, "rowspan")
		}
	}
}

func (g *rgen) textKid() *Node {
	switch g.r.Intn(6) {
	case 0:
		return g.b.text(" ")
	case 1:
		return g.b.text("\n  ")
	case 2:
		return g.b.text(" " + g.b.token() + " ")
	case 3:
		return g.b.text(g.b.token() + " " + g.b.token())
	}
	return g.b.tk()
}

// kids of a generic flow container
func (g *rgen) kids(depth int) []*Node {
	var out []*Node
	n := g.r.Intn(4)
	if depth <= 1 {
		n = 1 + g.r.Intn(4)
	}
	lastText := false
	for i := 0; i < n && g.budget > 0; i++ {
		if !lastText && g.r.Float64() < 0.45 {
			out = append(out, g.textKid())
			lastText = true
			continue
		}
		out = append(out, g.element(depth+1))
		lastText = false
	}
	if !lastText && g.r.Float64() < 0.3 {
		out = append(out, g.textKid())
	}
	return out
}

func (g *rgen) element(depth int) *Node {
	g.budget--
	r := g.r
	x := r.Float64()
	if depth >= 6 {
		x = 0.99 // leaf
	}
	switch {
	case x < 0.10 && g.budget > 6:
		return g.htmlTable(depth)
	case x < 0.18:
		return g.replaced(depth)
	}
	tag := "div"
	if r.Float64() < 0.35 {
		tag = "span"
	}
	n := g.b.el(tag, g.display(true))
	g.decorate(n)
	g.cellAttrs(n)
	if depth >= 6 {
		n.Kids = []*Node{g.b.tk()}
	} else if sd := specifiedDisplay(n); isRunningNode(n) && (sd == "inline" || sd == "inline list-item") && r.Float64() < 0.5 {
		// a running inline element holding an in-flow block-level box was the finding
		// F-C09-running-inline-split-by-block (repaired in /repo by 7022988): while it was open 19 of 20
		// running inline elements got inline content only; now one in two (the draw is kept so that the
		// random stream of the other trees does not change)
		n.Kids = []*Node{g.textKid()}
		if r.Float64() < 0.5 {
			n.Kids = append(n.Kids, g.b.el("span", "", g.b.tk()), g.textKid())
		}
	} else {
		n.Kids = g.kids(depth)
	}
	return n
}

func (g *rgen) replaced(depth int) *Node {
	r := g.r
	var n *Node
	switch r.Intn(5) {
	case 0:
		n = g.b.el("img", "")
		n.Attrs = map[string]string{"src": "i.svg"}
	case 1:
		n = g.b.el("img", "")
		n.Attrs = map[string]string{"alt": g.b.token()}
	case 2:
		n = g.b.el("svg", "")
		n.Attrs = map[string]string{"width": "4", "height": "4"}
		rect := g.b.el("rect", "")
		rect.Attrs = map[string]string{"width": "2", "height": "2"}
		txt := g.b.el("text", "", g.b.tk())
		n.Kids = []*Node{rect, txt}
	case 3:
		n = g.b.el("object", "")
		n.Attrs = map[string]string{"data": "i.svg"}
		n.Kids = []*Node{g.b.tk(), g.b.el("span", g.display(true), g.b.tk())}
	default:
		n = g.b.el("object", "")
		n.Kids = []*Node{g.b.tk(), g.b.el("span", g.display(true), g.b.tk())}
	}
	if r.Float64() < 0.4 {
		n.Disp = pick(r, disp20)
	}
	if r.Float64() < 0.15 {
		n.Float = "left"
	}
	if r.Float64() < 0.08 {
		n.Float = "footnote"
		n.FD = pick(r, []string{"", "block", "inline", "compact"})
	}
	if r.Float64() < 0.1 {
		n.Pos = "absolute"
	}
	if n.Tag != "svg" && r.Float64() < 0.1 {
		n.Before = &Pseudo{Tok: g.b.token()}
	}
	return n
}

// htmlTable generates a table with the HTML table elements, in a nesting the HTML parser keeps
// as written; display values are the UA defaults unless overridden (mis-nesting through CSS).
func (g *rgen) htmlTable(depth int) *Node {
	r := g.r
	over := func(n *Node) *Node {
		if r.Float64() < 0.15 {
			n.Disp = pick(r, disp20)
		}
		if r.Float64() < 0.05 {
			n.Float = "left"
		}
		if r.Float64() < 0.03 {
			n.Float = "footnote"
			n.FD = pick(r, []string{"", "block", "inline", "compact"})
		}
		if r.Float64() < 0.04 {
			n.Pos = "absolute"
		}
		if r.Float64() < 0.05 {
			n.Before = &Pseudo{Tok: g.b.token(), Disp: pick(r, disp20)}
		}
		return n
	}
	ws := func(l []*Node) []*Node {
		if r.Float64() < 0.3 {
			return append(l, g.b.text(pick(r, []string{" ", "\n"})))
		}
		return l
	}
	t := over(g.b.el("table", ""))
	var parts []*Node
	nParts := 1 + r.Intn(4)
	for i := 0; i < nParts; i++ {
		parts = ws(parts)
		switch x := r.Float64(); {
		case x < 0.12:
			c := over(g.b.el("caption", ""))
			c.Kids = []*Node{g.b.tk()}
			if r.Float64() < 0.5 {
				c.Cap = pick(r, []string{"top", "bottom", "bottom"})
			}
			parts = append(parts, c)
		case x < 0.27:
			cg := over(g.b.el("colgroup", ""))
			if r.Float64() < 0.5 {
				cg.Attrs = map[string]string{"span": randSpan(r, "span")}
			} else {
				for j, nc := 0, 1+r.Intn(3); j < nc; j++ {
					col := over(g.b.el("col", ""))
					if r.Float64() < 0.4 {
						col.Attrs = map[string]string{"span": randSpan(r, "span")}
					}
					cg.Kids = ws(cg.Kids)
					cg.Kids = append(cg.Kids, col)
				}
			}
			parts = append(parts, cg)
		default:
			tag := pick(r, []string{"tbody", "tbody", "thead", "tfoot"})
			grp := over(g.b.el(tag, ""))
			for j, nr := 0, 1+r.Intn(3); j < nr && g.budget > 0; j++ {
				g.budget--
				row := over(g.b.el("tr", ""))
				for k, ncell := 0, 1+r.Intn(3); k < ncell && g.budget > -4; k++ {
					g.budget--
					cell := over(g.b.el(pick(r, []string{"td", "td", "th"}), ""))
					g.cellAttrs(cell)
					if depth < 5 && r.Float64() < 0.3 {
						cell.Kids = g.kids(depth + 3)
					} else {
						cell.Kids = []*Node{g.b.tk()}
					}
					row.Kids = ws(row.Kids)
					row.Kids = append(row.Kids, cell)
				}
				grp.Kids = ws(grp.Kids)
				grp.Kids = append(grp.Kids, row)
			}
			parts = append(parts, grp)
		}
	}
	t.Kids = ws(parts)
	return t
}

func genRandom(r *rand.Rand) Input {
	{
		g := &rgen{r: r, b: newBuilder(), budget: 6 + r.Intn(34)}
		switch r.Intn(3) {
		case 0:
			g.tableP = 0.8
		case 1:
			g.tableP = 0.3
		}
		kids := g.kids(0)
		for len(kids) > 0 && kids[0].isText() && isSpace(kids[0].Text) {
			kids = kids[1:] // the HTML parser drops white space at the start of <body>
		}
		if len(kids) == 0 {
			kids = []*Node{g.b.tk()}
		}
		root := g.b.doc(kids...)
		if r.Float64() < 0.12 {
			root.Disp = pick(r, disp20)
		}
		if r.Float64() < 0.15 {
			root.Kids[0].Disp = pick(r, disp20)
		}
		if r.Float64() < 0.05 {
			root.Kids[0].Float = "left"
		}
		if r.Float64() < 0.02 {
			root.Kids[0].Float = "footnote" // the whole body is a footnote of the root element
		}
		{
			in := mkInput("random", root)
			if r.Float64() < 0.05 {
				// comments before the root element are not part of the tree
				in.HTML = strings.Replace(in.HTML, "<!DOCTYPE html>", pick(r, []string{"<!-- c --><!DOCTYPE html>", "<!DOCTYPE html><!-- c -->"}), 1)
			}
			return in
		}
	}
}

func isSpace(s string) bool {
	for _, c := range s {
		if c != ' ' && c != '\n' && c != '\t' {
			return false
		}
	}
	return true
}
