package c09

import (
	"fmt"
	"sort"
	"strings"
)

// Generator-side document model.  A case input carries the literal HTML text *and* this tree; the
// oracle derives everything it expects (computed display, which elements generate boxes, which
// tokens must survive) from the tree, never from webrender's own style objects.

// Pseudo is a ::before / ::after pseudo-element with a string content.
type Pseudo struct {
	Disp  string `json:"d,omitempty"` // specified display; "" = initial (inline)
	Float string `json:"f,omitempty"` // "", left, right
	Tok   string `json:"t"`           // content string (a unique token)
}

// Node is an element, or a text node when Tag == "#text".
type Node struct {
	ID     int               `json:"id,omitempty"` // rendered as id="n<ID>" (elements only)
	Tag    string            `json:"tag"`
	Text   string            `json:"text,omitempty"`
	Disp   string            `json:"disp,omitempty"`  // specified display; "" = UA default for the tag
	Float  string            `json:"float,omitempty"` // "", left, right, footnote (css-gcpm-3 §2)
	FD     string            `json:"fd,omitempty"`    // footnote-display: "", block, inline, compact
	Pos    string            `json:"pos,omitempty"`   // "", relative, absolute, fixed, running(<name>) (css-gcpm-3 §1.2)
	LSP    string            `json:"lsp,omitempty"`   // list-style-position: "", inside, outside
	Cap    string            `json:"cap,omitempty"`   // caption-side: "", top, bottom (inherited)
	Before *Pseudo           `json:"before,omitempty"`
	After  *Pseudo           `json:"after,omitempty"`
	Attrs  map[string]string `json:"attrs,omitempty"` // colspan, rowspan, span, alt, src, data
	Kids   []*Node           `json:"kids,omitempty"`
}

// Input of one case.
type Input struct {
	Fam  string `json:"fam"`  // generator family (evidence only)
	HTML string `json:"html"` // literal document handed to webrender
	Root *Node  `json:"root"` // the <html> element; its kids are [<body>]
	// NoGuard is obsolete (the known-deviation guards were removed once D1–D3 were fixed in /repo);
	// kept so that the witnesses under findings/C09 still decode; ignored
	NoGuard bool `json:"noguard,omitempty"`
}

func (n *Node) isText() bool { return n.Tag == "#text" }

// the 20 display values of the workload
var disp20 = []string{
	"block", "inline", "inline-block", "list-item", "table", "inline-table",
	"table-row-group", "table-header-group", "table-footer-group", "table-row",
	"table-column-group", "table-column", "table-cell", "table-caption",
	"flex", "inline-flex", "grid", "inline-grid", "flow-root", "none",
}

// the table-related sub-alphabet of the thorough 4-chains (10 table values + block + inline)
var dispTable12 = []string{
	"table", "inline-table", "table-row-group", "table-header-group", "table-footer-group",
	"table-row", "table-column-group", "table-column", "table-cell", "table-caption", "block", "inline",
}

// UA default display per tag used by the generator (html5_ua.css; anything else is inline).
var uaDisplay = map[string]string{
	"html": "block", "body": "block", "div": "block", "span": "inline", "table": "table",
	"caption": "table-caption", "colgroup": "table-column-group", "col": "table-column",
	"thead": "table-header-group", "tbody": "table-row-group", "tfoot": "table-footer-group",
	"tr": "table-row", "td": "table-cell", "th": "table-cell", "li": "list-item", "ul": "block",
	"img": "inline", "object": "inline", "svg": "inline", "rect": "inline", "text": "inline",
}

var voidTags = map[string]bool{"img": true, "col": true}

// files served to webrender under mem://doc/
var memFiles = map[string]string{
	"i.svg": `<svg xmlns="http://www.w3.org/2000/svg" width="4" height="4"><rect width="4" height="4"/></svg>`,
}

// renderHTML serialises the tree.  The style sheet uses one id selector per element.
func renderHTML(root *Node) string {
	var css, body strings.Builder
	var rules func(n *Node)
	rules = func(n *Node) {
		if n.isText() {
			return
		}
		var d []string
		if n.Disp != "" {
			d = append(d, "display:"+n.Disp)
		}
		if n.Float != "" {
			d = append(d, "float:"+n.Float)
		}
		if n.FD != "" {
			d = append(d, "footnote-display:"+n.FD)
		}
		if n.Pos != "" {
			d = append(d, "position:"+n.Pos)
		}
		if n.LSP != "" {
			d = append(d, "list-style-position:"+n.LSP)
		}
		if n.Cap != "" {
			d = append(d, "caption-side:"+n.Cap)
		}
		if len(d) > 0 {
			fmt.Fprintf(&css, "#n%d{%s}", n.ID, strings.Join(d, ";"))
		}
		for _, p := range []struct {
			name string
			p    *Pseudo
		}{{"before", n.Before}, {"after", n.After}} {
			if p.p == nil {
				continue
			}
			fmt.Fprintf(&css, "#n%d::%s{content:%q", n.ID, p.name, p.p.Tok)
			if p.p.Disp != "" {
				fmt.Fprintf(&css, ";display:%s", p.p.Disp)
			}
			if p.p.Float != "" {
				fmt.Fprintf(&css, ";float:%s", p.p.Float)
			}
			css.WriteString("}")
		}
		for _, k := range n.Kids {
			rules(k)
		}
	}
	rules(root)
	var el func(n *Node)
	el = func(n *Node) {
		if n.isText() {
			body.WriteString(n.Text) // tokens and white space only: nothing to escape
			return
		}
		fmt.Fprintf(&body, "<%s id=\"n%d\"", n.Tag, n.ID)
		keys := make([]string, 0, len(n.Attrs))
		for k := range n.Attrs {
			keys = append(keys, k)
		}
		sort.Strings(keys)
		for _, k := range keys {
			fmt.Fprintf(&body, " %s=\"%s\"", k, n.Attrs[k])
		}
		body.WriteString(">")
		if voidTags[n.Tag] {
			return
		}
		for _, k := range n.Kids {
			el(k)
		}
		fmt.Fprintf(&body, "</%s>", n.Tag)
	}
	// root is <html>, its single kid is <body>
	var out strings.Builder
	fmt.Fprintf(&out, "<!DOCTYPE html><html id=\"n%d\"><head><style>%s</style></head>", root.ID, css.String())
	for _, k := range root.Kids {
		el(k)
	}
	out.WriteString(body.String())
	out.WriteString("</html>")
	return out.String()
}

// walkNodes visits every node in document order.
func walkNodes(n *Node, f func(n, parent *Node)) {
	var rec func(n, p *Node)
	rec = func(n, p *Node) {
		f(n, p)
		for _, k := range n.Kids {
			rec(k, n)
		}
	}
	rec(n, nil)
}
