package c09

import (
	"fmt"
	"sort"
	"strings"

	"golang.org/x/net/html"

	pr "github.com/benoitkugler/webrender/css/properties"
	bo "github.com/benoitkugler/webrender/html/boxes"

	"verif/internal/fw"
)

// monitor walks one observed formatting structure and decides the clauses of C09 on it.
type monitor struct {
	res      *fw.Result
	in       *Input
	b        *built
	dom      map[*html.Node]*Node
	byID     map[int]*einfo
	list     []*einfo
	rootNone bool

	// observations
	texts   []string            // text of every TextBox in tree order
	topmost map[string][]bo.Box // "<id>" / "<id>::before" / "<id>::marker" -> boxes whose parent box belongs to another element/pseudo
	nBoxes  int

	// footnotes (css-gcpm-3 §2): ::footnote-call boxes met during the walk
	calls     map[int]int     // footnote element id -> number of ::footnote-call boxes
	fmarkers  map[int]int     // footnote element id -> number of ::footnote-marker boxes
	pending   []bo.Box        // footnote boxes reached through a call, not walked yet
	reached   map[bo.Box]bool // footnote boxes reached through a call
	areas     []bo.Box        // the footnote areas formed and walked
	inArea    bool
	areaDepth int

	// running elements (css-gcpm-3 §1.2): placeholder boxes (own position running()) met during the walk
	runPending []bo.Box     // placeholders whose content is not walked yet
	runPlace   map[int]int  // running element id -> number of placeholder boxes
	curRun     map[int]bool // running element whose area (its box as placed in a margin box) is being walked
	runDepth   int
	runInner   map[bo.Box]bool // running boxes met again inside the item wrapper of the same element
	skipTop    bo.Box          // copy of such a box: already counted through its wrapper
}

func (m *monitor) fail(sig, format string, a ...any) {
	if m.res.Verdict == fw.Violation {
		return
	}
	msg := fmt.Sprintf(format, a...)
	tree := dump(m.b.root)
	for i, a := range m.areas {
		tree += fmt.Sprintf("\n  footnote / running element area %d: %s", i, dump(a))
	}
	m.res.Fail(sig, fmt.Sprintf("%s\n  document: %s\n  box tree: %s", msg, m.in.HTML, tree))
}

func (m *monitor) info(e *html.Node) *einfo {
	n := m.dom[e]
	if n == nil {
		return nil
	}
	return m.byID[n.ID]
}

func desc(b bo.Box) string {
	f := b.Box()
	s := kindOf(b).String() + "<" + elemID(f.Element)
	if f.PseudoType != "" {
		s += "::" + f.PseudoType
	}
	return s + ">"
}

func ownerKey(b bo.Box) string {
	f := b.Box()
	if f.PseudoType != "" {
		return elemID(f.Element) + "::" + f.PseudoType
	}
	return elemID(f.Element)
}

func children(b bo.Box) []bo.Box { return b.Box().Children }

// run performs the whole walk.
func (m *monitor) run() {
	root := m.b.root
	m.topmost = map[string][]bo.Box{}
	m.calls, m.fmarkers, m.reached = map[int]int{}, map[int]int{}, map[bo.Box]bool{}
	m.runPlace, m.runInner = map[int]int{}, map[bo.Box]bool{}
	if root == nil {
		m.fail("no-root", "BuildFormattingStructure returned no root box")
		return
	}
	if k := kindOf(root); !isBlockLevelKind(k) {
		m.fail("root-kind", "the root box is a %s, not a block-level box", desc(root))
	}
	m.topmost[ownerKey(root)] = append(m.topmost[ownerKey(root)], root)
	if !m.prescanRunning(root) {
		return
	}
	m.walk(root, nil)
	if m.res.Verdict == fw.Violation {
		return
	}
	// the content of running elements and of footnotes is formed where layout places it; each may
	// hold the other
	for i := 0; i < 64 && (len(m.runPending) > 0 || len(m.pending) > 0); i++ {
		m.walkRunning()
		if m.res.Verdict == fw.Violation {
			return
		}
		m.walkFootnoteAreas()
		if m.res.Verdict == fw.Violation {
			return
		}
	}
	m.checkFootnoteList()
	if m.res.Verdict == fw.Violation {
		return
	}
	m.checkElements()
	m.checkTokens()
}

// walk checks box b (whose parent box is p) and its subtree.
func (m *monitor) walk(b bo.Box, p bo.Box) {
	if m.res.Verdict == fw.Violation {
		return
	}
	m.nBoxes++
	f := b.Box()
	k := kindOf(b)
	m.res.Count("box_"+k.String(), 1)
	if k == kOther {
		m.fail("unexpected-box-type", "box of Go type %T in a formatting structure before layout", b)
		return
	}

	// ---- provenance: display:none subtrees, children of replaced elements, §17.2.1 rules 1.1/1.2
	e := m.info(f.Element)
	if e == nil {
		m.fail("provenance-unknown-element", "%s is generated for element %s, which is not a rendered element of the document (head is display:none in the UA sheet)", desc(b), elemID(f.Element))
		return
	}
	if !e.shown {
		sig := "provenance-none"
		if strings.Contains(e.why, "replaced") {
			sig = "provenance-replaced-child"
		} else if strings.Contains(e.why, "17.2.1") {
			sig = "provenance-column-child"
		}
		m.fail(sig, "%s is generated for element n%d, which must generate no box: %s", desc(b), e.n.ID, e.why)
		return
	}
	if m.rootNone && p != nil {
		m.fail("provenance-none", "%s is generated although the root element is display:none", desc(b))
		return
	}
	switch f.PseudoType {
	case "":
	case "before", "after":
		ps := e.n.Before
		if f.PseudoType == "after" {
			ps = e.n.After
		}
		if !pseudoShown(e, ps, m.rootNone) {
			m.fail("provenance-pseudo", "%s is generated but n%d::%s must generate no box", desc(b), e.n.ID, f.PseudoType)
			return
		}
	case "marker":
	case "footnote-call":
		// the call is the box carrying the link to the footnote box; its text box, and the
		// anonymous block / line box a grid container wraps around it, bear the same pseudo type
		if f.Footnote != nil && !m.checkCall(b, k, e) {
			return
		}
	case "footnote-marker":
		// css-gcpm-3 §2.6: only a footnote element has a ::footnote-marker
		if !e.footnote {
			m.fail("provenance-pseudo", "%s is generated but n%d is not a footnote element", desc(b), e.n.ID)
			return
		}
		if p == nil || ownerKey(p) != ownerKey(b) {
			m.fmarkers[e.n.ID]++
			if k != kInline {
				m.fail("footnote-marker-kind", "%s: the ::footnote-marker of n%d is not an inline box (UA sheet: display inline)", desc(b), e.n.ID)
				return
			}
		}
	default:
		m.fail("provenance-pseudo", "%s: unexpected pseudo type %q", desc(b), f.PseudoType)
		return
	}
	if e.footnote && !m.inArea && f.PseudoType != "footnote-call" {
		// the footnote element is taken out of the flow: none of its boxes stays in the main tree
		m.fail("footnote-in-flow", "%s, a box of the footnote element n%d, stands in the main box tree", desc(b), e.n.ID)
		return
	}
	if e.replaced && f.PseudoType != "footnote-call" && k != kBlockRepl && k != kInlineRepl &&
		!(k == kBlock && p != nil && isGridKind(kindOf(p))) &&
		!(k == kLine && p != nil && kindOf(p) == kBlock && p.Box().Element == f.Element) {
		// (an inline-level grid item is wrapped in an anonymous block -- and its line box -- that
		// carry the item's element)
		m.fail("replaced-kind", "%s is generated for the replaced element n%d", desc(b), e.n.ID)
		return
	}

	// ---- element ancestry is preserved: the box's element is the parent box's element or a descendant
	if p != nil {
		pe := m.info(p.Box().Element)
		ok := false
		for a := e; a != nil; a = a.parent {
			if a == pe {
				ok = true
				break
			}
		}
		if !ok {
			m.fail("ancestry", "%s is a child of %s, whose element is not an ancestor of n%d", desc(b), desc(p), e.n.ID)
			return
		}
		// (a box without pseudo type inside a pseudo-element box of the same element is generated
		// content of that pseudo-element -- webrender builds the text of a ::footnote-marker from
		// the footnote's own box --, never a principal box of the element)
		inPseudo := f.PseudoType == "" && p.Box().PseudoType != "" && p.Box().Element == f.Element
		// (the boxes of a running element count where the element is placed -- its area --, not where
		// the placeholder stands)
		if ownerKey(b) != ownerKey(p) && !inPseudo && !(e.running && !m.curRun[e.n.ID]) && b != m.skipTop {
			m.topmost[ownerKey(b)] = append(m.topmost[ownerKey(b)], b)
		}
	}
	if boxRunning(b) {
		// css-gcpm-3 §1.2: the box of a running element is a placeholder: nothing is laid out here
		// (layout hands it to the page's running elements), webrender's anonymous-box passes leave
		// its content alone until it is placed in a margin box.  The parent's clauses see it as one
		// out-of-flow box; its content is walked in walkRunning, formed as layout forms it.
		if !e.running || f.PseudoType != "" {
			m.fail("running-of-non-running", "%s has position running() but n%d%s is no running element (position %q)", desc(b), e.n.ID, map[bool]string{true: "::" + f.PseudoType}[f.PseudoType != ""], e.n.Pos)
			return
		}
		if m.curRun[e.n.ID] {
			// webrender gives the anonymous block it wraps around an inline-level flex / grid item the
			// item's own style, position included: the running box of the element is met again inside
			// the wrapper, still unformed; same element, same placeholder: walked in a further area
			m.res.Count("running_item_wrapper_unwrapped", 1)
			m.runInner[b] = true
			m.runPending = append(m.runPending, b)
			return
		}
		m.runPlace[e.n.ID]++
		m.res.Count("running_placeholders", 1)
		if p != nil {
			switch pk := kindOf(p); {
			case pk == kLine || pk == kInline:
				m.res.Count("running_placeholder_in_inline_fc", 1)
			case isBlockContainerKind(pk):
				m.res.Count("running_placeholder_in_block_fc", 1)
			case pk == kFlex || pk == kInlineFlex || isGridKind(pk):
				m.res.Count("running_placeholder_flex_grid_item", 1)
			default:
				m.res.Count("running_placeholder_in_table_part", 1)
			}
		}
		if len(m.curRun) > 0 {
			m.res.Count("running_nested", 1)
		}
		if m.inArea {
			m.res.Count("running_in_footnote", 1)
		}
		m.runPending = append(m.runPending, b)
		return
	}

	kids := children(b)
	if f.IsTableWrapper && k != kBlock && k != kInlineBlock {
		m.fail("wrapper-kind", "%s is flagged as a table wrapper", desc(b))
		return
	}

	switch {
	case f.IsTableWrapper:
		m.checkWrapper(b, k, kids)
	case isBlockContainerKind(k):
		// CSS 2.1 §9.2.1: only block-level boxes, or an inline formatting context (one line box here)
		nLine := 0
		for _, c := range kids {
			if kindOf(c) == kLine {
				nLine++
			}
		}
		if nLine > 0 {
			m.res.Count("block_containers_inline_fc", 1)
			if len(kids) != 1 {
				m.fail("block-container-mixed", "block container %s has %d children of which %d are line boxes (must be a single line box or only block-level boxes)", desc(b), len(kids), nLine)
				return
			}
		} else {
			if len(kids) > 0 {
				m.res.Count("block_containers_block_fc", 1)
			}
			nRun, nAnonLine := 0, 0
			for _, c := range kids {
				if boxRunning(c) {
					nRun++
				} else if isAnon(c, b) && kindOf(c) == kBlock && soleLine(c) {
					nAnonLine++
				}
			}
			if nRun > 0 && nAnonLine > 0 && nRun+nAnonLine == len(kids) {
				// the only block-level children are running elements, the rest is inline content
				m.res.Count("running_only_blocks_beside_inline_content", 1)
			}
			for i, c := range kids {
				if ck := kindOf(c); !isBlockLevelKind(ck) && !boxRunning(c) {
					m.fail("block-container-child", "child %d of block container %s is %s: not a block-level box (and the container holds no line box)", i, desc(b), desc(c))
					return
				}
			}
		}
	case k == kLine, k == kInline:
		// inline formatting context: inline-level boxes; block-level boxes only when out of flow
		if k == kLine {
			if p == nil || !isBlockContainerKind(kindOf(p)) {
				m.fail("line-parent", "%s is not the child of a block container", desc(b))
				return
			}
			m.res.Count("line_boxes", 1)
		}
		for i, c := range kids {
			ck := kindOf(c)
			switch {
			case isInlineLevelKind(ck), boxRunning(c):
			case isBlockLevelKind(ck) && boxOutOfFlow(c):
				m.res.Count("out_of_flow_in_inline_fc", 1)
			case isBlockLevelKind(ck):
				sig := "inline-has-block-child"
				if k == kLine {
					sig = "line-has-block-child"
				}
				m.fail(sig, "child %d of %s is the in-flow block-level box %s", i, desc(b), desc(c))
				return
			default:
				m.fail("inline-fc-child", "child %d of %s is %s: neither inline-level nor an out-of-flow block-level box", i, desc(b), desc(c))
				return
			}
		}
	case k == kFlex, k == kInlineFlex, k == kGrid, k == kInlineGrid:
		// css-flexbox-1 §4, css-grid §6.1: every child of the container is a blockified item
		for i, c := range kids {
			if boxRunning(c) {
				continue // out of flow, no item (as css-flexbox-1 §4 says of absolutely positioned children)
			}
			if ck := kindOf(c); !isBlockLevelKind(ck) {
				m.fail("item-not-blockified", "child %d of %s container %s is %s: items must be block-level (blockified) boxes", i, k, desc(b), desc(c))
				return
			}
			if k == kFlex || k == kInlineFlex {
				m.res.Count("flex_items", 1)
			} else {
				m.res.Count("grid_items", 1)
			}
		}
	case k == kTable, k == kInlineTable:
		if p == nil || !p.Box().IsTableWrapper {
			m.fail("table-without-wrapper", "%s is not the child of a table wrapper box", desc(b))
			return
		}
		m.checkTable(b, kids)
	case k == kRowGroup:
		m.onlyKids(b, kids, kRow, "table-improper-child")
	case k == kRow:
		m.onlyKids(b, kids, kCell, "table-improper-child")
	case k == kColGroup:
		m.onlyKids(b, kids, kCol, "table-improper-child")
		if m.res.Verdict != fw.Violation && f.PseudoType == "" && e.n.Tag == "colgroup" && e.cd == "table-column-group" && !hasColKid(e.n) {
			// HTML §4.9.3 / "forming a table": a <colgroup> without <col> children stands for `span` columns
			se := expectSpan(e.n, "span")
			sig, gen := "column-span", ""
			for _, p := range []*Pseudo{e.n.Before, e.n.After} {
				switch {
				case p == nil || pseudoDisplay(p) == "none":
				case pseudoDisplay(p) == "table-column":
					// generated content that is itself a column of the group: how it combines with the
					// columns `span` stands for is defined nowhere; only the range is judged
					se.exact = false
				default:
					// any other generated content is removed by CSS 2.1 §17.2.1 rule 1.2 and cannot change
					// the number of columns.  webrender: known open finding, own signature
					sig, gen = "colgroup-span-lost-to-generated-content", " (the group has ::before/::after content, which §17.2.1 rule 1.2 removes)"
				}
			}
			if len(kids) < 1 || len(kids) > 1000 {
				sig = "column-span"
			}
			if len(kids) < 1 || len(kids) > 1000 || (se.exact && len(kids) != se.html) {
				m.fail(sig, "%s (span=%q, no <col> child) holds %d column boxes, expected %d%s", desc(b), attrOf(f.Element, "span"), len(kids), se.html, gen)
				return
			}
			m.spanSeen("span", se, len(kids), se.html)
			m.res.Count("colgroup_span_checked", 1)
		}
	case k == kCol, k == kText, k == kBlockRepl, k == kInlineRepl:
		if len(kids) != 0 {
			m.fail("leaf-has-children", "%s has %d children", desc(b), len(kids))
			return
		}
	}
	if m.res.Verdict == fw.Violation {
		return
	}
	m.checkAnonymous(b, k, kids)
	if m.res.Verdict == fw.Violation {
		return
	}
	if t, ok := b.(*bo.TextBox); ok {
		m.texts = append(m.texts, string(t.Text))
		return
	}
	if t, ok := tableOf(b); ok {
		for _, g := range t.ColumnGroups {
			m.walk(g, b)
		}
	}
	for _, c := range kids {
		m.walk(c, b)
	}
}

func attrOf(e *html.Node, name string) string {
	if e != nil {
		for _, a := range e.Attr {
			if a.Key == name {
				return a.Val
			}
		}
	}
	return "(absent)"
}

func (m *monitor) onlyKids(b bo.Box, kids []bo.Box, want kind, sig string) {
	for i, c := range kids {
		if kindOf(c) != want {
			m.fail(sig, "child %d of %s is %s; only %s boxes are proper children", i, desc(b), desc(c), want)
			return
		}
	}
}

// checkWrapper: CSS 2.1 §17.4 — the table wrapper box contains the table box and its captions.
func (m *monitor) checkWrapper(b bo.Box, k kind, kids []bo.Box) {
	m.res.Count("table_wrappers", 1)
	wantTable := kTable
	if k == kInlineBlock {
		wantTable = kInlineTable
	}
	nTable := 0
	for i, c := range kids {
		switch ck := kindOf(c); ck {
		case kCaption:
			// caption-side is inherited (CSS 2.1 §17.4.1); the expected side comes from the model
			side := "top"
			for a := m.info(c.Box().Element); a != nil; a = a.parent {
				if a.n.Cap != "" {
					side = a.n.Cap
					break
				}
			}
			if (side == "top") != (nTable == 0) {
				m.fail("caption-side", "caption %d of wrapper %s has caption-side %s but stands %s the table box", i, desc(b), side, map[bool]string{true: "before", false: "after"}[nTable == 0])
				return
			}
			m.res.Count("captions_"+side, 1)
			m.res.Count("captions", 1)
		case kTable, kInlineTable:
			if ck != wantTable {
				m.fail("wrapper-table-kind", "wrapper %s contains %s", desc(b), desc(c))
				return
			}
			nTable++
		default:
			m.fail("wrapper-improper-child", "child %d of table wrapper %s is %s (only the table box and captions are allowed)", i, desc(b), desc(c))
			return
		}
	}
	if nTable != 1 {
		m.fail("wrapper-table-count", "table wrapper %s contains %d table boxes", desc(b), nTable)
	}
}

// spanOf: the model's reading of a span attribute (colspan, rowspan, span) of the element of a box,
// from the generator's tree (spans.go).
func (m *monitor) spanOf(el *html.Node, name string) spanExpect {
	if n := m.dom[el]; n != nil {
		return expectSpan(n, name)
	}
	return spanExpect{html: 1, exact: true, class: "absent"}
}

// spanSeen records one judged span attribute: evidence class, and -- on the classes of non-conforming
// values where only well-formedness is judged -- a report when webrender's value is not HTML's.
func (m *monitor) spanSeen(name string, se spanExpect, got, want int) {
	if !se.present {
		return
	}
	m.res.Count("span_"+name+"_"+se.class, 1)
	if se.exact {
		m.res.Count("span_values_exact_verified", 1)
		return
	}
	m.res.Count("span_values_range_only", 1)
	if got != want {
		m.res.Count("span_html_parse_deviation", 1)
		r := fmt.Sprintf("%s attribute value of class %s: webrender does not read the value HTML's rules for parsing non-negative integers give (box tree well formed; reported, not judged)", name, se.class)
		for _, old := range m.res.Reports {
			if old == r {
				return
			}
		}
		m.res.Reports = append(m.res.Reports, r)
	}
}

// checkTable: proper children at every level, header/footer placement, column numbering and the
// slot model of HTML "forming a table" / CSS 2.1 §17.5 applied per row group.
func (m *monitor) checkTable(b bo.Box, groups []bo.Box) {
	m.res.Count("tables", 1)
	m.onlyKids(b, groups, kRowGroup, "table-improper-child")
	if m.res.Verdict == fw.Violation {
		return
	}
	t, _ := tableOf(b)
	// columns are numbered consecutively from 0; a group starts at its first column
	x, xPrev := 0, 0
	resync := false
	for gi, g := range t.ColumnGroups {
		if resync && g.GridX >= xPrev+1 && g.GridX <= xPrev+1000 {
			x = g.GridX
		}
		resync = false
		xPrev = x
		if g.GridX != x {
			m.fail("column-gridx", "column group %d of %s has GridX %d, expected %d", gi, desc(b), g.GridX, x)
			return
		}
		if boxRunning(g) {
			// placeholder of a running column group: its content is formed and judged where it is
			// placed; the columns after it are numbered from wherever webrender resumes
			resync = true
			continue
		}
		for ci, c := range g.Children {
			if kindOf(c) != kCol {
				m.fail("table-improper-child", "child %d of column group %d of %s is %s", ci, gi, desc(b), desc(c))
				return
			}
			if c.Box().GridX != x {
				m.fail("column-gridx", "column %d of group %d of %s has GridX %d, expected %d", ci, gi, desc(b), c.Box().GridX, x)
				return
			}
			x++
			m.res.Count("columns", 1)
		}
		if len(g.Children) == 0 {
			// a column group without column boxes stands for `span` columns (HTML: 1 by default)
			se := m.spanOf(g.Element, "span")
			x += se.html
			if !se.exact {
				resync = true // the number of columns it stands for is only known to lie in [1,1000]
			}
		}
	}
	// header first, footer last (§17.2: table-header-group / table-footer-group)
	for gi, g := range groups {
		gf := g.Box()
		d := ""
		if gf.Style != nil {
			d = gf.Style.GetDisplay()[0]
		}
		if gf.IsHeader && (gi != 0 || d != "table-header-group") {
			m.fail("header-placement", "row group %d (%s, display %s) of %s is flagged as header", gi, desc(g), d, desc(b))
			return
		}
		if gf.IsFooter && (gi != len(groups)-1 || d != "table-footer-group") {
			m.fail("footer-placement", "row group %d (%s, display %s) of %s is flagged as footer", gi, desc(g), d, desc(b))
			return
		}
	}
	for gi, g := range groups {
		d := g.Box().Style.GetDisplay()[0]
		if d == "table-header-group" && !g.Box().IsHeader {
			// only the first header group is the header; it must exist and stand first
			if len(groups) == 0 || !groups[0].Box().IsHeader {
				m.fail("header-placement", "%s has a table-header-group (group %d) but its first row group is not flagged as header", desc(b), gi)
				return
			}
		}
		if d == "table-footer-group" && !g.Box().IsFooter {
			if !groups[len(groups)-1].Box().IsFooter {
				m.fail("footer-placement", "%s has a table-footer-group (group %d) but its last row group is not flagged as footer", desc(b), gi)
				return
			}
		}
	}
	// slots
	for gi, g := range groups {
		rows := children(g)
		type slot struct{ r, c int }
		occ := map[slot]string{}
		if boxRunning(g) {
			continue // placeholder of a running row group: formed and judged where it is placed
		}
		// A running row is out of the flow (css-gcpm-3 §1.2) but its placeholder stays among the rows;
		// whether a cell of that row with rowspan > 1 reserves slots in the rows that follow is defined by
		// no specification (webrender reserves them).  Such a group is not judged slot by slot.
		undefinedGrid := false
		for _, row := range rows {
			if kindOf(row) == kRow && boxRunning(row) {
				for _, c := range children(row) {
					if kindOf(c) == kCell && c.Box().Rowspan > 1 {
						undefinedGrid = true
					}
				}
			}
		}
		if undefinedGrid {
			m.res.Count("groups_with_row_spanning_running_row_not_judged", 1)
			continue
		}
		for ri, row := range rows {
			if kindOf(row) != kRow {
				m.fail("table-improper-child", "child %d of %s is %s", ri, desc(g), desc(row))
				return
			}
			if boxRunning(row) {
				continue // placeholder of a running row
			}
			xcur := 0
			for ci, cell := range children(row) {
				if kindOf(cell) != kCell {
					m.fail("table-improper-child", "child %d of %s is %s", ci, desc(row), desc(cell))
					return
				}
				cf := cell.Box()
				name := fmt.Sprintf("group %d row %d cell %d (%s)", gi, ri, ci, desc(cell))
				for occ[slot{ri, xcur}] != "" {
					xcur++
				}
				m.res.Count("cells", 1)
				// expected spans: from the element's attributes when the cell is the element's own box
				// (HTML §4.9.11 / §4.9.12 through the model of spans.go; whatever the attribute values are,
				// a cell covers at least one slot and at most 1000 columns)
				if cf.Colspan < 1 || cf.Rowspan < 1 || cf.Colspan > 1000 {
					m.fail("cell-span", "%s has Colspan %d Rowspan %d (colspan=%q rowspan=%q): a cell spans 1..1000 columns and at least one row", name, cf.Colspan, cf.Rowspan, attrOf(cf.Element, "colspan"), attrOf(cf.Element, "rowspan"))
					return
				}
				if e := m.info(cf.Element); e != nil && e.cd == "table-cell" && cf.PseudoType == "" {
					ce, re := expectSpan(e.n, "colspan"), expectSpan(e.n, "rowspan")
					wantCol, wantRow := ce.html, re.html
					if wantRow == 0 || wantRow > len(rows)-ri {
						wantRow = len(rows) - ri
					}
					if (cf.Colspan != wantCol && ce.exact) || (cf.Rowspan != wantRow && re.exact) {
						m.fail("cell-span", "%s has Colspan %d Rowspan %d; its attributes colspan=%q rowspan=%q and the %d rows left in the group give %d / %d", name, cf.Colspan, cf.Rowspan, attrOf(cf.Element, "colspan"), attrOf(cf.Element, "rowspan"), len(rows)-ri, wantCol, wantRow)
						return
					}
					m.spanSeen("colspan", ce, cf.Colspan, wantCol)
					m.spanSeen("rowspan", re, cf.Rowspan, wantRow)
				}
				if ri+cf.Rowspan > len(rows) {
					m.fail("cell-rowspan-overflow", "%s spans %d rows but only %d rows remain in its row group (CSS 2.1 §17.5 rule 6)", name, cf.Rowspan, len(rows)-ri)
					return
				}
				if cf.GridX != xcur {
					who := occ[slot{ri, cf.GridX}]
					if who != "" {
						m.fail("cell-slot-collision", "%s has GridX %d, a slot already occupied by %s; the first free slot of the row is %d", name, cf.GridX, who, xcur)
					} else {
						m.fail("cell-gridx", "%s has GridX %d; the first free slot of the row after the previous cell is %d", name, cf.GridX, xcur)
					}
					return
				}
				if cf.Rowspan > 1 {
					m.res.Count("cells_rowspan", 1)
				}
				if cf.Colspan > 1 {
					m.res.Count("cells_colspan", 1)
				}
				overlap := false
				for r := ri; r < ri+cf.Rowspan; r++ {
					for c := xcur; c < xcur+cf.Colspan; c++ {
						if occ[slot{r, c}] != "" {
							// HTML "table model error": a column-spanning cell reaches a slot reserved
							// by a row-spanning cell of an earlier row.  Both HTML and CSS 2.1 §17.5
							// leave the overlap in place; it is counted, not judged.
							overlap = true
							continue
						}
						occ[slot{r, c}] = name
					}
				}
				if overlap {
					m.res.Count("cells_table_model_error", 1)
				}
				xcur += cf.Colspan
			}
		}
	}
}

// principalKinds: acceptable kinds of the topmost boxes of an element with computed display cd.
func (m *monitor) acceptable(cd string, replaced bool, parentCD string) map[kind]bool {
	ks := map[kind]bool{}
	add := func(d string) {
		if replaced {
			switch d {
			case "block", "list-item", "flow-root", "table", "flex", "grid":
				ks[kBlockRepl] = true // outer display type block
			default:
				ks[kInlineRepl] = true
			}
			return
		}
		ks[kindForDisplay(d)] = true
	}
	add(cd)
	if isFlexContainerDisplay(parentCD) || isGridContainerDisplay(parentCD) {
		// a flex/grid item is blockified: either the computed display is taken as blockified, or
		// the inline-level box is wrapped in an anonymous block carrying the item's element
		add(blockify(cd))
		ks[kBlock] = true
	}
	return ks
}

func kindSetString(ks map[kind]bool) string {
	var s []string
	for k := range ks {
		s = append(s, k.String())
	}
	sort.Strings(s)
	return strings.Join(s, "|")
}

// checkElements: every element that takes part in box generation has its principal box(es), of the
// kind its computed display asks for (CSS 2.1 §9.2, §9.7, §17.2; css-display-3 §2).
func (m *monitor) checkElements() {
	for _, e := range m.list {
		if !e.shown || (m.rootNone && e.parent != nil) {
			continue
		}
		n := e.n
		if n.Tag == "img" && !e.replaced && n.Attrs["alt"] == "" {
			continue // represents nothing
		}
		key := fmt.Sprintf("n%d", n.ID)
		pcd := ""
		if e.parent != nil {
			pcd = e.parent.cd
		}
		what := fmt.Sprintf("element n%d (specified display %s, float %q, position %q, computed display %s)", n.ID, specifiedDisplay(n), n.Float, n.Pos, e.cd)
		cd := e.cd
		if e.footnote {
			// its box is a child of the footnote area (a block container), whatever its DOM parent is
			pcd = "block"
			if got := m.topmost[key]; n.FD == "compact" && len(got) > 0 && (kindOf(got[0]) == kBlock || kindOf(got[0]) == kBlockRepl) {
				// css-gcpm-3 §2.4 compact: "the user agent determines whether a given footnote element is
				// placed as an inline element or a block element": either is taken, consistently
				cd = "block"
				m.res.Count("footnote_compact_as_block", 1)
			}
			what = fmt.Sprintf("footnote element n%d (specified display %s, footnote-display %q, position %q, display in the footnote area %s)", n.ID, specifiedDisplay(n), n.FD, n.Pos, e.cd)
			if c := m.calls[n.ID]; c != 1 {
				m.fail("footnote-call-count", "%s has %d ::footnote-call boxes in the tree, expected exactly one", what, c)
				return
			}
		}
		if e.running {
			// its boxes are the ones of its area, a block container (as a margin box is); the
			// placeholder of an inline-level item of a flex / grid container may come in the item's
			// anonymous block
			if !isFlexContainerDisplay(pcd) && !isGridContainerDisplay(pcd) {
				pcd = "block"
			}
			what = fmt.Sprintf("running element n%d (specified display %s, position %q)", n.ID, specifiedDisplay(n), n.Pos)
			if c := m.runPlace[n.ID]; c != 1 {
				m.fail("running-placeholder-count", "%s has %d boxes with position running() in the tree, expected exactly one", what, c)
				return
			}
			m.res.Count("running_elements_checked", 1)
			m.res.Count("running_display_"+strings.ReplaceAll(e.cd, " ", "_"), 1)
		} else if c := m.runPlace[n.ID]; c != 0 {
			m.fail("running-of-non-running", "%s is no running element but has %d boxes with position running()", what, c)
			return
		}
		m.checkOwner(key, cd, e.replaced, pcd, what)
		if m.res.Verdict == fw.Violation {
			return
		}
		if n.Tag == "col" && e.cd == "table-column" {
			// HTML §4.9.4 / "forming a table": a <col> stands for `span` columns
			got, all := m.topmost[key], true
			for _, c := range got {
				all = all && kindOf(c) == kCol
			}
			if all {
				se := expectSpan(n, "span")
				if len(got) > 1000 || (se.exact && len(got) != se.html) {
					m.fail("column-span", "%s with span=%q generates %d column boxes, expected %d", what, n.Attrs["span"], len(got), se.html)
					return
				}
				m.spanSeen("span", se, len(got), se.html)
				m.res.Count("col_span_checked", 1)
			}
		}
		if e.footnote {
			// css-gcpm-3 §2.6; not judged on replaced elements and <img> (no generated content there)
			if c := m.fmarkers[n.ID]; c != 1 && !e.replaced && n.Tag != "img" {
				m.fail("footnote-marker-count", "%s has %d ::footnote-marker boxes, expected exactly one", what, c)
				return
			}
			m.res.Count("footnote_elements_checked", 1)
			m.res.Count("footnote_display_"+cd, 1)
			m.res.Count("footnote_specified_"+strings.ReplaceAll(specifiedDisplay(n), " ", "_"), 1)
		} else if c := m.calls[n.ID] + m.fmarkers[n.ID]; c != 0 {
			m.fail("footnote-of-non-footnote", "%s is no footnote element but has %d ::footnote-call / ::footnote-marker boxes", what, c)
			return
		}
		m.res.Count("elements_checked", 1)
		m.res.Count("cd_"+e.cd, 1)
		if isOutOfFlow(n) {
			m.res.Count("elements_out_of_flow", 1)
		}
		for _, pp := range []struct {
			name string
			p    *Pseudo
		}{{"before", n.Before}, {"after", n.After}} {
			if !pseudoShown(e, pp.p, m.rootNone) {
				continue
			}
			d := pseudoDisplay(pp.p)
			m.checkOwner(key+"::"+pp.name, d, false, e.cd, fmt.Sprintf("pseudo-element n%d::%s (display %s)", n.ID, pp.name, d))
			if m.res.Verdict == fw.Violation {
				return
			}
			m.res.Count("pseudo_checked", 1)
		}
		// markers: one per list item (element or pseudo-element), css-lists-3 §3
		want := 0
		if e.listItem && !e.replaced && n.Tag != "img" {
			want++
		}
		for _, p := range []*Pseudo{n.Before, n.After} {
			if pseudoShown(e, p, m.rootNone) && isListItem(pseudoDisplay(p)) {
				want++
			}
		}
		got := m.topmost[key+"::marker"]
		if len(got) != want {
			m.fail("marker-count", "element n%d (computed display %s) has %d marker boxes, expected %d", n.ID, e.cd, len(got), want)
			return
		}
		lsp := "outside"
		for a := e; a != nil; a = a.parent {
			if a.n.LSP != "" {
				lsp = a.n.LSP
				break
			}
		}
		for _, mb := range got {
			k := kindOf(mb)
			if lsp == "inside" && k != kInline || lsp == "outside" && !(k == kBlock && boxOutOfFlow(mb)) {
				m.fail("marker-kind", "marker of n%d with list-style-position %s is %s (out of flow: %v)", n.ID, lsp, desc(mb), boxOutOfFlow(mb))
				return
			}
			m.res.Count("markers_"+lsp, 1)
		}
	}
}

func (m *monitor) checkOwner(key, cd string, replaced bool, parentCD string, what string) {
	got := m.topmost[key]
	ok := m.acceptable(cd, replaced, parentCD)
	if len(got) == 0 {
		m.fail("element-without-box", "%s generates no box; expected a %s box", what, kindSetString(ok))
		return
	}
	item := isFlexContainerDisplay(parentCD) || isGridContainerDisplay(parentCD)
	isTable := (cd == "table" || cd == "inline-table") && !replaced
	for _, b := range got {
		k := kindOf(b)
		if !ok[k] {
			m.fail("principal-box-kind", "%s generates the %s box %s; expected %s", what, k, desc(b), kindSetString(ok))
			return
		}
		w := b.Box().IsTableWrapper
		if isTable && !w && !(item && k == kBlock) {
			// (an inline-table item may be wrapped in an anonymous block holding the wrapper)
			m.fail("table-without-wrapper", "%s generates %s, which is not a table wrapper box", what, desc(b))
			return
		}
		if !isTable && w {
			m.fail("principal-box-kind", "%s generates %s flagged as a table wrapper", what, desc(b))
			return
		}
	}
	many := (kindForDisplay(cd) == kInline && !replaced) || cd == "table-column"
	if !many && len(got) != 1 {
		m.fail("principal-box-count", "%s generates %d separate boxes (%s ...); expected exactly one", what, len(got), desc(got[0]))
		return
	}
	if kindForDisplay(cd) == kInline && len(got) > 1 {
		m.res.Count("inline_elements_split", 1)
	}
}

// tokens of the model with the number of text boxes each must appear in
func (m *monitor) expectedTokens() (want map[string]int, order []string) {
	want = map[string]int{}
	add := func(tok string, shown bool) {
		tok = strings.TrimSpace(tok)
		if tok == "" {
			return
		}
		if shown {
			want[tok] = 1
			order = append(order, tok)
		} else {
			want[tok] = 0
		}
	}
	var rec func(e *einfo)
	kidsOf := map[*einfo][]*einfo{}
	for _, e := range m.list {
		if e.parent != nil {
			kidsOf[e.parent] = append(kidsOf[e.parent], e)
		}
	}
	rec = func(e *einfo) {
		n := e.n
		pseudoText := func(p *Pseudo) {
			if p == nil {
				return
			}
			add(p.Tok, pseudoShown(e, p, m.rootNone) && !textSuppressed(pseudoDisplay(p)))
		}
		pseudoText(n.Before)
		if n.Tag == "img" && !e.replaced {
			add(n.Attrs["alt"], e.shown && !(m.rootNone && e.parent != nil) && !textSuppressed(e.cd))
		}
		ei := 0
		for _, k := range n.Kids {
			if k.isText() {
				add(k.Text, textShown(e, m.rootNone) && !(m.rootNone))
				continue
			}
			rec(kidsOf[e][ei])
			ei++
		}
		pseudoText(n.After)
	}
	rec(m.list[0])
	return
}

// checkTokens: conservation side-check — every text token of a rendered element ends up in exactly
// one text box; tokens of non-rendered content in none; document order is kept when no table
// re-ordering (header/footer groups, captions) can apply.
func (m *monitor) checkTokens() {
	want, order := m.expectedTokens()
	all := strings.Join(m.texts, "\x00")
	for tok, w := range want {
		got := strings.Count(all, tok)
		if got != w {
			sig := "token-lost"
			if got > w {
				sig = "token-duplicated"
				if w == 0 {
					sig = "token-of-hidden-content"
				}
			}
			m.fail(sig, "text token %q appears %d times in the text boxes, expected %d", tok, got, w)
			return
		}
		if w == 1 {
			m.res.Count("tokens_conserved", 1)
		} else {
			m.res.Count("tokens_hidden_absent", 1)
		}
	}
	reorder := false
	for _, e := range m.list {
		if e.n.Float == "footnote" || isRunningNode(e.n) {
			reorder = true // footnote content is moved to the footnote area, running elements to their own
		}
		for _, d := range []string{specifiedDisplay(e.n), pd(e.n.Before), pd(e.n.After)} {
			if d == "table-header-group" || d == "table-footer-group" || d == "table-caption" {
				reorder = true
			}
		}
	}
	if reorder || len(order) < 2 {
		return
	}
	pos := -1
	for i, tok := range order {
		p := strings.Index(all, tok)
		if p < pos {
			m.fail("token-order", "text token %q precedes %q in the box tree but follows it in the document", tok, order[i-1])
			return
		}
		pos = p
	}
	m.res.Count("docs_order_checked", 1)
}

func pd(p *Pseudo) string { return canon(pseudoDisplay(p)) }

func isGridKind(k kind) bool { return k == kGrid || k == kInlineGrid }

// isAnon: the box belongs to the same element/pseudo-element as its parent box, i.e. it was not
// generated by an element of its own (anonymous box, or a piece of its owner).
func isAnon(c, parent bo.Box) bool { return ownerKey(c) == ownerKey(parent) }

func onlyWhiteSpace(b bo.Box) bool {
	if t, ok := b.(*bo.TextBox); ok {
		return strings.Trim(string(t.Text), " \n\t\r\f") == ""
	}
	switch kindOf(b) {
	case kBlockRepl, kInlineRepl, kCol, kColGroup:
		return false
	}
	if t, ok := tableOf(b); ok && len(t.ColumnGroups) > 0 {
		return false
	}
	if !isAnonymousChain(b) {
		return false
	}
	for _, c := range children(b) {
		if !onlyWhiteSpace(c) {
			return false
		}
	}
	return true
}

// isAnonymousChain: used by onlyWhiteSpace — every box below must belong to the same owner
func isAnonymousChain(b bo.Box) bool {
	for _, c := range children(b) {
		if ownerKey(c) != ownerKey(b) {
			return false
		}
	}
	return true
}

// checkAnonymous: anonymous boxes are supplied once per run of consecutive misplaced children
// (CSS 2.1 §9.2.1.1, §17.2.1 rules 2.x/3.x: "any sequence of consecutive children"), never one per
// child, and never for white space alone (§17.2.1 rules 1.3/1.4).
func (m *monitor) checkAnonymous(b bo.Box, k kind, kids []bo.Box) {
	for i, c := range kids {
		ck := kindOf(c)
		if !isAnon(c, b) {
			continue
		}
		if ck == kCell && k == kRow {
			m.res.Count("anonymous_cells", 1)
			if onlyWhiteSpace(c) {
				m.fail("anonymous-cell-from-white-space", "child %d of %s is an anonymous cell holding only white space (CSS 2.1 §17.2.1 rules 1.3/1.4: such white space generates no box)", i, desc(b))
				return
			}
		}
		if i == 0 || !isAnon(kids[i-1], b) || kindOf(kids[i-1]) != ck {
			continue
		}
		switch {
		case ck == kCell && k == kRow:
			m.fail("anonymous-not-merged", "children %d and %d of %s are two adjacent anonymous cells; consecutive misplaced children share one anonymous box", i-1, i, desc(b))
			return
		case c.Box().IsTableWrapper && kids[i-1].Box().IsTableWrapper && !b.Box().IsTableWrapper:
			m.fail("anonymous-not-merged", "children %d and %d of %s are two adjacent anonymous tables; consecutive misplaced table parts share one anonymous table", i-1, i, desc(b))
			return
		case ck == kBlock && isBlockContainerKind(k) && soleLine(c) && soleLine(kids[i-1]) && !boxOutOfFlow(c) && !boxOutOfFlow(kids[i-1]):
			m.fail("anonymous-not-merged", "children %d and %d of %s are two adjacent anonymous blocks each holding a line box; consecutive inline-level children share one line box", i-1, i, desc(b))
			return
		}
	}
}

func soleLine(b bo.Box) bool {
	ks := children(b)
	return len(ks) == 1 && kindOf(ks[0]) == kLine && !b.Box().IsTableWrapper && b.Box().PseudoType != "marker"
}

// checkCall: b is a ::footnote-call box (css-gcpm-3 §2.5), met in the main tree or in a footnote
// area; e is the model's element of b.  The call links the footnote box (BoxFields.Footnote), which
// must be the box of a rendered footnote element and be listed in the footnotes output of
// BuildFormattingStructure (layout finds it there by identity).
func (m *monitor) checkCall(b bo.Box, k kind, e *einfo) bool {
	fb := b.Box().Footnote
	fe := m.info(fb.Box().Element)
	if fe == nil {
		m.fail("provenance-unknown-element", "%s links the footnote box %s of an element that is not a rendered element of the document", desc(b), desc(fb))
		return false
	}
	if !fe.shown {
		sig := "provenance-none"
		if strings.Contains(fe.why, "replaced") {
			sig = "provenance-replaced-child"
		} else if strings.Contains(fe.why, "17.2.1") {
			sig = "provenance-column-child"
		}
		m.fail(sig, "%s and the footnote box %s are generated for element n%d (float %q, footnote-display %q), which must generate no box: %s\n  footnote box: %s", desc(b), desc(fb), fe.n.ID, fe.n.Float, fe.n.FD, fe.why, dump(fb))
		return false
	}
	if !fe.footnote {
		m.fail("footnote-of-non-footnote", "%s links %s, but n%d is not a footnote element (float %q, position %q)", desc(b), desc(fb), fe.n.ID, fe.n.Float, fe.n.Pos)
		return false
	}
	// the call is a pseudo-element of the footnote element; webrender attaches it to the parent element
	switch e {
	case fe:
	case fe.parent:
		m.res.Count("footnote_calls_on_parent_element", 1)
	default:
		m.fail("ancestry", "%s is the call of footnote element n%d but belongs to n%d", desc(b), fe.n.ID, e.n.ID)
		return false
	}
	if k != kInline {
		m.fail("footnote-call-kind", "%s: the ::footnote-call of n%d is not an inline box (UA sheet: display inline)", desc(b), fe.n.ID)
		return false
	}
	listed := false
	for _, l := range m.b.foot {
		if l == fb {
			listed = true
		}
	}
	if !listed {
		m.fail("footnote-not-listed", "%s links the footnote box %s, which is not in the footnotes list returned by BuildFormattingStructure", desc(b), desc(fb))
		return false
	}
	m.calls[fe.n.ID]++
	m.res.Count("footnote_calls", 1)
	if m.inArea {
		m.res.Count("footnote_calls_nested", 1)
	}
	if !m.reached[fb] {
		m.reached[fb] = true
		m.pending = append(m.pending, fb)
	}
	return true
}

// walkFootnotes forms the footnote area the way layout does (layoutContext.updateFootnoteArea:
// CreateAnonymousBox over a deep copy of a block box whose children are the footnote boxes, here
// an anonymous block of the root box) and walks it with all the clauses; calls met inside a
// footnote (nested footnotes) give a further area.
func (m *monitor) walkFootnoteAreas() {
	if len(m.pending) > 0 && m.areaDepth < 64 {
		m.areaDepth++
		batch := map[bo.Box]bool{}
		for _, fb := range m.pending {
			batch[fb] = true
		}
		m.pending = nil
		var kids []bo.Box
		for _, fb := range m.b.foot { // document order of the footnotes list
			if batch[fb] {
				kids = append(kids, bo.Deepcopy(fb))
				batch[fb] = false
			}
		}
		area := bo.CreateAnonymousBox(bo.BlockBoxAnonymousFrom(m.b.root, kids))
		m.areas = append(m.areas, area)
		if !m.prescanRunning(area) {
			return
		}
		m.res.Count("footnote_areas", 1)
		m.res.Count("footnotes_walked", int64(len(kids)))
		m.inArea = true
		m.walk(area, nil)
		m.inArea = false
		if m.res.Verdict == fw.Violation {
			return
		}
	}
}

// checkFootnoteList: every entry of the footnotes output is accounted for.
func (m *monitor) checkFootnoteList() {
	// list entries no call leads to: never laid out.  webrender leaves them for footnote elements
	// whose call was removed with its parent's content (children of replaced elements, §17.2.1
	// rules 1.1/1.2); counted.  One for a display:none element is a box of a display:none subtree.
	for i, fb := range m.b.foot {
		if m.reached[fb] {
			continue
		}
		fe := m.info(fb.Box().Element)
		switch {
		case fe == nil:
			m.fail("provenance-unknown-element", "entry %d of the footnotes list, %s, belongs to no rendered element", i, desc(fb))
			return
		case fe.shown:
			m.fail("footnote-without-call", "entry %d of the footnotes list, %s, is the footnote of the rendered element n%d but no ::footnote-call box of the tree links it", i, desc(fb), fe.n.ID)
			return
		case strings.Contains(fe.why, "replaced") || strings.Contains(fe.why, "17.2.1"):
			m.res.Count("footnotes_listed_without_call", 1)
		default:
			m.fail("provenance-none", "entry %d of the footnotes list, %s, is generated for element n%d, which must generate no box: %s", i, desc(fb), fe.n.ID, fe.why)
			return
		}
	}
}

// boxRunning: the box's own computed position is running() (css-gcpm-3 §1.2).
func boxRunning(b bo.Box) bool {
	st := b.Box().Style
	return st != nil && st.GetPosition().Bool
}

// walkRunning forms the content of every running element met so far the way layout does when
// `content: element(name)` places it in a page margin box (boxes.ContentToBoxes: Deepcopy of the box,
// position set to static; layout.makeMarginBoxes: CreateAnonymousBox over the margin box, a block
// container -- here an anonymous block of the root box) and walks it with all the clauses.  Running
// elements met inside give further areas.
func (m *monitor) walkRunning() {
	for len(m.runPending) > 0 && m.runDepth < 4096 {
		m.runDepth++
		pb := m.runPending[0]
		m.runPending = m.runPending[1:]
		e := m.info(pb.Box().Element)
		cp := bo.Deepcopy(pb)
		cp.Box().Style = cp.Box().Style.Copy() // (layout sets the shared style; the copy keeps the observed tree as it was)
		cp.Box().Style.SetPosition(pr.BoolString{String: "static"})
		area := bo.CreateAnonymousBox(bo.BlockBoxAnonymousFrom(m.b.root, []bo.Box{cp}))
		m.areas = append(m.areas, area)
		m.res.Count("running_areas", 1)
		inArea := m.inArea
		m.inArea = false
		m.curRun = map[int]bool{e.n.ID: true}
		m.skipTop = nil
		if m.runInner[pb] {
			m.skipTop = cp
		}
		if !m.prescanRunning(area) {
			return
		}
		m.walk(area, nil)
		m.curRun, m.skipTop = nil, nil
		m.inArea = inArea
		if m.res.Verdict == fw.Violation {
			return
		}
	}
}

// prescanRunning looks, before a tree is walked, for a running element that stands in it in several
// pieces.  A running box is a placeholder: the anonymous-box passes must leave it whole.  webrender
// (known open finding F-C09-running-inline-split-by-block, own signature) lets BlockInInline split a
// running *inline* box around a block-level box inside it: the block lands in the flow with its
// content unformed, the running element is kept in two halves.  The signature is only used when the
// model says that the element is a running inline element holding an in-flow block-level box.
func (m *monitor) prescanRunning(tree bo.Box) bool {
	count := map[*einfo]int{}
	var order []*einfo
	var rec func(b bo.Box)
	rec = func(b bo.Box) {
		if boxRunning(b) {
			if e := m.info(b.Box().Element); e != nil && b.Box().PseudoType == "" {
				if count[e] == 0 {
					order = append(order, e)
				}
				count[e]++
			}
			return
		}
		if t, ok := tableOf(b); ok {
			for _, g := range t.ColumnGroups {
				rec(g)
			}
		}
		for _, c := range children(b) {
			rec(c)
		}
	}
	rec(tree)
	for _, e := range order {
		if count[e] > 1 && e.running && kindForDisplay(e.cd) == kInline && !e.replaced && m.blockInInline(e) {
			if tree != m.b.root {
				m.areas = append(m.areas, tree)
			}
			m.fail("running-inline-split-by-block", "the running inline element n%d (display %s, position %q) stands in the tree as %d boxes: it was split around the in-flow block-level box inside it, which now stands in the flow (a running element is a placeholder, formed only where it is placed)", e.n.ID, e.cd, e.n.Pos, count[e])
			return false
		}
	}
	return true
}

// blockInInline: the model's inline element e holds, directly or through in-flow inline elements, an
// in-flow block-level box (element or ::before/::after).
func (m *monitor) blockInInline(e *einfo) bool {
	blockish := func(d string) bool {
		switch d {
		case "block", "list-item", "flow-root", "table", "flex", "grid":
			return true
		case "inline-table", "table-caption":
			// nothing inside a running box has been through the table fix-up: a bare (inline) table box
			// or caption box is there, and webrender classes both as block-level
			return true
		}
		return false
	}
	for _, p := range []*Pseudo{e.n.Before, e.n.After} {
		if pseudoShown(e, p, m.rootNone) && p.Float == "" && blockish(pseudoDisplay(p)) {
			return true
		}
	}
	for _, k := range m.list {
		if k.parent != e || !k.shown || isOutOfFlow(k.n) || k.footnote {
			continue
		}
		// (a running block-level child is out of flow; a running inline child is descended into like
		// any inline box -- the same missing test)
		if (blockish(k.cd) && !k.running) || (kindForDisplay(k.cd) == kInline && !k.replaced && m.blockInInline(k)) {
			return true
		}
	}
	return false
}
