package c19

// "noise" cases: a generated rule set whose CSS text additionally contains constructs that, by
// CSS Syntax / Counter Styles 3, do not change what the rules define — an overridden earlier
// declaration, an invalid declaration (ignored alone), a rule that does not define a style (the
// earlier definition stays), a rule with a name that cannot be defined.  The reference evaluates the
// clean AST; the real code parses the noisy text (css/validation/descriptors.go, tree/style.go).

import (
	"math/rand"
	"strings"
)

// descriptor name of a printed declaration
func declName(d string) string { return strings.TrimSpace(d[:strings.Index(d, ":")]) }

// alternative valid values (for an earlier declaration that the later one overrides)
var altValid = map[string][]string{
	"system":           {"system: numeric", "system: cyclic", "system: fixed 7"},
	"symbols":          {`symbols: "Q" "R" "S"`, `symbols: Q`},
	"additive-symbols": {`additive-symbols: 7 "Q", 3 "R"`},
	"negative":         {`negative: "~"`, `negative: "{" "}"`},
	"prefix":           {`prefix: "{{"`},
	"suffix":           {`suffix: "}}"`},
	"range":            {"range: 100 200", "range: auto", "range: 1 2, 5 6"},
	"pad":              {`pad: 9 "z"`},
	"fallback":         {"fallback: lower-roman", "fallback: nope"},
}

// invalid declarations (ignored wherever they stand)
var invalidDecl = map[string][]string{
	"system":           {"system: fixed 1.5", "system: foo", "system: cyclic numeric", "system: extends", "system: extends a b"},
	"symbols":          {`symbols: 1 "Q"`, "symbols: ", `symbols: , "R"`, `symbols: "Q" 1 "R"`, `symbols: "Q", "R"`},
	"additive-symbols": {`additive-symbols: "Q" "R"`, `additive-symbols: -1 "Q"`, `additive-symbols: 5 "Q" 1 "R"`, `additive-symbols: 1 "Q", 5 "R"`, `additive-symbols: 5 "Q", 5 "R"`},
	"negative":         {`negative: "Q" "R" "S"`, "negative: 1", "negative: "},
	"prefix":           {`prefix: "Q" "R"`, "prefix: 1"},
	"suffix":           {`suffix: "Q" "R"`, "suffix: 1"},
	"range":            {"range: 5 1", "range: 1", "range: auto, 1 2", "range: 1.5 3", "range: 1 2 3", "range: 1 3, 9 7"},
	"pad":              {`pad: -1 "Q"`, "pad: 2", `pad: "Q"`, `pad: 1.5 "Q"`, `pad: 2 "Q" "R"`},
	"fallback":         {"fallback: none", "fallback: a b", "fallback: 1 2", `fallback: "Q"`},
}

// knownDefectNoise: noise constructs with an open finding (notes/C19.md), not generated.  F15 (list
// descriptors accumulate / keep a valid head), F16 (invalid prefix/suffix/fallback erases the valid
// one), F17 (circle, square, disclosure-* overridable), F19 (extends with symbols accepted) were
// repaired in /repo and are generated again.
var knownDefectNoise = map[string]string{
	"single-additive-tuple": "F18 additive style with one tuple rejected (open)",
}

var noiseKinds = []string{"override-earlier", "invalid-after", "invalid-before", "invalid-absent", "unknown-descriptor", "important", "undefining-rule-after", "overridden-rule-before", "reserved-name-rule", "single-additive-tuple"}

// applyNoise prints the rule set with one noise construct; it returns the CSS and the tag
// ("kind:descriptor").  defs is not modified except for "single-additive-tuple".
func applyNoise(r *rand.Rand, defs []StyleDef, kind string) (css string, tag string) {
	target := r.Intn(len(defs))
	var rules []string
	tag = kind
	for i := range defs {
		s := &defs[i]
		if i != target {
			rules = append(rules, cssRule(r, s))
			continue
		}
		if kind == "single-additive-tuple" {
			*s = StyleDef{Name: s.Name, System: "additive", Additive: []AddSym{{W: 1 + int64(r.Intn(3)), S: "Q"}}, Suffix: s.Suffix, Pad: s.Pad}
		}
		ds := cssDecls(r, s)
		r.Shuffle(len(ds), func(a, b int) { ds[a], ds[b] = ds[b], ds[a] })
		pickPresent := func() (int, string) {
			k := r.Intn(len(ds))
			return k, declName(ds[k])
		}
		insert := func(at int, d string) {
			ds = append(ds[:at], append([]string{d}, ds[at:]...)...)
		}
		switch kind {
		case "override-earlier":
			k, name := pickPresent()
			alts := altValid[name]
			insert(r.Intn(k+1), alts[r.Intn(len(alts))])
			tag += ":" + name
		case "invalid-after":
			k, name := pickPresent()
			inv := invalidDecl[name]
			insert(k+1+r.Intn(len(ds)-k), inv[r.Intn(len(inv))])
			tag += ":" + name
		case "invalid-before":
			k, name := pickPresent()
			inv := invalidDecl[name]
			insert(r.Intn(k+1), inv[r.Intn(len(inv))])
			tag += ":" + name
		case "invalid-absent":
			present := map[string]bool{}
			for _, d := range ds {
				present[declName(d)] = true
			}
			var cands []string
			for _, name := range []string{"negative", "prefix", "suffix", "range", "pad", "fallback"} {
				if !present[name] {
					cands = append(cands, name)
				}
			}
			if len(cands) == 0 {
				tag = ""
				break
			}
			name := cands[r.Intn(len(cands))]
			inv := invalidDecl[name]
			insert(r.Intn(len(ds)+1), inv[r.Intn(len(inv))])
			tag += ":" + name
		case "unknown-descriptor":
			insert(r.Intn(len(ds)+1), []string{"foo: bar", "speak-as: bullets", "symbol: a b", "color: red", "-x-pad: 3 a"}[r.Intn(5)])
		case "important":
			k, name := pickPresent()
			alts := altValid[name]
			insert(k+1+r.Intn(len(ds)-k), alts[r.Intn(len(alts))]+" !important")
			tag += ":" + name
		}
		rule := cssRuleText(r, s.Name, ds)
		switch kind {
		case "undefining-rule-after":
			bad := []string{
				"{ system: alphabetic; symbols: Q }", "{ system: numeric; symbols: Q }", "{ system: cyclic }", "{ system: fixed; pad: 2 Q }", "{ }",
				"{ system: additive }", "{ system: extends decimal; symbols: Q R }", `{ system: extends decimal; additive-symbols: 2 Q, 1 R }`, "{ system: symbolic; suffix: Q }",
			}
			k := r.Intn(len(bad))
			rule += "\n@counter-style " + s.Name + " " + bad[k]
			tag += ":" + []string{"alphabetic-1", "numeric-1", "cyclic-0", "fixed-0", "empty", "additive-0", "extends+symbols", "extends+additive", "symbolic-0"}[k]
		case "overridden-rule-before":
			rule = "@counter-style " + s.Name + ` { system: numeric; symbols: "Q" "R"; pad: 9 "z"; prefix: "{{"; suffix: "}}"; negative: "~"; range: 100 200; fallback: lower-roman }` + "\n" + rule
		case "reserved-name-rule":
			names := []string{"none", "decimal", "disc", "circle", "square", "disclosure-open", "disclosure-closed", "NONE", "Decimal"}
			k := r.Intn(len(names))
			rule += "\n@counter-style " + names[k] + ` { system: cyclic; symbols: "Q"; suffix: "}}" }`
			tag += ":" + strings.ToLower(names[k])
		}
		rules = append(rules, rule)
	}
	return strings.Join(rules, "\n"), tag
}
