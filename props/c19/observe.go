package c19

import (
	"fmt"
	"strings"

	"golang.org/x/net/html"

	"github.com/benoitkugler/webrender/css/counters"
	pr "github.com/benoitkugler/webrender/css/properties"
	bo "github.com/benoitkugler/webrender/html/boxes"
	"github.com/benoitkugler/webrender/html/tree"
	"github.com/benoitkugler/webrender/images"
	"github.com/benoitkugler/webrender/utils"

	"verif/internal/wr"
)

// built is what one pass of the real code (HTML parse -> cascade -> box generation) gives.
type built struct {
	CS       counters.CounterStyle // UA styles + the document's @counter-style rules
	Root     bo.Box                // nil when only the styles were compiled
	DOM      *html.Node            // the parsed <html> element
	Warnings []string
}

// compile runs the real pipeline on a document.  With boxes=false it stops after the cascade, which
// is enough to compile the @counter-style rules of the document into the CounterStyle map.
func compile(doc string, hints, boxes bool) (*built, error) {
	done := wr.CaptureWarnings()
	out := &built{}
	defer func() { out.Warnings = done() }()
	h, err := tree.NewHTML(utils.InputString(doc), "mem://doc/", wr.MemFetcher(nil), "")
	if err != nil {
		return out, err
	}
	out.DOM = (*html.Node)(h.Root)
	cs := make(counters.CounterStyle)
	tc := tree.NewTargetCollector()
	sf := tree.GetAllComputedStyles(h, nil, hints, nil, cs, nil, &tc, false, nil)
	out.CS = cs
	if !boxes {
		return out, nil
	}
	fetchImg := func(url string, forced string, orientation pr.SBoolFloat) images.Image {
		return images.GetImageFromUri(images.NewCache(), h.UrlFetcher, false, url, forced, orientation)
	}
	root := bo.BuildFormattingStructure(h.Root, sf, bo.URLResolver{Fetch: h.UrlFetcher, FetchImage: fetchImg}, h.BaseUrl, &tc, cs, new([]bo.Box))
	out.Root = root
	return out, nil
}

// pseudoTexts walks the box tree and returns, for every (element id, pseudo type) pair that has a
// box, the concatenated text of its descendant text boxes, one entry per box found.
func pseudoTexts(root bo.Box) map[string][]string {
	out := map[string][]string{}
	var walk func(b bo.Box)
	walk = func(b bo.Box) {
		f := b.Box()
		if f.Element != nil && f.PseudoType != "" {
			if id := attr(f.Element, "id"); id != "" {
				key := id + "::" + f.PseudoType
				out[key] = append(out[key], boxText(b))
				return
			}
		}
		for _, c := range f.Children {
			walk(c)
		}
	}
	walk(root)
	return out
}

func boxText(b bo.Box) string {
	if t, ok := b.(*bo.TextBox); ok {
		return t.TextS()
	}
	var sb strings.Builder
	for _, c := range b.Box().Children {
		sb.WriteString(boxText(c))
	}
	return sb.String()
}

func attr(n *html.Node, name string) string {
	for _, a := range n.Attr {
		if a.Key == name {
			return a.Val
		}
	}
	return ""
}

func dumpBoxes(b bo.Box, indent string, sb *strings.Builder) {
	f := b.Box()
	fmt.Fprintf(sb, "%s%T %s", indent, b, f.ElementTag())
	if t, ok := b.(*bo.TextBox); ok {
		fmt.Fprintf(sb, " %q", t.TextS())
	}
	sb.WriteString("\n")
	for _, c := range f.Children {
		dumpBoxes(c, indent+"  ", sb)
	}
}
