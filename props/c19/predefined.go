package c19

// The predefined counter styles of CSS Counter Styles Level 3 §7 ("Simple predefined counter
// styles") re-typed as reference descriptors.  Nothing here is read from /repo/html/tree/html5_ua.css:
// digit sets are generated from the Unicode zero digit of each script, Armenian from the alphabet's
// code-point order, the CJK additive styles from digit × unit tables, the rest typed from the
// specification.

import "strings"

func sp(s string) *string { return &s }
func ip(v int64) *int64   { return &v }

func rng(lo, hi int64) *RangeDef { return &RangeDef{Ranges: [][2]Bound{{{V: lo}, {V: hi}}}} }

func runesOf(s string) []string {
	var out []string
	for _, r := range s {
		out = append(out, string(r))
	}
	return out
}

func digitsFrom(zero rune) []string {
	out := make([]string, 10)
	for i := range out {
		out[i] = string(zero + rune(i))
	}
	return out
}

// additive tuples from 36 consecutive letters valued 1..9, 10..90, 100..900, 1000..9000
func alphabetNumerals(first rune) []AddSym {
	var out []AddSym
	mult := []int64{1000, 100, 10, 1}
	for mi, m := range mult {
		for d := int64(9); d >= 1; d-- {
			idx := int64(3-mi)*9 + d - 1
			out = append(out, AddSym{W: d * m, S: string(first + rune(idx))})
		}
	}
	return out
}

// additive tuples of the Japanese / Korean styles: digit d in {1..9} × unit in {thousand, hundred,
// ten, one}; dropOne: the digit 1 is omitted in front of a unit (informal styles).
func cjkAdditive(digits, units []string, zero string, dropOne bool) []AddSym {
	var out []AddSym
	mult := []int64{1000, 100, 10}
	for mi, m := range mult {
		for d := 9; d >= 1; d-- {
			s := digits[d-1] + units[mi]
			if d == 1 && dropOne {
				s = units[mi]
			}
			out = append(out, AddSym{W: int64(d) * m, S: s})
		}
	}
	for d := 9; d >= 1; d-- {
		out = append(out, AddSym{W: int64(d), S: digits[d-1]})
	}
	out = append(out, AddSym{W: 0, S: zero})
	return out
}

func roman(upper bool) []AddSym {
	t := []AddSym{{1000, "m"}, {900, "cm"}, {500, "d"}, {400, "cd"}, {100, "c"}, {90, "xc"}, {50, "l"}, {40, "xl"}, {10, "x"}, {9, "ix"}, {5, "v"}, {4, "iv"}, {1, "i"}}
	if upper {
		for i := range t {
			t[i].S = strings.ToUpper(t[i].S)
		}
	}
	return t
}

func georgian() []AddSym {
	// weights 10000 … 1 with their Mkhedruli letters (code points as listed in the specification)
	cps := []struct {
		w  int64
		cp rune
	}{
		{10000, 0x10F5}, {9000, 0x10F0}, {8000, 0x10EF}, {7000, 0x10F4}, {6000, 0x10EE}, {5000, 0x10ED}, {4000, 0x10EC}, {3000, 0x10EB}, {2000, 0x10EA}, {1000, 0x10E9},
		{900, 0x10E8}, {800, 0x10E7}, {700, 0x10E6}, {600, 0x10E5}, {500, 0x10E4}, {400, 0x10F3}, {300, 0x10E2}, {200, 0x10E1}, {100, 0x10E0},
		{90, 0x10DF}, {80, 0x10DE}, {70, 0x10DD}, {60, 0x10F2}, {50, 0x10DC}, {40, 0x10DB}, {30, 0x10DA}, {20, 0x10D9}, {10, 0x10D8},
		{9, 0x10D7}, {8, 0x10F1}, {7, 0x10D6}, {6, 0x10D5}, {5, 0x10D4}, {4, 0x10D3}, {3, 0x10D2}, {2, 0x10D1}, {1, 0x10D0},
	}
	var out []AddSym
	for _, c := range cps {
		out = append(out, AddSym{c.w, string(c.cp)})
	}
	return out
}

func hebrew() []AddSym {
	geresh := "׳"
	units := runesOf("אבגדהוזחט") // 1..9
	tens := runesOf("יכלמנסעפצ")  // 10..90
	hundreds := runesOf("קרשת")   // 100..400
	var out []AddSym
	for d := 10; d >= 1; d-- { // 10000 … 1000: letter + geresh
		l := "י"
		if d < 10 {
			l = units[d-1]
		}
		out = append(out, AddSym{int64(d) * 1000, l + geresh})
	}
	for d := 4; d >= 1; d-- {
		out = append(out, AddSym{int64(d) * 100, hundreds[d-1]})
	}
	for d := 9; d >= 2; d-- {
		out = append(out, AddSym{int64(d) * 10, tens[d-1]})
	}
	out = append(out, AddSym{19, "יט"}, AddSym{18, "יח"}, AddSym{17, "יז"}, AddSym{16, "טז"}, AddSym{15, "טו"}, AddSym{10, "י"})
	for d := 9; d >= 1; d-- {
		out = append(out, AddSym{int64(d), units[d-1]})
	}
	return out
}

// glyphUADefined lists the styles whose symbol is "expected to be drawn by the UA with a suitable
// graphic"; the code point below is an approximation the specification does not mandate.
var glyphUADefined = map[string]bool{"disc": true, "circle": true, "square": true, "disclosure-open": true, "disclosure-closed": true}

var predefined []StyleDef

func numericScript(name string, zero rune) StyleDef {
	return StyleDef{Name: name, System: "numeric", Symbols: digitsFrom(zero)}
}

func init() {
	cyc := func(name, sym string) StyleDef {
		return StyleDef{Name: name, System: "cyclic", Symbols: []string{sym}, Suffix: sp(" ")}
	}
	alpha := func(name, syms string, suffix *string) StyleDef {
		return StyleDef{Name: name, System: "alphabetic", Symbols: runesOf(syms), Suffix: suffix}
	}
	ext := func(name, of string) StyleDef { return StyleDef{Name: name, System: "extends", Extends: of} }
	ideoComma := sp("、")
	jaDigits := runesOf("一二三四五六七八九")
	predefined = []StyleDef{
		cyc("disc", "•"), cyc("circle", "◦"), cyc("square", "▪"), cyc("disclosure-open", "▾"), cyc("disclosure-closed", "▸"),
		{Name: "decimal", System: "numeric", Symbols: digitsFrom('0')},
		{Name: "decimal-leading-zero", System: "extends", Extends: "decimal", Pad: &PadDef{2, "0"}},
		numericScript("arabic-indic", 0x0660), numericScript("bengali", 0x09E6), numericScript("cambodian", 0x17E0), ext("khmer", "cambodian"),
		numericScript("devanagari", 0x0966), numericScript("gujarati", 0x0AE6), numericScript("gurmukhi", 0x0A66), numericScript("kannada", 0x0CE6),
		numericScript("lao", 0x0ED0), numericScript("malayalam", 0x0D66), numericScript("mongolian", 0x1810), numericScript("myanmar", 0x1040),
		numericScript("oriya", 0x0B66), numericScript("persian", 0x06F0), numericScript("tamil", 0x0BE6), numericScript("telugu", 0x0C66),
		numericScript("thai", 0x0E50), numericScript("tibetan", 0x0F20),
		{Name: "cjk-decimal", System: "numeric", Range: &RangeDef{Ranges: [][2]Bound{{{V: 0}, {Inf: true}}}}, Symbols: append([]string{"〇"}, jaDigits...), Suffix: ideoComma},
		{Name: "armenian", System: "additive", Range: rng(1, 9999), Additive: alphabetNumerals(0x0531)},
		ext("upper-armenian", "armenian"),
		{Name: "lower-armenian", System: "additive", Range: rng(1, 9999), Additive: alphabetNumerals(0x0561)},
		{Name: "georgian", System: "additive", Range: rng(1, 19999), Additive: georgian()},
		{Name: "hebrew", System: "additive", Range: rng(1, 10999), Additive: hebrew()},
		{Name: "lower-roman", System: "additive", Range: rng(1, 3999), Additive: roman(false)},
		{Name: "upper-roman", System: "additive", Range: rng(1, 3999), Additive: roman(true)},
		alpha("lower-alpha", "abcdefghijklmnopqrstuvwxyz", nil), ext("lower-latin", "lower-alpha"),
		alpha("upper-alpha", "ABCDEFGHIJKLMNOPQRSTUVWXYZ", nil), ext("upper-latin", "upper-alpha"),
		alpha("lower-greek", "αβγδεζηθικλμνξοπρστυφχψω", nil),
		alpha("cjk-earthly-branch", "子丑寅卯辰巳午未申酉戌亥", ideoComma),
		alpha("cjk-heavenly-stem", "甲乙丙丁戊己庚辛壬癸", ideoComma),
		alpha("hiragana", "あいうえおかきくけこさしすせそたちつてとなにぬねのはひふへほまみむめもやゆよらりるれろわゐゑをん", ideoComma),
		alpha("hiragana-iroha", "いろはにほへとちりぬるをわかよたれそつねならむうゐのおくやまけふこえてあさきゆめみしゑひもせす", ideoComma),
		alpha("katakana", "アイウエオカキクケコサシスセソタチツテトナニヌネノハヒフヘホマミムメモヤユヨラリルレロワヰヱヲン", ideoComma),
		alpha("katakana-iroha", "イロハニホヘトチリヌルヲワカヨタレソツネナラムウヰノオクヤマケフコエテアサキユメミシヱヒモセス", ideoComma),
		{Name: "japanese-informal", System: "additive", Range: rng(-9999, 9999), Additive: cjkAdditive(jaDigits, []string{"千", "百", "十"}, "〇", true),
			Suffix: ideoComma, Negative: &[2]string{"マイナス", ""}, Fallback: sp("cjk-decimal")},
		{Name: "japanese-formal", System: "additive", Range: rng(-9999, 9999), Additive: cjkAdditive(runesOf("壱弐参四伍六七八九"), []string{"阡", "百", "拾"}, "零", false),
			Suffix: ideoComma, Negative: &[2]string{"マイナス", ""}, Fallback: sp("cjk-decimal")},
		{Name: "korean-hangul-formal", System: "additive", Range: rng(-9999, 9999), Additive: cjkAdditive(runesOf("일이삼사오육칠팔구"), []string{"천", "백", "십"}, "영", false),
			Suffix: sp(", "), Negative: &[2]string{"마이너스 ", ""}},
		{Name: "korean-hanja-informal", System: "additive", Range: rng(-9999, 9999), Additive: cjkAdditive(jaDigits, []string{"千", "百", "十"}, "零", true),
			Suffix: sp(", "), Negative: &[2]string{"마이너스 ", ""}},
		{Name: "korean-hanja-formal", System: "additive", Range: rng(-9999, 9999), Additive: cjkAdditive(runesOf("壹貳參四五六七八九"), []string{"仟", "百", "拾"}, "零", false),
			Suffix: sp(", "), Negative: &[2]string{"마이너스 ", ""}},
	}
}
