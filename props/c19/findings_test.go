package c19

import (
	"encoding/json"
	"os"
	"path/filepath"
	"strings"
	"testing"

	"verif/internal/fw"
)

// findingWitnesses builds one minimal case input per recorded finding (notes/C19.md).
func findingWitnesses() map[string]c19In {
	st := func(css string, defs []StyleDef, name string, vs ...int64) c19In {
		return c19In{Kind: "styles", CSS: css, Defs: defs, Eval: []evalSet{{Name: name, Values: vs}}}
	}
	neg := func(a, b string) *[2]string { return &[2]string{a, b} }
	treeCase := func(body *Node, hints bool) c19In {
		return c19In{Kind: "tree", Tree: &treeIn{HTML: treeHTML(body), Body: body, Hints: hints}}
	}
	li := func(id string, p CProps) *Node {
		return &Node{ID: id, Tag: "li", Props: p, Before: &CProps{}, ListType: "decimal"}
	}
	out := map[string]c19In{
		"F01-cyclic-nonpositive-panic": st(`@counter-style s0 { system: cyclic; symbols: a b c }`,
			[]StyleDef{{Name: "s0", System: "cyclic", Symbols: []string{"a", "b", "c"}}}, "s0", 1, 3, 4, 0, -1),
		"F02-additive-zero-weight-panic": st(`@counter-style s0 { system: additive; additive-symbols: 5 V, 0 N }`,
			[]StyleDef{{Name: "s0", System: "additive", Additive: []AddSym{{5, "V"}, {0, "N"}}}}, "s0", 0, 5, 10, 1),
		"F03-negative-descriptor-reversed": st(`@counter-style s0 { system: extends decimal; negative: "(" ")" }`,
			[]StyleDef{{Name: "s0", System: "extends", Extends: "decimal", Negative: neg("(", ")")}}, "s0", 2, -2),
		"F04-extends-undefined-drops-descriptors": st(`@counter-style s0 { system: extends nope; pad: 3 "0" }`,
			[]StyleDef{{Name: "s0", System: "extends", Extends: "nope", Pad: &PadDef{3, "0"}}}, "s0", 7),
		"F05-pad-counts-bytes": st(`@counter-style s0 { system: extends arabic-indic; pad: 3 "٠" }`,
			[]StyleDef{{Name: "s0", System: "extends", Extends: "arabic-indic", Pad: &PadDef{3, "٠"}}}, "s0", 7),
		"F06-large-integers-rounded-to-float32": {Kind: "styles", Doc: []evalSet{{Name: "decimal", Values: []int64{16777216, 16777217}}}},
		"F07-korean-negative-two-spaces":        {Kind: "predef", Name: "korean-hangul-formal", From: -3, To: 3},
		"F08-range-infinite-lower-bound-rejected": st(`@counter-style s0 { system: cyclic; symbols: a b; range: infinite 3 }`,
			[]StyleDef{{Name: "s0", System: "cyclic", Symbols: []string{"a", "b"}, Range: &RangeDef{Ranges: [][2]Bound{{{Inf: true}, {V: 3}}}}}}, "s0", 1, 2, 3, 4, 5),
		"F09-fallback-gets-absolute-value": st(`@counter-style s0 { system: additive; additive-symbols: 5 V, 2 II; range: -10 10 }`,
			[]StyleDef{{Name: "s0", System: "additive", Additive: []AddSym{{5, "V"}, {2, "II"}}, Range: rng(-10, 10)}}, "s0", 7, -7, 1, -1),
		"F10-extends-into-cycle-drops-descriptors": st("@counter-style s0 { system: extends s1; prefix: \"A\" }\n@counter-style s1 { system: extends s1; pad: 3 \"0\" }",
			[]StyleDef{{Name: "s0", System: "extends", Extends: "s1", Prefix: sp("A")}, {Name: "s1", System: "extends", Extends: "s1", Pad: &PadDef{3, "0"}}}, "s0", 7),
		"F11-empty-marker-text-panics": {Kind: "styles", Anon: []anonUse{{Type: "string", Symbols: []string{""}, Values: []int64{1}}}},
		"F12-fallback-to-extended-style-taken-for-loop": st("@counter-style s0 { system: fixed; symbols: a; fallback: s1 }\n@counter-style s1 { system: extends s2; range: 1 1; fallback: s2 }\n@counter-style s2 { system: cyclic; symbols: x y }",
			[]StyleDef{{Name: "s0", System: "fixed", Symbols: []string{"a"}, Fallback: sp("s1")}, {Name: "s1", System: "extends", Extends: "s2", Range: rng(1, 1), Fallback: sp("s2")}, {Name: "s2", System: "cyclic", Symbols: []string{"x", "y"}}}, "s0", 1, 2, 3),
		"F13-counter-set-applied-before-increment": treeCase(&Node{ID: "e1", Tag: "body", Children: []*Node{{ID: "e2", Tag: "ol", Children: []*Node{
			li("e3", CProps{}), li("e4", CProps{Set: []CVal{{Name: "list-item", V: ip(7)}}}), li("e5", CProps{})}}}}, false),
		"F14-li-value-attribute-ignored": treeCase(&Node{ID: "e1", Tag: "body", Children: []*Node{{ID: "e2", Tag: "ol", Children: []*Node{
			li("e3", CProps{}), {ID: "e4", Tag: "li", Before: &CProps{}, ListType: "decimal", Value: ip(7)}, li("e5", CProps{})}}}}, true),
		"F15-list-descriptors-accumulate": func() c19In {
			c := st(`@counter-style s0 { system: cyclic; symbols: "Q" "R"; symbols: a b c }`,
				[]StyleDef{{Name: "s0", System: "cyclic", Symbols: []string{"a", "b", "c"}}}, "s0", 1, 2, 3, 4)
			c.Noise = "override-earlier:symbols"
			return c
		}(),
		"F15-invalid-list-keeps-valid-head": func() c19In {
			c := st(`@counter-style s0 { system: cyclic; symbols: a b c; range: 1 3, 9 7 }`,
				[]StyleDef{{Name: "s0", System: "cyclic", Symbols: []string{"a", "b", "c"}}}, "s0", 1, 2, 3, 4, 5)
			c.Noise = "invalid-after:range"
			return c
		}(),
		"F16-invalid-prefix-erases-valid-one": func() c19In {
			c := st(`@counter-style s0 { system: cyclic; symbols: a b c; prefix: "("; prefix: "Q" "R" }`,
				[]StyleDef{{Name: "s0", System: "cyclic", Symbols: []string{"a", "b", "c"}, Prefix: sp("(")}}, "s0", 1, 2)
			c.Noise = "invalid-after:prefix"
			return c
		}(),
		"F16-invalid-fallback-erases-valid-one": func() c19In {
			c := st(`@counter-style s0 { system: fixed; symbols: a b; fallback: lower-roman; fallback: "Q" }`,
				[]StyleDef{{Name: "s0", System: "fixed", Symbols: []string{"a", "b"}, Fallback: sp("lower-roman")}}, "s0", 1, 2, 3)
			c.Noise = "invalid-after:fallback"
			return c
		}(),
		"F17-circle-square-disclosure-overridable": func() c19In {
			c := st(`@counter-style circle { system: cyclic; symbols: "Q"; suffix: "}}" }`, nil, "circle", 1, 2)
			c.Noise = "reserved-name-rule:circle"
			return c
		}(),
		"F18-additive-single-tuple-rejected": func() c19In {
			c := st(`@counter-style s0 { system: additive; additive-symbols: 1 "I" }`,
				[]StyleDef{{Name: "s0", System: "additive", Additive: []AddSym{{1, "I"}}}}, "s0", 1, 2, 3)
			c.Noise = "single-additive-tuple"
			return c
		}(),
		"F19-extends-with-symbols-accepted": func() c19In {
			c := st(`@counter-style s0 { system: extends lower-alpha; symbols: Q R }`, nil, "s0", 1, 2, 3)
			c.Noise = "undefining-rule-after:extends+symbols"
			return c
		}(),
	}
	return out
}

// openFindings: not repaired in /repo (known_findings.json status "open"); all others are fixed.
var openFindings = []string{"F06-", "F07-", "F10-", "F12-", "F18-"}

// TestFindingWitnesses: the witness of every open finding must be a violation of the oracle, the
// witness of every repaired finding must pass.  With C19_WRITE_FINDINGS=1 the witness files of the
// open findings under /verif/findings/C19 are (re)written.
func TestFindingWitnesses(t *testing.T) {
	write := os.Getenv("C19_WRITE_FINDINGS") != ""
	for name, in := range findingWitnesses() {
		open := false
		for _, p := range openFindings {
			open = open || strings.HasPrefix(name, p)
		}
		raw, _ := json.Marshal(in)
		var res fw.Result
		func() {
			defer func() {
				if p := recover(); p != nil {
					res.Fail("panic", "panic: "+strings.SplitN(strings.TrimSpace(toString(p)), "\n", 2)[0])
				}
			}()
			res = check(raw)
		}()
		if !open {
			if res.Verdict == fw.Violation {
				t.Errorf("%s: repaired finding fails again: %s", name, res.Msg)
			}
			continue
		}
		if res.Verdict != fw.Violation {
			t.Errorf("%s: witness is not a violation (verdict %q %s)", name, res.Verdict, res.Msg)
			continue
		}
		t.Logf("%s: %s: %.300s", name, res.Sig, res.Msg)
		if write {
			w := fw.Witness{Property: "C19", Sig: res.Sig, Msg: res.Msg, Input: raw}
			b, _ := json.MarshalIndent(w, "", " ")
			if err := os.WriteFile(filepath.Join(fw.Root(), "findings", "C19", name+".json"), append(b, '\n'), 0o644); err != nil {
				t.Fatal(err)
			}
		}
	}
}

func toString(p any) string {
	if e, ok := p.(error); ok {
		return e.Error()
	}
	if s, ok := p.(string); ok {
		return s
	}
	b, _ := json.Marshal(p)
	return string(b)
}
