package c19

import (
	"fmt"
	"math/rand"
	"sort"
	"strings"

	"golang.org/x/net/html"

	"verif/internal/fw"
)

type treeIn struct {
	HTML  string `json:"html"`
	Body  *Node  `json:"body"`
	Hints bool   `json:"hints,omitempty"`
	// ReportOnly: the tree contains a list item whose counter-increment is declared without
	// mentioning list-item (CSS Lists 3 still increments list-item implicitly; the WeasyPrint lineage
	// does not).  Disagreements of such a case are reported, not verdicts.
	ReportOnly bool `json:"report_only,omitempty"`
}

const pseudoContent = `"[" counters(c,".") "|" counter(d) "|" counters(list-item,".") "|" counters(c,"/",upper-alpha) "|" counter(d,lower-roman) "]"`

// ---- HTML text of an AST -------------------------------------------------------------------------

func cssCounterProp(name string, vals []CVal, none bool) string {
	if none {
		return name + ":none"
	}
	if vals == nil {
		return ""
	}
	var p []string
	for _, c := range vals {
		if c.V != nil {
			p = append(p, fmt.Sprintf("%s %d", c.Name, *c.V))
		} else {
			p = append(p, c.Name)
		}
	}
	return name + ":" + strings.Join(p, " ")
}

func cssProps(p CProps) []string {
	var out []string
	for _, d := range []string{
		cssCounterProp("counter-reset", p.Reset, p.ResetNone),
		cssCounterProp("counter-increment", p.Incr, p.IncrNone),
		cssCounterProp("counter-set", p.Set, false),
	} {
		if d != "" {
			out = append(out, d)
		}
	}
	return out
}

func treeHTML(body *Node) string {
	var css, sb strings.Builder
	css.WriteString(".k::before,.a::after{content:" + pseudoContent + ";white-space:pre}\n")
	var walk func(n *Node)
	walk = func(n *Node) {
		var cls []string
		if n.Before != nil {
			cls = append(cls, "k")
			if d := cssProps(*n.Before); len(d) > 0 {
				fmt.Fprintf(&css, "#%s::before{%s}\n", n.ID, strings.Join(d, ";"))
			}
		}
		if n.After != nil {
			cls = append(cls, "a")
			if d := cssProps(*n.After); len(d) > 0 {
				fmt.Fprintf(&css, "#%s::after{%s}\n", n.ID, strings.Join(d, ";"))
			}
		}
		decls := cssProps(n.Props)
		if n.Display != "" {
			decls = append(decls, "display:"+n.Display)
		}
		if n.ListType != "" {
			decls = append(decls, "list-style-type:"+n.ListType)
		}
		fmt.Fprintf(&sb, "<%s id=%s", n.Tag, n.ID)
		if len(cls) > 0 {
			fmt.Fprintf(&sb, " class=\"%s\"", strings.Join(cls, " "))
		}
		if len(decls) > 0 {
			fmt.Fprintf(&sb, " style=\"%s\"", strings.Join(decls, ";"))
		}
		if n.Start != nil {
			fmt.Fprintf(&sb, " start=%d", *n.Start)
		}
		if n.Value != nil {
			fmt.Fprintf(&sb, " value=%d", *n.Value)
		}
		sb.WriteString(">")
		if len(n.Children) == 0 {
			sb.WriteString("t")
		}
		for _, c := range n.Children {
			walk(c)
		}
		fmt.Fprintf(&sb, "</%s>", n.Tag)
	}
	walk(body)
	return "<!DOCTYPE html><html><head><style>\n" + css.String() + "</style></head>" + sb.String() + "</html>"
}

// ---- generator -----------------------------------------------------------------------------------

var treeListTypes = []string{"decimal", "decimal", "decimal-leading-zero", "lower-alpha", "upper-alpha", "lower-roman", "upper-roman", "lower-greek", "georgian", "hebrew", "cjk-decimal", "lower-armenian", "none"}

type treeGen struct {
	r          *rand.Rand
	n          int
	max        int
	reportOnly bool
}

func (g *treeGen) cvals(names []string, lo, hi int, optional bool) []CVal {
	var out []CVal
	used := map[string]bool{}
	k := 1
	if g.r.Intn(4) == 0 {
		k = 2
	}
	for i := 0; i < k; i++ {
		name := names[g.r.Intn(len(names))]
		if used[name] && g.r.Intn(3) != 0 {
			continue
		}
		used[name] = true
		c := CVal{Name: name}
		if !optional || g.r.Intn(3) != 0 {
			c.V = ip(int64(lo + g.r.Intn(hi-lo+1)))
		}
		out = append(out, c)
	}
	return out
}

func names(list ...[]CVal) map[string]bool {
	out := map[string]bool{}
	for _, l := range list {
		for _, c := range l {
			out[c.Name] = true
		}
	}
	return out
}

// props draws counter properties.  listItem: the element is a list item (then counter-increment,
// when declared, mentions list-item — except in report-only cases).  A name may be both incremented
// and set on one element (order reset, increment, set: finding F13, repaired).
func (g *treeGen) props(listItem bool, freq int) CProps {
	r := g.r
	var p CProps
	pool := []string{"c", "c", "c", "d", "d", "list-item"}
	if r.Intn(100) < 30*freq/10 {
		p.Reset = g.cvals(pool, -5, 12, true)
	} else if r.Intn(60) == 0 {
		p.ResetNone = true
	}
	if r.Intn(100) < 40*freq/10 {
		p.Incr = g.cvals(pool, -3, 5, true)
		if listItem && !names(p.Incr)["list-item"] {
			if g.reportOnly && r.Intn(2) == 0 {
				// left as is: explicit increment without list-item
			} else {
				p.Incr = append(p.Incr, CVal{Name: "list-item", V: ip(int64(r.Intn(4) - 1))})
			}
		}
	} else if g.reportOnly && listItem && r.Intn(6) == 0 {
		p.IncrNone = true
	}
	if r.Intn(100) < 12*freq/10 {
		p.Set = g.cvals(pool, -5, 30, true)
	}
	return p
}

func (g *treeGen) node(tag string, depth int) *Node {
	r := g.r
	g.n++
	n := &Node{ID: fmt.Sprintf("e%d", g.n), Tag: tag}
	switch k := r.Intn(100); {
	case k < 6 && tag != "body":
		n.Display = "none"
	case k < 12 && tag != "li" && tag != "body":
		n.Display = "list-item"
	case k < 16 && tag != "body":
		n.Display = "inline-block"
	case k < 20 && tag == "span":
		n.Display = "block"
	case k < 23 && tag == "li":
		n.Display = "block"
	}
	li := n.isListItem()
	n.Props = g.props(li, 10)
	if li {
		n.ListType = treeListTypes[r.Intn(len(treeListTypes))]
	}
	if tag == "li" && r.Intn(8) == 0 {
		n.Value = ip(int64(r.Intn(30) - 5)) // <li value> (finding F14, repaired): a hint, used when hints are on
	}
	if tag == "ol" && !li && n.Props.Reset == nil && !n.Props.ResetNone && n.Props.Incr == nil && n.Props.Set == nil && r.Intn(4) == 0 {
		n.Start = ip(int64(r.Intn(25) - 4))
	}
	if r.Intn(10) < 9 {
		p := CProps{}
		if r.Intn(6) == 0 {
			p = g.props(false, 10)
		}
		n.Before = &p
	}
	if r.Intn(4) == 0 {
		p := CProps{}
		if r.Intn(4) == 0 {
			p = g.props(false, 10)
		}
		n.After = &p
	}
	if depth >= 5 {
		return n
	}
	nk := r.Intn(5)
	if depth == 0 {
		nk = 2 + r.Intn(4)
	}
	for i := 0; i < nk && g.n < g.max; i++ {
		var ct string
		switch tag {
		case "ol", "ul":
			ct = "li"
			if r.Intn(12) == 0 {
				ct = "div"
			}
		case "span":
			ct = []string{"span", "span", "div"}[r.Intn(3)]
		default:
			ct = []string{"div", "div", "span", "ol", "ol", "ul", "section"}[r.Intn(7)]
		}
		n.Children = append(n.Children, g.node(ct, depth+1))
	}
	return n
}

func genTreeCase(r *rand.Rand) any {
	g := &treeGen{r: r, max: 6 + r.Intn(25), reportOnly: r.Intn(25) == 0}
	body := g.node("body", 0)
	t := &treeIn{Body: body, Hints: r.Intn(2) == 0, ReportOnly: g.reportOnly}
	t.HTML = treeHTML(body)
	return c19In{Kind: "tree", Tree: t}
}

// ---- check ---------------------------------------------------------------------------------------

// domParents maps the id of every element of the parsed document to the id of its parent.
func domParents(root *html.Node) map[string]string {
	out := map[string]string{}
	var walk func(n *html.Node, parent string)
	walk = func(n *html.Node, parent string) {
		id := parent
		if n.Type == html.ElementNode {
			if v := attr(n, "id"); v != "" {
				out[v] = parent
				id = v
			}
		}
		for c := n.FirstChild; c != nil; c = c.NextSibling {
			walk(c, id)
		}
	}
	walk(root, "")
	return out
}

func checkTree(t *treeIn, res *fw.Result) {
	if t == nil || t.Body == nil {
		res.Verdict = fw.Inconclusive
		res.Msg = "empty tree case"
		return
	}
	b, err := compile(t.HTML, t.Hints, true)
	if err != nil {
		res.Verdict = fw.Inconclusive
		res.Msg = err.Error()
		return
	}
	// the parsed document must have the generator's shape (the HTML parser may restructure)
	parents := domParents(b.DOM)
	nElems := 0
	var shapeErr string
	var walk func(n *Node, parent string)
	walk = func(n *Node, parent string) {
		nElems++
		if p, ok := parents[n.ID]; !ok || p != parent {
			shapeErr = fmt.Sprintf("element %s: parent in the parsed document is %q, generated %q", n.ID, p, parent)
		}
		for _, c := range n.Children {
			walk(c, n.ID)
		}
	}
	walk(t.Body, "")
	if shapeErr != "" || nElems != len(parents) {
		res.Verdict = fw.Inconclusive
		res.Msg = "generator: " + shapeErr
		return
	}
	m := runListsModel(t.Body, t.Hints)
	env := NewEnv(nil)
	got := pseudoTexts(b.Root)
	fail := func(sig, msg string) {
		if t.ReportOnly {
			res.Reports = append(res.Reports, "li-explicit-increment:"+sig)
			return
		}
		res.Fail(sig, msg)
	}
	compared := 0
	for _, key := range sortedKeys(m.texts) {
		exp := m.texts[key]
		g := got[key]
		if len(g) != 1 || g[0] != exp {
			fail("counter-text", fmt.Sprintf("%s is %q, CSS Lists model gives %q; document: %s", key, g, exp, t.HTML))
			break
		}
		compared++
	}
	markers := 0
	listType := map[string]string{}
	var collect func(n *Node)
	collect = func(n *Node) {
		listType[n.ID+"::marker"] = n.ListType
		for _, c := range n.Children {
			collect(c)
		}
	}
	collect(t.Body)
	for _, key := range sortedKeys(m.marker) {
		v := m.marker[key]
		exp := env.Marker(listType[key], v, nil)
		g := got[key]
		if len(g) != 1 || g[0] != exp {
			fail("marker-text", fmt.Sprintf("%s is %q, expected %q (list-item = %d, list-style-type %s); document: %s", key, g, exp, v, listType[key], t.HTML))
			break
		}
		markers++
	}
	// no pseudo-element box for an element of a display:none subtree, none unexpected
	for _, key := range sortedKeys(got) {
		_, a := m.texts[key]
		_, c := m.marker[key]
		if !a && !c {
			fail("unexpected-pseudo", fmt.Sprintf("box %s exists but the element generates no such pseudo-element; document: %s", key, t.HTML))
			break
		}
	}
	if t.ReportOnly {
		res.Count("tree_report_only_cases", 1)
		return
	}
	res.Count("tree_texts_compared", int64(compared))
	res.Count("tree_markers_compared", int64(markers))
	for k, v := range m.stats {
		res.Count(k, v)
	}
	res.Nontrivial = compared > 0 && (m.stats["tree_nested_counters"] > 0 || m.stats["tree_sibling_replaced"] > 0)
}

func sortedKeys[V any](m map[string]V) []string {
	out := make([]string, 0, len(m))
	for k := range m {
		out = append(out, k)
	}
	sort.Strings(out)
	return out
}
