package c19

import (
	"fmt"
	"math/rand"
	"strings"

	"verif/internal/fw"
)

// knownDefectTrace lists evaluation-path features with a recorded finding (see notes/C19.md): the
// generator drops the (style, integer) pairs whose reference evaluation goes through one of them.
// The oracle itself (check) knows nothing of this list.
var knownDefectTrace = map[string]string{
	// F01 cyclic<=0, F02 additive-zero-weight-reached, F03 negative-2sym, F04 extends-undefined,
	// F05 pad-nonascii, F08 range-inf-lower, F09 neg-algorithm-failed were repaired in /repo and are
	// generated again.
	"extends-into-cycle":            "F10 extends-into-cycle-drops-descriptors (open)",
	"fallback-extends-interference": "F12 fallback-and-extends-share-one-visited-set (open)",
}

func hitsKnown(tr Trace, table map[string]string) bool {
	for k := range tr {
		if _, ok := table[k]; ok {
			return true
		}
	}
	return false
}

// maxDocInt bounds the integers written in declarations of generated documents (finding F06, open).
const maxDocInt = 1 << 24

// genNoiseCase: a rule set printed with one construct that must not change its meaning (noise.go).
func genNoiseCase(r *rand.Rand) any {
	o := genOpts{asciiOnly: r.Intn(3) != 0}
	for {
		defs := genStyles(r, o)
		kind := noiseKinds[r.Intn(len(noiseKinds))]
		css, tag := applyNoise(r, defs, kind)
		if _, known := knownDefectNoise[tag]; tag == "" || known {
			continue
		}
		in, ok := finishStylesCase(r, o, defs, css, false)
		if !ok {
			continue
		}
		in.Noise = tag
		if strings.HasPrefix(tag, "reserved-name-rule") {
			for _, n := range []string{"decimal", "disc", "circle", "square", "disclosure-open", "disclosure-closed"} {
				in.Eval = append(in.Eval, evalSet{Name: n, Values: []int64{1, 2, 3, 10, 11}})
			}
		}
		return in
	}
}

func genStylesCase(r *rand.Rand) any {
	o := genOpts{asciiOnly: r.Intn(3) != 0}
	for {
		defs := genStyles(r, o)
		var css []string
		for i := range defs {
			css = append(css, cssRule(r, &defs[i]))
		}
		if in, ok := finishStylesCase(r, o, defs, strings.Join(css, "\n"), true); ok {
			return in
		}
	}
}

// finishStylesCase picks what is evaluated: every defined name and an undefined one × the integer
// list, minus the pairs whose reference evaluation goes through a feature with a recorded finding.
func finishStylesCase(r *rand.Rand, o genOpts, defs []StyleDef, css string, withDoc bool) (c19In, bool) {
	{
		env := NewEnv(defs)
		in := c19In{Kind: "styles", Defs: defs, CSS: css}
		values := genValues(r)
		names := []string{}
		for i := range defs {
			names = append(names, defs[i].Name)
		}
		names = append(names, "nope")
		for _, name := range names {
			es := evalSet{Name: name}
			for _, v := range values {
				tr := Trace{}
				env.Represent(name, v, tr)
				if hitsKnown(tr, knownDefectTrace) {
					continue
				}
				es.Values = append(es.Values, v)
			}
			if len(es.Values) > 0 {
				in.Eval = append(in.Eval, es)
			}
		}
		if len(in.Eval) == 0 {
			return in, false
		}
		if !withDoc {
			return in, true
		}
		// a sample through documents
		for _, es := range in.Eval {
			if r.Intn(2) == 0 || len(in.Doc) == 0 {
				ds := evalSet{Name: es.Name}
				for k := 0; k < 40 && len(ds.Values) < 6; k++ {
					// F06 (open): integers beyond ±2^24 in a declaration are rounded to float32 precision
					if v := es.Values[r.Intn(len(es.Values))]; v >= -maxDocInt && v <= maxDocInt {
						ds.Values = append(ds.Values, v)
					}
				}
				in.Doc = append(in.Doc, ds)
			}
		}
		// symbols() and <string> styles
		for k := r.Intn(3); k > 0; k-- {
			a := anonUse{Type: []string{"", "cyclic", "numeric", "alphabetic", "symbolic", "fixed", "string"}[r.Intn(7)]}
			n := 1 + r.Intn(4)
			if a.Type == "alphabetic" || a.Type == "numeric" {
				n = 2 + r.Intn(3)
			}
			if a.Type == "string" {
				n = 1
			}
			a.Symbols = distinctSyms(r, n, o.asciiOnly)
			cand := []int64{-7, -1, 0, 1, 2, 3, 4, 5, 6, 9, 10, 11, 17, 26, 27, 100, 1000, 65536}
			var e *effective
			if a.Type != "string" {
				e = SymbolsFn(a.Type, a.Symbols)
			}
			for len(a.Values) < 7 {
				v := cand[r.Intn(len(cand))]
				if e != nil {
					tr := Trace{}
					env.RepresentAnon(e, v, tr)
					if hitsKnown(tr, knownDefectTrace) {
						continue
					}
				}
				a.Values = append(a.Values, v)
			}
			in.Anon = append(in.Anon, a)
		}
		return in, true
	}
}

func checkStyles(in *c19In, res *fw.Result) {
	defer func() {
		if res.Verdict == fw.Violation && in.Noise != "" && !strings.HasPrefix(res.Sig, "noise-") {
			res.Sig = "noise-" + in.Noise
			res.Msg = "[rule text contains a construct that must not change its meaning: " + in.Noise + "] " + res.Msg
		}
	}()
	env := NewEnv(in.Defs)
	doc, expect := stylesDoc(in, env)
	b, err := compile(doc, false, true)
	if err != nil {
		res.Verdict = fw.Inconclusive
		res.Msg = err.Error()
		return
	}
	nontrivial := false
	for _, es := range in.Eval {
		if compareStyle(res, env, b.CS, in.CSS, es.Name, es.Values) {
			nontrivial = true
		}
		if res.Verdict == fw.Violation {
			return
		}
	}
	// document path
	texts := pseudoTexts(b.Root)
	for _, e := range expect {
		if e.skip {
			continue
		}
		got := texts[e.key]
		if len(got) != 1 || got[0] != e.text {
			res.Fail("doc-"+e.what, fmt.Sprintf("document path: %s of %s is %q, reference %q (%s); document: %s", e.key, e.what, got, e.text, e.why, doc))
			return
		}
		res.Count(e.counter, 1)
	}
	res.Nontrivial = nontrivial
	if in.Noise != "" {
		res.Count("noise_cases", 1)
		res.Count("noise_"+strings.SplitN(in.Noise, ":", 2)[0], 1)
	}
}

type docExpect struct {
	key, text, what, why, counter string
	skip                          bool
}

// stylesDoc builds the document exercising the styles of the case through content: counter() /
// counters() and ::marker, and the expected pseudo-element texts.
func stylesDoc(in *c19In, env Env) (string, []docExpect) {
	var css, body strings.Builder
	var exp []docExpect
	css.WriteString(in.CSS)
	css.WriteString("\np::before{white-space:pre}\n")
	for k, ds := range in.Doc {
		fmt.Fprintf(&css, ".n%d::before{content:counter(c,%s) \"|\" counters(c,\"/\",%s)}\n.m%d{list-style-type:%s}\n", k, ds.Name, ds.Name, k, ds.Name)
		body.WriteString("<ul>")
		for j, v := range ds.Values {
			tr := Trace{}
			r := env.Represent(ds.Name, v, tr)
			skip := tr["huge"] || tr["undefined"]
			if skip {
				continue // not executed at all: the real code would have to build the same huge string
			}
			fmt.Fprintf(&body, "<p id=p%d_%d class=n%d style=\"counter-reset:c %d\">x</p>", k, j, k, v)
			fmt.Fprintf(&body, "<li id=l%d_%d class=m%d style=\"counter-reset:list-item %d;counter-increment:list-item 0\">x</li>", k, j, k, v)
			exp = append(exp, docExpect{key: fmt.Sprintf("p%d_%d::before", k, j), text: r + "|" + r, what: "counter()", why: fmt.Sprintf("style %s value %d", ds.Name, v), counter: "doc_texts_compared", skip: skip})
			exp = append(exp, docExpect{key: fmt.Sprintf("l%d_%d::marker", k, j), text: env.Marker(ds.Name, v, nil), what: "marker", why: fmt.Sprintf("list-style-type %s value %d", ds.Name, v), counter: "doc_markers_compared", skip: skip})
		}
		body.WriteString("</ul>")
	}
	for k, a := range in.Anon {
		var e *effective
		var spec string
		if a.Type == "string" {
			spec = cssString(a.Symbols[0])
		} else {
			var parts []string
			if a.Type != "" {
				parts = append(parts, a.Type)
			}
			for _, s := range a.Symbols {
				parts = append(parts, cssString(s))
			}
			spec = "symbols(" + strings.Join(parts, " ") + ")"
			e = SymbolsFn(a.Type, a.Symbols)
		}
		if a.Type != "string" {
			fmt.Fprintf(&css, ".an%d::before{content:counter(c,%s)}\n", k, spec)
		}
		fmt.Fprintf(&css, ".am%d{list-style-type:%s}\n", k, spec)
		body.WriteString("<ul>")
		for j, v := range a.Values {
			var r, m string
			skip := false
			if a.Type == "string" {
				m = a.Symbols[0]
			} else {
				tr := Trace{}
				r = env.RepresentAnon(e, v, tr)
				m = env.MarkerAnon(e, v, nil)
				skip = tr["huge"] || tr["undefined"]
				if skip {
					continue
				}
				fmt.Fprintf(&body, "<p id=ap%d_%d class=an%d style=\"counter-reset:c %d\">x</p>", k, j, k, v)
				exp = append(exp, docExpect{key: fmt.Sprintf("ap%d_%d::before", k, j), text: r, what: "counter(symbols())", why: fmt.Sprintf("%s value %d", spec, v), counter: "anon_compared", skip: skip})
			}
			fmt.Fprintf(&body, "<li id=al%d_%d class=am%d style=\"counter-reset:list-item %d;counter-increment:list-item 0\">x</li>", k, j, k, v)
			exp = append(exp, docExpect{key: fmt.Sprintf("al%d_%d::marker", k, j), text: m, what: "marker(symbols()/string)", why: fmt.Sprintf("%s value %d", spec, v), counter: "anon_compared", skip: skip})
		}
		body.WriteString("</ul>")
	}
	return "<style>" + css.String() + "</style><body>" + body.String(), exp
}
