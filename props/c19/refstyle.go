package c19

// Reference model of CSS Counter Styles Level 3: "generate a counter representation" (§2), the
// counter algorithms (§3.1: cyclic, fixed, symbolic, alphabetic, numeric, additive, extends) and the
// descriptors negative / prefix / suffix / range / pad / fallback (§3.2–§3.7), symbols() (§6).
// Written from the specification text; shares no code with /repo.  All arithmetic is on int64 with
// mathematical (floored) modulo.

import (
	"strings"
	"unicode/utf8"
)

// Bound of a range: a finite integer or "infinite" (negative infinity as a lower bound, positive
// infinity as an upper bound).
type Bound struct {
	Inf bool  `json:"inf,omitempty"`
	V   int64 `json:"v,omitempty"`
}

// RangeDef is the range descriptor.
type RangeDef struct {
	Auto   bool       `json:"auto,omitempty"`
	Ranges [][2]Bound `json:"ranges,omitempty"`
}

// AddSym is one additive tuple.
type AddSym struct {
	W int64  `json:"w"`
	S string `json:"s"`
}

// PadDef is the pad descriptor.
type PadDef struct {
	N int64  `json:"n"`
	S string `json:"s"`
}

// StyleDef is the generator-side AST of one @counter-style rule (nil pointer / nil slice = the
// descriptor is absent).
type StyleDef struct {
	Name     string     `json:"name"`
	System   string     `json:"system,omitempty"` // "" = descriptor absent (symbolic)
	First    *int64     `json:"first,omitempty"`  // fixed <integer>
	Extends  string     `json:"extends,omitempty"`
	Symbols  []string   `json:"symbols,omitempty"`
	Additive []AddSym   `json:"additive,omitempty"`
	Negative *[2]string `json:"negative,omitempty"`
	Prefix   *string    `json:"prefix,omitempty"`
	Suffix   *string    `json:"suffix,omitempty"`
	Range    *RangeDef  `json:"range,omitempty"`
	Pad      *PadDef    `json:"pad,omitempty"`
	Fallback *string    `json:"fallback,omitempty"`
}

func (s *StyleDef) system() string {
	if s.System == "" {
		return "symbolic"
	}
	return s.System
}

// Env is a set of defined counter styles, by name.
type Env map[string]*StyleDef

// nonOverridable names cannot be (re)defined by an @counter-style rule (§3 "counter-style-name").
var nonOverridable = map[string]bool{"decimal": true, "disc": true, "square": true, "circle": true, "disclosure-open": true, "disclosure-closed": true}

// definesStyle reports whether a rule defines a counter style (§3, §3.8).
func definesStyle(s *StyleDef) bool {
	if strings.EqualFold(s.Name, "none") || nonOverridable[strings.ToLower(s.Name)] {
		return false
	}
	switch s.system() {
	case "cyclic", "fixed", "symbolic":
		return len(s.Symbols) >= 1
	case "alphabetic", "numeric":
		return len(s.Symbols) >= 2
	case "additive":
		if len(s.Additive) < 1 {
			return false
		}
		for i := 1; i < len(s.Additive); i++ {
			if s.Additive[i-1].W <= s.Additive[i].W {
				return false
			}
		}
		return s.Additive[len(s.Additive)-1].W >= 0
	case "extends":
		return s.Symbols == nil && s.Additive == nil && s.Extends != ""
	}
	return false
}

// NewEnv builds the environment: the predefined styles, then the author rules in order (the last
// rule that defines a style wins).
func NewEnv(author []StyleDef) Env {
	env := Env{}
	for i := range predefined {
		env[predefined[i].Name] = &predefined[i]
	}
	for i := range author {
		if definesStyle(&author[i]) {
			env[author[i].Name] = &author[i]
		}
	}
	return env
}

// effective is a style with its extends chain resolved: a concrete algorithm and every descriptor
// either specified somewhere on the chain or at its initial value.
type effective struct {
	system   string
	first    int64
	symbols  []string
	additive []AddSym
	negative [2]string
	prefix   string
	suffix   string
	rng      RangeDef
	pad      PadDef
	fallback string
}

// inExtendsCycle reports whether following the extends chain from name returns to name.
func (env Env) inExtendsCycle(name string) bool {
	seen := map[string]bool{}
	cur := name
	for {
		s := env[cur]
		if s == nil || s.system() != "extends" {
			return false
		}
		cur = s.Extends
		if cur == name {
			return true
		}
		if seen[cur] {
			return false // reaches a cycle it is not part of
		}
		seen[cur] = true
	}
}

// resolve returns the effective style of name (nil if no such style is defined).
func (env Env) resolve(name string) *effective {
	s := env[name]
	if s == nil {
		return nil
	}
	var base *effective
	if s.system() == "extends" {
		target := s.Extends
		if env[target] == nil || env.inExtendsCycle(name) {
			target = "decimal" // §3.1.7: unknown name or extends cycle -> as if extending decimal
		}
		base = env.resolve(target)
	} else {
		first := int64(1)
		if s.First != nil {
			first = *s.First
		}
		base = &effective{
			system: s.system(), first: first, symbols: s.Symbols, additive: s.Additive,
			negative: [2]string{"-", ""}, prefix: "", suffix: ". ", rng: RangeDef{Auto: true}, pad: PadDef{0, ""}, fallback: "decimal",
		}
	}
	out := *base
	if s.Negative != nil {
		out.negative = *s.Negative
	}
	if s.Prefix != nil {
		out.prefix = *s.Prefix
	}
	if s.Suffix != nil {
		out.suffix = *s.Suffix
	}
	if s.Range != nil {
		out.rng = *s.Range
	}
	if s.Pad != nil {
		out.pad = *s.Pad
	}
	if s.Fallback != nil {
		out.fallback = *s.Fallback
	}
	return &out
}

func (e *effective) inRange(v int64) bool {
	if e.rng.Auto || len(e.rng.Ranges) == 0 {
		switch e.system {
		case "alphabetic", "symbolic":
			return v >= 1
		case "additive":
			return v >= 0
		}
		return true // cyclic, numeric, fixed: negative infinity to positive infinity
	}
	for _, r := range e.rng.Ranges {
		lo := r[0].Inf || r[0].V <= v
		hi := r[1].Inf || v <= r[1].V
		if lo && hi {
			return true
		}
	}
	return false
}

func (e *effective) usesNegative() bool {
	switch e.system {
	case "symbolic", "alphabetic", "numeric", "additive":
		return true
	}
	return false
}

const hugeLimit = 10000

func floorMod(a, n int64) int64 {
	m := a % n
	if m < 0 {
		m += n
	}
	return m
}

func absI(v int64) int64 {
	if v < 0 {
		return -v
	}
	return v
}

// clusters counts the grapheme clusters of s.  The generators only emit symbols made of code points
// that are each one cluster (no combining marks, no joiners), so this is the number of code points.
func clusters(s string) int64 { return int64(utf8.RuneCountInString(s)) }

// initialRepr runs the counter algorithm on a non-negative-or-any value (the caller already took
// the absolute value where the style uses a negative sign).  ok=false: the algorithm cannot
// represent the value (fixed out of its symbols, additive remainder) -> fallback.
// Representations of more than hugeLimit symbols are not built: the trace gets "huge" and the caller
// leaves the value out (webrender would have to build the same multi-megabyte string).
func (e *effective) initialRepr(v int64, tr Trace) (repr string, ok bool) {
	n := int64(len(e.symbols))
	switch e.system {
	case "cyclic":
		return e.symbols[floorMod(v-1, n)], true
	case "fixed":
		i := v - e.first
		if i < 0 || i >= n {
			return "", false
		}
		return e.symbols[i], true
	case "symbolic":
		// value >= 1 is guaranteed by the range (auto range starts at 1; an explicit range that
		// admits smaller values is outside what the algorithm defines)
		if v < 1 {
			return "", false
		}
		sym := e.symbols[floorMod(v-1, n)]
		if (v+n-1)/n > hugeLimit {
			tr.add("huge")
			return "", true
		}
		return strings.Repeat(sym, int((v+n-1)/n)), true
	case "alphabetic":
		if v < 1 {
			return "", false
		}
		var parts []string
		for v != 0 {
			v--
			parts = append(parts, e.symbols[v%n])
			v /= n
		}
		return joinReversed(parts), true
	case "numeric":
		if v == 0 {
			return e.symbols[0], true
		}
		var parts []string
		for v != 0 {
			parts = append(parts, e.symbols[v%n])
			v /= n
		}
		return joinReversed(parts), true
	case "additive":
		if v == 0 {
			for _, t := range e.additive {
				if t.W == 0 {
					return t.S, true
				}
			}
		}
		var sb strings.Builder
		for _, t := range e.additive {
			if v <= 0 {
				break
			}
			if t.W == 0 {
				tr.add("additive-zero-weight-reached")
				continue // a zero weight adds nothing to a positive value
			}
			k := v / t.W
			if k > hugeLimit {
				tr.add("huge")
				return "", true
			}
			for ; k > 0; k-- {
				sb.WriteString(t.S)
			}
			v %= t.W
		}
		if v == 0 {
			return sb.String(), true
		}
		return "", false
	}
	return "", false
}

func joinReversed(parts []string) string {
	var sb strings.Builder
	for i := len(parts) - 1; i >= 0; i-- {
		sb.WriteString(parts[i])
	}
	return sb.String()
}

// Trace records which parts of the algorithms one evaluation went through (evidence counters, and
// the generator's filter for feature combinations with a recorded finding).
type Trace map[string]bool

func (t Trace) add(k string) {
	if t != nil {
		t[k] = true
	}
}

// Represent is "generate a counter representation" for the style called name.
func (env Env) Represent(name string, v int64, tr Trace) string {
	return env.represent(env.resolve(name), name, v, map[string]bool{}, tr)
}

func (env Env) represent(e *effective, name string, v int64, visited map[string]bool, tr Trace) string {
	if e == nil { // step 1: unknown style -> decimal
		tr.add("unknown-style")
		return env.represent(env.resolve("decimal"), "decimal", v, visited, tr)
	}
	// extendsChain lists the names a style extends, transitively.
	extendsChain := func(n string) []string {
		var out []string
		for cur, k := env[n], 0; cur != nil && cur.system() == "extends" && k < 16; cur, k = env[cur.Extends], k+1 {
			out = append(out, cur.Extends)
		}
		return out
	}
	if name != "" {
		if len(visited) > 0 && tr != nil {
			// Feature detection only (finding F12): keys "\x00"+n emulate the single set in which the
			// code under test records both the styles of the fallback chain (except the first) and
			// every style they extend.
			visited["\x00"+name] = true
			for _, n := range extendsChain(name) {
				visited["\x00"+n] = true
			}
		}
		visited[name] = true
		if tr != nil {
			for k := range env.chainFeatures(name) {
				tr.add(k)
			}
		}
	}
	fallback := func() string {
		fb := e.fallback
		depth := 0
		for k := range visited {
			if !strings.HasPrefix(k, "\x00") {
				depth++
			}
		}
		if env[fb] != nil && tr != nil {
			if !visited[fb] && visited["\x00"+fb] {
				tr.add("fallback-extends-interference")
			}
			if !visited["\x00"+fb] {
				for _, n := range extendsChain(fb) {
					if visited["\x00"+n] {
						tr.add("fallback-extends-interference")
					}
				}
			}
		}
		if env[fb] == nil {
			tr.add("fallback-undefined")
			fb = "decimal"
		} else if visited[fb] { // a fallback loop -> decimal
			tr.add("fallback-loop")
			fb = "decimal"
		}
		if depth >= 2 {
			tr.add("fallback-chain>=2")
		}
		return env.represent(env.resolve(fb), fb, v, visited, tr)
	}
	for _, b := range e.rng.Ranges {
		if !e.rng.Auto && b[0].Inf {
			tr.add("range-inf-lower")
		}
	}
	if !e.inRange(v) { // step 2
		tr.add("out-of-range")
		return fallback()
	}
	neg := v < 0 && e.usesNegative()
	av := v
	if neg {
		av = -v
	}
	if (e.system == "symbolic" || e.system == "alphabetic") && av == 0 {
		// "defined only over strictly positive counter values": an explicit range admitting 0 leaves
		// the result unspecified
		tr.add("undefined")
	}
	tr.add("sys-" + e.system)
	if e.system == "cyclic" && v <= 0 {
		tr.add("cyclic<=0")
	}
	repr, ok := e.initialRepr(av, tr) // step 3
	if !ok {
		tr.add("algorithm-failed")
		if neg {
			tr.add("neg-algorithm-failed")
		}
		return fallback()
	}
	diff := e.pad.N - clusters(repr) // step 4
	bdiff := e.pad.N - int64(len(repr))
	if neg {
		diff -= clusters(e.negative[0]) + clusters(e.negative[1])
		bdiff -= int64(len(e.negative[0]) + len(e.negative[1]))
	}
	if (diff > 0 || bdiff > 0) && diff != bdiff {
		tr.add("pad-nonascii")
	}
	if diff > 0 {
		tr.add("padded")
		if neg {
			tr.add("padded-negative")
		}
		repr = strings.Repeat(e.pad.S, int(diff)) + repr
	}
	if neg { // step 5
		tr.add("negative-sign")
		if e.negative[1] != "" {
			tr.add("negative-2sym")
		}
		repr = e.negative[0] + repr + e.negative[1]
	}
	return repr
}

// Marker is the text of a list marker: prefix and suffix of the *specified* style around the
// representation (even when the representation came from a fallback style).
func (env Env) Marker(name string, v int64, tr Trace) string {
	e := env.resolve(name)
	if e == nil {
		name = "decimal"
		e = env.resolve(name)
	}
	return e.prefix + env.represent(e, name, v, map[string]bool{}, tr) + e.suffix
}

// SymbolsFn is the anonymous style of symbols(<type>? <string>+)  (§6).
func SymbolsFn(typ string, syms []string) *effective {
	if typ == "" {
		typ = "symbolic"
	}
	return &effective{system: typ, first: 1, symbols: syms, negative: [2]string{"-", ""}, prefix: "", suffix: " ",
		rng: RangeDef{Auto: true}, pad: PadDef{0, ""}, fallback: "decimal"}
}

// RepresentAnon / MarkerAnon evaluate an anonymous (symbols()) style.
func (env Env) RepresentAnon(e *effective, v int64, tr Trace) string {
	return env.represent(e, "", v, map[string]bool{}, tr)
}

func (env Env) MarkerAnon(e *effective, v int64, tr Trace) string {
	return e.prefix + env.RepresentAnon(e, v, tr) + e.suffix
}

// chainFeatures describes the extends chain of the style called name.
func (env Env) chainFeatures(name string) Trace {
	tr := Trace{}
	s := env[name]
	seen := map[string]bool{}
	for cur := s; cur != nil && !seen[cur.Name]; {
		seen[cur.Name] = true
		if cur.system() != "extends" {
			break
		}
		tr.add("extends")
		if env.inExtendsCycle(cur.Name) {
			if cur == s {
				tr.add("extends-cycle")
			} else {
				tr.add("extends-into-cycle")
			}
			break
		}
		if env[cur.Extends] == nil {
			tr.add("extends-undefined")
			break
		}
		if len(seen) >= 2 {
			tr.add("extends-chain>=2")
		}
		cur = env[cur.Extends]
	}
	return tr
}
