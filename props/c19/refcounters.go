package c19

// Reference model of CSS Lists 3 §4 (automatic numbering with counters), written from the
// specification's "counters set" formulation — every element owns a list of (name, creator, value)
// triples obtained by inheritance from its parent, its preceding sibling and the element preceding
// it in tree order — which is structurally different from the scope stacks of the code under test.
//
//   inherit:     copy the parent's set; append the preceding sibling's counters that are not yet
//                present (same name and creator); take each value from the element immediately
//                preceding in tree order (same name and creator).
//   instantiate: if the innermost counter of that name was created by this element or by one of its
//                preceding siblings, remove it; append a new (name, this element, value).
//   order:       counter-reset, then counter-increment (list items: implicit list-item 1 unless the
//                property mentions list-item), then counter-set, then use by content / marker.
//   increment / set of a name with no counter in the set instantiate one with value 0; a use
//   (counter()/counters()) of such a name prints the value 0.
//   counter() = innermost value; counters() = all values of that name, outermost first.
//   Elements that generate no box (display:none subtrees) take no part.

import (
	"strconv"
	"strings"
)

// CVal is one <counter-name> <integer>? pair of a counter property.
type CVal struct {
	Name string `json:"n"`
	V    *int64 `json:"v,omitempty"`
}

// CProps are the counter properties of an element or pseudo-element; nil slice = not declared,
// empty non-nil slice = declared as "none".
type CProps struct {
	Reset []CVal `json:"reset,omitempty"`
	Incr  []CVal `json:"incr,omitempty"`
	Set   []CVal `json:"set,omitempty"`
	// declared-as-none flags (a nil/empty slice cannot say it through JSON)
	ResetNone bool `json:"reset_none,omitempty"`
	IncrNone  bool `json:"incr_none,omitempty"`
}

// Node is the generator-side AST of one element.
type Node struct {
	ID       string  `json:"id"`
	Tag      string  `json:"tag"`
	Display  string  `json:"display,omitempty"` // "" = the tag's default
	Props    CProps  `json:"props"`
	Before   *CProps `json:"before,omitempty"` // ::before exists (content set) with these properties
	After    *CProps `json:"after,omitempty"`
	ListType string  `json:"list_type,omitempty"` // list-style-type of a list item
	Start    *int64  `json:"start,omitempty"`     // <ol start>
	Value    *int64  `json:"value,omitempty"`     // <li value>
	Children []*Node `json:"children,omitempty"`
}

type cinst struct {
	name    string
	creator int
	value   int64
}

type listsModel struct {
	last   []cinst // counters set of the element immediately preceding in tree order
	nextID int
	texts  map[string]string // "id::before" / "id::after" -> expected text; "id::marker" -> list-item value (decimal)
	marker map[string]int64
	stats  map[string]int64
}

func (n *Node) isListItem() bool {
	d := n.Display
	if d == "" && n.Tag == "li" {
		d = "list-item"
	}
	return d == "list-item"
}

func (m *listsModel) inherit(parent, prevSib []cinst, root bool) []cinst {
	if root {
		return nil
	}
	set := append([]cinst(nil), parent...)
	for _, c := range prevSib {
		found := false
		for _, e := range set {
			if e.name == c.name && e.creator == c.creator {
				found = true
				break
			}
		}
		if !found {
			set = append(set, c)
		}
	}
	for _, src := range m.last {
		for i := range set {
			if set[i].name == src.name && set[i].creator == src.creator {
				set[i].value = src.value
			}
		}
	}
	return set
}

func innermost(set []cinst, name string) int {
	for i := len(set) - 1; i >= 0; i-- {
		if set[i].name == name {
			return i
		}
	}
	return -1
}

func (m *listsModel) instantiate(set []cinst, name string, v int64, self int, prevSibs map[int]bool) []cinst {
	if i := innermost(set, name); i >= 0 && (set[i].creator == self || prevSibs[set[i].creator]) {
		if set[i].creator != self {
			m.stats["tree_sibling_replaced"]++
		}
		set = append(set[:i:i], set[i+1:]...)
	}
	return append(set, cinst{name, self, v})
}

func val(c CVal, def int64) int64 {
	if c.V != nil {
		return *c.V
	}
	return def
}

// apply runs reset / increment / set of one element or pseudo-element on its inherited set.
func (m *listsModel) apply(set []cinst, p CProps, self int, prevSibs map[int]bool, listItem bool) []cinst {
	for _, c := range p.Reset {
		set = m.instantiate(set, c.Name, val(c, 0), self, prevSibs)
	}
	incr := append([]CVal(nil), p.Incr...)
	if listItem {
		mentions := false
		for _, c := range incr {
			if c.Name == "list-item" {
				mentions = true
			}
		}
		if !mentions {
			incr = append(incr, CVal{Name: "list-item"})
		}
	}
	for _, c := range incr {
		if innermost(set, c.Name) < 0 {
			m.stats["tree_implicit_instantiated"]++
			set = m.instantiate(set, c.Name, 0, self, prevSibs)
		}
		set[innermost(set, c.Name)].value += val(c, 1)
	}
	for _, c := range p.Set {
		for _, i := range incr {
			if i.Name == c.Name {
				m.stats["tree_set_after_increment_same_name"]++
				break
			}
		}
		if innermost(set, c.Name) < 0 {
			m.stats["tree_implicit_instantiated"]++
			set = m.instantiate(set, c.Name, 0, self, prevSibs)
		}
		set[innermost(set, c.Name)].value = val(c, 0)
	}
	return set
}

// use evaluates the fixed content of the generated pseudo-elements:
//
//	"[" counters(c, ".") "|" counter(d) "|" counters(list-item, ".") "|" counters(c, "/", upper-alpha) "|" counter(d, lower-roman) "]"
func (m *listsModel) use(set []cinst, self int, prevSibs map[int]bool) (string, []cinst) {
	var sb strings.Builder
	sb.WriteString("[")
	for k, name := range []string{"c", "d", "list-item"} {
		if k > 0 {
			sb.WriteString("|")
		}
		if innermost(set, name) < 0 {
			// No counter of that name: the text is that of the value 0.  (CSS Lists 3 adds that a
			// counter is then instantiated on the using element; the property statement does not ask
			// for it and the code under test does not do it — not modelled, see notes/C19.md.)
			sb.WriteString("0")
			continue
		}
		if name == "d" {
			sb.WriteString(strconv.FormatInt(set[innermost(set, name)].value, 10))
			continue
		}
		var parts []string
		for _, c := range set {
			if c.name == name {
				parts = append(parts, strconv.FormatInt(c.value, 10))
			}
		}
		if len(parts) >= 2 {
			m.stats["tree_nested_counters"]++
		}
		sb.WriteString(strings.Join(parts, "."))
	}
	// the same counters through predefined counter styles (Counter Styles reference)
	env := predefEnv()
	var parts []string
	for _, c := range set {
		if c.name == "c" {
			parts = append(parts, env.Represent("upper-alpha", c.value, nil))
		}
	}
	if len(parts) == 0 {
		parts = []string{env.Represent("upper-alpha", 0, nil)}
	}
	sb.WriteString("|" + strings.Join(parts, "/") + "|")
	d := int64(0)
	if i := innermost(set, "d"); i >= 0 {
		d = set[i].value
	}
	sb.WriteString(env.Represent("lower-roman", d, nil))
	sb.WriteString("]")
	return sb.String(), set
}

var predefEnvCache Env

func predefEnv() Env {
	if predefEnvCache == nil {
		predefEnvCache = NewEnv(nil)
	}
	return predefEnvCache
}

// uaReset is the UA style sheet's "ol, ul { counter-reset: list-item }", overridden by any author
// counter-reset declaration on the element; <ol start=N> (presentational hint) makes the first
// item N.
func effectiveProps(n *Node, hints bool) CProps {
	p := n.Props
	if (n.Tag == "ol" || n.Tag == "ul") && p.Reset == nil && !p.ResetNone {
		start := int64(0)
		if n.Tag == "ol" && n.Start != nil && hints {
			start = *n.Start - 1
		}
		p.Reset = []CVal{{Name: "list-item", V: &start}}
	}
	if n.Tag == "li" && n.Value != nil && hints && p.Set == nil {
		// HTML: the value attribute gives the item's ordinal (CSS Lists 3 Appendix A:
		// li[value] { counter-set: list-item attr(value integer) })
		p.Set = []CVal{{Name: "list-item", V: n.Value}}
	}
	return p
}

func (m *listsModel) element(n *Node, parent, prevSib []cinst, root bool, prevSibs map[int]bool, hints bool) []cinst {
	if n.Display == "none" {
		return nil
	}
	self := m.nextID
	m.nextID++
	set := m.inherit(parent, prevSib, root)
	if n.Tag == "li" && n.Value != nil && hints && n.Props.Set == nil {
		m.stats["tree_li_value_hint"]++
	}
	set = m.apply(set, effectiveProps(n, hints), self, prevSibs, n.isListItem())
	m.last = set
	if n.isListItem() && n.ListType != "none" {
		m.marker[n.ID+"::marker"] = set[innermost(set, "list-item")].value
	}
	// children: ::before, element children, ::after
	var prev []cinst
	sibs := map[int]bool{}
	pseudo := func(p *CProps, key string) {
		if p == nil {
			return
		}
		id := m.nextID
		m.nextID++
		ps := m.inherit(set, prev, false)
		ps = m.apply(ps, *p, id, sibs, false)
		var text string
		text, ps = m.use(ps, id, sibs)
		m.texts[n.ID+"::"+key] = text
		m.last = ps
		prev = ps
		sibs[id] = true
	}
	pseudo(n.Before, "before")
	for _, c := range n.Children {
		if c.Display == "none" {
			continue
		}
		id := m.nextID
		cs := m.element(c, set, prev, false, sibs, hints)
		prev = cs
		sibs[id] = true
	}
	pseudo(n.After, "after")
	return set
}

// runListsModel evaluates the model on a tree whose root is the <body> element; htmlSet is the
// counters set of <html> (empty: nothing is declared on it).
func runListsModel(body *Node, hints bool) *listsModel {
	m := &listsModel{texts: map[string]string{}, marker: map[string]int64{}, stats: map[string]int64{}}
	// <html> is the root (empty set), <head> is display:none, <body> is html's only box-generating child
	m.nextID = 1
	m.element(body, nil, nil, false, map[int]bool{}, hints)
	return m
}
