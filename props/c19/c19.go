// Package c19 — C19: counters count and print as CSS Lists and Counter Styles define.
//
// Three monitors, all reference-model monitors over executions of the real code:
//
//	predef  every predefined counter style of the UA style sheet × a dense integer interval, against
//	        the specification's definitions re-typed as reference descriptors (predefined.go);
//	styles  generated @counter-style rule sets (fallback / extends graphs incl. cycles) compiled by the
//	        real cascade (tree.GetAllComputedStyles) and rendered by CounterStyle.RenderValue /
//	        RenderMarker / RenderValueStyle and through documents (content: counter(), ::marker),
//	        against the Counter Styles 3 reference (refstyle.go), for [-60,120] + large magnitudes;
//	tree    generated element trees with counter-reset / -increment / -set, lists and pseudo-elements,
//	        box tree built by the real code, ::before / ::after / ::marker texts against the CSS Lists 3
//	        counters-set model (refcounters.go).
package c19

import (
	"encoding/json"
	"fmt"
	"math/rand"
	"sort"
	"strings"

	"github.com/benoitkugler/webrender/css/counters"
	pr "github.com/benoitkugler/webrender/css/properties"

	"verif/internal/fw"
)

// evalSet: one style name and the integers it is evaluated on.
type evalSet struct {
	Name   string  `json:"name"`
	Values []int64 `json:"values"`
}

// anonUse is a symbols() / <string> counter style used in a document.
type anonUse struct {
	Type    string   `json:"type"` // symbols() system keyword, "" = omitted (symbolic), "string" = <string> list-style-type
	Symbols []string `json:"symbols"`
	Values  []int64  `json:"values"`
}

type c19In struct {
	Kind string `json:"kind"`
	// predef
	Name  string  `json:"name,omitempty"`
	From  int64   `json:"from,omitempty"`
	To    int64   `json:"to,omitempty"`
	Extra []int64 `json:"extra,omitempty"`
	// styles
	CSS  string     `json:"css,omitempty"`
	Defs []StyleDef `json:"defs,omitempty"`
	Eval []evalSet  `json:"eval,omitempty"`
	Doc  []evalSet  `json:"doc,omitempty"`  // evaluated through a document (counter() and ::marker)
	Anon []anonUse  `json:"anon,omitempty"` // symbols() / string styles, through a document
	// Noise (styles): the CSS text additionally contains this construct, which must not change
	// what the rules define ("kind:detail"); Defs is the clean AST.
	Noise string `json:"noise,omitempty"`
	// tree
	Tree *treeIn `json:"tree,omitempty"`
}

func init() {
	fw.Register(&fw.Prop{
		ID: "C19",
		Rule: "cases: (1) predef: one predefined counter style × every integer of a dense interval (quick [-60,4000], thorough [-2000,25000]) + large magnitudes, RenderValue and RenderMarker against the specification's definition re-typed as reference descriptors; " +
			"(2) styles: a generated set of 1–5 @counter-style rules (all systems, range, pad, negative, prefix/suffix, fallback and extends edges among themselves incl. cycles, to predefined and to undefined styles) compiled by the real cascade, each style × [-60,120] + ~35 large magnitudes through RenderValue/RenderMarker, a sample through documents (content: counter()/counters() with a style, ::marker with list-style-type, symbols(), string markers) against the Counter Styles 3 reference; " +
			"(3) tree: a generated element tree (≤ 30 elements, depth ≤ 5) with counter-reset/-increment/-set on two names + list-item, ol/ul/li, ::before/::after carrying their own counter properties, display:none subtrees; texts of every ::before/::after (counters(c,\".\") | counter(d) | counters(list-item,\".\") | counters(c,\"/\",upper-alpha) | counter(d,lower-roman)) and ::marker (11 predefined list-style-types, none) against the CSS Lists 3 counters-set model. " +
			"A case is non-trivial when at least one (style, integer) pair / one pseudo-element text was compared and (styles) some pair left the plain numeric path (fallback, pad, negative sign, non-numeric system) or (tree) some counter had nesting depth ≥ 2 or was replaced by a sibling reset; distinct = distinct input.",
		N:     nCases,
		Gen:   genCase,
		Check: check,
		Floor: func(tier string) int {
			if tier == "thorough" {
				return 60000
			}
			return 2500
		},
		CounterFloors: func(tier string) map[string]int64 {
			m := int64(1)
			if tier == "thorough" {
				m = 20
			}
			return map[string]int64{
				"pairs_compared": 400000 * m, "markers_compared": 400000 * m, "predef_styles": 49,
				"t_sys-cyclic": 2000 * m, "t_sys-fixed": 2000 * m, "t_sys-symbolic": 2000 * m, "t_sys-alphabetic": 2000 * m, "t_sys-numeric": 2000 * m, "t_sys-additive": 2000 * m,
				"t_out-of-range": 2000 * m, "t_algorithm-failed": 500 * m, "t_padded": 500 * m, "t_negative-sign": 500 * m, "t_fallback-loop": 50 * m, "t_unknown-style": 50 * m,
				"t_cyclic<=0": 2000 * m, "t_additive-zero-weight-reached": 500 * m, "t_negative-2sym": 2000 * m, "t_pad-nonascii": 200 * m, "t_neg-algorithm-failed": 500 * m, "t_range-inf-lower": 2000 * m, "t_extends-undefined": 500 * m,
				"tree_set_after_increment_same_name": 100 * m, "tree_li_value_hint": 100 * m,
				"t_extends": 1000 * m, "t_extends-cycle": 100 * m, "t_extends-chain>=2": 100 * m,
				"noise_cases": 300 * m, "noise_override-earlier": 10 * m, "noise_invalid-after": 10 * m, "noise_invalid-before": 10 * m, "noise_undefining-rule-after": 10 * m, "noise_reserved-name-rule": 10 * m,
				"doc_texts_compared": 2000 * m, "doc_markers_compared": 1000 * m, "anon_compared": 500 * m,
				"tree_texts_compared": 20000 * m, "tree_markers_compared": 2000 * m, "tree_nested_counters": 1000 * m, "tree_sibling_replaced": 500 * m, "tree_implicit_instantiated": 500 * m,
			}
		},
		Assumptions: []string{
			"the reference models (Counter Styles 3 §2–§3, §6–§7; CSS Lists 3 §4) were written from the specifications from memory in an offline sandbox; their unit tests re-type the specifications' examples",
			"grapheme clusters are counted as code points: generated symbols contain no combining marks or joiners",
			"the glyphs of disc/circle/square/disclosure-* are UA-defined; the reference uses •◦▪▾▸",
			"feature combinations with a recorded finding (findings/C19) are kept out of the generators; their witnesses are separate replayable inputs",
			"predefined styles the code base does not define (ethiopic-numeric, the longhand Chinese styles) are outside the workload",
		},
		Batch: 40,
	})
}

// ---- case list -----------------------------------------------------------------------------------

func predefNames() []string {
	var out []string
	for i := range predefined {
		out = append(out, predefined[i].Name)
	}
	return out
}

func nCases(tier string) int {
	np := len(predefined)
	if tier == "thorough" {
		return np*7 + 20000 + 8000 + 100000
	}
	return np + 1500 + 600 + 3000
}

func genCase(r *rand.Rand, i int, tier string) any {
	np := len(predefined)
	thorough := tier == "thorough"
	if !thorough {
		if i < np {
			return predefCase(predefined[i].Name, -60, 4000)
		}
		i -= np
		if i < 1500 {
			return genStylesCase(r)
		}
		if i < 2100 {
			return genNoiseCase(r)
		}
		return genTreeCase(r)
	}
	if i < np*7 {
		// [-2000,25000] in 7 slices
		k := i / np
		lo := int64(-2000) + int64(k)*4000
		hi := lo + 3999
		if hi > 25000 {
			hi = 25000
		}
		return predefCase(predefined[i%np].Name, lo, hi)
	}
	i -= np * 7
	if i < 20000 {
		return genStylesCase(r)
	}
	if i < 28000 {
		return genNoiseCase(r)
	}
	return genTreeCase(r)
}

// predefCase: finding F7 (Korean styles: negative sign has two trailing spaces) keeps negative values
// of the three Korean styles out of the generated workload.
func predefCase(name string, lo, hi int64) c19In {
	extra := predefExtra
	if strings.HasPrefix(name, "korean-") {
		if lo < 0 {
			lo = 0
		}
		if hi < lo {
			hi = lo
		}
		extra = nil
		for _, v := range predefExtra {
			if v >= 0 {
				extra = append(extra, v)
			}
		}
	}
	return c19In{Kind: "predef", Name: name, From: lo, To: hi, Extra: extra}
}

var predefExtra = func() []int64 {
	var out []int64
	for _, v := range largeValues {
		out = append(out, v, -v)
	}
	return append(out, -2147483648, 4001, 5000, 9998, 10001, 11000, 12345, -4000, -9999, -10000)
}()

// ---- check ---------------------------------------------------------------------------------------

func check(raw json.RawMessage) fw.Result {
	var in c19In
	if err := json.Unmarshal(raw, &in); err != nil {
		return fw.Result{Verdict: fw.Inconclusive, Msg: err.Error()}
	}
	var res fw.Result
	switch in.Kind {
	case "predef":
		checkPredef(&in, &res)
	case "styles":
		checkStyles(&in, &res)
	case "tree":
		checkTree(in.Tree, &res)
	default:
		res.Verdict = fw.Inconclusive
		res.Msg = "unknown kind " + in.Kind
	}
	return res
}

// render calls fn under recover: a panic of the code under test is a violation with its witness.
func render(fn func() string) (s string, panicked string) {
	defer func() {
		if p := recover(); p != nil {
			panicked = fmt.Sprint(p)
		}
	}()
	return fn(), ""
}

func countTrace(res *fw.Result, tr Trace) {
	for k := range tr {
		res.Count("t_"+k, 1)
	}
}

// compareStyle compares RenderValue and RenderMarker of one named style on the given integers.
// It returns whether any compared pair went beyond the plain numeric path.
func compareStyle(res *fw.Result, env Env, cs counters.CounterStyle, css, name string, values []int64) (nontrivial bool) {
	sysName := "unknown"
	if e := env.resolve(name); e != nil {
		sysName = e.system
	}
	for _, v := range values {
		tr := Trace{}
		exp := env.Represent(name, v, tr)
		if tr["huge"] || tr["undefined"] {
			res.Count("pairs_skipped_unspecified_or_huge", 1)
			continue
		}
		obs, pn := render(func() string { return cs.RenderValue(int(v), name) })
		if pn != "" {
			res.Fail("render-panic-"+sysName, fmt.Sprintf("RenderValue(%d, %q) panics: %s; expected %q (path %s); rules: %s", v, name, pn, exp, traceString(tr), css))
			return
		}
		res.Count("pairs_compared", 1)
		countTrace(res, tr)
		if len(tr) > 1 || !tr["sys-numeric"] {
			nontrivial = true
		}
		if obs != exp {
			res.Fail("repr-"+sysName, fmt.Sprintf("RenderValue(%d, %q) = %q, reference %q (path %s); rules: %s", v, name, obs, exp, traceString(tr), css))
			return
		}
		mexp := env.Marker(name, v, nil)
		mobs, pn := render(func() string { return cs.RenderMarker(pr.CounterStyleID{Name: name}, int(v)) })
		if pn != "" {
			res.Fail("render-panic-"+sysName, fmt.Sprintf("RenderMarker(%q, %d) panics: %s; rules: %s", name, v, pn, css))
			return
		}
		res.Count("markers_compared", 1)
		if mobs != mexp {
			res.Fail("marker-"+sysName, fmt.Sprintf("RenderMarker(%q, %d) = %q, reference %q (path %s); rules: %s", name, v, mobs, mexp, traceString(tr), css))
			return
		}
	}
	return
}

func traceString(tr Trace) string {
	var ks []string
	for k := range tr {
		ks = append(ks, k)
	}
	sort.Strings(ks)
	return strings.Join(ks, ",")
}

func checkPredef(in *c19In, res *fw.Result) {
	b, err := compile("<p>x</p>", false, false)
	if err != nil {
		res.Verdict = fw.Inconclusive
		res.Msg = err.Error()
		return
	}
	env := NewEnv(nil)
	if env[in.Name] == nil {
		res.Verdict = fw.Inconclusive
		res.Msg = "no reference definition for " + in.Name
		return
	}
	if _, ok := b.CS[in.Name]; !ok {
		res.Fail("predef-missing", fmt.Sprintf("predefined counter style %q is not defined by the UA style sheet", in.Name))
		return
	}
	var values []int64
	for v := in.From; v <= in.To; v++ {
		values = append(values, v)
	}
	values = append(values, in.Extra...)
	compareStyle(res, env, b.CS, "(UA style sheet)", in.Name, values)
	res.Count("predef_styles", 1)
	res.Nontrivial = res.Verdict != fw.Violation
}
