package c19

import (
	"os"
	"strings"
	"testing"
)

// TestProbe prints the box tree of the document in $C19_PROBE (development aid).
func TestProbe(t *testing.T) {
	doc := os.Getenv("C19_PROBE")
	if doc == "" {
		t.Skip()
	}
	if b, err := os.ReadFile(doc); err == nil {
		doc = string(b)
	}
	bl, err := compile(doc, os.Getenv("C19_HINTS") != "", true)
	if err != nil {
		t.Fatal(err)
	}
	var sb strings.Builder
	dumpBoxes(bl.Root, "", &sb)
	t.Log("\n" + sb.String())
	t.Log(pseudoTexts(bl.Root))
	t.Log(bl.Warnings)
}
