package c19

// Generator of @counter-style rule sets (descriptor AST + CSS text).

import (
	"fmt"
	"math/rand"
	"strings"
)

// ---- CSS text of an AST --------------------------------------------------------------------------

func cssString(s string) string {
	var sb strings.Builder
	sb.WriteByte('"')
	for _, r := range s {
		switch {
		case r == '"' || r == '\\':
			sb.WriteByte('\\')
			sb.WriteRune(r)
		case r < 0x20 || r == 0x7f:
			fmt.Fprintf(&sb, "\\%x ", r)
		default:
			sb.WriteRune(r)
		}
	}
	sb.WriteByte('"')
	return sb.String()
}

func isSimpleIdent(s string) bool {
	if s == "" {
		return false
	}
	for i, r := range s {
		letter := (r >= 'a' && r <= 'z') || (r >= 'A' && r <= 'Z') || r >= 0x100
		digit := r >= '0' && r <= '9'
		if !(letter || (i > 0 && digit)) {
			return false
		}
	}
	return true
}

// cssSymbol prints a <symbol>: a string, or (when allowed and chosen) an identifier.
func cssSymbol(r *rand.Rand, s string) string {
	if r != nil && isSimpleIdent(s) && r.Intn(3) == 0 {
		return s
	}
	return cssString(s)
}

func cssBound(b Bound) string {
	if b.Inf {
		return "infinite"
	}
	return fmt.Sprint(b.V)
}

// cssRule prints one @counter-style rule; r (may be nil) varies spelling: descriptor order,
// ident/string symbols, white space.
func cssRule(r *rand.Rand, s *StyleDef) string {
	ds := cssDecls(r, s)
	if r != nil {
		r.Shuffle(len(ds), func(i, j int) { ds[i], ds[j] = ds[j], ds[i] })
	}
	return cssRuleText(r, s.Name, ds)
}

func cssRuleText(r *rand.Rand, name string, ds []string) string {
	sep := "; "
	if r != nil && r.Intn(3) == 0 {
		sep = ";\n  "
	}
	return "@counter-style " + name + " { " + strings.Join(ds, sep) + " }"
}

// cssDecls prints the descriptors of a rule, in a fixed order.
func cssDecls(r *rand.Rand, s *StyleDef) []string {
	var ds []string
	switch s.System {
	case "":
	case "fixed":
		if s.First != nil {
			ds = append(ds, fmt.Sprintf("system: fixed %d", *s.First))
		} else {
			ds = append(ds, "system: fixed")
		}
	case "extends":
		ds = append(ds, "system: extends "+s.Extends)
	default:
		ds = append(ds, "system: "+s.System)
	}
	if s.Symbols != nil {
		var p []string
		for _, x := range s.Symbols {
			p = append(p, cssSymbol(r, x))
		}
		ds = append(ds, "symbols: "+strings.Join(p, " "))
	}
	if s.Additive != nil {
		var p []string
		for _, t := range s.Additive {
			if r != nil && r.Intn(4) == 0 {
				p = append(p, fmt.Sprintf("%s %d", cssSymbol(r, t.S), t.W)) // <integer> && <symbol>: either order
			} else {
				p = append(p, fmt.Sprintf("%d %s", t.W, cssSymbol(r, t.S)))
			}
		}
		ds = append(ds, "additive-symbols: "+strings.Join(p, ", "))
	}
	if s.Negative != nil {
		d := "negative: " + cssSymbol(r, s.Negative[0])
		if s.Negative[1] != "" {
			d += " " + cssSymbol(r, s.Negative[1])
		}
		ds = append(ds, d)
	}
	if s.Prefix != nil {
		ds = append(ds, "prefix: "+cssSymbol(r, *s.Prefix))
	}
	if s.Suffix != nil {
		ds = append(ds, "suffix: "+cssSymbol(r, *s.Suffix))
	}
	if s.Range != nil {
		if s.Range.Auto {
			ds = append(ds, "range: auto")
		} else {
			var p []string
			for _, b := range s.Range.Ranges {
				p = append(p, cssBound(b[0])+" "+cssBound(b[1]))
			}
			ds = append(ds, "range: "+strings.Join(p, ", "))
		}
	}
	if s.Pad != nil {
		if r != nil && r.Intn(4) == 0 {
			ds = append(ds, fmt.Sprintf("pad: %s %d", cssSymbol(r, s.Pad.S), s.Pad.N))
		} else {
			ds = append(ds, fmt.Sprintf("pad: %d %s", s.Pad.N, cssSymbol(r, s.Pad.S)))
		}
	}
	if s.Fallback != nil {
		ds = append(ds, "fallback: "+*s.Fallback)
	}
	return ds
}

// ---- random rule sets ----------------------------------------------------------------------------

var symbolPool = []string{
	"a", "b", "c", "x", "y", "Z", "q", "0", "1", "2", "7", "*", "+", "#", "-", "(", ")", "[", "]", ".", ":", "!", "ab", "xyz", "i", "v", "M",
	"é", "ß", "λ", "Ж", "中", "〇", "★", "•", "𝟘", "😀", "é中", "", "\"", "\\", "'",
}

var asciiSymbolPool = []string{"a", "b", "c", "x", "y", "Z", "q", "0", "1", "2", "7", "*", "+", "#", "-", "(", ")", "[", "]", ".", ":", "!", "ab", "xyz", "i", "v", "M", "\"", "\\", "'"}

func pickSym(r *rand.Rand, ascii bool) string {
	if ascii {
		return asciiSymbolPool[r.Intn(len(asciiSymbolPool))]
	}
	return symbolPool[r.Intn(len(symbolPool))]
}

// distinctSyms picks n symbols, pairwise different (so that a wrong index is visible).
func distinctSyms(r *rand.Rand, n int, ascii bool) []string {
	seen := map[string]bool{}
	var out []string
	for len(out) < n {
		s := pickSym(r, ascii)
		if s == "" && r.Intn(4) != 0 {
			continue
		}
		if seen[s] {
			continue
		}
		seen[s] = true
		out = append(out, s)
	}
	return out
}

var weightPool = []int64{1000, 500, 100, 60, 50, 12, 10, 9, 7, 5, 4, 3, 2, 1}

var predefTargets = []string{"decimal", "lower-roman", "upper-alpha", "lower-alpha", "cjk-decimal", "decimal-leading-zero", "japanese-informal", "lower-greek", "hebrew", "upper-roman"}

// genOpts switches feature families of the generator.
type genOpts struct {
	asciiOnly bool // symbols, pad, negative limited to ASCII (byte length = cluster count)
}

func genBound(r *rand.Rand) int64 {
	switch r.Intn(6) {
	case 0:
		return int64(r.Intn(7) - 3)
	case 1:
		return int64(r.Intn(2000) - 1000)
	}
	return int64(r.Intn(80) - 30)
}

func genRange(r *rand.Rand) *RangeDef {
	if r.Intn(6) == 0 {
		return &RangeDef{Auto: true}
	}
	n := 1 + r.Intn(2)
	out := &RangeDef{}
	for i := 0; i < n; i++ {
		a, b := genBound(r), genBound(r)
		if a > b {
			a, b = b, a
		}
		lo, hi := Bound{V: a}, Bound{V: b}
		switch r.Intn(8) {
		case 0:
			lo = Bound{Inf: true}
		case 1:
			hi = Bound{Inf: true}
		case 2:
			if r.Intn(3) == 0 {
				lo, hi = Bound{Inf: true}, Bound{Inf: true}
			}
		}
		out.Ranges = append(out.Ranges, [2]Bound{lo, hi})
	}
	return out
}

// genStyles builds 1–5 rules named s0… with fallback / extends edges among themselves (cycles
// included), to predefined styles and to undefined names.
func genStyles(r *rand.Rand, o genOpts) []StyleDef {
	n := 1 + r.Intn(5)
	names := make([]string, n)
	for i := range names {
		names[i] = fmt.Sprintf("s%d", i)
	}
	ref := func() string {
		switch k := r.Intn(10); {
		case k < 6:
			return names[r.Intn(n)]
		case k < 9:
			return predefTargets[r.Intn(len(predefTargets))]
		}
		return "nope"
	}
	out := make([]StyleDef, n)
	for i := range out {
		s := &out[i]
		s.Name = names[i]
		switch k := r.Intn(20); {
		case k < 3:
			s.System = "cyclic"
		case k < 6:
			s.System = "fixed"
			if r.Intn(2) == 0 {
				s.First = ip(int64(r.Intn(30) - 12))
			}
		case k < 8:
			s.System = "symbolic"
		case k < 9:
			s.System = "" // absent: symbolic
		case k < 12:
			s.System = "alphabetic"
		case k < 15:
			s.System = "numeric"
		case k < 18:
			s.System = "additive"
		default:
			s.System = "extends"
			s.Extends = ref()
		}
		switch s.system() {
		case "cyclic", "fixed", "symbolic":
			s.Symbols = distinctSyms(r, 1+r.Intn(5), o.asciiOnly)
		case "alphabetic", "numeric":
			s.Symbols = distinctSyms(r, 2+r.Intn(5), o.asciiOnly)
		case "additive":
			k := 2 + r.Intn(4)
			ws := map[int64]bool{}
			for len(ws) < k {
				ws[weightPool[r.Intn(len(weightPool))]] = true
			}
			if r.Intn(3) == 0 {
				ws[0] = true
			}
			var wl []int64
			for _, w := range append(weightPool, 0) {
				if ws[w] {
					wl = append(wl, w)
				}
			}
			syms := distinctSyms(r, len(wl), o.asciiOnly)
			for j, w := range wl {
				s.Additive = append(s.Additive, AddSym{W: w, S: syms[j]})
			}
		}
		if r.Intn(3) == 0 {
			neg := [2]string{pickSym(r, o.asciiOnly), ""}
			if r.Intn(2) == 0 {
				neg[1] = pickSym(r, o.asciiOnly)
				if neg[1] == neg[0] {
					neg[1] = neg[0] + "'"
				}
			}
			if neg[0] == "" && neg[1] == "" {
				neg[0] = "~"
			}
			s.Negative = &neg
		}
		if r.Intn(4) == 0 {
			s.Prefix = sp(pickSym(r, false))
		}
		if r.Intn(4) == 0 {
			s.Suffix = sp(pickSym(r, false))
		}
		if r.Intn(2) == 0 {
			s.Range = genRange(r)
		}
		if r.Intn(3) == 0 {
			s.Pad = &PadDef{N: int64(r.Intn(9)), S: pickSym(r, o.asciiOnly)}
		}
		if r.Intn(2) == 0 {
			s.Fallback = sp(ref())
		}
	}
	return out
}

// largeValues is the fixed sample of large magnitudes.
var largeValues = []int64{1000, 3999, 4000, 9999, 10000, 10999, 19999, 20000, 65535, 65536, 1000000, 99999999, 2147483646, 2147483647}

func genValues(r *rand.Rand) []int64 {
	var out []int64
	for v := int64(-60); v <= 120; v++ {
		out = append(out, v)
	}
	for _, v := range largeValues {
		out = append(out, v, -v)
	}
	out = append(out, -2147483648)
	for i := 0; i < 6; i++ {
		v := r.Int63n(1 << 31)
		if r.Intn(2) == 0 {
			v = -v
		}
		out = append(out, v)
	}
	return out
}
