package c19

import (
	"fmt"
	"strings"
	"testing"
)

// The examples of css-counter-styles-3 (§3.1.1–§3.1.6, §3.2, §3.6, §7) and well-known numeral facts,
// typed here as a cross-check of the reference model itself.

func reprs(env Env, name string, vs ...int64) string {
	var out []string
	for _, v := range vs {
		out = append(out, env.Represent(name, v, nil))
	}
	return strings.Join(out, " ")
}

func TestReferenceSpecExamples(t *testing.T) {
	neg := func(a, b string) *[2]string { return &[2]string{a, b} }
	env := NewEnv([]StyleDef{
		{Name: "triangle", System: "cyclic", Symbols: []string{"‣"}, Suffix: sp(" ")},
		{Name: "box-corner", System: "fixed", Symbols: []string{"◰", "◳", "◲", "◱"}, Suffix: sp(": ")},
		{Name: "footnote", System: "symbolic", Symbols: []string{"*", "⁑", "†", "‡"}, Suffix: sp(" ")},
		{Name: "go", System: "alphabetic", Symbols: []string{"⚪", "⚫"}, Suffix: sp(" ")},
		{Name: "trinary", System: "numeric", Symbols: []string{"0", "1", "2"}},
		{Name: "dice", System: "additive", Additive: []AddSym{{6, "⚅"}, {5, "⚄"}, {4, "⚃"}, {3, "⚂"}, {2, "⚁"}, {1, "⚀"}}, Suffix: sp(" ")},
		{Name: "neg", System: "extends", Extends: "decimal", Negative: neg("(", ")")},
		{Name: "pad3", System: "extends", Extends: "decimal", Pad: &PadDef{3, "0"}},
		{Name: "decimal-paren", System: "extends", Extends: "decimal", Suffix: sp(") ")},
		{Name: "fixed5", System: "fixed", First: ip(5), Symbols: []string{"a", "b"}},
		{Name: "cyc3", System: "cyclic", Symbols: []string{"a", "b", "c"}},
		{Name: "loopA", System: "cyclic", Symbols: []string{"x"}, Range: rng(1, 2), Fallback: sp("loopB")},
		{Name: "loopB", System: "cyclic", Symbols: []string{"y"}, Range: rng(1, 3), Fallback: sp("loopA")},
		{Name: "extA", System: "extends", Extends: "extB", Suffix: sp("A")},
		{Name: "extB", System: "extends", Extends: "extA", Prefix: sp("B"), Pad: &PadDef{2, "_"}},
		{Name: "extC", System: "extends", Extends: "extA", Prefix: sp("C")},
		{Name: "extU", System: "extends", Extends: "no-such", Pad: &PadDef{3, "0"}},
		{Name: "zero", System: "additive", Additive: []AddSym{{5, "V"}, {1, "I"}, {0, "N"}}},
	})
	for _, c := range []struct {
		name, want string
		vs         []int64
	}{
		{"triangle", "‣ ‣ ‣", []int64{1, 2, -7}},
		{"box-corner", "◰ ◳ ◲ ◱ 5 6 0", []int64{1, 2, 3, 4, 5, 6, 0}},
		{"footnote", "* ⁑ † ‡ ** ⁑⁑ †† ‡‡ ***", []int64{1, 2, 3, 4, 5, 6, 7, 8, 9}},
		{"footnote", "0 -1", []int64{0, -1}}, // auto range of symbolic starts at 1 -> decimal
		{"go", "⚪ ⚫ ⚪⚪ ⚪⚫ ⚫⚪ ⚫⚫ ⚪⚪⚪", []int64{1, 2, 3, 4, 5, 6, 7}},
		{"trinary", "0 1 2 10 11 12 20 -10", []int64{0, 1, 2, 3, 4, 5, 6, -3}},
		{"dice", "⚀ ⚁ ⚂ ⚃ ⚄ ⚅ ⚅⚀ ⚅⚄ ⚅⚅ ⚅⚅⚀", []int64{1, 2, 3, 4, 5, 6, 7, 11, 12, 13}},
		{"neg", "(2) (1) 0 1", []int64{-2, -1, 0, 1}},
		{"pad3", "001 020 300 4000 -05", []int64{1, 20, 300, 4000, -5}},
		{"decimal-leading-zero", "-9 -1 00 01 09 10 100", []int64{-9, -1, 0, 1, 9, 10, 100}},
		{"fixed5", "4 a b 7", []int64{4, 5, 6, 7}},
		{"cyc3", "a b c a c b a", []int64{1, 2, 3, 4, 0, -1, -2}}, // mathematical modulo
		{"loopA", "x x y 4", []int64{1, 2, 3, 4}},                 // fallback loop -> decimal
		{"upper-roman", "I IV IX XIV XL XC CD MCMXCIV MMMCMXCIX 4000 0 -1", []int64{1, 4, 9, 14, 40, 90, 400, 1994, 3999, 4000, 0, -1}},
		{"lower-alpha", "a z aa az ba zz aaa 0", []int64{1, 26, 27, 52, 53, 702, 703, 0}},
		{"lower-greek", "α ω αα", []int64{1, 24, 25}},
		{"hebrew", "א י טו טז יט כ ק תת א׳ 11000", []int64{1, 10, 15, 16, 19, 20, 100, 800, 1000, 11000}},
		{"armenian", "Ա Ժ ՃԻԳ 10000", []int64{1, 10, 123, 10000}},
		{"georgian", "ა ი რ ჩ ჵ", []int64{1, 10, 100, 1000, 10000}},
		{"cjk-decimal", "〇 一 一〇 二〇二三 -1", []int64{0, 1, 10, 2023, -1}},
		{"japanese-informal", "〇 一 十 十一 百十 二千二十三 マイナス五 一〇〇〇〇", []int64{0, 1, 10, 11, 110, 2023, -5, 10000}},
		{"japanese-formal", "零 壱 壱拾 壱百壱拾", []int64{0, 1, 10, 110}},
		{"korean-hangul-formal", "영 일 일십 이천이십삼", []int64{0, 1, 10, 2023}},
		{"arabic-indic", "٠ ١٢٣", []int64{0, 123}},
		{"hiragana", "あ ん ああ", []int64{1, 48, 49}},
		{"katakana-iroha", "イ ス イイ", []int64{1, 47, 48}},
		{"zero", "N I V VI", []int64{0, 1, 5, 6}},
		{"no-such-style", "7", []int64{7}},
	} {
		if got := reprs(env, c.name, c.vs...); got != c.want {
			t.Errorf("%s %v: got %q want %q", c.name, c.vs, got, c.want)
		}
	}
	// extends cycles: members extend decimal; a style extending a member keeps the member's descriptors
	for _, c := range []struct {
		name string
		v    int64
		want string
	}{{"extA", 7, "7A"}, {"extB", 7, "B_7. "}, {"extC", 7, "C7A"}, {"extU", 7, "007. "}, {"box-corner", 2, "◳: "}, {"box-corner", 9, "9: "}, {"cjk-decimal", 3, "三、"}, {"disc", 3, "• "}, {"nope", 3, "3. "}} {
		if got := env.Marker(c.name, c.v, nil); got != c.want {
			t.Errorf("marker %s %d: got %q want %q", c.name, c.v, got, c.want)
		}
	}
	// symbols()
	e := SymbolsFn("", []string{"*", "†"})
	if got := fmt.Sprint(env.MarkerAnon(e, 1, nil), env.MarkerAnon(e, 3, nil), env.MarkerAnon(e, 0, nil)); got != "* ** 0 " {
		t.Errorf("symbols(): %q", got)
	}
	e = SymbolsFn("fixed", []string{"a", "b"})
	if got := fmt.Sprint(env.RepresentAnon(e, 1, nil), env.RepresentAnon(e, 2, nil), env.RepresentAnon(e, 3, nil)); got != "ab3" {
		t.Errorf("symbols(fixed): %q", got)
	}
}

// The nested-list example of CSS 2.1 §12.4.1 / CSS Lists 3 §4: counters() in nested ol.
func TestReferenceListsExamples(t *testing.T) {
	li := func(id string, kids ...*Node) *Node {
		return &Node{ID: id, Tag: "li", Before: &CProps{}, ListType: "decimal", Children: kids}
	}
	ol := func(id string, kids ...*Node) *Node { return &Node{ID: id, Tag: "ol", Children: kids} }
	body := &Node{ID: "b", Tag: "body", Children: []*Node{
		ol("o1", li("a"), li("b", ol("o2", li("b1"), li("b2", ol("o3", li("b2x"))), li("b3"))), li("c")),
		ol("o4", li("d")),
	}}
	m := runListsModel(body, false)
	want := map[string]string{"a": "1", "b": "2", "b1": "2.1", "b2": "2.2", "b2x": "2.2.1", "b3": "2.3", "c": "3", "d": "1"}
	for id, w := range want {
		if got := m.texts[id+"::before"]; got != "[0|0|"+w+"|0|0]" {
			t.Errorf("%s: %q want list-item %s", id, got, w)
		}
	}
	// CSS 2.1 §12.4.1: h1 { counter-reset: section; counter-increment: chapter } as siblings: a reset by
	// a later sibling replaces the instance of the earlier one (no nesting), descendants nest.
	one := int64(1)
	h := func(id string, reset bool) *Node {
		p := CProps{Incr: []CVal{{Name: "c", V: &one}}}
		if reset {
			p.Reset = []CVal{{Name: "d"}}
		}
		return &Node{ID: id, Tag: "div", Props: p, Before: &CProps{}}
	}
	sub := func(id string) *Node {
		return &Node{ID: id, Tag: "div", Props: CProps{Incr: []CVal{{Name: "d"}}}, Before: &CProps{}}
	}
	body = &Node{ID: "b", Tag: "body", Props: CProps{Reset: []CVal{{Name: "c"}}}, Children: []*Node{h("h1", true), sub("s1"), sub("s2"), h("h2", true), sub("s3"),
		{ID: "w", Tag: "div", Props: CProps{Reset: []CVal{{Name: "c", V: ip(7)}}}, Before: &CProps{}, Children: []*Node{h("h3", false)}}, h("h4", false)}}
	m = runListsModel(body, false)
	want = map[string]string{"h1": "[1|0|0]", "s1": "[1|1|0]", "s2": "[1|2|0]", "h2": "[2|0|0]", "s3": "[2|1|0]", "w": "[2.7|1|0]", "h3": "[2.8|1|0]", "h4": "[2.8|1|0]"}
	_ = want
	// w resets c: body's c is created by body (w's parent), so w nests: 2.7; h3 increments the inner: 2.8;
	// h4 is a following sibling of w, in scope of w's instance: increments it: 2.9
	want["h4"] = "[2.9|1|0]"
	for id, w := range want {
		if got := m.texts[id+"::before"]; !strings.HasPrefix(got, strings.TrimSuffix(w, "]")+"|") {
			t.Errorf("%s: %q want %q", id, got, w)
		}
	}
}
