//go:build pC12 || pall

package props

import _ "verif/props/c12"
