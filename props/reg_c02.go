//go:build pC02 || pall

package props

import _ "verif/props/c02"
