package c04

// Reference table written from the CSS specifications (CSS 2.1 property index, Backgrounds 3,
// Fonts 3/4, Text 3/4, Text Decoration 3, Images 3/4, Paged Media 3, GCPM 3, Multicol 1, Flexbox 1,
// Grid 2, Box Alignment 3, Overflow 3/4, Sizing 3, Transforms 1, UI 4, Lists 3, Break 4): for every
// longhand property webrender knows, whether the specification says "Inherited: yes", the
// specification's initial value spelled as a CSS literal, and a few valid explicit literals.
// It shares nothing with /repo: names are CSS names and values are CSS text.

type lit struct {
	CSS string
	// Rel: the computed value depends on the parent's (or the element's own font) computed value,
	// so that the same literal on parent and child need not compute to the same value.
	Rel bool
}

type propSpec struct {
	Name string // CSS property name as written in declarations
	Prop string // webrender's internal name (KnownProp.String()); "" = same as Name
	Inh  bool   // "Inherited: yes" in the defining specification
	// Special: "" plain defaulting;
	//   "deco-line"  text-decoration-line: propagated, computed = own ∪ parent's (webrender's documented model);
	//   "deco-inh"   text-decoration-color/style: not inherited by spec, propagated by webrender when undeclared;
	//   "page"       page: `auto` takes the parent's used value, "" on the root;
	//   "nodecl"     cannot be declared as a longhand (font-variant is stored but set by no declaration).
	Special string
	Init    string // initial value as a CSS literal ("" = no literal spells it; see Note)
	Vals    []lit  // explicit literals whose computed value differs from the initial value
	With    string // co-declarations put on every element of the case (neighbour properties)
	Note    string
	// Known genuine defects of the unchanged tree (findings/C04/…): the feature combination is kept
	// out of the generated cases so that the check stays silent; the witness is in the finding.
	InitDefect   string // the initial literal does not compute to the initial value: mode "l" not generated
	NotInhDefect string // the specification says inherited, webrender does not inherit: generated as non-inherited
}

func v(css ...string) []lit {
	out := make([]lit, len(css))
	for i, c := range css {
		out[i] = lit{CSS: c}
	}
	return out
}

func rel(l []lit, css ...string) []lit {
	for _, c := range css {
		l = append(l, lit{CSS: c, Rel: true})
	}
	return l
}

var specTable = []propSpec{
	// ---- CSS Box Alignment 3
	{Name: "align-content", Init: "normal", Vals: v("center", "space-between", "flex-end")},
	{Name: "align-items", Init: "normal", Vals: v("center", "flex-start", "stretch")},
	{Name: "align-self", Init: "auto", Vals: v("center", "stretch")},
	{Name: "justify-content", Init: "normal", Vals: v("center", "space-around")},
	{Name: "justify-items", Init: "normal", Vals: v("center", "stretch"), Note: "spec initial is `legacy`, which computes to `normal` when the parent has no legacy keyword"},
	{Name: "justify-self", Init: "auto", Vals: v("center", "stretch")},
	{Name: "order", Init: "0", Vals: v("2", "-1")},
	{Name: "column-gap", Init: "normal", Vals: v("10px", "2em", "1cm")},
	{Name: "row-gap", Init: "normal", Vals: v("10px", "2em")},

	// ---- proprietary (no specification; webrender's documented behaviour is the definition)
	{Name: "-weasy-anchor", Prop: "anchor", Init: "none", Vals: v("attr(title)"), Note: "proprietary"},
	{Name: "-weasy-link", Prop: "link", Inh: true, Init: "none", Vals: v("url(http://example.org/a)", "attr(title)"), Note: "proprietary; inherited by design (links bubble)"},
	{Name: "-weasy-lang", Prop: "lang", Inh: true, Init: "none", Vals: v("\"fr\"", "attr(title)"), Note: "proprietary; language is inherited"},

	// ---- CSS UI 4
	{Name: "appearance", Init: "none", Vals: v("auto")},
	{Name: "outline-color", Init: "currentcolor", Vals: v("red", "rgba(0, 128, 0, 0.5)"), Note: "spec initial `auto`/invert; webrender does not support invert"},
	{Name: "outline-style", Init: "none", Vals: v("solid", "dashed")},
	{Name: "outline-width", Init: "medium", Vals: v("5px", "thick", "2em"), With: "outline-style: solid"},
	{Name: "box-sizing", Init: "content-box", Vals: v("border-box", "padding-box")},

	// ---- Backgrounds and Borders 3
	{Name: "background-attachment", Init: "scroll", Vals: v("fixed", "local")},
	{Name: "background-clip", Init: "border-box", Vals: v("padding-box", "content-box")},
	{Name: "background-color", Init: "transparent", Vals: v("red", "rgb(0, 255, 0)")},
	{Name: "background-image", Init: "none", Vals: v("url(a.png)", "linear-gradient(red, blue)", "url(a.png), none")},
	{Name: "background-origin", Init: "padding-box", Vals: v("border-box", "content-box")},
	{Name: "background-position", Init: "0% 0%", Vals: v("10px 20px", "center", "right 5px bottom 2em", "25% 75%")},
	{Name: "background-repeat", Init: "repeat", Vals: v("no-repeat", "repeat-x", "space round")},
	{Name: "background-size", Init: "auto", Vals: v("cover", "10px 2em", "50%", "contain")},
	{Name: "border-bottom-color", Init: "currentcolor", Vals: v("red", "#123456")},
	{Name: "border-left-color", Init: "currentcolor", Vals: v("red", "transparent")},
	{Name: "border-right-color", Init: "currentcolor", Vals: v("blue")},
	{Name: "border-top-color", Init: "currentcolor", Vals: v("lime")},
	{Name: "border-bottom-style", Init: "none", Vals: v("solid", "dotted", "hidden")},
	{Name: "border-left-style", Init: "none", Vals: v("dashed", "double")},
	{Name: "border-right-style", Init: "none", Vals: v("groove", "ridge")},
	{Name: "border-top-style", Init: "none", Vals: v("inset", "outset")},
	{Name: "border-bottom-width", Init: "medium", Vals: v("5px", "thin", "thick", "2em"), With: "border-bottom-style: solid"},
	{Name: "border-left-width", Init: "medium", Vals: v("5px", "1pt"), With: "border-left-style: solid"},
	{Name: "border-right-width", Init: "medium", Vals: v("7px", "thin"), With: "border-right-style: solid"},
	{Name: "border-top-width", Init: "medium", Vals: v("1px", "thick"), With: "border-top-style: solid"},
	{Name: "border-bottom-left-radius", Init: "0", Vals: v("5px", "1em 2em", "10%")},
	{Name: "border-bottom-right-radius", Init: "0", Vals: v("5px 10px", "50%")},
	{Name: "border-top-left-radius", Init: "0", Vals: v("3px", "10% 20%")},
	{Name: "border-top-right-radius", Init: "0", Vals: v("4px", "2em")},
	{Name: "border-image-source", Init: "none", Vals: v("url(a.png)", "linear-gradient(red, blue)")},
	{Name: "border-image-slice", Init: "100%", Vals: v("10", "10% 20 fill", "1 2 3 4")},
	{Name: "border-image-width", Init: "1", Vals: v("2", "5px", "auto 10%")},
	{Name: "border-image-outset", Init: "0", Vals: v("2", "5px", "1px 2")},
	{Name: "border-image-repeat", Init: "stretch", Vals: v("round", "repeat space")},
	{Name: "box-decoration-break", Init: "slice", Vals: v("clone")},

	// ---- CSS 2.1 visual formatting, tables, lists
	{Name: "border-collapse", Inh: true, Init: "separate", Vals: v("collapse")},
	{Name: "border-spacing", Inh: true, Init: "0", Vals: v("2px", "1em 3px", "4px 4px")},
	{Name: "caption-side", Inh: true, Init: "top", Vals: v("bottom")},
	{Name: "empty-cells", Inh: true, Init: "show", Vals: v("hide")},
	{Name: "table-layout", Init: "auto", Vals: v("fixed")},
	{Name: "bottom", Init: "auto", Vals: v("5px", "10%", "2em", "-3px")},
	{Name: "left", Init: "auto", Vals: v("5px", "10%")},
	{Name: "right", Init: "auto", Vals: v("1in", "-10%")},
	{Name: "top", Init: "auto", Vals: v("5px", "2em")},
	{Name: "clear", Init: "none", Vals: v("both", "left", "right")},
	{Name: "clip", Init: "auto", Vals: v("rect(1px, 2px, 3px, 4px)", "rect(1em, auto, 2em, auto)")},
	{Name: "color", Inh: true, Init: "black", Vals: v("red", "rgba(0, 128, 0, 0.5)", "#abc"), Note: "initial value depends on the user agent; webrender chooses black"},
	{Name: "direction", Inh: true, Init: "ltr", Vals: v("rtl")},
	{Name: "display", Init: "inline", Vals: v("block", "flex", "list-item", "inline-block", "table-cell", "none", "grid", "inline-table", "table-row")},
	{Name: "float", Init: "none", Vals: v("left", "right")},
	{Name: "position", Init: "static", Vals: v("relative", "absolute", "fixed", "running(x)")},
	{Name: "unicode-bidi", Special: "nodecl", Note: "known to webrender but no validator: every declaration is rejected"},
	{Name: "vertical-align", Init: "baseline", Vals: v("top", "5px", "2em", "super", "middle", "sub")},
	{Name: "visibility", Inh: true, Init: "visible", Vals: v("hidden", "collapse")},
	{Name: "z-index", Init: "auto", Vals: v("3", "-1")},
	{Name: "overflow", Init: "visible", Vals: v("hidden", "auto", "scroll")},
	{Name: "list-style-image", Inh: true, Init: "none", Vals: v("url(a.png)")},
	{Name: "list-style-position", Inh: true, Init: "outside", Vals: v("inside")},
	{Name: "list-style-type", Inh: true, Init: "disc", Vals: v("decimal", "square", "\"x\"", "none", "lower-roman")},
	{Name: "counter-increment", Init: "", Vals: v("c 2", "a b", "c"), Note: "initial `none` is stored as an internal keyword (lets list items count) and has no literal"},
	{Name: "counter-reset", Init: "none", Vals: v("c 2", "a b 3")},
	{Name: "counter-set", Init: "none", Vals: v("c 2", "d")},
	{Name: "content", Init: "normal", Vals: v("\"x\"", "counter(c)", "\"a\" attr(title) \"b\"", "open-quote")},
	{Name: "quotes", Inh: true, Init: "auto", Vals: v("none", "\"«\" \"»\"", "\"a\" \"b\" \"c\" \"d\"")},
	{Name: "orphans", Inh: true, Init: "2", Vals: v("3", "1")},
	{Name: "widows", Inh: true, Init: "2", Vals: v("3", "5")},

	// ---- box model / sizing
	{Name: "margin-bottom", Init: "0", Vals: v("5px", "2em", "10%", "auto", "-4px")},
	{Name: "margin-left", Init: "0", Vals: v("5px", "auto")},
	{Name: "margin-right", Init: "0", Vals: v("1cm", "10%")},
	{Name: "margin-top", Init: "0", Vals: v("5px", "3ex")},
	{Name: "padding-bottom", Init: "0", Vals: v("5px", "2em", "10%")},
	{Name: "padding-left", Init: "0", Vals: v("5px", "1pc")},
	{Name: "padding-right", Init: "0", Vals: v("7px", "10%")},
	{Name: "padding-top", Init: "0", Vals: v("5px", "2rem")},
	{Name: "width", Init: "auto", Vals: v("10px", "2em", "50%")},
	{Name: "height", Init: "auto", Vals: v("10px", "2em", "50%")},
	{Name: "min-width", Init: "auto", Vals: v("10px", "2em", "5%")},
	{Name: "min-height", Init: "auto", Vals: v("10px", "25%")},
	{Name: "max-width", Init: "none", Vals: v("10px", "2em", "50%")},
	{Name: "max-height", Init: "none", Vals: v("10px", "50%")},
	{Name: "opacity", Init: "1", Vals: v("0.5", "0")},

	// ---- Multi-column
	{Name: "column-count", Init: "auto", Vals: v("3", "1")},
	{Name: "column-fill", Init: "balance", Vals: v("auto")},
	{Name: "column-rule-color", Init: "currentcolor", Vals: v("red")},
	{Name: "column-rule-style", Init: "none", Vals: v("solid", "dotted")},
	{Name: "column-rule-width", Init: "medium", Vals: v("5px", "thin", "2em"), With: "column-rule-style: solid"},
	{Name: "column-span", Init: "none", Vals: v("all")},
	{Name: "column-width", Init: "auto", Vals: v("100px", "10em")},

	// ---- Fonts 3 / 4
	{Name: "font-family", Inh: true, Init: "serif", Vals: v("Ahem", "\"A B\", sans-serif", "monospace"), Note: "initial value depends on the user agent; webrender chooses serif"},
	{Name: "font-feature-settings", Inh: true, Init: "normal", Vals: v("\"liga\" 0", "\"smcp\", \"kern\" 2")},
	{Name: "font-kerning", Inh: true, Init: "auto", Vals: v("none", "normal")},
	{Name: "font-language-override", Inh: true, Init: "normal", Vals: v("\"TRK\"")},
	{Name: "font-size", Inh: true, Init: "medium", Vals: rel(v("20px", "large", "9pt", "xx-small"), "2em", "150%", "larger", "smaller")},
	{Name: "font-stretch", Inh: true, Init: "normal", Vals: v("condensed", "ultra-expanded")},
	{Name: "font-style", Inh: true, Init: "normal", Vals: v("italic", "oblique")},
	{Name: "font-variant", Inh: true, Special: "nodecl", Note: "`font-variant` is a shorthand; the stored longhand of that name is set by no declaration"},
	{Name: "font-variant-alternates", Inh: true, Init: "normal", Vals: v("historical-forms")},
	{Name: "font-variant-caps", Inh: true, Init: "normal", Vals: v("small-caps", "all-petite-caps")},
	{Name: "font-variant-east-asian", Inh: true, Init: "normal", Vals: v("jis78", "ruby", "traditional full-width")},
	{Name: "font-variant-ligatures", Inh: true, Init: "normal", Vals: v("none", "no-common-ligatures", "contextual historical-ligatures")},
	{Name: "font-variant-numeric", Inh: true, Init: "normal", Vals: v("ordinal", "lining-nums tabular-nums")},
	{Name: "font-variant-position", Inh: true, Init: "normal", Vals: v("sub", "super")},
	{Name: "font-variation-settings", Inh: true, Init: "normal", Vals: v("\"wght\" 500")},
	{Name: "font-weight", Inh: true, Init: "normal", Vals: rel(v("bold", "300", "900"), "bolder", "lighter")},

	// ---- Text 3 / 4
	{Name: "hyphenate-character", Inh: true, Init: "auto", Vals: v("\"x\"", "\"=\"")},
	{Name: "hyphenate-limit-chars", Inh: true, Init: "auto", Vals: v("6", "6 3 3", "auto 3")},
	{Name: "hyphenate-limit-zone", Inh: true, Init: "0", Vals: v("10px", "2em", "5%")},
	{Name: "hyphens", Inh: true, Init: "manual", Vals: v("auto", "none")},
	{Name: "letter-spacing", Inh: true, Init: "normal", Vals: v("2px", "0.5em", "-1px")},
	{Name: "word-spacing", Inh: true, Init: "normal", Vals: v("2px", "0.5em")},
	{Name: "line-height", Inh: true, Init: "normal", Vals: v("1.5", "20px", "150%", "2em")},
	{Name: "tab-size", Inh: true, Init: "8", Vals: v("4", "20px", "2em")},
	{Name: "text-align-all", Inh: true, Init: "start", Vals: v("center", "justify", "right")},
	{Name: "text-align-last", Inh: true, Init: "auto", Vals: v("center", "end")},
	{Name: "text-indent", Inh: true, Init: "0", Vals: v("10px", "2em", "5%")},
	{Name: "text-transform", Inh: true, Init: "none", Vals: v("uppercase", "capitalize")},
	{Name: "white-space", Inh: true, Init: "normal", Vals: v("pre", "nowrap", "pre-wrap")},
	{Name: "word-break", Inh: true, Init: "normal", Vals: v("break-all")},
	{Name: "overflow-wrap", Inh: true, Init: "normal", Vals: v("break-word", "anywhere")},
	{Name: "text-overflow", Init: "clip", Vals: v("ellipsis")},

	// ---- Text Decoration 3 (propagation modelled explicitly, see Special)
	{Name: "text-decoration-line", Special: "deco-line", Init: "none", Vals: v("underline", "overline line-through")},
	{Name: "text-decoration-color", Special: "deco-inh", Init: "currentcolor", Vals: v("red", "blue")},
	{Name: "text-decoration-style", Special: "deco-inh", Init: "solid", Vals: v("dashed", "wavy")},

	// ---- Transforms 1
	{Name: "transform", Init: "none", Vals: v("translate(10px, 2em)", "rotate(45deg)", "scale(2)", "translate(10%, 5px) rotate(1turn)")},
	{Name: "transform-origin", Init: "50% 50%", Vals: v("10px 20px", "left top", "1em 2em")},

	// ---- Overflow 3 / 4
	{Name: "continue", Init: "auto", Vals: v("discard")},
	{Name: "max-lines", Init: "none", Vals: v("3")},
	{Name: "block-ellipsis", Init: "none", Vals: v("auto", "\"…\"")},

	// ---- Generated content for paged media, Content 3
	{Name: "bookmark-label", Init: "content(text)", Vals: v("\"x\"", "content(before)", "\"a\" attr(title)")},
	{Name: "bookmark-level", Init: "none", Vals: v("2", "1")},
	{Name: "bookmark-state", Init: "open", Vals: v("closed")},
	{Name: "string-set", Init: "none", Vals: v("s \"x\"", "s content()", "a \"1\", b attr(title)")},
	{Name: "footnote-display", Init: "block", Vals: v("inline", "compact")},
	{Name: "footnote-policy", Init: "auto", Vals: v("line", "block")},

	// ---- Images 3 / 4
	{Name: "image-orientation", Inh: true, Init: "from-image", Vals: v("none", "90deg", "180deg flip"), Note: "CSS Images 3 §6.2: Inherited: yes"},
	{Name: "image-rendering", Inh: true, Init: "auto", Vals: v("pixelated", "crisp-edges")},
	{Name: "image-resolution", Inh: true, Init: "1dppx", Vals: v("2dppx", "300dpi")},
	{Name: "object-fit", Init: "fill", Vals: v("contain", "cover", "none")},
	{Name: "object-position", Init: "50% 50%", Vals: v("10px 20px", "left top", "right 2em bottom 10%")},

	// ---- Paged media 3, Fragmentation 3/4
	{Name: "page", Special: "page", Init: "auto", Vals: v("foo", "bar")},
	{Name: "size", Init: "auto", Vals: v("a5", "100px 200px", "landscape", "10cm", "letter landscape")},
	{Name: "bleed-bottom", Init: "auto", Vals: v("10px", "1em")},
	{Name: "bleed-left", Init: "auto", Vals: v("10px", "3pt")},
	{Name: "bleed-right", Init: "auto", Vals: v("7px")},
	{Name: "bleed-top", Init: "auto", Vals: v("2mm")},
	{Name: "marks", Init: "none", Vals: v("crop", "crop cross")},
	{Name: "break-after", Init: "auto", Vals: v("page", "always", "left", "avoid", "column")},
	{Name: "break-before", Init: "auto", Vals: v("page", "right", "avoid-page")},
	{Name: "break-inside", Init: "auto", Vals: v("avoid", "avoid-page")},
	{Name: "margin-break", Init: "auto", Vals: v("keep", "discard")},

	// ---- Flexbox 1
	{Name: "flex-basis", Init: "auto", Vals: v("10px", "2em", "50%", "content")},
	{Name: "flex-direction", Init: "row", Vals: v("column", "row-reverse")},
	{Name: "flex-grow", Init: "0", Vals: v("2", "0.5")},
	{Name: "flex-shrink", Init: "1", Vals: v("3", "0")},
	{Name: "flex-wrap", Init: "nowrap", Vals: v("wrap", "wrap-reverse")},

	// ---- Grid 2
	{Name: "grid-auto-columns", Init: "auto", Vals: v("10px", "minmax(10px, 1fr)", "min-content", "10px 20px")},
	{Name: "grid-auto-rows", Init: "auto", Vals: v("20px", "fit-content(30px)")},
	{Name: "grid-auto-flow", Init: "row", Vals: v("column", "row dense")},
	{Name: "grid-column-end", Init: "auto", Vals: v("2", "span 2", "a")},
	{Name: "grid-column-start", Init: "auto", Vals: v("2", "span a")},
	{Name: "grid-row-end", Init: "auto", Vals: v("3", "span 3")},
	{Name: "grid-row-start", Init: "auto", Vals: v("-1", "a 2")},
	{Name: "grid-template-areas", Init: "none", Vals: v("\"a b\"", "\"a a\" \"b .\"")},
	{Name: "grid-template-columns", Init: "none", Vals: v("10px 1fr", "repeat(2, 10px)", "[a] 10px [b] auto", "subgrid")},
	{Name: "grid-template-rows", Init: "none", Vals: v("20px", "minmax(10px, auto) 1fr")},
}
