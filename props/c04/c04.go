// Package c04 is the runtime monitor for property C04: every element, pseudo-element, anonymous
// box and page context has a computed value for every supported property, obtained by CSS
// defaulting (inherit / initial / no declaration), and relative units are made absolute.
package c04

import (
	"encoding/json"
	"math/rand"

	"verif/internal/fw"
)

type kindOnly struct {
	Kind string `json:"kind"`
}

type skipIn struct {
	Kind   string `json:"kind"` // "excluded"
	Reason string `json:"reason"`
	What   string `json:"what"`
}

func nSweep() int { return len(sweepCases) }

func counts(tier string) (sweep, units, chains, mixes int) {
	sweep, units = nSweep(), nUnits()
	if tier == "thorough" {
		return sweep, units, 50000, 20000
	}
	return sweep, units, 2000, 1500
}

func init() {
	fw.Register(&fw.Prop{
		ID: "C04",
		Rule: "cases: (1) exhaustive sweep: every known longhand property x every explicit literal of a reference table written from the CSS specifications x 8 tree positions (root, under a declaring root, child, grandchild, ::before, anonymous box, page context, margin box), each with the modes none / initial / inherit / initial-literal / explicit value; " +
			"(2) exhaustive unit sweep: every length-taking property template x every unit x font-size contexts, compared with the same declaration written in px computed by a float64 model of the fixed ratios and the font-size chain; " +
			"(3) random chains (depth <= 6) of font-size / line-height / length declarations against a float64 model; (4) random documents with several declarations per element, checked against the defaulting rules per (element, property). " +
			"Every case also reads all properties of all observed styles twice in seed-permuted orders, once more on a fresh computation in canonical order, and once on Copy()s of the styles taken on a fresh computation before any read. " +
			"A case is non-trivial when the declared value it rests on is observably different from the default at the declaring element (sweep), when the unit under test changed the computed pixel value as the model predicts (units), or when at least one relative font-size and one relative length were resolved (chains, mixes); distinct = distinct input.",
		N: func(tier string) int {
			a, b, c, d := counts(tier)
			return a + b + c + d
		},
		Gen: func(r *rand.Rand, i int, tier string) any {
			a, b, c, _ := counts(tier)
			switch {
			case i < a:
				return genSweepCase(r, i)
			case i < a+b:
				return genUnits(r, i-a)
			case i < a+b+c:
				return genChain(r)
			}
			return genMix(r)
		},
		Check: check,
		Floor: func(tier string) int {
			a, b, c, d := counts(tier)
			return (a + b + c + d) * 6 / 10
		},
		CounterFloors: func(tier string) map[string]int64 {
			a, b, c, d := counts(tier)
			return map[string]int64{
				"values_read":          int64(a) * 177 * 5,
				"order_checks":         int64(a) * 177 * 5,
				"copy_checks":          int64(a)*177*5 + int64(b) + int64(c)*3,
				"eq_relations":         int64(a) * 3,
				"twin_relations":       int64(a) * 100,
				"distinguishing_cases": int64(a) * 8 / 10,
				"unit_conversions":     int64(b),
				"chain_levels_checked": int64(c) * 3,
				"mix_pairs_checked":    int64(d) * 177,
			}
		},
		Assumptions: []string{
			"the reference table (inherited flag, initial literal, valid literals per property) was typed from the CSS specifications; for UA-dependent initial values (color, font-family, quotes) and the three proprietary properties webrender's documented choice is taken as the definition",
			"computed values are compared in a canonical form that identifies the dimension zero across units and Unit 0 with Scalar (webrender's own convention: a dimension without unit is a float)",
			"text-decoration-* propagation and page:auto are modelled as webrender documents them (descendants end up with the ancestor's value), not as plain defaulting",
			"ex/ch are checked with the Ahem font only (x-height 0.8em, advance of 0 = 1em)",
			"no feature combination is excluded at present: every defect found while building the check (findings/C04) is fixed in /repo and generated again; the exclusion mechanism (table / template flags) stays for future findings",
		},
		Exhaustive: func(tier string) bool { return false },
		Batch:      100,
	})
}

func check(raw json.RawMessage) fw.Result {
	var k kindOnly
	if err := json.Unmarshal(raw, &k); err != nil {
		return fw.Result{Verdict: fw.Inconclusive, Msg: err.Error()}
	}
	switch k.Kind {
	case "excluded":
		var res fw.Result
		res.Verdict = fw.Skip
		res.Count("excluded_known_defect_cases", 1)
		return res
	case "sweep", "mixrel":
		var in relIn
		if err := json.Unmarshal(raw, &in); err != nil {
			return fw.Result{Verdict: fw.Inconclusive, Msg: err.Error()}
		}
		return checkRel(&in)
	case "units":
		return checkUnits(raw)
	case "chain":
		return checkChain(raw)
	case "mix":
		return checkMix(raw)
	}
	return fw.Result{Verdict: fw.Inconclusive, Msg: "unknown case kind " + k.Kind}
}

// genSweepCase builds sweep case i, unless it falls in a combination excluded for a known defect.
func genSweepCase(r *rand.Rand, i int) any {
	c := sweepCases[i]
	if why := sweepExcluded(c); why != "" {
		s := specTable[c.spec]
		what := s.Name
		if c.val >= 0 {
			what += ": " + s.Vals[c.val].CSS
		}
		return skipIn{Kind: "excluded", Reason: why, What: what + " @" + c.pos}
	}
	perm := r.Int63()
	ua := "empty"
	switch c.pos {
	case "child", "grandchild", "before", "anon":
		// custom elements are touched by no user-agent rule: a quarter of these cases keep
		// webrender's own html5 user-agent sheet
		if r.Intn(4) == 0 {
			ua = "html5"
		}
	}
	// the pseudo-element position rotates over the pseudo-elements webrender styles
	pseudo := []string{"before", "after", "marker", "first-letter", "before"}[r.Intn(5)]
	return genSweep(c, perm, ua, pseudo)
}
