package c04

import (
	"encoding/json"
	"fmt"
	"math/rand"
	"strings"

	"verif/internal/fw"
)

// ---------------------------------------------------------------------------------------------
// Random documents: a small tree of custom elements under html > body, each element carrying a
// few random declarations (explicit literal, initial literal, `initial`, `inherit`) drawn from the
// reference table, with a bias towards groups of properties whose computed values depend on each
// other.  Oracle, per (element, property), from the generator's AST:
//   no declaration, inherited property   -> identical to the parent's computed value (root: initial)
//   `inherit`                            -> identical to the parent's computed value (root: initial)
//   no declaration, other property       -> identical to the value in the twin document without
//   `initial` / the initial literal         any declaration (the initial value at that place)
// unless the property depends on another property declared on the same element (display / float /
// position, border widths / styles, bleed / marks).  All properties of all elements are read in a
// seed-permuted order, twice, and on a fresh computation in canonical order.
// ---------------------------------------------------------------------------------------------

type mixDecl struct {
	Prop string `json:"prop"` // webrender name
	Mode string `json:"mode"` // v | l | i | h
	CSS  string `json:"css"`  // the declaration text
}

type mixElem struct {
	Tag    string    `json:"tag"`
	Parent string    `json:"parent"` // "" for the root
	Decls  []mixDecl `json:"decls"`
	// NoCheck: element styled by the user-agent sheet (html, body with the html5 sheet): carries no
	// generated declaration and is only a source of inherited values
	NoCheck bool `json:"nocheck,omitempty"`
}

type mixIn struct {
	Kind  string    `json:"kind"`
	Docs  []docSpec `json:"docs"` // 0: declared, 1: twin without declarations
	Elems []mixElem `json:"elems"`
	Perm  int64     `json:"perm"`
}

// groups of coupled properties (indices resolved at init)
var coupledNames = [][]string{
	{"position", "float", "display"},
	{"border-top-style", "border-top-width", "border-top-color", "color"},
	{"border-left-style", "border-left-width"},
	{"outline-style", "outline-width", "outline-color"},
	{"column-rule-style", "column-rule-width", "column-rule-color"},
	{"font-size", "line-height", "text-indent", "width", "letter-spacing", "vertical-align", "tab-size"},
	{"font-family", "font-size", "margin-top", "padding-left"},
	{"marks", "bleed-left", "bleed-top"},
	{"font-weight", "font-style", "font-stretch"},
	{"display", "border-collapse", "padding-top", "margin-left"},
	{"text-decoration-line", "text-decoration-color", "text-decoration-style", "color"},
	{"background-image", "background-position", "background-size", "font-size"},
	{"content", "quotes", "counter-increment", "-weasy-lang", "-weasy-link", "-weasy-anchor"},
}

var (
	specByDecl = map[string]int{}
	coupled    [][]int
	declarable []int
)

func init() {
	for i, s := range specTable {
		specByDecl[s.Name] = i
		if s.Special != "nodecl" {
			declarable = append(declarable, i)
		}
	}
	for _, g := range coupledNames {
		var idx []int
		for _, n := range g {
			i, ok := specByDecl[n]
			if !ok {
				panic("c04: unknown property in coupled group: " + n)
			}
			idx = append(idx, i)
		}
		coupled = append(coupled, idx)
	}
}

func genMix(r *rand.Rand) any {
	in := mixIn{Kind: "mix", Perm: r.Int63()}
	ua := "empty"
	if r.Intn(3) == 0 {
		ua = "html5"
	}
	// tree: html > body > random tree of x-0 … x-k
	n := 3 + r.Intn(5)
	elems := []mixElem{{Tag: "html"}, {Tag: "body", Parent: "html"}}
	children := map[string][]string{"html": {"body"}}
	for i := 0; i < n; i++ {
		tag := fmt.Sprintf("x-%d", i)
		// parent among body and the previous custom elements (depth grows with a bias)
		pi := 1 + r.Intn(len(elems)-1)
		if r.Intn(3) > 0 {
			pi = len(elems) - 1
		}
		parent := elems[pi].Tag
		elems = append(elems, mixElem{Tag: tag, Parent: parent})
		children[parent] = append(children[parent], tag)
	}
	for ei := range elems {
		if ua == "html5" && ei < 2 {
			elems[ei].NoCheck = true
			continue
		}
		nd := r.Intn(6)
		if elems[ei].Tag == "body" && r.Intn(2) == 0 {
			nd = 0
		}
		used := map[string]bool{}
		var pool []int
		if r.Intn(2) == 0 {
			pool = coupled[r.Intn(len(coupled))]
		}
		for k := 0; k < nd; k++ {
			var si int
			if pool != nil && r.Intn(4) > 0 {
				si = pool[r.Intn(len(pool))]
			} else {
				si = declarable[r.Intn(len(declarable))]
			}
			s := specTable[si]
			if used[s.Name] {
				continue
			}
			used[s.Name] = true
			var d mixDecl
			d.Prop = s.prop()
			switch m := r.Intn(10); {
			case m < 5:
				d.Mode, d.CSS = "v", s.Name+": "+s.Vals[r.Intn(len(s.Vals))].CSS
			case m < 7:
				d.Mode, d.CSS = "i", s.Name+": initial"
			case m < 9:
				d.Mode, d.CSS = "h", s.Name+": inherit"
			default:
				if s.Init == "" || s.InitDefect != "" {
					d.Mode, d.CSS = "i", s.Name+": initial"
				} else {
					d.Mode, d.CSS = "l", s.Name+": "+s.Init
				}
			}
			elems[ei].Decls = append(elems[ei].Decls, d)
		}
	}
	in.Elems = elems
	var st strings.Builder
	for _, e := range elems {
		var ds []string
		for _, d := range e.Decls {
			ds = append(ds, d.CSS)
		}
		st.WriteString(e.Tag + "{" + strings.Join(ds, "; ") + "} ")
	}
	var body strings.Builder
	var emit func(tag string)
	emit = func(tag string) {
		body.WriteString("<" + tag + " title=T>t")
		for _, c := range children[tag] {
			emit(c)
		}
		body.WriteString("</" + tag + ">")
	}
	for _, c := range children["body"] {
		emit(c)
	}
	in.Docs = []docSpec{{HTML: page(st.String(), body.String()), UA: ua}, {HTML: page("", body.String()), UA: ua}}
	return in
}

func checkMix(raw json.RawMessage) fw.Result {
	var in mixIn
	if err := json.Unmarshal(raw, &in); err != nil {
		return fw.Result{Verdict: fw.Inconclusive, Msg: err.Error()}
	}
	var res fw.Result
	if len(in.Docs) != 2 {
		return fw.Result{Verdict: fw.Inconclusive, Msg: "mix case needs two documents"}
	}
	var reads []readSpec
	idx := map[string]int{}
	for _, e := range in.Elems {
		idx[e.Tag] = len(reads)
		reads = append(reads, readSpec{Name: e.Tag, Doc: 0, Via: "elem", Tag: e.Tag})
		reads = append(reads, readSpec{Name: "t" + e.Tag, Doc: 1, Via: "elem", Tag: e.Tag})
	}
	txt := func() string {
		return "\n  doc: " + in.Docs[0].HTML
	}
	vals, ok := observeAll(in.Docs, reads, in.Perm, &res, txt)
	if !ok {
		return res
	}
	props := allProps()
	specOf := map[string]propSpec{}
	for _, s := range specTable {
		specOf[s.prop()] = s
	}
	inheritedSeen, declaredSeen := false, false
	for _, e := range in.Elems {
		if e.NoCheck {
			continue
		}
		ri := idx[e.Tag]
		ti := ri + 1
		declared := map[string]string{}
		dependent := map[string]bool{}
		for _, d := range e.Decls {
			declared[d.Prop] = d.Mode
			for _, dep := range dependents[d.Prop] {
				dependent[dep] = true
			}
		}
		for pi, p := range props {
			name := p.String()
			s, known := specOf[name]
			if !known {
				res.Fail("table-incomplete", "property "+name+" is missing from the reference table")
				return res
			}
			mode := declared[name]
			if mode == "v" {
				declaredSeen = true
				continue
			}
			if dependent[name] {
				res.Count("mix_pairs_skipped_dependent", 1)
				continue
			}
			if s.Special == "deco-line" || s.Special == "deco-inh" || s.Special == "page" {
				// propagation rules: covered by the sweep; here only when nothing on the path declares them
				res.Count("mix_pairs_skipped_special", 1)
				continue
			}
			got := vals[ri][pi]
			var want, why string
			fromParent := mode == "h" || (mode == "" && s.inherited())
			switch {
			case fromParent && e.Parent != "":
				want = vals[idx[e.Parent]][pi]
				why = "the parent's computed value"
				if want != vals[ti][pi] {
					inheritedSeen = true
				}
			default:
				want = vals[ti][pi]
				why = "the initial value (value at the same place in the document without declarations)"
			}
			if got != want {
				decl := "no declaration"
				for _, d := range e.Decls {
					if d.Prop == name {
						decl = "`" + d.CSS + "`"
					}
				}
				res.Fail("mix-defaulting", fmt.Sprintf("<%s> %s (%s): computed value %s, but defaulting prescribes %s = %s%s", e.Tag, name, decl, got, why, want, txt()))
				return res
			}
			res.Count("mix_pairs_checked", 1)
		}
	}
	res.Nontrivial = inheritedSeen && declaredSeen
	return res
}
