package c04

import (
	"fmt"
	"sort"
	"strings"
)

// ---------------------------------------------------------------------------------------------
// Exhaustive sweep: every known property × every explicit literal of the reference table ×
// every tree position.  For each case the generator emits the documents and the equalities that
// the CSS definitions of `inherit`, `initial` and "no declaration" prescribe.
// ---------------------------------------------------------------------------------------------

var sweepPositions = []string{"root", "underroot", "child", "grandchild", "before", "anon", "page", "margin"}

// dependents[p] = properties whose computed value CSS defines in terms of p's value
// (CSS 2.1 §9.7 display/position/float; border/outline/column-rule width is 0 when the style is
// none; bleed: auto depends on marks).
var dependents = map[string][]string{
	"position": {"float", "display"},
	"float":    {"display"},
	// CSS 2.1 §8.3 / §17.6.2: margins do not apply to internal table boxes, padding does not apply
	// to a table in the collapsing border model; webrender stores 0 for them
	"display":             {"margin-top", "margin-right", "margin-bottom", "margin-left", "padding-top", "padding-right", "padding-bottom", "padding-left"},
	"border-collapse":     {"padding-top", "padding-right", "padding-bottom", "padding-left"},
	"border-bottom-style": {"border-bottom-width"},
	"border-left-style":   {"border-left-width"},
	"border-right-style":  {"border-right-width"},
	"border-top-style":    {"border-top-width"},
	"outline-style":       {"outline-width"},
	"column-rule-style":   {"column-rule-width"},
	"marks":               {"bleed-left", "bleed-right", "bleed-top", "bleed-bottom"},
}

type sweepCase struct {
	spec int // index in specTable
	val  int // index in Vals, -1 for none
	pos  string
}

var sweepCases []sweepCase

func init() {
	for si, s := range specTable {
		if s.Special == "nodecl" {
			for _, pos := range []string{"child", "anon", "page"} {
				sweepCases = append(sweepCases, sweepCase{si, -1, pos})
			}
			continue
		}
		for vi := range s.Vals {
			for _, pos := range sweepPositions {
				sweepCases = append(sweepCases, sweepCase{si, vi, pos})
			}
		}
	}
}

// inherited is the inheritance behaviour the generated relations assume: the specification's,
// except for a property with a recorded not-inherited defect.
func (s propSpec) inherited() bool { return s.Inh && s.NotInhDefect == "" }

func (s propSpec) prop() string {
	if s.Prop != "" {
		return s.Prop
	}
	return s.Name
}

// propNameOfDecl maps a CSS declaration name of the table to webrender's property name.
func propNameOfDecl(name string) string { return strings.TrimPrefix(name, "-weasy-") }

func exclFor(s propSpec) []string {
	set := map[string]bool{}
	add := func(p string) {
		set[p] = true
		for _, d := range dependents[p] {
			set[d] = true
		}
	}
	add(s.prop())
	for _, d := range strings.Split(s.With, ";") {
		if k := strings.Index(d, ":"); k > 0 {
			add(propNameOfDecl(strings.TrimSpace(d[:k])))
		}
	}
	out := make([]string, 0, len(set))
	for k := range set {
		out = append(out, k)
	}
	sort.Strings(out)
	return out
}

// decl returns the declaration text for a mode: n (none) i (initial) h (inherit) l (initial
// literal) v (explicit value) u (var() of an undefined custom property).
func (s propSpec) decl(mode byte, val string) string {
	switch mode {
	case 'i':
		return s.Name + ": initial"
	case 'h':
		return s.Name + ": inherit"
	case 'l':
		return s.Name + ": " + s.Init
	case 'v':
		return s.Name + ": " + val
	case 'u':
		// invalid at computed-value time (undefined custom property, no fallback): behaves as if
		// there were no declaration (CSS Variables 1 §3.1: inherited or initial value)
		return s.Name + ": var(--c04-undefined)"
	}
	return ""
}

func joinDecls(ds ...string) string {
	var out []string
	for _, d := range ds {
		if strings.TrimSpace(d) != "" {
			out = append(out, d)
		}
	}
	return strings.Join(out, "; ")
}

func page(style, body string) string {
	return "<html title=T><head><style>" + style + "</style></head><body>" + body + "</body></html>"
}

// modes under test for a spec: l only when the table has an initial literal
func (s propSpec) modes() []byte {
	if s.Special == "nodecl" {
		return []byte{'n'}
	}
	if s.Init == "" || s.InitDefect != "" {
		return []byte{'n', 'i', 'h', 'v', 'u'}
	}
	return []byte{'n', 'i', 'h', 'l', 'v', 'u'}
}

// relations returns the equalities between the subject reads (named by mode letter) and the
// parent read P, for a subject whose parent is P.  direct = the subject's parent is the declaring
// element itself; otherwise an undeclared element M stands in between.
func (s propSpec) relations(in *relIn, modes []byte, rel bool, direct bool, sameKindAsP bool) {
	eq := func(a, b string) { in.Eq = append(in.Eq, [2]string{a, b}) }
	has := func(m byte) bool { return strings.IndexByte(string(modes), m) >= 0 }
	tw := func(m byte) string { return "t" + string(m) }
	parent := "P"
	if !direct {
		parent = "M"
	}
	switch s.Special {
	case "deco-line", "page":
		// propagated: every descendant ends up with the ancestor's value whatever it declares
		// among none / initial / inherit / the initial literal / the same value
		if !direct {
			eq("M", "P")
		}
		for _, m := range modes {
			eq(string(m), "P")
		}
		return
	case "deco-inh":
		if !direct {
			eq("M", "P")
		}
		eq("n", "P")
		eq("h", "P")
		eq("i", tw('i'))
		if has('l') {
			eq("l", tw('l'))
		}
		if has('v') {
			eq("v", "P")
		}
		if has('u') {
			eq("u", tw('u')) // a declaration is present: webrender does not propagate (= unset of a non-inherited property)
		}
		return
	}
	if s.inherited() {
		if !direct {
			eq("M", "P")
		}
		eq("n", "P")
		if has('h') {
			eq("h", "P")
		}
		if has('u') {
			eq("u", "P")
		}
	} else {
		if !direct {
			eq("M", "tM")
		}
		eq("n", tw('n'))
		if has('h') {
			eq("h", parent)
		}
		if has('u') {
			eq("u", tw('u'))
		}
	}
	if has('i') {
		eq("i", tw('i'))
	}
	if has('l') {
		eq("l", tw('l'))
		eq("l", "i")
	}
	if has('v') && !rel && sameKindAsP {
		eq("v", "P")
	}
}

// genSweep builds the input of one sweep case.
func genSweep(c sweepCase, perm int64, ua, pseudo string) *relIn {
	s := specTable[c.spec]
	val, rel := "", false
	if c.val >= 0 {
		val, rel = s.Vals[c.val].CSS, s.Vals[c.val].Rel
	}
	in := &relIn{Kind: "sweep", Prop: s.prop(), Label: c.pos, Perm: perm, Excl: exclFor(s)}
	modes := s.modes()
	with := s.With
	doc := func(style, body string) int {
		in.Docs = append(in.Docs, docSpec{HTML: page(style, body), UA: ua})
		return len(in.Docs) - 1
	}
	read := func(name string, d int, via, tag, pseudo, twin string) {
		in.Reads = append(in.Reads, readSpec{Name: name, Doc: d, Via: via, Tag: tag, Pseudo: pseudo, Twin: twin})
	}
	pdecl := s.decl('v', val)
	if c.val < 0 {
		pdecl = ""
	}
	rule := func(sel string, decls ...string) string { return sel + "{" + joinDecls(decls...) + "} " }
	subjectsBody := func() string {
		var sb strings.Builder
		for _, m := range modes {
			fmt.Fprintf(&sb, "<x-%c title=T>t</x-%c>", m, m)
		}
		return sb.String()
	}
	filler := `content: "b"`
	if s.prop() == "content" {
		filler = "order: 0"
	}

	switch c.pos {
	case "root":
		// one document per mode; nothing but the root rule
		for _, m := range modes {
			d := doc(rule("html", with, s.decl(m, val)), "<x-a>t</x-a>")
			twin := ""
			if m != 'n' {
				twin = "n"
			}
			read(string(m), d, "elem", "html", "", twin)
			if m != 'n' && m != 'v' {
				in.Eq = append(in.Eq, [2]string{string(m), "n"}) // the root inherits the initial values
			}
		}
		if c.val >= 0 {
			in.Ne = append(in.Ne, [2]string{"v", "n"})
		}

	case "underroot", "child", "grandchild":
		pSel, open, close := "x-p", "<x-p title=T>", "</x-p>"
		direct := c.pos == "child"
		switch c.pos {
		case "underroot":
			pSel, open, close = "html", "", "" // the declaring parent is the root, body stands in between
		case "grandchild":
			open, close = "<x-p title=T><x-m title=T>", "</x-m></x-p>"
		}
		mk := func(declare bool) int {
			var st strings.Builder
			if declare {
				st.WriteString(rule(pSel, with, pdecl))
			} else {
				st.WriteString(rule(pSel, with))
			}
			if c.pos == "underroot" {
				st.WriteString(rule("body", with))
			}
			if c.pos == "grandchild" {
				st.WriteString(rule("x-m", with))
			}
			for _, m := range modes {
				if declare {
					st.WriteString(rule("x-"+string(m), with, s.decl(m, val)))
				} else {
					st.WriteString(rule("x-"+string(m), with))
				}
			}
			return doc(st.String(), open+subjectsBody()+close)
		}
		d, t := mk(true), mk(false)
		read("P", d, "elem", pSel, "", "")
		read("tP", t, "elem", pSel, "", "")
		if !direct {
			mTag := "x-m"
			if c.pos == "underroot" {
				mTag = "body"
			}
			read("M", d, "elem", mTag, "", "")
			read("tM", t, "elem", mTag, "", "")
		}
		for _, m := range modes {
			read(string(m), d, "elem", "x-"+string(m), "", "t"+string(m))
			read("t"+string(m), t, "elem", "x-"+string(m), "", "")
		}
		s.relations(in, modes, rel, direct, c.pos != "underroot")
		if c.val >= 0 {
			in.Ne = append(in.Ne, [2]string{"P", "tP"})
		}

	case "before":
		// every originating element declares the value; its ::before is the subject
		mk := func(declare bool) int {
			var st strings.Builder
			for _, m := range modes {
				if declare {
					st.WriteString(rule("x-"+string(m), with, pdecl))
					st.WriteString(rule("x-"+string(m)+"::"+pseudo, filler, with, s.decl(m, val)))
				} else {
					st.WriteString(rule("x-"+string(m), with))
					st.WriteString(rule("x-"+string(m)+"::"+pseudo, filler, with))
				}
			}
			return doc(st.String(), subjectsBody())
		}
		d, t := mk(true), mk(false)
		for _, m := range modes {
			read("P"+string(m), d, "elem", "x-"+string(m), "", "")
			read(string(m), d, "elem", "x-"+string(m), pseudo, "t"+string(m))
			read("t"+string(m), t, "elem", "x-"+string(m), pseudo, "")
		}
		read("tP", t, "elem", "x-n", "", "")
		// all originating elements carry the same declaration: one of them is P
		in.Reads = append(in.Reads, readSpec{Name: "P", Doc: d, Via: "elem", Tag: "x-n"})
		for _, m := range modes[1:] {
			in.Eq = append(in.Eq, [2]string{"P" + string(m), "P"})
		}
		s.relations(in, modes, rel, true, true)
		if c.val >= 0 {
			in.Ne = append(in.Ne, [2]string{"P", "tP"})
		}

	case "anon":
		mk := func(declare bool) int {
			if declare {
				return doc(rule("x-p", with, pdecl)+rule("x-n", with), "<x-p title=T><x-n title=T>t</x-n>t</x-p>")
			}
			return doc(rule("x-p", with)+rule("x-n", with), "<x-p title=T><x-n title=T>t</x-n>t</x-p>")
		}
		d, t := mk(true), mk(false)
		read("P", d, "elem", "x-p", "", "")
		read("tP", t, "elem", "x-p", "", "")
		read("A", d, "anon", "x-p", "", "tA")
		read("tA", t, "anon", "x-p", "", "")
		read("n", d, "elem", "x-n", "", "tn")
		read("tn", t, "elem", "x-n", "", "")
		// an anonymous box is an undeclared child of the box that generates it
		switch {
		case s.Special == "deco-line" || s.Special == "page" || s.Special == "deco-inh" || s.inherited():
			in.Eq = append(in.Eq, [2]string{"A", "P"}, [2]string{"n", "P"})
		default:
			in.Eq = append(in.Eq, [2]string{"A", "tA"}, [2]string{"n", "tn"})
		}
		if with == "" {
			// (with co-declarations the element child carries them and the anonymous box cannot)
			in.Eq = append(in.Eq, [2]string{"A", "n"})
		}
		if c.val >= 0 {
			in.Ne = append(in.Ne, [2]string{"P", "tP"})
		}

	case "page":
		// the page context inherits from the root element
		mk := func(declare bool) int {
			var st strings.Builder
			if declare {
				st.WriteString(rule("html", with, pdecl))
			} else {
				st.WriteString(rule("html", with))
			}
			for _, m := range modes {
				if declare {
					st.WriteString(rule("@page "+string(m), with, s.decl(m, val)))
				} else {
					st.WriteString(rule("@page "+string(m), with))
				}
			}
			return doc(st.String(), "<x-a>t</x-a>")
		}
		d, t := mk(true), mk(false)
		read("P", d, "elem", "html", "", "")
		read("tP", t, "elem", "html", "", "")
		for _, m := range modes {
			read(string(m), d, "page", string(m), "", "t"+string(m))
			read("t"+string(m), t, "page", string(m), "", "")
		}
		s.relations(in, modes, rel, true, false)
		if c.val >= 0 {
			in.Ne = append(in.Ne, [2]string{"P", "tP"})
		}

	case "margin":
		// a margin box inherits from its page context
		mk := func(declare bool) int {
			var st strings.Builder
			for _, m := range modes {
				if declare {
					st.WriteString("@page " + string(m) + "{" + joinDecls(with, pdecl, "@top-left{"+joinDecls(filler, with, s.decl(m, val))+"}") + "} ")
				} else {
					st.WriteString("@page " + string(m) + "{" + joinDecls(with, "@top-left{"+joinDecls(filler, with)+"}") + "} ")
				}
			}
			return doc(st.String(), "<x-a>t</x-a>")
		}
		d, t := mk(true), mk(false)
		for _, m := range modes {
			read("P"+string(m), d, "page", string(m), "", "")
			read(string(m), d, "margin", string(m), "@top-left", "t"+string(m))
			read("t"+string(m), t, "margin", string(m), "@top-left", "")
		}
		read("tP", t, "page", "n", "", "")
		in.Reads = append(in.Reads, readSpec{Name: "P", Doc: d, Via: "page", Tag: "n"})
		for _, m := range modes[1:] {
			in.Eq = append(in.Eq, [2]string{"P" + string(m), "P"})
		}
		s.relations(in, modes, rel, true, false)
		if c.val >= 0 {
			in.Ne = append(in.Ne, [2]string{"P", "tP"})
		}
	}
	return in
}

// sweepExcluded names the known defect that makes a sweep case unusable ("" = generated).
// Nothing is excluded at case level at present: the known defects touching the sweep are handled
// per property in the reference table (InitDefect, NotInhDefect).
func sweepExcluded(c sweepCase) string { return "" }
