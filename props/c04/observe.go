package c04

import (
	"fmt"
	"math"
	"reflect"
	"sort"
	"strconv"
	"strings"
	"sync"

	"github.com/benoitkugler/webrender/css/counters"
	pr "github.com/benoitkugler/webrender/css/properties"
	"github.com/benoitkugler/webrender/html/tree"
	"github.com/benoitkugler/webrender/text"
	"github.com/benoitkugler/webrender/text/hyphen"
	"github.com/benoitkugler/webrender/utils"

	"verif/internal/wr"
)

// ---------------------------------------------------------------------------------------------
// Observation: the real cascade / computed-value code is run on a document and the computed style
// objects (pr.ElementStyle) of named elements, pseudo-elements, anonymous boxes and page contexts
// are read through the same generic accessor the layout uses: ElementStyle.Get(PropKey).
// ---------------------------------------------------------------------------------------------

// tctx is the text layout context handed to the style computation (needed for ex / ch units and
// percentage vertical-align, which measure the font).
type tctx struct {
	fonts text.FontConfiguration
	hy    map[text.HyphenDictKey]hyphen.Hyphener
	st    map[text.StrutLayoutKey][2]pr.Float
}

func (t *tctx) Fonts() text.FontConfiguration                          { return t.fonts }
func (t *tctx) HyphenCache() map[text.HyphenDictKey]hyphen.Hyphener    { return t.hy }
func (t *tctx) StrutLayoutsCache() map[text.StrutLayoutKey][2]pr.Float { return t.st }

var (
	fontsOnce sync.Once
	fontsCfg  text.FontConfiguration
	fontsErr  error

	emptyOnce sync.Once
	emptyCSS  tree.CSS
	emptyErr  error
)

func fonts() (text.FontConfiguration, error) {
	fontsOnce.Do(func() { fontsCfg, fontsErr = wr.NewPangoConfig() })
	return fontsCfg, fontsErr
}

func emptySheet() (tree.CSS, error) {
	emptyOnce.Do(func() { emptyCSS, emptyErr = tree.NewCSSDefault(utils.InputString("")) })
	return emptyCSS, emptyErr
}

// world is one styled document.
type world struct {
	html  *tree.HTML
	sf    *tree.StyleFor
	nodes map[string]*utils.HTMLNode // by tag name (first occurrence)
	warns []string

	pagesDone map[string]bool
}

// buildWorld parses src and runs the style computation.  ua = "empty" replaces the user-agent
// sheet by an empty one (so that nothing but the generated declarations applies, also on <html>),
// ua = "html5" keeps webrender's sheet.
func buildWorld(src, ua string) (*world, error) {
	done := wr.CaptureWarnings()
	w := &world{nodes: map[string]*utils.HTMLNode{}}
	defer func() { w.warns = done() }()
	h, err := tree.NewHTML(utils.InputString(src), "mem://doc/", wr.MemFetcher(nil), "")
	if err != nil {
		return nil, err
	}
	if ua == "empty" {
		e, err := emptySheet()
		if err != nil {
			return nil, err
		}
		h.UAStyleSheet = e
	}
	fc, err := fonts()
	if err != nil {
		return nil, err
	}
	tc := &tctx{fonts: fc, hy: map[text.HyphenDictKey]hyphen.Hyphener{}, st: map[text.StrutLayoutKey][2]pr.Float{}}
	var pageRules []tree.PageRule
	w.html = h
	w.sf = tree.GetAllComputedStyles(h, nil, false, fc, make(counters.CounterStyle), &pageRules, nil, false, tc)
	it := h.Root.Iter()
	for it.HasNext() {
		n := it.Next()
		if _, dup := w.nodes[n.Data]; !dup {
			w.nodes[n.Data] = n
		}
	}
	return w, nil
}

// style returns the computed style of the element with the tag name (pseudo = "" or "before"…).
func (w *world) style(tag, pseudo string) pr.ElementStyle {
	n := w.nodes[tag]
	if n == nil {
		return nil
	}
	return w.sf.Get(n, pseudo)
}

// anon returns the style webrender gives to an anonymous box generated inside a box of style
// parent (exactly the call html/boxes makes: tree.ComputedFromCascaded(nil, nil, parent, nil)).
func anon(parent pr.ElementStyle) pr.ElementStyle {
	return tree.ComputedFromCascaded(nil, nil, parent, nil)
}

// pageStyle computes (once per page name) and returns the style of the page context of the first,
// right page of that name, or of one of its margin boxes when pseudo != "" (e.g. "@top-left").
func (w *world) pageStyle(name, pseudo string) pr.ElementStyle {
	pt := utils.PageElement{Side: "right", Blank: false, First: true, Index: 0, Name: name}
	if !w.pagesDone[name] {
		if w.pagesDone == nil {
			w.pagesDone = map[string]bool{}
		}
		w.pagesDone[name] = true
		w.sf.SetPageComputedStylesT(pt, w.html)
	}
	return w.sf.Get(pt, pseudo)
}

// ---------------------------------------------------------------------------------------------
// Canonical form of a computed value: a printable string such that two values are the same
// computed value iff their strings are equal (nil and empty slices are identified, floats are
// printed exactly).
// ---------------------------------------------------------------------------------------------

// Representation aliases (documented in notes/C04.md): webrender writes the dimension zero as
// 0px, 0 (number), 0% or the zero struct depending on the code path, and "no unit" either as
// Unit 0 or as Scalar ("Dimension without unit is interpreted as float"); those are identified.
func canon(v any) string { return canonOpt(v, false) }

// canonOpt with pxAsScalar identifies px lengths and plain numbers (used for `size`, whose
// initial value is stored in px and whose computed value in numbers).
func canonOpt(v any, pxAsScalar bool) string {
	if v == nil {
		return "<nil>"
	}
	var sb strings.Builder
	c := canoner{sb: &sb, pxAsScalar: pxAsScalar}
	c.value(reflect.ValueOf(v), true)
	return sb.String()
}

// canonShape returns the canonical form with every dimension replaced by a placeholder, and the
// dimensions in order of appearance (for numeric comparison with a tolerance).
func canonShape(v any) (string, []pr.Dimension) {
	var sb strings.Builder
	var dims []pr.Dimension
	c := canoner{sb: &sb, collect: &dims}
	c.value(reflect.ValueOf(v), true)
	return sb.String(), dims
}

type canoner struct {
	sb         *strings.Builder
	pxAsScalar bool
	collect    *[]pr.Dimension
}

var (
	dimType   = reflect.TypeOf(pr.Dimension{})
	unitNames = map[pr.Unit]string{0: "", pr.Scalar: "", pr.Perc: "%", pr.Ex: "ex", pr.Em: "em", pr.Ch: "ch", pr.Rem: "rem", pr.Px: "px", pr.Pt: "pt", pr.Pc: "pc", pr.In: "in", pr.Cm: "cm", pr.Mm: "mm", pr.Q: "q", pr.Rad: "rad", pr.Turn: "turn", pr.Deg: "deg", pr.Grad: "grad", pr.Fr: "fr"}
)

func fmtFloat(f float64) string {
	if f == 0 { // +0 and -0 are the same computed value
		f = 0
	}
	return strconv.FormatFloat(f, 'g', -1, 32)
}

func (c canoner) value(v reflect.Value, withType bool) {
	sb := c.sb
	if !v.IsValid() {
		sb.WriteString("<nil>")
		return
	}
	t := v.Type()
	if t == dimType {
		d := pr.Dimension{Value: pr.Float(v.Field(0).Float()), Unit: pr.Unit(v.Field(1).Uint())}
		if c.collect != nil {
			*c.collect = append(*c.collect, d)
			sb.WriteString("<#>")
			return
		}
		if d.Value == 0 {
			sb.WriteString("<0>")
			return
		}
		u, ok := unitNames[d.Unit]
		if !ok {
			u = fmt.Sprintf("unit%d", d.Unit)
		}
		if c.pxAsScalar && d.Unit == pr.Px {
			u = ""
		}
		sb.WriteString("<" + fmtFloat(float64(d.Value)) + u + ">")
		return
	}
	switch v.Kind() {
	case reflect.Interface, reflect.Ptr:
		if v.IsNil() {
			sb.WriteString("<nil>")
			return
		}
		c.value(v.Elem(), true)
		return
	}
	if withType {
		sb.WriteString(t.Name())
	}
	switch v.Kind() {
	case reflect.Bool:
		sb.WriteString(strconv.FormatBool(v.Bool()))
	case reflect.Int, reflect.Int8, reflect.Int16, reflect.Int32, reflect.Int64:
		sb.WriteString("(" + strconv.FormatInt(v.Int(), 10) + ")")
	case reflect.Uint, reflect.Uint8, reflect.Uint16, reflect.Uint32, reflect.Uint64:
		sb.WriteString("(" + strconv.FormatUint(v.Uint(), 10) + ")")
	case reflect.Float32, reflect.Float64:
		sb.WriteString("(" + fmtFloat(v.Float()) + ")")
	case reflect.String:
		sb.WriteString(strconv.Quote(v.String()))
	case reflect.Slice, reflect.Array:
		sb.WriteByte('[')
		for i := 0; i < v.Len(); i++ {
			if i > 0 {
				sb.WriteByte(' ')
			}
			c.value(v.Index(i), v.Type().Elem().Kind() == reflect.Interface)
		}
		sb.WriteByte(']')
	case reflect.Struct:
		sb.WriteByte('{')
		first := true
		for i := 0; i < v.NumField(); i++ {
			f := v.Field(i)
			if f.IsZero() && !(c.collect != nil && f.Type() == dimType) {
				continue // zero fields are omitted: keeps witnesses short
			}
			if c.collect == nil && f.Type() == dimType && f.Field(0).Float() == 0 {
				continue // the dimension zero, whatever its unit
			}
			if (f.Kind() == reflect.Slice || f.Kind() == reflect.Map) && f.Len() == 0 {
				continue // an empty non-nil slice / map is the same value as a nil one
			}
			if !first {
				sb.WriteByte(' ')
			}
			first = false
			sb.WriteString(t.Field(i).Name + ":")
			c.value(f, f.Kind() == reflect.Interface)
		}
		sb.WriteByte('}')
	case reflect.Map:
		keys := v.MapKeys()
		strs := make([]string, len(keys))
		for i, k := range keys {
			var kb strings.Builder
			kc := canoner{sb: &kb, pxAsScalar: c.pxAsScalar, collect: c.collect}
			kc.value(k, false)
			kb.WriteByte('=')
			kc.value(v.MapIndex(k), false)
			strs[i] = kb.String()
		}
		sort.Strings(strs)
		sb.WriteString("map[" + strings.Join(strs, " ") + "]")
	default:
		sb.WriteString(fmt.Sprintf("<%s>", v.Kind()))
	}
}

// closeTo is the float32-vs-float64 comparison of BUILDERS.md rule 4.
func closeTo(a, b float64) bool {
	if math.IsInf(a, 0) || math.IsInf(b, 0) {
		return a == b
	}
	return math.Abs(a-b) <= 0.02+1e-4*math.Max(math.Abs(a), math.Abs(b))
}

// allProps is every known longhand property (1 … NbProperties-1).
func allProps() []pr.KnownProp {
	out := make([]pr.KnownProp, 0, int(pr.NbProperties)-1)
	for p := pr.KnownProp(1); p < pr.NbProperties; p++ {
		out = append(out, p)
	}
	return out
}
