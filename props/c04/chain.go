package c04

import (
	"encoding/json"
	"fmt"
	"math/rand"
	"strings"

	pr "github.com/benoitkugler/webrender/css/properties"

	"verif/internal/fw"
)

// ---------------------------------------------------------------------------------------------
// Random chains: nested elements (html > body > x-2 > … depth <= 6), each level declaring some of
// font-size / line-height / a few length properties with relative units, `inherit` or `initial`.
// The generator carries its own float64 model of the font-size chain (CSS Fonts 3 §3.5, CSS Values
// 3 §5) and stores the expected computed value of every (level, property) in the input.
// ---------------------------------------------------------------------------------------------

// expectation of one (level, property)
type chainExp struct {
	Prop string  `json:"prop"`
	S    string  `json:"s,omitempty"`   // expected keyword ("" = a number)
	V    float64 `json:"v,omitempty"`   // expected number (px, or the multiplier for a unitless line-height)
	Num  bool    `json:"num,omitempty"` // unitless number (line-height: 1.5)
	// Rel: "" exact expectation; "gt" / "lt": only V < observed (resp. >) is prescribed (font-size
	// larger / smaller away from the keyword table), and the levels below are not modelled.
	Rel    string `json:"rel,omitempty"`
	Decl   string `json:"decl,omitempty"`
	RelUse bool   `json:"reluse,omitempty"` // the expectation rests on a relative unit / inheritance of a computed length
}

type chainLevel struct {
	Tag string     `json:"tag"`
	Exp []chainExp `json:"exp"`
}

type chainIn struct {
	Kind   string       `json:"kind"`
	Doc    docSpec      `json:"doc"`
	Levels []chainLevel `json:"levels"`
	Perm   int64        `json:"perm"`
}

// CSS Fonts 3 §3.5 absolute-size table, medium = 16px
var fsKeywords = []struct {
	name string
	px   float64
}{{"xx-small", 16 * 3.0 / 5}, {"x-small", 16 * 3.0 / 4}, {"small", 16 * 8.0 / 9}, {"medium", 16}, {"large", 16 * 6.0 / 5}, {"x-large", 16 * 3.0 / 2}, {"xx-large", 32}}

type lhState struct {
	kind string // normal | num | px
	v    float64
}

type lenProp struct {
	name    string
	inh     bool
	initS   string // initial keyword ("" = 0)
	allowEm bool
}

var chainLenProps = []lenProp{
	{"text-indent", true, "", true},
	{"letter-spacing", true, "normal", true},
	{"word-spacing", true, "", true}, // `normal` computes to 0
	{"width", false, "auto", true},
	{"padding-left", false, "", true},
	{"min-height", false, "auto", true},
	{"column-gap", false, "normal", true},
	{"margin-top", false, "", true},
}

type lenState struct {
	s string
	v float64
}

var (
	chainNums  = []float64{0.5, 0.75, 1.25, 1.5, 2, 3}
	chainPx    = []float64{8, 10, 12, 20, 24, 32}
	chainAbs   = []string{"pt", "pc", "in", "cm", "mm", "q"}
	chainAbsN  = map[string][]float64{"pt": {9, 12, 18}, "pc": {1, 2}, "in": {0.25, 0.5}, "cm": {0.5, 1}, "mm": {4, 10}, "q": {16, 40}}
	chainFontU = []string{"em", "rem", "ex", "ch"}
)

func pickF(r *rand.Rand, l []float64) float64 { return l[r.Intn(len(l))] }

func genChain(r *rand.Rand) any {
	depth := 3 + r.Intn(4) // 3..6 levels
	tags := []string{"html", "body", "x-2", "x-3", "x-4", "x-5"}[:depth]
	in := chainIn{Kind: "chain", Perm: r.Int63()}
	var style strings.Builder
	style.WriteString("html{font-family: Ahem} ")

	parentFS, rootFS := 16.0, 16.0
	parentFW := 400.0
	// index in fsKeywords when the parent's font size is a table entry reached without arithmetic
	// (keyword, equal px literal, inheritance), -1 otherwise: only then is larger / smaller exact
	parentKw := 3
	parentLH := lhState{kind: "normal"}
	parentLen := make([]lenState, len(chainLenProps))
	for i, lp := range chainLenProps {
		parentLen[i] = lenState{s: lp.initS}
	}
	modelled := true // false below a level whose font-size is not uniquely prescribed
	chosen := map[int]bool{}
	for len(chosen) < 3 {
		chosen[r.Intn(len(chainLenProps))] = true
	}

	for li, tag := range tags {
		isRoot := li == 0
		lvl := chainLevel{Tag: tag}
		var decls []string

		// ---- font-size
		fs := parentFS
		kwIdx := -1
		fsExp := chainExp{Prop: "font-size"}
		switch k := r.Intn(12); {
		case k < 3: // undeclared: inherited
			fsExp.RelUse = li > 0
			kwIdx = parentKw
		case k == 3:
			fs = pickF(r, chainPx)
			fsExp.Decl = fmtNum(fs) + "px"
			for i, kw := range fsKeywords {
				if kw.px == fs {
					kwIdx = i
				}
			}
		case k == 4 || k == 5:
			n := pickF(r, chainNums)
			u := chainFontU[r.Intn(len(chainFontU))]
			fs = expectPx("fontsize", u, n, 0, parentFS, rootFS, isRoot)
			fsExp.Decl, fsExp.RelUse = fmtNum(n)+u, true
		case k == 6:
			n := pickF(r, []float64{50, 75, 125, 150, 200})
			fs = expectPx("fontsize", "%", n, 0, parentFS, rootFS, isRoot)
			fsExp.Decl, fsExp.RelUse = fmtNum(n)+"%", true
		case k == 7:
			u := chainAbs[r.Intn(len(chainAbs))]
			n := pickF(r, chainAbsN[u])
			fs = n * absRatio[u]
			fsExp.Decl, fsExp.RelUse = fmtNum(n)+u, true
		case k == 8:
			kwIdx = r.Intn(len(fsKeywords))
			kw := fsKeywords[kwIdx]
			fs = kw.px
			fsExp.Decl = kw.name
		case k == 9:
			// larger / smaller: the next / previous entry when the parent sits on the table,
			// otherwise only "bigger" / "smaller" is prescribed
			larger := r.Intn(2) == 0
			fsExp.Decl, fsExp.RelUse = map[bool]string{true: "larger", false: "smaller"}[larger], true
			idx := parentKw
			switch {
			case larger && idx >= 0 && idx+1 < len(fsKeywords):
				kwIdx = idx + 1
				fs = fsKeywords[kwIdx].px
			case !larger && idx > 0:
				kwIdx = idx - 1
				fs = fsKeywords[kwIdx].px
			default:
				// off the table (or on it only up to rounding): only the direction is prescribed;
				// the bound is loosened by the comparison tolerance
				fsExp.Rel = map[bool]string{true: "gt", false: "lt"}[larger]
				fs = parentFS - 0.02
				if !larger {
					fs = parentFS + 0.02
				}
			}
		case k == 10:
			fsExp.Decl, fsExp.RelUse = "inherit", li > 0
			kwIdx = parentKw
		default:
			fs = 16
			fsExp.Decl = "initial"
			kwIdx = 3
		}
		fsExp.V = fs
		if fsExp.Decl != "" {
			decls = append(decls, "font-size: "+fsExp.Decl)
		}
		if modelled {
			lvl.Exp = append(lvl.Exp, fsExp)
		}
		if fsExp.Rel != "" {
			modelled = false // everything below depends on a value CSS leaves to the user agent
		}
		if isRoot {
			rootFS = fs
		}

		// ---- font-weight (CSS Fonts 3 §3.2: bolder / lighter relative to the inherited weight)
		fw := parentFW
		fwExp := chainExp{Prop: "font-weight"}
		switch k := r.Intn(10); {
		case k < 3:
		case k == 3:
			fw, fwExp.Decl = 400, "normal"
		case k == 4:
			fw, fwExp.Decl = 700, "bold"
		case k == 5:
			fw = float64(100 * (1 + r.Intn(9)))
			fwExp.Decl = fmtNum(fw)
		case k == 6:
			fwExp.Decl, fwExp.RelUse = "bolder", true
			switch {
			case parentFW < 400:
				fw = 400
			case parentFW < 600:
				fw = 700
			default:
				fw = 900
			}
		case k == 7:
			fwExp.Decl, fwExp.RelUse = "lighter", true
			switch {
			case parentFW < 600:
				fw = 100
			case parentFW < 800:
				fw = 400
			default:
				fw = 700
			}
		case k == 8:
			fwExp.Decl = "inherit"
		default:
			fw, fwExp.Decl = 400, "initial"
		}
		fwExp.V = fw
		if fwExp.Decl != "" {
			decls = append(decls, "font-weight: "+fwExp.Decl)
		}
		lvl.Exp = append(lvl.Exp, fwExp) // independent of the font-size chain: always modelled

		// ---- line-height
		lh := parentLH
		lhExp := chainExp{Prop: "line-height"}
		switch k := r.Intn(10); {
		case k < 3:
			lhExp.RelUse = li > 0 && parentLH.kind == "px"
		case k == 3:
			lh = lhState{"normal", 0}
			lhExp.Decl = "normal"
		case k == 4:
			lh = lhState{"num", pickF(r, chainNums)}
			lhExp.Decl = fmtNum(lh.v)
		case k == 5:
			lh = lhState{"px", pickF(r, chainPx)}
			lhExp.Decl = fmtNum(lh.v) + "px"
		case k == 6:
			n := pickF(r, []float64{50, 120, 150, 200})
			lh = lhState{"px", n / 100 * fs}
			lhExp.Decl, lhExp.RelUse = fmtNum(n)+"%", true
		case k == 7:
			n := pickF(r, chainNums)
			u := chainFontU[r.Intn(len(chainFontU))]
			lh = lhState{"px", expectPx("lineheight", u, n, fs, parentFS, rootFS, isRoot)}
			lhExp.Decl, lhExp.RelUse = fmtNum(n)+u, true
		case k == 8:
			lhExp.Decl, lhExp.RelUse = "inherit", li > 0 && parentLH.kind == "px"
		default:
			lh = lhState{"normal", 0}
			lhExp.Decl = "initial"
		}
		switch lh.kind {
		case "normal":
			lhExp.S = "normal"
		case "num":
			lhExp.V, lhExp.Num = lh.v, true
		default:
			lhExp.V = lh.v
		}
		if lhExp.Decl != "" {
			decls = append(decls, "line-height: "+lhExp.Decl)
		}
		if modelled {
			lvl.Exp = append(lvl.Exp, lhExp)
		}

		// ---- length properties
		curLen := make([]lenState, len(chainLenProps))
		for pi, lp := range chainLenProps {
			cur := lenState{s: lp.initS} // non-inherited default
			if lp.inh {
				cur = parentLen[pi]
			}
			e := chainExp{Prop: lp.name}
			if chosen[pi] {
				switch k := r.Intn(10); {
				case k < 3:
					e.RelUse = lp.inh && li > 0 && parentLen[pi].s == "" && parentLen[pi].v != 0
				case k == 3:
					cur = lenState{v: pickF(r, chainPx)}
					e.Decl = fmtNum(cur.v) + "px"
				case k == 4 || k == 5:
					n := pickF(r, chainNums)
					u := chainFontU[r.Intn(len(chainFontU))]
					cur = lenState{v: expectPx("", u, n, fs, parentFS, rootFS, isRoot)}
					e.Decl, e.RelUse = fmtNum(n)+u, true
				case k == 6:
					u := chainAbs[r.Intn(len(chainAbs))]
					n := pickF(r, chainAbsN[u])
					cur = lenState{v: n * absRatio[u]}
					e.Decl, e.RelUse = fmtNum(n)+u, true
				case k == 7 || k == 8:
					cur = parentLen[pi]
					e.Decl = "inherit"
					e.RelUse = li > 0 && parentLen[pi].s == "" && parentLen[pi].v != 0
				default:
					cur = lenState{s: lp.initS}
					e.Decl = "initial"
				}
			}
			if isRoot && (e.Decl == "inherit" || e.Decl == "") {
				cur = lenState{s: lp.initS} // the root inherits the initial values
			}
			e.S, e.V = cur.s, cur.v
			if e.Decl != "" {
				decls = append(decls, lp.name+": "+e.Decl)
			}
			if modelled {
				lvl.Exp = append(lvl.Exp, e)
			}
			curLen[pi] = cur
		}

		style.WriteString(tag + "{" + strings.Join(decls, "; ") + "} ")
		in.Levels = append(in.Levels, lvl)
		parentFS, parentLH, parentLen, parentFW, parentKw = fs, lh, curLen, fw, kwIdx
	}
	var body strings.Builder
	for _, t := range tags[2:] {
		body.WriteString("<" + t + ">t")
	}
	for i := len(tags) - 1; i >= 2; i-- {
		body.WriteString("</" + tags[i] + ">")
	}
	in.Doc = docSpec{HTML: page(style.String(), body.String()), UA: "empty"}
	return in
}

func checkChain(raw json.RawMessage) fw.Result {
	var in chainIn
	if err := json.Unmarshal(raw, &in); err != nil {
		return fw.Result{Verdict: fw.Inconclusive, Msg: err.Error()}
	}
	var res fw.Result
	w, err := buildWorld(in.Doc.HTML, in.Doc.UA)
	if err != nil {
		return fw.Result{Verdict: fw.Inconclusive, Msg: err.Error()}
	}
	for _, wa := range w.warns {
		if strings.Contains(wa, "Ignored") || strings.Contains(wa, "Error") {
			return fw.Result{Verdict: fw.Inconclusive, Msg: "generated declaration rejected: " + wa + "\n  " + in.Doc.HTML}
		}
	}
	type item struct{ l, e int }
	var items []item
	for li, l := range in.Levels {
		for ei := range l.Exp {
			items = append(items, item{li, ei})
		}
	}
	rng := rand.New(rand.NewSource(in.Perm))
	rng.Shuffle(len(items), func(i, j int) { items[i], items[j] = items[j], items[i] })
	relFS, relLen := false, false
	for _, it := range items {
		lvl, e := in.Levels[it.l], in.Levels[it.l].Exp[it.e]
		st := w.style(lvl.Tag, "")
		if st == nil {
			res.Fail("no-style", "no computed style for "+lvl.Tag+"\n  "+in.Doc.HTML)
			return res
		}
		p := pr.PropsFromNames[e.Prop]
		v := st.Get(p.Key())
		if e.Prop == "font-weight" {
			w, ok := v.(pr.IntString)
			if !ok || w.String != "" || float64(w.Int) != e.V {
				decl := e.Decl
				if decl == "" {
					decl = "(no declaration)"
				}
				res.Fail("chain:font-weight", fmt.Sprintf("level %d <%s>: font-weight declared `%s` computes to %s, the model expects %g\n  %s", it.l, lvl.Tag, decl, canon(v), e.V, in.Doc.HTML))
				return res
			}
			res.Count("chain_levels_checked", 1)
			continue
		}
		d, ok := v.(pr.DimOrS)
		if !ok {
			res.Fail("chain-type", fmt.Sprintf("%s on %s is %s, not a dimension\n  %s", e.Prop, lvl.Tag, canon(v), in.Doc.HTML))
			return res
		}
		bad := ""
		switch {
		case e.S != "":
			// `normal` word-spacing computes to 0: both spellings accepted for the keyword itself
			if d.S != e.S {
				bad = "keyword " + e.S
			}
		case d.S != "":
			bad = fmt.Sprintf("%g", e.V)
		case e.Rel == "gt":
			if !(float64(d.Value) > e.V) {
				bad = fmt.Sprintf("a value larger than %g", e.V)
			}
		case e.Rel == "lt":
			if !(float64(d.Value) < e.V && d.Value > 0) {
				bad = fmt.Sprintf("a positive value smaller than %g", e.V)
			}
		default:
			if !closeTo(float64(d.Value), e.V) {
				bad = fmt.Sprintf("%gpx", e.V)
			}
			if e.Prop == "line-height" {
				isNum := d.Unit == pr.Scalar || d.Unit == 0
				if isNum != e.Num {
					bad = fmt.Sprintf("%g (unitless number: %v)", e.V, e.Num)
				}
			}
			if unresolvedUnits[d.Unit] || d.Unit == pr.Perc {
				bad = fmt.Sprintf("%gpx (absolute)", e.V)
			}
		}
		if bad != "" {
			decl := e.Decl
			if decl == "" {
				decl = "(no declaration)"
			}
			res.Fail("chain:"+e.Prop, fmt.Sprintf("level %d <%s>: %s declared `%s` computes to %s, the model expects %s\n  %s", it.l, lvl.Tag, e.Prop, decl, canon(v), bad, in.Doc.HTML))
			return res
		}
		res.Count("chain_levels_checked", 1)
		if e.RelUse {
			if e.Prop == "font-size" {
				relFS = true
			} else {
				relLen = true
			}
			res.Count("chain_relative_resolutions", 1)
		}
	}
	// copy consistency: Copy() of every level's style on a fresh computation, modelled properties
	// read on the copies only (seeded order), must equal the originals
	w2, err := buildWorld(in.Doc.HTML, in.Doc.UA)
	if err != nil {
		return fw.Result{Verdict: fw.Inconclusive, Msg: err.Error()}
	}
	copies := map[string]pr.ElementStyle{}
	for _, l := range in.Levels {
		if st := w2.style(l.Tag, ""); st != nil {
			copies[l.Tag] = st.Copy()
		}
	}
	rng.Shuffle(len(items), func(i, j int) { items[i], items[j] = items[j], items[i] })
	for _, it := range items {
		lvl, e := in.Levels[it.l], in.Levels[it.l].Exp[it.e]
		cp := copies[lvl.Tag]
		if cp == nil {
			continue
		}
		key := pr.PropsFromNames[e.Prop].Key()
		if a, b := canon(cp.Get(key)), canon(w.style(lvl.Tag, "").Get(key)); a != b {
			res.Fail("copy-differs", fmt.Sprintf("level %d <%s>: Get(%s) on a Copy() of the style (taken before anything was read) gives %s, the original gives %s\n  %s", it.l, lvl.Tag, e.Prop, a, b, in.Doc.HTML))
			return res
		}
		res.Count("copy_checks", 1)
	}
	res.Nontrivial = relFS && relLen
	return res
}
