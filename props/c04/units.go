package c04

import (
	"encoding/json"
	"fmt"
	"math/rand"
	"strconv"
	"strings"

	pr "github.com/benoitkugler/webrender/css/properties"

	"verif/internal/fw"
)

// ---------------------------------------------------------------------------------------------
// Unit sweep.  For every place where a property takes a <length>, every unit and a few font-size
// contexts, the declaration `p: …N<unit>…` must compute to the same value as `p: …X px…` where X
// is computed here, in float64, from the fixed ratios of CSS Values (1in = 96px = 72pt = 6pc =
// 2.54cm = 25.4mm = 101.6q) and from the generator's own font-size chain (em, rem, ex = 0.8em and
// ch = 1em with Ahem).  The px twin is written by the generator: the monitor only compares.
// ---------------------------------------------------------------------------------------------

type unitTemplate struct {
	Name   string // CSS property name
	Tmpl   string // value with @ where the length goes
	With   string
	Kind   string // "" | "fontsize" | "lineheight"
	Defect string // known-defect id: not generated
	// NoShare: the two elements with different font sizes get two separate (identical) rules instead
	// of one rule with a selector list (known defect gradient-shared-mutation: a declared gradient
	// shared by several elements is converted in place by the first element computing it).
	NoShare bool
}

func ut(name string, tmpls ...string) []unitTemplate {
	out := make([]unitTemplate, len(tmpls))
	for i, t := range tmpls {
		out[i] = unitTemplate{Name: name, Tmpl: t}
	}
	return out
}

func cat(l ...[]unitTemplate) []unitTemplate {
	var out []unitTemplate
	for _, x := range l {
		out = append(out, x...)
	}
	return out
}

func with(w string, l []unitTemplate) []unitTemplate {
	for i := range l {
		l[i].With = w
	}
	return l
}

func defect(id string, l []unitTemplate) []unitTemplate {
	for i := range l {
		l[i].Defect = id
	}
	return l
}

func noShare(l []unitTemplate) []unitTemplate {
	for i := range l {
		l[i].NoShare = true
	}
	return l
}

func kind(k string, l []unitTemplate) []unitTemplate {
	for i := range l {
		l[i].Kind = k
	}
	return l
}

var unitTemplates = cat(
	ut("width", "@"), ut("height", "@"), ut("min-width", "@"), ut("min-height", "@"), ut("max-width", "@"), ut("max-height", "@"),
	ut("margin-top", "@"), ut("margin-right", "@"), ut("margin-bottom", "@"), ut("margin-left", "@"),
	ut("padding-top", "@"), ut("padding-right", "@"), ut("padding-bottom", "@"), ut("padding-left", "@"),
	ut("top", "@"), ut("right", "@"), ut("bottom", "@"), ut("left", "@"),
	with("border-top-style: solid", ut("border-top-width", "@")),
	with("border-right-style: dashed", ut("border-right-width", "@")),
	with("border-bottom-style: double", ut("border-bottom-width", "@")),
	with("border-left-style: solid", ut("border-left-width", "@")),
	with("outline-style: solid", ut("outline-width", "@")),
	with("column-rule-style: solid", ut("column-rule-width", "@")),
	ut("border-top-left-radius", "@", "@ 3px", "3px @"), ut("border-top-right-radius", "@"), ut("border-bottom-left-radius", "@ 3px"), ut("border-bottom-right-radius", "3px @"),
	ut("border-spacing", "@", "3px @", "@ 3px"),
	ut("background-position", "@ 3px", "3px @", "right @ bottom 3px", "left 3px top @", "3px 5px, @ 7px"),
	ut("background-size", "@ 3px", "auto @", "@"),
	ut("background-image", "linear-gradient(red @, blue)", "linear-gradient(to right, red, lime @, blue 300px)", "radial-gradient(circle at @ 3px, red, blue)", "radial-gradient(ellipse @ 7px at center, red, blue)", "radial-gradient(red @, blue)"),
	ut("object-position", "@ 3px", "3px @"),
	ut("transform-origin", "@ 3px", "3px @"),
	ut("transform", "translate(@, 3px)", "translate(3px, @)", "translateX(@)", "translateY(@)", "rotate(10deg) translate(@)"),
	ut("clip", "rect(@, 3px, 5px, 9px)", "rect(3px, @, 5px, 9px)", "rect(3px, 5px, 9px, @)"),
	ut("text-indent", "@"), ut("hyphenate-limit-zone", "@"), ut("letter-spacing", "@"), ut("word-spacing", "@"), ut("tab-size", "@"),
	ut("vertical-align", "@"),
	ut("column-width", "@"), ut("column-gap", "@"), ut("row-gap", "@"),
	ut("flex-basis", "@"),
	ut("bleed-top", "@"), ut("bleed-right", "@"), ut("bleed-bottom", "@"), ut("bleed-left", "@"),
	ut("size", "@ 300px", "300px @", "@"),
	kind("lineheight", ut("line-height", "@")),
	kind("fontsize", ut("font-size", "@")),
	// formerly known defects (findings/C04, fixed in /repo): generated again as regression coverage
	ut("border-image-outset", "@", "@ 3"),
	ut("border-image-width", "@", "@ 3"),
	ut("grid-auto-columns", "@", "minmax(@, 1fr)", "fit-content(@)"),
	ut("grid-auto-rows", "@"),
	ut("grid-template-columns", "@ 1fr", "repeat(2, @)", "[a] @ [b]"),
	ut("grid-template-rows", "@", "minmax(3px, @)"),
)

var unitNamesList = []string{"px", "in", "cm", "mm", "q", "pt", "pc", "em", "rem", "ex", "ch", "%"}

// the fixed ratios (CSS Values and Units 3 §5.2)
var absRatio = map[string]float64{"px": 1, "in": 96, "cm": 96 / 2.54, "mm": 96 / 25.4, "q": 96 / 101.6, "pt": 96.0 / 72, "pc": 16}

const (
	ahemEx = 0.8 // x-height of Ahem / em
	ahemCh = 1.0 // advance of "0" in Ahem / em
)

// font contexts: root font-size, parent (x-p) font-size, font-size of x-a/x-b, of x-c/x-d, of the
// inheriting child x-e; each as (css text, value in px computed by the generator).  "" = undeclared.
type fontCtx struct {
	Root, Parent, A, C, E   string
	rootPx, parPx, aPx, cPx float64
	N                       float64
	OnRoot                  bool
}

var fontCtxs = []fontCtx{
	{Root: "", Parent: "", A: "", C: "20px", E: "10px", rootPx: 16, parPx: 16, aPx: 16, cPx: 20, N: 2},
	{Root: "10px", Parent: "25px", A: "20px", C: "8px", E: "30px", rootPx: 10, parPx: 25, aPx: 20, cPx: 8, N: 0.5},
	{Root: "20px", Parent: "1.5em", A: "0.5em", C: "2rem", E: "1em", rootPx: 20, parPx: 30, aPx: 15, cPx: 40, N: 1.25},
	{Root: "10px", OnRoot: true, rootPx: 10, N: 3},
	{Root: "", OnRoot: true, rootPx: 16, N: 1.5},
}

type unitCase struct {
	tmpl, unit, ctx int
}

var unitCases []unitCase

func init() {
	for ti, t := range unitTemplates {
		for ui, u := range unitNamesList {
			if u == "%" && t.Kind == "" {
				continue // percentages of lengths are not resolved at computed-value time
			}
			for ci := range fontCtxs {
				unitCases = append(unitCases, unitCase{ti, ui, ci})
			}
		}
	}
}

func nUnits() int { return len(unitCases) }

type unitPair struct {
	Rel string  `json:"rel"` // tag of the element declared with the unit under test
	Px  string  `json:"px"`  // tag of its twin declared in px
	X   float64 `json:"x"`   // the pixel value the model expects (informative + non-vacuity)
}

type unitsIn struct {
	Kind    string     `json:"kind"`
	Prop    string     `json:"prop"`
	Decl    string     `json:"decl"`
	Docs    []docSpec  `json:"docs"`
	Pairs   []unitPair `json:"pairs"` // (doc 0 unless OnRoot: rel in doc 0, px in doc 1)
	OnRoot  bool       `json:"on_root"`
	Inherit [2]string  `json:"inherit"` // (child declared `inherit`, its parent): must be identical
	Order   []string   `json:"order"`   // tags in the order their value is first read
}

func fmtPx(x float64) string { return strconv.FormatFloat(x, 'f', -1, 64) + "px" }

func fmtNum(x float64) string { return strconv.FormatFloat(x, 'f', -1, 64) }

// expectPx is the reference model: N<unit> in pixels for an element whose own computed font-size is
// own, whose parent's is parent, in a document whose root's computed font-size is root.
func expectPx(kind, unit string, n, own, parent, root float64, isRoot bool) float64 {
	base := own
	if kind == "fontsize" {
		base = parent // font-relative units on font-size refer to the parent's font size
		if isRoot {
			base, root = 16, 16 // … and to the initial value on the root element
		}
	}
	switch unit {
	case "em":
		return n * base
	case "rem":
		return n * root
	case "ex":
		return n * base * ahemEx
	case "ch":
		return n * base * ahemCh
	case "%":
		return n * base / 100 // font-size: of the parent's; line-height: of the element's own
	}
	return n * absRatio[unit]
}

func genUnits(r *rand.Rand, i int) any {
	c := unitCases[i]
	t, u, fc := unitTemplates[c.tmpl], unitNamesList[c.unit], fontCtxs[c.ctx]
	if t.Defect != "" {
		return skipIn{Kind: "excluded", Reason: t.Defect, What: t.Name + ": " + strings.ReplaceAll(t.Tmpl, "@", "N"+u)}
	}
	n := fc.N
	if u == "%" {
		n *= 100
	}
	relLit := fmtNum(n) + u
	decl := func(lit string) string { return t.Name + ": " + strings.ReplaceAll(t.Tmpl, "@", lit) }
	fs := func(v string) string {
		if v == "" {
			return ""
		}
		return "font-size: " + v
	}
	rule := func(sel string, decls ...string) string { return sel + "{" + joinDecls(decls...) + "} " }
	in := unitsIn{Kind: "units", Prop: propNameOfDecl(t.Name), Decl: decl(relLit), OnRoot: fc.OnRoot}
	if fc.OnRoot {
		own := fc.rootPx
		x := expectPx(t.Kind, u, n, own, 16, own, true)
		rootFS := fs(fc.Root)
		if t.Kind == "fontsize" {
			rootFS = ""
		}
		in.Docs = []docSpec{
			{HTML: page(rule("html", "font-family: Ahem", rootFS, t.With, decl(relLit)), "<x-a>t</x-a>"), UA: "empty"},
			{HTML: page(rule("html", "font-family: Ahem", rootFS, t.With, decl(fmtPx(x))), "<x-a>t</x-a>"), UA: "empty"},
		}
		in.Pairs = []unitPair{{Rel: "html", Px: "html", X: x}}
		in.Order = []string{"html"}
		return in
	}
	var st strings.Builder
	st.WriteString(rule("html", "font-family: Ahem", fs(fc.Root)))
	st.WriteString(rule("x-p", fs(fc.Parent)))
	st.WriteString(rule("x-q", fs(fc.C))) // second parent, used by the font-size templates
	var xa, xc float64
	if t.Kind == "fontsize" {
		// x-a is a child of x-p, x-c a child of x-q: the same rule computes against two parents
		xa = expectPx(t.Kind, u, n, 0, fc.parPx, fc.rootPx, false)
		xc = expectPx(t.Kind, u, n, 0, fc.cPx, fc.rootPx, false)
		st.WriteString(rule("x-a, x-c", decl(relLit)))
		st.WriteString(rule("x-b", decl(fmtPx(xa))))
		st.WriteString(rule("x-d", decl(fmtPx(xc))))
		st.WriteString(rule("x-e", t.Name+": inherit"))
	} else {
		xa = expectPx(t.Kind, u, n, fc.aPx, fc.parPx, fc.rootPx, false)
		xc = expectPx(t.Kind, u, n, fc.cPx, fc.parPx, fc.rootPx, false)
		if t.NoShare {
			st.WriteString(rule("x-a", t.With, decl(relLit)))
			st.WriteString(rule("x-c", t.With, decl(relLit)))
		} else {
			st.WriteString(rule("x-a, x-c", t.With, decl(relLit)))
		}
		st.WriteString(rule("x-a, x-b", fs(fc.A)))
		st.WriteString(rule("x-c, x-d", fs(fc.C)))
		st.WriteString(rule("x-b", t.With, decl(fmtPx(xa))))
		st.WriteString(rule("x-d", t.With, decl(fmtPx(xc))))
		st.WriteString(rule("x-e", fs(fc.E), t.With, t.Name+": inherit"))
	}
	body := "<x-p><x-a>t<x-e>t</x-e></x-a><x-b>t</x-b></x-p><x-q><x-c>t</x-c><x-d>t</x-d></x-q>"
	if t.Kind != "fontsize" {
		body = "<x-p><x-a>t<x-e>t</x-e></x-a><x-b>t</x-b><x-c>t</x-c><x-d>t</x-d></x-p>"
	}
	in.Docs = []docSpec{{HTML: page(st.String(), body), UA: "empty"}}
	in.Pairs = []unitPair{{Rel: "x-a", Px: "x-b", X: xa}, {Rel: "x-c", Px: "x-d", X: xc}}
	in.Inherit = [2]string{"x-e", "x-a"}
	in.Order = []string{"x-a", "x-b", "x-c", "x-d", "x-e"}
	r.Shuffle(len(in.Order), func(i, j int) { in.Order[i], in.Order[j] = in.Order[j], in.Order[i] })
	return in
}

// relative / absolute units that must not survive in a computed value
var unresolvedUnits = map[pr.Unit]bool{pr.Em: true, pr.Ex: true, pr.Ch: true, pr.Rem: true, pr.Pt: true, pr.Pc: true, pr.In: true, pr.Cm: true, pr.Mm: true, pr.Q: true}

func checkUnits(raw json.RawMessage) fw.Result {
	var in unitsIn
	if err := json.Unmarshal(raw, &in); err != nil {
		return fw.Result{Verdict: fw.Inconclusive, Msg: err.Error()}
	}
	var res fw.Result
	ws, err := buildWorlds(in.Docs)
	if err != nil {
		return fw.Result{Verdict: fw.Inconclusive, Msg: err.Error()}
	}
	txt := func() string {
		var sb strings.Builder
		for i, d := range in.Docs {
			fmt.Fprintf(&sb, "\n  doc %d: %s", i, d.HTML)
		}
		return sb.String()
	}
	for _, w := range ws {
		for _, wa := range w.warns {
			if strings.Contains(wa, "Ignored") || strings.Contains(wa, "Error") {
				res.Verdict = fw.Inconclusive
				res.Msg = "generated declaration rejected: " + wa + txt()
				return res
			}
		}
	}
	p, ok := pr.PropsFromNames[in.Prop]
	if !ok {
		return fw.Result{Verdict: fw.Inconclusive, Msg: "unknown property " + in.Prop}
	}
	type obsv struct {
		shape string
		dims  []pr.Dimension
		exact string
	}
	vals := map[string]obsv{}
	readTag := func(doc int, tag string) (obsv, bool) {
		key := fmt.Sprintf("%d/%s", doc, tag)
		if o, ok := vals[key]; ok {
			return o, true
		}
		st := ws[doc].style(tag, "")
		if st == nil {
			res.Fail("no-style", "no computed style for "+tag+txt())
			return obsv{}, false
		}
		v := st.Get(p.Key())
		if v == nil {
			res.Fail("nil-value", fmt.Sprintf("Get(%s) returned nil on %s%s", in.Prop, tag, txt()))
			return obsv{}, false
		}
		var o obsv
		o.shape, o.dims = canonShape(v)
		o.exact = canon(v)
		vals[key] = o
		return o, true
	}
	// first reads in the seeded order (a shared declared value must not be altered by whoever
	// computes first)
	for _, tag := range in.Order {
		if _, ok := readTag(0, tag); !ok {
			return res
		}
	}
	for _, pair := range in.Pairs {
		pxDoc := 0
		if in.OnRoot {
			pxDoc = 1
		}
		a, ok1 := readTag(0, pair.Rel)
		b, ok2 := readTag(pxDoc, pair.Px)
		if !ok1 || !ok2 {
			return res
		}
		for _, d := range a.dims {
			if unresolvedUnits[d.Unit] {
				res.Fail("unit-unresolved", fmt.Sprintf("`%s` on %s: the computed value still carries the unit %s: %s%s", in.Decl, pair.Rel, unitNames[d.Unit], a.exact, txt()))
				return res
			}
		}
		if a.shape != b.shape || len(a.dims) != len(b.dims) {
			res.Fail("unit-conversion", fmt.Sprintf("`%s` on %s computes to %s but the same declaration in px (model: %gpx) on %s computes to %s%s", in.Decl, pair.Rel, a.exact, pair.X, pair.Px, b.exact, txt()))
			return res
		}
		seen := false
		for k := range a.dims {
			da, db := a.dims[k], b.dims[k]
			ua, ub := da.Unit, db.Unit
			if ua == 0 {
				ua = pr.Scalar
			}
			if ub == 0 {
				ub = pr.Scalar
			}
			if (ua != ub && !(da.Value == 0 && db.Value == 0)) || !closeTo(float64(da.Value), float64(db.Value)) {
				res.Fail("unit-conversion", fmt.Sprintf("`%s` on %s computes to %s but the same declaration in px (model: %gpx) on %s computes to %s%s", in.Decl, pair.Rel, a.exact, pair.X, pair.Px, b.exact, txt()))
				return res
			}
			if closeTo(float64(db.Value), pair.X) {
				seen = true
			}
		}
		if seen {
			res.Count("unit_conversions", 1)
			res.Nontrivial = true
		} else {
			res.Count("unit_px_value_not_found", 1)
		}
	}
	// copy consistency: on a fresh computation, a Copy() of each observed style (taken before
	// anything is read) must compute the same value for the declaration under test
	ws2, err := buildWorlds(in.Docs)
	if err != nil {
		return fw.Result{Verdict: fw.Inconclusive, Msg: err.Error()}
	}
	for key, o := range vals {
		var doc int
		var tag string
		fmt.Sscanf(strings.Replace(key, "/", " ", 1), "%d %s", &doc, &tag)
		st := ws2[doc].style(tag, "")
		if st == nil {
			res.Fail("no-style", "no computed style for "+tag+txt())
			return res
		}
		cv := st.Copy().Get(p.Key())
		if c := canon(cv); c != o.exact {
			res.Fail("copy-differs", fmt.Sprintf("`%s`: Get(%s) on a Copy() of the style of %s (taken before anything was read) gives %s, the original gives %s%s", in.Decl, in.Prop, tag, c, o.exact, txt()))
			return res
		}
		res.Count("copy_checks", 1)
	}
	if in.Inherit[0] != "" {
		c, ok1 := readTag(0, in.Inherit[0])
		par, ok2 := readTag(0, in.Inherit[1])
		if !ok1 || !ok2 {
			return res
		}
		if c.exact != par.exact {
			res.Fail("inherit-not-computed", fmt.Sprintf("`%s: inherit` on %s gives %s but its parent %s (declared `%s`) has the computed value %s%s", in.Prop, in.Inherit[0], c.exact, in.Inherit[1], in.Decl, par.exact, txt()))
			return res
		}
		res.Count("inherit_of_computed_length", 1)
	}
	return res
}
