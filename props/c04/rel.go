package c04

import (
	"fmt"
	"math/rand"
	"reflect"
	"strings"

	pr "github.com/benoitkugler/webrender/css/properties"

	"verif/internal/fw"
)

// ---------------------------------------------------------------------------------------------
// Generic relational monitor.  A case is a handful of documents, a list of "reads" (style objects
// to observe: element, pseudo-element, anonymous box, page context, margin box) and relations
// between the computed values read from them.  The relations are produced by the generators from
// the CSS definitions of defaulting (inherit / initial / no declaration) and never mention an
// expected literal value.
//
// For every case the monitor also checks, on *all* properties (not only the one under test):
//   * Get returns a non-nil value;
//   * lazy-cache stability: all (read, property) pairs are read in a seed-permuted order, then a
//     second time in another order, then on a freshly computed copy of the documents in canonical
//     order: the three observations must agree;
//   * copy consistency: ElementStyle.Copy() taken on a fresh computation before any read computes
//     the same values as the original;
//   * no cross-talk: a property that is neither declared nor dependent on a declared one has the
//     same value as in the "twin" document where the declarations under test are removed.
// ---------------------------------------------------------------------------------------------

type docSpec struct {
	HTML string `json:"html"`
	UA   string `json:"ua"` // "empty" | "html5"
}

type readSpec struct {
	Name   string `json:"name"`
	Doc    int    `json:"doc"`
	Via    string `json:"via"` // elem | anon | page | margin
	Tag    string `json:"tag"` // element tag name, or page name for page / margin
	Pseudo string `json:"pseudo,omitempty"`
	Twin   string `json:"twin,omitempty"` // name of the read at the same place in the twin document
}

type relIn struct {
	Kind  string      `json:"kind"`
	Prop  string      `json:"prop"` // webrender property name under test ("" = none)
	Label string      `json:"label"`
	Docs  []docSpec   `json:"docs"`
	Reads []readSpec  `json:"reads"`
	Eq    [][2]string `json:"eq"`             // computed values of Prop that must be identical
	Ne    [][2]string `json:"ne,omitempty"`   // values expected to differ (non-vacuity witnesses; counted)
	Excl  []string    `json:"excl,omitempty"` // properties exempt from the twin relation (declared or dependent)
	Perm  int64       `json:"perm"`
}

func (r readSpec) pseudoish() bool { return r.Via == "margin" || (r.Via == "elem" && r.Pseudo != "") }

// the properties whose anonymous-box value webrender leaves as the specified keyword
// (InitialNotComputed entries that AnonymousStyle does not compute); numerically they read as 0.
var anonKeywordProps = map[string]bool{"column-rule-width": true, "bleed-left": true, "bleed-right": true, "bleed-top": true, "bleed-bottom": true}

// canonProp is canon plus the per-property representation aliases.
func canonProp(prop string, v pr.CssProperty, r readSpec, res *fw.Result) string {
	switch prop {
	case "size":
		return canonOpt(v, true)
	case "content":
		// `content: normal` computes to `contents` on elements and to `inhibit` (= none) on
		// pseudo-elements, but an undeclared / `initial` content keeps the keyword `normal`
		// (webrender's consumers accept both spellings).  Identified here, counted in evidence.
		if sc, ok := v.(pr.SContent); ok && sc.String == "normal" && len(sc.Contents) == 0 {
			if res != nil {
				res.Count("alias_content_normal_uncomputed", 1)
			}
			if r.pseudoish() {
				return canon(pr.SContent{String: "inhibit"})
			}
			return canon(pr.SContent{String: "contents"})
		}
	}
	if r.Via == "anon" && anonKeywordProps[prop] {
		if d, ok := v.(pr.DimOrS); ok && (d.S == "medium" || d.S == "auto") && d.Value == 0 {
			if res != nil {
				res.Count("alias_anon_keyword_uncomputed", 1)
			}
			return canon(pr.DimOrS{})
		}
	}
	return canon(v)
}

type observation struct {
	vals [][]string // [read][prop] canonical values
}

func resolveRead(ws []*world, r readSpec, memo map[string]pr.ElementStyle) (pr.ElementStyle, error) {
	if r.Doc < 0 || r.Doc >= len(ws) {
		return nil, fmt.Errorf("read %s: bad document index", r.Name)
	}
	w := ws[r.Doc]
	var st pr.ElementStyle
	switch r.Via {
	case "elem":
		st = w.style(r.Tag, r.Pseudo)
	case "anon":
		p := w.style(r.Tag, r.Pseudo)
		if p == nil {
			return nil, fmt.Errorf("read %s: no parent style for anonymous box", r.Name)
		}
		st = anon(p)
	case "page":
		st = w.pageStyle(r.Tag, "")
	case "margin":
		st = w.pageStyle(r.Tag, r.Pseudo)
	}
	if st == nil || reflect.ValueOf(st).IsNil() {
		return nil, fmt.Errorf("read %s (%s %s %s): no computed style", r.Name, r.Via, r.Tag, r.Pseudo)
	}
	return st, nil
}

func buildWorlds(docs []docSpec) ([]*world, error) {
	ws := make([]*world, len(docs))
	for i, d := range docs {
		w, err := buildWorld(d.HTML, d.UA)
		if err != nil {
			return nil, err
		}
		ws[i] = w
	}
	return ws, nil
}

func describe(r readSpec) string {
	return fmt.Sprintf("%s[%s %s%s in doc %d]", r.Name, r.Via, r.Tag, map[bool]string{true: "::" + r.Pseudo, false: ""}[r.Pseudo != ""], r.Doc)
}

func docsText(in *relIn) string {
	var sb strings.Builder
	for i, d := range in.Docs {
		fmt.Fprintf(&sb, "\n  doc %d (ua %s): %s", i, d.UA, d.HTML)
	}
	return sb.String()
}

// observeAll builds the documents, resolves the reads and observes every property of every read:
// in a seed-permuted order, a second time in another order, and once more on a fresh computation in
// canonical order.  It fails the result (and returns ok = false) when an observation is nil or when
// the three observations disagree.  vals[read][property index] is the canonical computed value.
func observeAll(docs []docSpec, reads []readSpec, perm int64, res *fw.Result, docsText func() string) (vals [][]string, ok bool) {
	props := allProps()
	nP := len(props)
	ws, err := buildWorlds(docs)
	if err != nil {
		*res = fw.Result{Verdict: fw.Inconclusive, Msg: err.Error()}
		return nil, false
	}
	for _, w := range ws {
		for _, wa := range w.warns {
			// a generated declaration that webrender rejects makes the case meaningless
			if strings.HasSuffix(strings.TrimSpace(wa), ", no value") || strings.Contains(wa, "var(--c04-undefined)") {
				continue // the expected report for `p: var(--c04-undefined)` (invalid at computed-value time)
			}
			if strings.Contains(wa, "Ignored") || strings.Contains(wa, "Error") {
				res.Verdict = fw.Inconclusive
				res.Msg = "generated declaration rejected: " + wa + docsText()
				return nil, false
			}
		}
	}
	nR := len(reads)
	styles := make([]pr.ElementStyle, nR)
	vals = make([][]string, nR)
	for i, r := range reads {
		st, err := resolveRead(ws, r, nil)
		if err != nil {
			res.Fail("no-style", err.Error()+docsText())
			return nil, false
		}
		styles[i] = st
		vals[i] = make([]string, nP)
	}
	rng := rand.New(rand.NewSource(perm))
	order := rng.Perm(nR * nP)
	for _, k := range order {
		ri, pi := k/nP, k%nP
		v := styles[ri].Get(props[pi].Key())
		if v == nil {
			res.Fail("nil-value", fmt.Sprintf("Get(%s) returned nil on %s%s", props[pi], describe(reads[ri]), docsText()))
			return nil, false
		}
		vals[ri][pi] = canonProp(props[pi].String(), v, reads[ri], res)
	}
	res.Count("values_read", int64(nR*nP))
	// second read, another order: the cache must give the same answer
	order2 := rng.Perm(nR * nP)
	for _, k := range order2 {
		ri, pi := k/nP, k%nP
		v := styles[ri].Get(props[pi].Key())
		if c := canonProp(props[pi].String(), v, reads[ri], nil); c != vals[ri][pi] {
			res.Fail("cache-unstable", fmt.Sprintf("second Get(%s) on %s differs from the first: %s then %s%s", props[pi], describe(reads[ri]), vals[ri][pi], c, docsText()))
			return nil, false
		}
	}
	// fresh computation, canonical order
	ws2, err := buildWorlds(docs)
	if err != nil {
		*res = fw.Result{Verdict: fw.Inconclusive, Msg: err.Error()}
		return nil, false
	}
	for ri, r := range reads {
		st, err := resolveRead(ws2, r, nil)
		if err != nil {
			res.Fail("no-style", err.Error()+docsText())
			return nil, false
		}
		for pi, p := range props {
			v := st.Get(p.Key())
			if c := canonProp(p.String(), v, r, nil); c != vals[ri][pi] {
				res.Fail("order-dependent", fmt.Sprintf("Get(%s) on %s depends on the order in which properties are read: %s when read in permuted order (seed %d), %s when read in canonical order on a fresh computation%s", p, describe(r), vals[ri][pi], perm, c, docsText()))
				return nil, false
			}
		}
	}
	res.Count("order_checks", int64(nR*nP))

	// copy consistency: on a third fresh computation, where nothing has been read yet, every
	// observed style is copied (ElementStyle.Copy, used by the flex layout for flex items) and all
	// properties are read on the copies only, in a seed-permuted order: a copy must compute what
	// its original computes
	ws3, err := buildWorlds(docs)
	if err != nil {
		*res = fw.Result{Verdict: fw.Inconclusive, Msg: err.Error()}
		return nil, false
	}
	copies := make([]pr.ElementStyle, nR)
	for ri, r := range reads {
		st, err := resolveRead(ws3, r, nil)
		if err != nil {
			res.Fail("no-style", err.Error()+docsText())
			return nil, false
		}
		cp := st.Copy()
		if cp == nil || reflect.ValueOf(cp).IsNil() {
			res.Fail("copy-nil", fmt.Sprintf("Copy() of the style of %s is nil%s", describe(r), docsText()))
			return nil, false
		}
		copies[ri] = cp
	}
	for _, k := range rng.Perm(nR * nP) {
		ri, pi := k/nP, k%nP
		v := copies[ri].Get(props[pi].Key())
		if v == nil {
			res.Fail("copy-differs", fmt.Sprintf("Get(%s) returned nil on a Copy() of the style of %s%s", props[pi], describe(reads[ri]), docsText()))
			return nil, false
		}
		if c := canonProp(props[pi].String(), v, reads[ri], nil); c != vals[ri][pi] {
			res.Fail("copy-differs", fmt.Sprintf("Get(%s) on a Copy() of the style of %s (taken before anything was read) gives %s, the original gives %s%s", props[pi], describe(reads[ri]), c, vals[ri][pi], docsText()))
			return nil, false
		}
	}
	res.Count("copy_checks", int64(nR*nP))
	return vals, true
}

// checkRel runs the generic monitor.
func checkRel(in *relIn) fw.Result {
	var res fw.Result
	props := allProps()
	readIdx := map[string]int{}
	for i, r := range in.Reads {
		readIdx[r.Name] = i
	}
	vals, ok := observeAll(in.Docs, in.Reads, in.Perm, &res, func() string { return docsText(in) })
	if !ok {
		return res
	}
	obs := observation{vals: vals}

	// ---- the relations on the property under test
	pIdx := -1
	for pi, p := range props {
		if p.String() == in.Prop {
			pIdx = pi
		}
	}
	get := func(name string) (string, readSpec, bool) {
		i, ok := readIdx[name]
		if !ok {
			return "", readSpec{}, false
		}
		return obs.vals[i][pIdx], in.Reads[i], true
	}
	if pIdx >= 0 {
		for _, e := range in.Eq {
			a, ra, ok1 := get(e[0])
			b, rb, ok2 := get(e[1])
			if !ok1 || !ok2 {
				return fw.Result{Verdict: fw.Inconclusive, Msg: "relation on unknown read " + e[0] + "/" + e[1]}
			}
			if a != b {
				res.Fail("defaulting:"+in.Label, fmt.Sprintf("%s (%s): computed values that CSS defaulting makes identical differ: %s = %s but %s = %s%s", in.Prop, in.Label, describe(ra), a, describe(rb), b, docsText(in)))
				return res
			}
			res.Count("eq_relations", 1)
		}
		distinguishing := len(in.Ne) > 0
		for _, e := range in.Ne {
			a, _, ok1 := get(e[0])
			b, _, ok2 := get(e[1])
			if !ok1 || !ok2 || a == b {
				distinguishing = false
			}
		}
		if distinguishing {
			res.Nontrivial = true
			res.Count("distinguishing_cases", 1)
		} else if len(in.Ne) > 0 {
			res.Count("non_distinguishing_cases", 1)
		}
	}

	// ---- twin relation on every other property
	excl := map[string]bool{in.Prop: true}
	for _, e := range in.Excl {
		excl[e] = true
	}
	for ri, r := range in.Reads {
		if r.Twin == "" {
			continue
		}
		ti, ok := readIdx[r.Twin]
		if !ok {
			return fw.Result{Verdict: fw.Inconclusive, Msg: "unknown twin " + r.Twin}
		}
		for pi, p := range props {
			if excl[p.String()] {
				continue
			}
			if obs.vals[ri][pi] != obs.vals[ti][pi] {
				res.Fail("cross-talk", fmt.Sprintf("declaring %s changed the computed value of the undeclared, independent property %s on %s: %s, but %s without the declaration%s", in.Prop, p, describe(r), obs.vals[ri][pi], obs.vals[ti][pi], docsText(in)))
				return res
			}
			res.Count("twin_relations", 1)
		}
	}
	return res
}
