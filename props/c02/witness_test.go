package c02

import (
	"encoding/json"
	"fmt"
	"os"
	"regexp"
	"strings"
	"testing"
)

var tagRE = regexp.MustCompile(`<[^>]*>`)

// frag returns the characters of an HTML fragment without tags and white space (witness construction only).
func frag(s string) string { return stripWS(tagRE.ReplaceAllString(s, "")) }

type wit struct {
	name, msg string
	in        Input
}

func witnesses() []wit {
	var ws []wit
	// --- design-phase witnesses (plain HTML files), float p elements given an id ---
	{
		head := `<style>@page{size:349px 161px;margin:8px} body{font-family:ahem;font-size:8px;line-height:1.2;margin:0}</style>`
		a := `<p style="margin:11px 0">w1qXXXX w2qXXXX w3q w4q w5q w6q w7qX w8q w9qXXX waqXX wbqX wcq wdqXX weqX wfqXXXXX wgqXXX whqXXX wiq wjqX wkqXXX wlqXXX wmqX wnq woqXXXX wpqX wqqXXX</p><p>wrqXX wsqX wtqXX wuqX wvq</p><div style="padding:11px"><p>wwqX wxq wyqXX wzqX w10q</p>`
		fl := `w11qXX w12qXXX w13qX w14q w15q w16q w17qXX w18q w19q w1aq w1bqX w1cqX w1dqX w1eq w1fq w1gq w1hqX w1iqX w1jqXXX w1kq w1lq`
		html := head + a + `<p id="f1" style="border:3px solid red;float:right;width:95px">` + fl + `</p></div>`
		ws = append(ws, wit{"float-last-child-lost", "a float that is the last child of the document reaches the page bottom: its remainder is never laid out (makeAllPages ends when the main flow is finished and clears brokenOutOfFlow)",
			Input{HTML: html, Flows: []Flow{{ID: "", Kind: "main", Text: frag(a)}, {ID: "f1", Kind: "float", Text: frag(fl), Prev: "w10q"}}, Mode: "witness"}})
	}
	{
		head := `<style>@page{size:281px 68px;margin:4px} body{font-family:ahem;font-size:10px;line-height:1.2;margin:0}</style>`
		a := `<p>w1qXXXXX w2qX w3q w4q w5qX</p><p>w6qXX w7qX w8qXX w9qXX waqXX</p>`
		fl := `wbqX wcqX wdqX weqXX wfqXXX wgqX whq wiq wjqX wkq wlq wmq`
		b := `<p style="border:2px solid red">wnqXX woqXX wpqX wqq wrqX wsqXXX wtq wuq wvqX wwqX wxqXXXX</p>`
		html := head + a + `<p id="f1" style="float:left;width:79px">` + fl + `</p>` + b
		ws = append(ws, wit{"float-split-duplicated", "a float split at a page bottom is laid out again from its start on the next page (text duplicated) while the flow next to it continues",
			Input{HTML: html, Flows: []Flow{{ID: "", Kind: "main", Text: frag(a + b)}, {ID: "f1", Kind: "float", Text: frag(fl), Prev: "waq", Next: "wnq"}}, Mode: "witness"}})
	}
	// --- found by the check ---
	{
		head := `<style>@page{size:600px 76px;margin:0}html{margin:0;padding:0}body{font-family:ahem;font-size:10px;line-height:1.5;margin:0;orphans:2;widows:2}p{margin:0}</style>`
		a := `<p>w1q<br>w2q<br>w3q</p><p>w4q<br>w5q<br>`
		fx := `w7qA`
		b := `w6q</p>`
		html := head + `<body>` + a + `<span id="x1" style="position:fixed;top:2px;right:0;width:50px">` + fx + `</span>` + b + `</body>`
		ws = append(ws, wit{"fixed-duplicated-after-push", "a paragraph holding a position:fixed box is tried on page 1 and pushed to page 2 (orphans/widows); the placeholder stays registered in page 1's fixed boxes, so page 2 gets the box twice (its own and the copy of page 1's)",
			Input{HTML: html, Flows: []Flow{{ID: "", Kind: "main", Text: frag(a + b)}, {ID: "x1", Kind: "fixed", Parent: "", Text: frag(fx)}}, Mode: "witness"}})
	}
	{
		head := `<style>@page{size:600px 76px;margin:0}html{margin:0;padding:0}body{font-family:ahem;font-size:10px;line-height:1.5;margin:0}p{margin:0}</style>`
		a := `<p>w1q</p>`
		fx := `w2q w3q w4q w5q w6q w7q w8q`
		html := head + `<body>` + a + `<div id="x1" style="position:fixed;top:0;left:0;width:4em">` + fx + `</div></body>`
		ws = append(ws, wit{"fixed-taller-than-page-lost", "a position:fixed box higher than the page is split at the page bottom like an in-flow box; the document has one page, so the remainder is never laid out",
			Input{HTML: html, Flows: []Flow{{ID: "", Kind: "main", Text: frag(a)}, {ID: "x1", Kind: "fixed", Text: frag(fx)}}, Mode: "witness"}})
	}
	{
		head := `<style>@page{size:300px 60px;margin:0}html{margin:0;padding:0}body{font-family:ahem;font-size:10px;line-height:1.5;margin:0}td,th{padding:0}table{border-spacing:0}</style>`
		h := `<tr><th>w1q<br>w2q<br>w3q<br>w4q<br>w5q</th></tr>`
		c1, c2 := `w6q`, `w7q`
		html := head + `<body><table id="t1"><thead id="g1">` + h + `</thead><tbody><tr><td id="c1">` + c1 + `</td></tr><tr><td id="c2">` + c2 + `</td></tr></tbody></table></body>`
		ws = append(ws, wit{"thead-too-tall-dropped", "a table header group higher than the page is dropped on every page (tableLayout: 'header too big for the page'): its text is laid out zero times",
			Input{HTML: html, Flows: []Flow{{ID: "", Kind: "main"}, {ID: "g1", Kind: "hdr", Table: "t1", Text: frag(h)},
				{ID: "c1", Kind: "cell", Text: c1, InFlow: true}, {ID: "c2", Kind: "cell", Text: c2, InFlow: true}}, Mode: "witness"}})
	}
	{
		head := `<style>@page{size:100px 200px;margin:0}html{margin:0;padding:0}body{font-family:ahem;font-size:10px;line-height:1.5;margin:0}</style>`
		a := `<p style="white-space:pre-wrap;margin:0">w1qAB w2qAB w3qAB w4qAB</p>`
		html := head + `<body>` + a + `</body>`
		ws = append(ws, wit{"gotext-preserved-space-text-not-cut", "go-text engine: when white space is preserved (pre-wrap, pre, pre-line) and the text wraps, the TextBox of a line keeps the whole remaining text instead of the text of the line (wrapWordBreak cuts the layout text only when spaces collapse)",
			Input{HTML: html, Engine: "gotext", Flows: []Flow{{ID: "", Kind: "main", Text: frag(a)}}, Mode: "witness"}})
	}
	{
		head := `<style>@page{size:600px 76px;margin:0}html{margin:0;padding:0}body{font-family:ahem;font-size:10px;line-height:1.5;margin:0}p{margin:0}</style>`
		a := `<p>w1q<br>w2q<br>w3q</p>w4q <span style="display:inline-block;width:3em">w5q w6q w7q w8q w9q</span> waq `
		fx := `wbqA`
		html := head + `<body>` + a + `<div id="x1" style="position:fixed;top:2px;right:0;width:50px">` + fx + `</div></body>`
		ws = append(ws, wit{"fixed-duplicated-after-line-push", "a line box holding a position:fixed placeholder (and a tall inline-block) does not fit on page 1 and is pushed to page 2; page 1 keeps the placeholder in its fixed boxes, so page 2 gets the box twice",
			Input{HTML: html, Flows: []Flow{{ID: "", Kind: "main", Text: frag(a)}, {ID: "x1", Kind: "fixed", Text: frag(fx)}}, Mode: "witness"}})
	}
	{
		head := `<style>@page{size:300px 200px;margin:0}html{margin:0;padding:0}body{font-family:ahem;font-size:10px;line-height:1.5;margin:0}p{margin:0}</style>`
		c1, c2 := `w3q`, `w4q`
		html := head + `<body><p>w1q</p><table id="t1" style="table-layout:fixed;width:100px"><tbody></tbody><tbody><tr><td id="c1">` + c1 + `</td><td id="c2">` + c2 + `</td></tr></tbody></table><p>w2q</p></body>`
		ws = append(ws, wit{"fixed-layout-empty-first-group", "table-layout:fixed takes the columns from the first row of the first row group only (fixedTableLayout); when that group is empty (an empty <tbody>, or <tfoot> + empty <tbody>) the grid has no column and every cell of the table is removed: its text is laid out zero times. CSS 2.1 17.5.2.1 speaks of the first row of the table",
			Input{HTML: html, Flows: []Flow{{ID: "", Kind: "main", Text: "w1qw2q"}, {ID: "c1", Kind: "cell", Text: c1, Prev: "w1q", Next: "w2q", InFlow: true}, {ID: "c2", Kind: "cell", Text: c2, Prev: "w1q", Next: "w2q", InFlow: true}}, Mode: "witness"}})
	}
	{
		head := `<style>@page{size:300px 200px;margin:0}html{margin:0;padding:0}body{font-family:ahem;font-size:10px;line-height:2;margin:0}p{margin:0}</style>`
		fl := `w3q`
		html := head + `<body><p>w1qABCDEFGHIJ w2qABCDEFGHIJ <span><span id="f1" style="float:right;width:4em">` + fl + `</span></span> w4qABCDE</p></body>`
		ws = append(ws, wit{"float-in-inline-box-duplicated", "a float that is the child of an inline box and does not fit beside the text of the current line is laid out twice below the line (two float boxes side by side), far from any page boundary",
			Input{HTML: html, Flows: []Flow{{ID: "", Kind: "main", Text: "w1qABCDEFGHIJw2qABCDEFGHIJw4qABCDE"}, {ID: "f1", Kind: "float", Text: fl, Prev: "w2q", Next: "w4q"}}, Mode: "witness"}})
	}
	{
		head := `<style>@page{size:300px 200px;margin:0}html{margin:0;padding:0}body{font-family:ahem;font-size:10px;line-height:1.5;margin:0}p{margin:0}</style>`
		fl := `<p>w2q</p><p style="break-before:page">w3q</p>`
		html := head + `<body><p>w1q</p><div id="f1" style="float:left;width:10em">` + fl + `</div></body>`
		ws = append(ws, wit{"float-forced-break-lost", "a forced page break inside a float splits the float; the main flow ends on page 1, so the part of the float after the break is never laid out (same mechanism as float-last-child-lost)",
			Input{HTML: html, Flows: []Flow{{ID: "", Kind: "main", Text: "w1q"}, {ID: "f1", Kind: "float", Text: frag(fl), Prev: "w1q"}}, Mode: "witness"}})
	}
	{
		head := `<style>@page{size:200px 100px;margin:20px;@top-center{content:element(hd);font-family:ahem;font-size:8px}}html{margin:0;padding:0}body{font-family:ahem;font-size:10px;line-height:2;margin:0}p{margin:0}</style>`
		a := `w1q<br>w2q<br>w3q<br>w4q`
		b := `<p>w5q</p>`
		html := head + `<body>` + a + `<div id="r1" style="position:running(hd)">w9q</div>` + b + `</body>`
		ws = append(ws, wit{"running-element-stale-page", "a running element that ends a line box is registered for page 1 when that line is first tried there; the line is pushed to page 2 (widows), the registration stays, and the margin box of page 1 shows an element whose anchor is on page 2",
			Input{HTML: html, Flows: []Flow{{ID: "", Kind: "main", Text: frag(a + b)}, {ID: "r1", Kind: "running", Text: "w9q", Prev: "w4q", Next: "w5q"}}, Mode: "witness"}})
	}
	{
		head := `<style>@page{size:188px 400px;margin:4px}html{margin:0;padding:0}body{font-family:ahem;font-size:12px;line-height:1.5;margin:0;word-break:break-all}</style>`
		a := `<strong style="white-space:nowrap">waqABCDEFGHIJKLMN</strong> wdqAB weqA `
		b := ` wlqAB`
		html := head + `<body><div id="f2" style="float:left;width:12em">` + a + `<span id="f3" style="float:right;width:10em">wfq</span>` + b + `</div></body>`
		ws = append(ws, wit{"word-lost-before-nested-float", "inside a float (or absolutely positioned box) with an explicit width, a line made too long by a nowrap run is followed by a word and a nested float that does not fit: the word before the nested float (weqA) is laid out on no line; the same content in a normal block, an inline-block or a table cell keeps it",
			Input{HTML: html, Flows: []Flow{{ID: "", Kind: "main"}, {ID: "f2", Kind: "float", Text: frag(a + b)}, {ID: "f3", Parent: "f2", Kind: "float", Text: "wfq", Prev: "weq", Next: "wlq"}}, Mode: "witness"}})
	}
	// --- wider domain: page-based generated content (second pagination pass), ::first-letter ---
	{
		head := `<style>@page{size:100px 10px;margin:0}html{margin:0;padding:0}body{font-family:ahem;font-size:10px;line-height:1;margin:0;orphans:1;widows:1;word-break:break-all}p{margin:0}` +
			`#e1::before{content:"~*" target-counter("#k1", page, lower-roman) "(]" counter(page, upper-alpha) "~"}</style>`
		a := `<p>w1qA <span id="e1"></span> w2qA</p><p>w3qA</p><p id="k1">w4qA</p>`
		html := head + `<body>` + a + `</body>`
		ws = append(ws, wit{"generated-content-split-stale", "a ::before text with two page-based counters (a forward target-counter and counter(page)) is cut by a page break; the counters are resolved in two steps, the first page is made again after each, and the next page - whose starting offset inside the text box did not change - is reused although it was laid out with the previous text: the pieces on the two pages do not add up (one character of the generated text is on no page)",
			Input{HTML: html, Flows: []Flow{{ID: "", Kind: "main", Text: frag(a)}},
				Generated: []GenContent{{Owner: "e1", Pseudo: "before", Parts: []GenPart{{Kind: "lit", Lit: "~*"}, {Kind: "tpage", Style: "lower-roman", Target: "k1"}, {Kind: "lit", Lit: "(]"}, {Kind: "page", Style: "upper-alpha"}, {Kind: "lit", Lit: "~"}}}}, Mode: "witness"}})
	}
	{
		head := `<style>@page{size:100px 60px;margin:20px 0;@top-center{content:element(hd);font-family:ahem;font-size:8px}}html{margin:0;padding:0}body{font-family:ahem;font-size:10px;line-height:1;margin:0;orphans:1;widows:1}p{margin:0}` +
			`#e1::before{content:counter(pages, lower-roman)}</style>`
		a := `<p>w6qABCDEF w1qA <span id="e1"></span> w2q</p>`
		b1 := `<p>w5q</p>`
		b := `<p>w3q</p>`
		html := head + `<body>` + a + `<div style="break-before:page">` + b1 + `<div id="r1" style="position:running(hd)">w9q</div>` + b + `</div></body>`
		ws = append(ws, wit{"running-element-stale-after-repagination", "the first pagination pass lays the paragraph out on page 1 (two lines, provisional counter text \"0\") and registers the running element of the block that starts page 2; in the second pass (\"ii\", then \"iii\") the paragraph needs a third line, the block moves to page 3, and the registration for page 2 stays: the margin box of page 2 shows an element whose anchor is on page 3",
			Input{HTML: html, Flows: []Flow{{ID: "", Kind: "main", Text: frag(a + b1 + b)}, {ID: "r1", Kind: "running", Text: "w9q", Prev: "w5q", Next: "w3q"}},
				Generated: []GenContent{{Owner: "e1", Pseudo: "before", Parts: []GenPart{{Kind: "pages", Style: "lower-roman"}}}}, Mode: "witness"}})
	}
	{
		head := `<style>@page{size:200px 100px;margin:0}html{margin:0;padding:0}body{font-family:ahem;font-size:10px;line-height:1.5;margin:0}p{margin:0}p::first-letter{color:#c00}</style>`
		a := `<p>w1qAB w2qAB</p><p><span>w3qAB</span> w4q</p>`
		html := head + `<body>` + a + `</body>`
		ws = append(ws, wit{"first-letter-lost", "any ::first-letter style: firstLetterToBox removes the first letter from the text box and builds a box for it, but prepends that box to the children of the new letter text box instead of the line / inline box, so the letter is in no laid-out box (and is not drawn)",
			Input{HTML: html, Flows: []Flow{{ID: "", Kind: "main", Text: frag(a)}}, Mode: "witness"}})
	}
	{
		head := `<style>@page{size:100px 200px;margin:0}html{margin:0;padding:0}body{font-family:ahem;font-size:8px;line-height:1;margin:0}</style>`
		fl := `w3q`
		html := head + `<body><div>w1q w2q<span id="f1" style="float:right;width:3em">` + fl + `</span>w4qA w5qABCDE</div></body>`
		ws = append(ws, wit{"word-lost-before-float", "`w1q w2q<float>w4qA`: the float does not fit beside `w1q w2qw4qA` and is put on the waiting list, `w4qA` does not fit either and has no break opportunity before it, so the line is broken inside the text before the float (after `w1q `); splitInlineBox then moves a resume point that lies before a float already handled to just after that float (`if resumeIndex < floatResumeAt { resumeAt = {floatResumeAt: nil} }`): the word between the break and the float is laid out on no line - and here the float itself is laid out nowhere either",
			Input{HTML: html, Flows: []Flow{{ID: "", Kind: "main", Text: "w1qw2qw4qAw5qABCDE"}, {ID: "f1", Kind: "float", Text: fl, Prev: "w2q", Next: "w4q"}}, Mode: "witness"}})
	}
	return ws
}

// C02_WITNESS=1 [C02_WITNESS_ONLY=name,name] go test -tags "verif pC02" -run TestWitnesses ./props/c02/   (re)writes findings/C02/*.json
func TestWitnesses(t *testing.T) {
	only := os.Getenv("C02_WITNESS_ONLY") // comma-separated names: write these only
	for _, w := range witnesses() {
		if only != "" && !strings.Contains(","+only+",", ","+w.name+",") {
			continue
		}
		raw, _ := json.Marshal(w.in)
		res := Check(raw)
		fmt.Printf("%-38s %s sig=%s\n    %s\n", w.name, res.Verdict, res.Sig, res.Msg)
		if os.Getenv("C02_WITNESS") != "" {
			out, _ := json.MarshalIndent(map[string]any{"property": "C02", "sig": res.Sig, "msg": w.msg + " — observed: " + res.Msg, "input": w.in}, "", " ")
			if err := os.WriteFile("/verif/findings/C02/"+w.name+".json", append(out, '\n'), 0o644); err != nil {
				t.Fatal(err)
			}
		}
	}
}
