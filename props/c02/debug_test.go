package c02

import (
	"sort"
	"time"

	"encoding/json"
	"fmt"
	"os"
	"testing"
	"verif/internal/fw"
	"verif/internal/wr"

	bo "github.com/benoitkugler/webrender/html/boxes"
)

// go test -tags "verif pC02" -run TestDebugHTML ./props/c02/  with C02_HTML=<file> or C02_CASE=<json input file>
func TestDebugHTML(t *testing.T) {
	var html string
	engine := "pango"
	if e := os.Getenv("C02_ENGINE"); e != "" {
		engine = e
	}
	if f := os.Getenv("C02_HTML"); f != "" {
		b, _ := os.ReadFile(f)
		html = string(b)
	} else if f := os.Getenv("C02_CASE"); f != "" {
		b, _ := os.ReadFile(f)
		var in Input
		if err := json.Unmarshal(b, &in); err != nil {
			t.Fatal(err)
		}
		html = in.HTML
		if in.Engine != "" {
			engine = in.Engine
		}
		res := Check(b)
		fmt.Printf("verdict %s sig=%s %s\n", res.Verdict, res.Sig, res.Msg)
	} else {
		t.Skip()
	}
	rd, fail := renderGuarded(html, engine)
	if fail != "" {
		t.Fatal(fail)
	}
	var pages []*bo.PageBox
	for _, p := range rd.Document.Pages {
		pages = append(pages, p.VerifPageBox())
	}
	od := observePages(pages, map[string]bool{}, map[string]bool{}, map[string]bool{})
	for _, x := range od.texts {
		fmt.Printf("L page %d owner=%q pseudo=%q %q at (%.3f, %.3f)\n", x.page+1, x.owner, x.pseudo, x.text, x.x, x.y)
	}
	draws, _, _ := observeDraws(rd.Rec)
	for _, d := range draws {
		fmt.Printf("D page %d %q at (%.3f, %.3f) glyphs=%d\n", d.page+1, d.text, d.x, d.y, d.glyphs)
	}
	if os.Getenv("C02_TREE") != "" {
		for i, p := range pages {
			fmt.Printf("--- page %d\n", i+1)
			dumpTree(p, 0)
		}
	}
}

func dumpTree(b bo.Box, depth int) {
	f := b.Box()
	txt := ""
	if t, ok := b.(*bo.TextBox); ok {
		txt = fmt.Sprintf(" %q", string(t.Text))
	}
	fmt.Printf("%*s%T <%s id=%s pseudo=%s> x=%.2f y=%.2f w=%v h=%v%s\n", depth*2, "", b, f.ElementTag(), elemID(f), f.PseudoType, f.PositionX, f.PositionY, f.Width, f.Height, txt)
	for _, c := range f.Children {
		dumpTree(c, depth+1)
	}
}

func TestRepeat(t *testing.T) {
	f := os.Getenv("C02_CASE")
	if f == "" {
		t.Skip()
	}
	b, _ := os.ReadFile(f)
	for i := 0; i < 4; i++ {
		res := Check(b)
		fmt.Printf("run %d verdict %s sig=%s %.300s\n", i, res.Verdict, res.Sig, res.Msg)
	}
}

func TestTiming(t *testing.T) {
	if os.Getenv("C02_TIMING") == "" {
		t.Skip()
	}
	type rec struct {
		i     int
		d     time.Duration
		pages int64
		mode  string
		words int
	}
	var all []rec
	var total time.Duration
	for i := 0; i < 300; i++ {
		in := Generate(fw.CaseRNG(1, "C02", i), i, "quick")
		raw, _ := json.Marshal(in)
		t0 := time.Now()
		res := Check(raw)
		d := time.Since(t0)
		total += d
		all = append(all, rec{i, d, res.Counters["pages"], in.Mode, len(in.HTML)})
	}
	sort.Slice(all, func(a, b int) bool { return all[a].d > all[b].d })
	fmt.Println("total", total)
	for _, r := range all[:25] {
		fmt.Printf("case %d %v pages=%d mode=%s htmllen=%d\n", r.i, r.d, r.pages, r.mode, r.words)
	}
}

// C02_FIND=<counter> lists the cases of seed C02_SEED (default 1) in [C02_FROM, C02_TO) whose result has the counter.
func TestFind(t *testing.T) {
	name := os.Getenv("C02_FIND")
	if name == "" {
		t.Skip()
	}
	seed, from, to := int64(1), 0, 2000
	fmt.Sscan(os.Getenv("C02_SEED"), &seed)
	fmt.Sscan(os.Getenv("C02_FROM"), &from)
	fmt.Sscan(os.Getenv("C02_TO"), &to)
	n := 0
	for i := from; i < to && n < 5; i++ {
		in := Generate(fw.CaseRNG(seed, "C02", i), i, "quick")
		raw, _ := json.Marshal(in)
		res := Check(raw)
		if res.Counters[name] > 0 {
			n++
			fmt.Printf("case %d %s=%d verdict=%s mode=%s\n", i, name, res.Counters[name], res.Verdict, in.Mode)
			os.WriteFile(fmt.Sprintf("/tmp/c02find%d.json", n), raw, 0o644)
		}
	}
}

func TestPanicStack(t *testing.T) {
	f := os.Getenv("C02_CASE")
	if f == "" || os.Getenv("C02_PANIC") == "" {
		t.Skip()
	}
	b, _ := os.ReadFile(f)
	var in Input
	json.Unmarshal(b, &in)
	wr.Render(wr.Opts{HTML: in.HTML, Engine: in.Engine})
}
